package main

import (
	"fmt"
	"go/token"
	"go/types"
	"os"
	"strings"

	"golang.org/x/tools/go/ssa"
)

// storesOfConst: stores to field typ.field whose value is the boolean/string constant lit.
func storesOfConst(fn *ssa.Function, typ, field, lit string) []ssa.Instruction {
	var out []ssa.Instruction
	for _, in := range StoresTo(fn, typ, field) {
		if c, ok := strip(in.(*ssa.Store).Val).(*ssa.Const); ok && constString(c) == lit {
			out = append(out, in)
		}
	}
	return out
}

// ---------------------------------------------------------------------------
// C03
// ---------------------------------------------------------------------------

func ruleC03Thresh(c *Ctx) {
	const rule = "C03-THRESH"
	c.Doc(rule, "UpdateVolStatus: ReadOnly=false is stored only on the edge rw - (RF+quorumReplicaCount)/2 - 1 >= 0, ReadOnly=true only on the opposite edge; rw is the count of entries with Mode==\"RW\" over c.replicas and c.quorumReplicas; RWReplicaCount receives the same count")
	fn := c.Anchor(rule, fCtl+"UpdateVolStatus")
	if fn == nil {
		return
	}
	R := NewRenderer(fn)
	thr := "+" + rwCntQ + " +" + rwCntR + " -div(+$0.ReplicationFactor +$0.quorumReplicaCount,+2) -1 >=0"
	nthr := "-" + rwCntQ + " -" + rwCntR + " +div(+$0.ReplicationFactor +$0.quorumReplicaCount,+2) >=0"
	f, t := storesOfConst(fn, "Controller", "ReadOnly", "false"), storesOfConst(fn, "Controller", "ReadOnly", "true")
	all := StoresTo(fn, "Controller", "ReadOnly")
	// ReadOnly = <boolean expression>: the expression must be the below-threshold comparison itself
	direct := 0
	for _, s := range all {
		v := strip(s.(*ssa.Store).Val)
		if _, isConst := v.(*ssa.Const); isConst {
			continue
		}
		direct++
		if a := R.CondAtom(v).String(); a == nthr {
			c.OK(rule, FnName(fn)+" | ReadOnly = (rw < (RF+q)/2+1)", c.P.InstrPos(s), "ReadOnly is assigned the comparison "+nthr, true)
		} else {
			c.Bad(rule, FnName(fn)+" | ReadOnly = (rw < (RF+q)/2+1)", c.P.InstrPos(s), "c.ReadOnly is assigned the truth value of ["+a+"], expected ["+nthr+"]", nil)
		}
	}
	if direct == 0 && (len(f) == 0 || len(t) == 0) {
		c.Undecided(rule, FnName(fn)+" | stores to ReadOnly", "", "expected stores of both true and false to c.ReadOnly")
	}
	c.Guard(rule, fn, f, "ReadOnly=false", nil, atom("rw >= (RF+q)/2+1", thr))
	c.Guard(rule, fn, t, "ReadOnly=true", nil, atom("rw < (RF+q)/2+1", nthr))
	// every return passes a store to ReadOnly (status always re-evaluated)
	var rets []ssa.Instruction
	for _, r := range Returns(fn) {
		rets = append(rets, r)
	}
	c.Guard(rule, fn, rets, "return", nil, Need{Desc: "ReadOnly assigned", Instr: func(in ssa.Instruction) bool {
		for _, s := range all {
			if s == in {
				return true
			}
		}
		return false
	}})
	for _, s := range StoresTo(fn, "Controller", "RWReplicaCount") {
		v := R.V(s.(*ssa.Store).Val)
		if v == rwCnt {
			c.OK(rule, FnName(fn)+" | RWReplicaCount = rw", c.P.InstrPos(s), "RWReplicaCount receives the RW count", false)
		} else {
			c.Bad(rule, FnName(fn)+" | RWReplicaCount = rw", c.P.InstrPos(s), "RWReplicaCount receives "+v+", expected "+rwCnt, nil)
		}
	}
	c.Floor(rule, 3)
}

func ruleC03Gate(c *Ctx) {
	const rule = "C03-GATE"
	c.Doc(rule, "every call of (*replicator).WriteAt/Sync/Unmap in package controller is cut off by the edge c.ReadOnly==false and by c.Lock(), both in the same lock region as the call (an Unlock in between invalidates them)")
	n := 0
	for _, fn := range pkgFuncs(c.P, "controller") {
		sites := CallsTo(fn, fRepl+"WriteAt", fRepl+"Sync", fRepl+"Unmap")
		if len(sites) == 0 {
			continue
		}
		n++
		c.Guard(rule, fn, sites, "mutating backend call", lockOrUnlock,
			atom("ReadOnly == false, read in the lock region of the call", "!$0.ReadOnly"),
			needWLock("controller write lock taken"))
	}
	// who-may-call the multi-writer: only the replicator methods
	for _, fn := range c.P.AllFns {
		if strings.HasPrefix(FnName(fn), fRepl) || strings.HasPrefix(FnName(fn), fMW) {
			continue
		}
		for _, in := range CallsTo(fn, fMW+"WriteAt", fMW+"Sync", fMW+"Unmap") {
			c.Bad(rule, FnName(fn)+" | direct MultiWriterAt call", c.P.InstrPos(in), "mutating I/O issued to the writer set outside (*replicator): bypasses the read-only gate", nil)
		}
	}
	c.Floor(rule, 6)
}

// ---------------------------------------------------------------------------
// C04
// ---------------------------------------------------------------------------

func ruleC04Lists(rule string) ruleFn {
	return func(c *Ctx) {
		c.Doc(rule, "replicator: after every update/delete of r.backends / r.quorumBackends and every change of a wrapper's mode, buildReadWriters() is called before the function returns (reader/writer lists never lag the backend map); RemoveBackend closes the backend it removes and deletes it from the map it was found in")
		for _, name := range []string{"AddBackend", "AddQuorumBackend", "RemoveBackend", "SetMode"} {
			fn := c.Anchor(rule, fRepl+name)
			if fn == nil {
				continue
			}
			R := NewRenderer(fn)
			var muts []ssa.Instruction
			eachInstr(fn, func(in ssa.Instruction) {
				switch x := in.(type) {
				case *ssa.MapUpdate:
					m := R.V(x.Map)
					if m == "$0.backends" || m == "$0.quorumBackends" {
						muts = append(muts, in)
					}
				case *ssa.Call:
					if callMatches(x, "builtin:delete") {
						m := R.V(x.Call.Args[0])
						if m == "$0.backends" || m == "$0.quorumBackends" {
							muts = append(muts, in)
						}
					}
				}
			})
			if len(muts) == 0 {
				c.Bad(rule, FnName(fn)+" | backend map mutation", "", "no mutation of the backend map found in "+name, nil)
				continue
			}
			for i, m := range muts {
				ws := Query{Fn: fn, Start: m, Gen: func(in ssa.Instruction) bool { return isPlainCall(in) && callMatches(in, fRepl+"buildReadWriters") },
					IsSite: func(in ssa.Instruction) bool { _, ok := in.(*ssa.Return); return ok }}.Run()
				key := fmt.Sprintf("%s | map mutation[%d] | buildReadWriters before return", FnName(fn), i)
				if len(ws) == 0 {
					c.OK(rule, key, c.P.InstrPos(m), "every path from the mutation to a return rebuilds the reader/writer lists", true)
				} else {
					c.Bad(rule, key, c.P.InstrPos(m), "a return is reachable after the backend map changed without buildReadWriters(): stale readers/writers keep receiving I/O", c.witness(ws[0]))
				}
			}
		}
		// RemoveBackend: close + delete
		if fn := c.P.Fn(fRepl + "RemoveBackend"); fn != nil {
			R := NewRenderer(fn)
			var dels []ssa.Instruction
			closed := false
			eachInstr(fn, func(in ssa.Instruction) {
				if cl, ok := in.(*ssa.Call); ok {
					if callMatches(cl, "builtin:delete") && R.V(cl.Call.Args[0]) == "$0.backends" && R.V(cl.Call.Args[1]) == "$1" {
						dels = append(dels, in)
					}
					if callMatches(cl, "invoke:Close") {
						closed = true
					}
				}
			})
			key := FnName(fn) + " | delete(r.backends, address) + Close"
			if len(dels) > 0 && closed {
				var rets []ssa.Instruction
				for _, r := range Returns(fn) {
					rets = append(rets, r)
				}
				// returns after a found entry must pass close+delete: the not-found return is the only exemption
				found := atomEdges(fn, R, "has($0.backends,$1)", "has($0.quorumBackends,$1)")
				ws := afterEdge(fn, found, func(in ssa.Instruction) bool { return in == dels[0] }, nil, func(in ssa.Instruction) bool { _, ok := in.(*ssa.Return); return ok })
				if len(ws) == 0 {
					c.OK(rule, key, c.P.InstrPos(dels[0]), "a found backend is closed and deleted on every path", true)
				} else {
					c.Bad(rule, key, c.P.InstrPos(dels[0]), "a found backend can be left in r.backends", c.witness(ws[0]))
				}
			} else {
				c.Bad(rule, key, "", "RemoveBackend must Close() the backend and delete(r.backends, address)", nil)
			}
			// an entry found in quorumBackends is deleted from quorumBackends
			var qd []ssa.Instruction
			eachInstr(fn, func(in ssa.Instruction) {
				if cl, ok := in.(*ssa.Call); ok && callMatches(cl, "builtin:delete") && R.V(cl.Call.Args[0]) == "$0.quorumBackends" && R.V(cl.Call.Args[1]) == "$1" {
					qd = append(qd, in)
				}
			})
			qkey := FnName(fn) + " | delete(r.quorumBackends, address)"
			if len(qd) == 0 {
				c.Bad(rule, qkey, c.P.Pos(fn.Pos()), "a removed quorum backend stays in r.quorumBackends, hence in the updater list, and keeps receiving WriteAt(nil,0)", nil)
			} else {
				ws := afterEdge(fn, atomEdges(fn, R, "has($0.quorumBackends,$1)"), func(in ssa.Instruction) bool { return in == qd[0] }, nil, func(in ssa.Instruction) bool { _, ok := in.(*ssa.Return); return ok })
				if len(ws) == 0 {
					c.OK(rule, qkey, c.P.InstrPos(qd[0]), "a found quorum backend is deleted on every path", true)
				} else {
					c.Bad(rule, qkey, c.P.InstrPos(qd[0]), "a found quorum backend can be left in r.quorumBackends", c.witness(ws[0]))
				}
			}
		}
		// SetMode(_, ERR) stops monitoring
		if fn := c.P.Fn(fRepl + "SetMode"); fn != nil {
			sites := CallsTo(fn, "invoke:StopMonitoring")
			if len(sites) == 0 {
				c.Bad(rule, FnName(fn)+" | StopMonitoring on ERR", "", "SetMode(ERR) no longer stops the backend's monitor (detached replica is never removed)", nil)
			} else {
				R := NewRenderer(fn)
				ws := afterEdge(fn, atomEdges(fn, R, `+"ERR" -$2 ==0`), func(in ssa.Instruction) bool { return in == sites[0] }, nil, func(in ssa.Instruction) bool { _, ok := in.(*ssa.Return); return ok })
				if len(ws) == 0 {
					c.OK(rule, FnName(fn)+" | StopMonitoring on ERR", c.P.InstrPos(sites[0]), "mode==ERR edge always reaches StopMonitoring()", true)
				} else {
					c.Bad(rule, FnName(fn)+" | StopMonitoring on ERR", c.P.InstrPos(sites[0]), "mode==ERR edge can return without StopMonitoring()", c.witness(ws[0]))
				}
			}
		}
		c.Floor(rule, 6)
	}
}

// resultSources: non-nil values that can flow into result k of fn (through phis).
func resultSources(fn *ssa.Function, k int) []ssa.Value {
	var out []ssa.Value
	seen := map[ssa.Value]bool{}
	for _, r := range Returns(fn) {
		if k >= len(r.Results) {
			continue
		}
		for _, v := range phiInputs(strip(r.Results[k])) {
			if isNilConst(v) || seen[v] {
				continue
			}
			seen[v] = true
			out = append(out, v)
		}
	}
	return out
}

func ruleC04Verify(rule string) ruleFn {
	return func(c *Ctx) {
		c.Doc(rule, "VerifyRebuildReplica: the promotion setReplicaModeNoLock(address, RW) is cut off, on every path, by: Mode==WO of the replica; success of both chain fetches and of the checkpoint fetch; checkpoint containment; DeepEqual(rwChain, chain) true; success of GetRevisionCounter(rw) with counter != -1; success of backend.SetReplicaMode(address, RW); success of backend.SetRevisionCounter(address, <that counter>). The reference replica is selected under Mode==RW.")
		fn := c.Anchor(rule, fCtl+"VerifyRebuildReplica")
		if fn == nil {
			return
		}
		R := NewRenderer(fn)
		cur := fCtl + "getCurrentAndRWReplica($0,$1)"
		rwAddr := cur + "#1.Address"
		sites := CallsTo(fn, fCtl+"setReplicaModeNoLock")
		var promo []ssa.Instruction
		for _, s := range sites {
			if callRender(R, s) == fCtl+`setReplicaModeNoLock($0,$1,"RW")` {
				promo = append(promo, s)
			} else {
				c.Bad(rule, FnName(fn)+" | unexpected mode change", c.P.InstrPos(s), "unexpected mode change "+callRender(R, s), nil)
			}
		}
		if len(promo) != 1 {
			c.Bad(rule, FnName(fn)+" | promotion", "", fmt.Sprintf("expected exactly one setReplicaModeNoLock(address, RW), found %d", len(promo)), nil)
			return
		}
		rwChain := "controller.getReplicaChain(" + rwAddr + ")"
		woChain := "controller.getReplicaChain($1)"
		ckpt := "controller.getReplicaCheckpoint($1)#0"
		counter := fRepl + "GetRevisionCounter($0.backend," + rwAddr + ")"
		needs := []Need{
			needWLock("controller write lock taken"),
			atom("lookup of current/RW replica succeeded", "+"+cur+"#2 -nil ==0"),
			atom("replica is WO", `+"WO" -`+cur+`#0.Mode ==0`),
			atom("RW chain fetched", "+"+rwChain+"#1 -nil ==0"),
			atom("WO chain fetched", "+"+woChain+"#1 -nil ==0"),
			atom("WO checkpoint fetched", "+controller.getReplicaCheckpoint($1)#1 -nil ==0"),
			atom("checkpoint empty or contained in RW chain", `+"" -`+ckpt+" ==0", "util.ChainContainsSnapshot("+rwChain+"#0,"+ckpt+")"),
			atom("counter fetched", "+"+counter+"#1 -nil ==0"),
			atom("counter != -1", "+"+counter+"#0 +1 !=0"),
			atom("replica switched to RW", "+"+fRepl+`SetReplicaMode($0.backend,$1,"RW") -nil ==0`),
			atom("revision counter copied from the RW replica", "+"+fRepl+"SetRevisionCounter($0.backend,$1,"+counter+"#0) -nil ==0"),
		}
		c.Guard(rule, fn, promo, "promote to RW", lockOrUnlock, needs...)
		// DeepEqual over the two chains (any slicing of them)
		deq := func(b *ssa.BasicBlock, k int) bool {
			iff, ok := b.Instrs[len(b.Instrs)-1].(*ssa.If)
			if !ok {
				return false
			}
			cond, want := iff.Cond, 0
			for {
				if u, ok := cond.(*ssa.UnOp); ok && u.Op == token.NOT {
					cond, want = u.X, 1-want
					continue
				}
				break
			}
			if k != want {
				return false
			}
			// both chains compared from element 1 (the head is skipped) up to and including the position
			// at which the checkpoint was found in the RW chain: DeepEqual(rw[1:I+1], wo[1:I+1]) with one
			// and the same I, and I a position of the scan over the RW chain (or its initial 0)
			cl, ok := cond.(*ssa.Call)
			if !ok || CalleeName(cl) != "reflect.DeepEqual" || len(cl.Call.Args) != 2 {
				return false
			}
			var idx [2]ssa.Value
			for i, want := range []string{rwChain + "#0", woChain + "#0"} {
				av := cl.Call.Args[i]
				if mi, ok := av.(*ssa.MakeInterface); ok {
					av = mi.X
				}
				sl, ok := strip(av).(*ssa.Slice)
				if !ok || sl.Low == nil || sl.High == nil || R.V(sl.Low) != "1" {
					return false
				}
				if base := R.V(sl.X); base != want {
					return false
				}
				hi, ok := sl.High.(*ssa.BinOp)
				if !ok || hi.Op != token.ADD || R.V(hi.Y) != "1" {
					return false
				}
				idx[i] = hi.X
			}
			if idx[0] != idx[1] && R.V(idx[0]) != R.V(idx[1]) {
				return false
			}
			hasPos := false
			for _, leaf := range phiInputs(idx[0]) {
				r := R.V(leaf)
				pos := r == "*" || strings.HasPrefix(r, "count{") || strings.HasPrefix(r, "(+count{")
				if bo, ok := leaf.(*ssa.BinOp); ok && bo.Op == token.ADD && R.V(bo.Y) == "1" {
					if _, isPhi := bo.X.(*ssa.Phi); isPhi {
						pos = true // the increment of the scan's own position
					}
				}
				if !pos && r != "0" {
					return false
				}
				if pos {
					hasPos = true
				}
			}
			if !hasPos {
				return false // a constant: the scan's result is not what the chains are cut at
			}
			// when the scan finds nothing, I is the LAST position scanned, not its initial value: the
			// constant may only enter through the phi at the head of the scan loop (before the first
			// iteration), never through the merge behind the loop
			okInit := true
			var chk func(v ssa.Value, depth int)
			chk = func(v ssa.Value, depth int) {
				p, isPhi := strip(v).(*ssa.Phi)
				if !isPhi || depth > 4 {
					return
				}
				for i, e := range p.Edges {
					if _, isC := strip(e).(*ssa.Const); isC && !isLoopHeader(p.Block()) {
						// unless the comparison cannot be reached through that edge at all (the constant
						// belongs to an error exit of the search that is returned before)
						pb := p.Block().Preds[i]
						reach := Query{Fn: fn, Start: pb.Instrs[len(pb.Instrs)-1], IsSite: func(in ssa.Instruction) bool { return in == ssa.Instruction(cl) }}.Run()
						if len(reach) > 0 {
							okInit = false
						}
					}
					chk(e, depth+1)
				}
			}
			chk(idx[0], 0)
			return okInit
		}
		c.Guard(rule, fn, promo, "promote to RW", nil, Need{Desc: "reflect.DeepEqual(rwChain[1:indx+1], chain[1:indx+1]) is true, indx = position of the WO checkpoint in the RW chain", Edge: deq})
		foundLoop := false
		for _, ea := range allAtoms(fn, R) {
			as := ea.Atom.String()
			if os.Getenv("JC_DEBUG_VERIFY") != "" && strings.Contains(as, "getReplicaCheckpoint") {
				fmt.Println("DBG atom:", as, "| want prefix:", rwChain+"#0[+count{")
			}
			if as == eqAtom(rwChain+"#0[*]", ckpt) {
				foundLoop = true
			}
			// the position may be rendered as a count of non-matching iterations (`for i := 0; ...; i++`
			// with the break in front of the increment)
			if strings.HasPrefix(as, "+"+rwChain+"#0[") && strings.HasSuffix(as, "] -"+ckpt+" ==0") {
				foundLoop = true
			}
		}
		if foundLoop {
			c.OK(rule, FnName(fn)+" | indx is the checkpoint's position in the RW chain", "", "range over rwChain compares each element with the WO checkpoint", false)
		} else {
			c.Bad(rule, FnName(fn)+" | indx is the checkpoint's position in the RW chain", "", "the search for the WO checkpoint in the RW chain changed", nil)
		}
		// order: SetReplicaMode before SetRevisionCounter (replica accepts the counter only in RW)
		src := CallsTo(fn, fRepl+"SetRevisionCounter")
		c.Guard(rule, fn, src, "SetRevisionCounter", nil, atom("replica switched to RW first", "+"+fRepl+`SetReplicaMode($0.backend,$1,"RW") -nil ==0`))
		// re-evaluation after promotion: handled by FRESH; here the direct pairing
		var rets []ssa.Instruction
		for _, w := range reachableFrom(promo[0], func(in ssa.Instruction) bool { _, ok := in.(*ssa.Return); return ok }) {
			rets = append(rets, w.Site)
		}
		c.Guard(rule, fn, rets, "return after promotion", nil, called(fCtl+"UpdateVolStatus"), called(fCtl+"UpdateCheckpoint"))

		// reference selection in getCurrentAndRWReplica / getRWReplica
		for _, sel := range []struct {
			fn  string
			k   int
			atm string
		}{
			{fCtl + "getCurrentAndRWReplica", 1, `+"RW" -$0.replicas[*].Mode ==0`},
			{fCtl + "getCurrentAndRWReplica", 0, `+$0.replicas[*].Address -$1 ==0`},
			{fCtl + "getRWReplica", 0, `+"RW" -$0.replicas[*].Mode ==0`},
		} {
			f := c.Anchor(rule, sel.fn)
			if f == nil {
				continue
			}
			// the points where a (non-nil) candidate is selected: the assignment, i.e. the
			// predecessor block of the phi edge carrying it (or the computation, if returned directly)
			var sites []ssa.Instruction
			seenB := map[*ssa.BasicBlock]bool{}
			bad := false
			for _, r := range Returns(f) {
				if sel.k >= len(r.Results) {
					continue
				}
				v := strip(r.Results[sel.k])
				if p, ok := v.(*ssa.Phi); ok {
					for _, e := range allPhiEdges(p) {
						if isNilConst(strip(e.val)) || seenB[e.from] {
							continue
						}
						seenB[e.from] = true
						sites = append(sites, e.from.Instrs[len(e.from.Instrs)-1])
					}
				} else if isNilConst(v) {
					continue
				} else if in, ok := v.(ssa.Instruction); ok {
					sites = append(sites, in)
				} else {
					bad = true
				}
			}
			if len(sites) == 0 || bad {
				c.Bad(rule, fmt.Sprintf("%s | result %d", sel.fn, sel.k), "", "no source for the selected replica", nil)
			}
			c.Guard(rule, f, sites, fmt.Sprintf("select result %d", sel.k), nil, atom("selection filter "+sel.atm, sel.atm))
		}
		c.Floor(rule, 18)
	}
}

func ruleC04Promote(rule string) ruleFn {
	return func(c *Ctx) {
		c.Doc(rule, "who may move a replica to RW: calls of setReplicaModeNoLock / replicator.SetMode with a mode that is not the constant ERR occur only in VerifyRebuildReplica, addReplicaDuringStartNoLock, Controller.SetReplicaMode (operator override) and setReplicaModeNoLock itself; setReplicaModeNoLock stores a new mode only when the old mode != ERR (sticky failure)")
		allowed := map[string]string{
			fCtl + "VerifyRebuildReplica":        "after chain verification (C04-VERIFY)",
			fCtl + "addReplicaDuringStartNoLock": "initial replica at volume start after clone-status poll (C19-PROMOTE)",
			fCtl + "SetReplicaMode":              "operator override through REST PUT (outside the property's quantifier)",
			fCtl + "setReplicaModeNoLock":        "forwards its own mode argument to the replicator",
		}
		for _, fn := range c.P.AllFns {
			R := NewRenderer(fn)
			for _, in := range AnyCallsTo(fn, fCtl+"setReplicaModeNoLock", fRepl+"SetMode") {
				args := in.(ssa.CallInstruction).Common().Args
				mode := R.V(args[len(args)-1])
				key := FnName(fn) + " | " + CalleeName(in) + "(…," + mode + ")"
				if mode == `"ERR"` {
					c.OK(rule, key, c.P.InstrPos(in), "demotion to ERR", false)
					continue
				}
				if why, ok := allowed[FnName(fn)]; ok {
					c.OK(rule, key, c.P.InstrPos(in), "allow-listed promotion site: "+why, false)
				} else {
					c.Bad(rule, key, c.P.InstrPos(in), "new site that can set a replica's mode to a value other than ERR (promotion without verification)", nil)
				}
			}
		}
		if fn := c.Anchor(rule, fCtl+"setReplicaModeNoLock"); fn != nil {
			R := NewRenderer(fn)
			var sites []ssa.Instruction
			eachInstr(fn, func(in ssa.Instruction) {
				if st, ok := in.(*ssa.Store); ok {
					a := R.V(st.Addr)
					if a == "&$0.replicas[*]" {
						sites = append(sites, in)
					}
				}
			})
			sites = append(sites, CallsTo(fn, fRepl+"SetMode")[:min(1, len(CallsTo(fn, fRepl+"SetMode")))]...)
			c.Guard(rule, fn, sites, "store new mode", nil,
				atom("old mode != ERR", `+"ERR" -$0.replicas[*].Mode !=0`),
				atom("address matches", `+$0.replicas[*].Address -$1 ==0`))
			// pairing list<->backend
			for _, s := range CallsTo(fn, fRepl+"SetMode") {
				if callRender(R, s) == fRepl+"SetMode($0.backend,$1,$2)" {
					c.OK(rule, FnName(fn)+" | backend.SetMode(address, mode)", c.P.InstrPos(s), "list entry and backend wrapper receive the same (address, mode)", false)
				} else {
					c.Bad(rule, FnName(fn)+" | backend.SetMode(address, mode)", c.P.InstrPos(s), "backend.SetMode called with "+callRender(R, s), nil)
				}
			}
		}
		c.Floor(rule, 8)
	}
}

func ruleC04ReadGate(c *Ctx) {
	const rule = "C04-READGATE"
	c.Doc(rule, "Controller.ReadAt refuses when no replica or only a WO replica exists before touching the backend; reads of a backend (io.ReaderAt.ReadAt) are issued only from replicator.ReadAt; writes/sync/unmap on backends only from MultiWriterAt goroutines")
	fn := c.Anchor(rule, fCtl+"ReadAt")
	if fn != nil {
		sites := CallsTo(fn, fRepl+"ReadAt")
		c.Guard(rule, fn, sites, "backend.ReadAt", lockOrUnlock,
			atom("some replica exists", "+len($0.replicas) !=0"),
			needLock("controller lock taken"),
			atom("not a lone WO replica", "+len($0.replicas) -1 !=0", `+"WO" -$0.replicas[+0].Mode !=0`))
	}
	// WHO: interface I/O calls inside package controller
	for _, f := range pkgFuncs(c.P, "controller") {
		for _, in := range AnyCallsTo(f, "invoke:ReadAt", "invoke:WriteAt", "invoke:Sync", "invoke:Unmap") {
			name := FnName(f)
			m := in.(ssa.CallInstruction).Common().Method.Name()
			ok := false
			switch {
			case m == "ReadAt" && name == fRepl+"ReadAt":
				ok = true
			case m != "ReadAt" && (name == fRepl+m) && NewRenderer(f).V(in.(ssa.CallInstruction).Common().Value) == "$0.writer":
				ok = true
			case m != "ReadAt" && strings.HasPrefix(name, fMW+m+"$"):
				ok = true
			}
			key := name + " | invoke " + m
			if ok {
				c.OK(rule, key, c.P.InstrPos(in), "allow-listed backend I/O site", false)
			} else {
				c.Bad(rule, key, c.P.InstrPos(in), "backend I/O issued from a site outside the reader/writer lists (a detached or rebuilding replica could be read or written)", nil)
			}
		}
	}
	c.Floor(rule, 10)
}

// ---------------------------------------------------------------------------
// C05
// ---------------------------------------------------------------------------

func ruleC05Monitor(rule string) ruleFn {
	return func(c *Ctx) {
		c.Doc(rule, "addReplicaNoLock / addQuorumReplicaNoLock: a nil return is cut off by AddBackend and `go c.monitoring(address, newBackend)`; monitoring(): after the receive from the monitor channel every path takes the controller lock and calls RemoveReplicaNoLock(address); on err != nil it first marks the replica ERR")
		for _, n := range []struct{ fn, add string }{{"addReplicaNoLock", "AddBackend"}, {"addQuorumReplicaNoLock", "AddQuorumBackend"}} {
			fn := c.Anchor(rule, fCtl+n.fn)
			if fn == nil {
				continue
			}
			R := NewRenderer(fn)
			isMon := func(in ssa.Instruction) bool {
				g, ok := in.(*ssa.Go)
				if !ok || !callMatches(g, fCtl+"monitoring") {
					return false
				}
				a := g.Call.Args
				return len(a) == 3 && R.V(a[1]) == "$2" && R.V(a[2]) == "$1"
			}
			c.Guard(rule, fn, nilErrorReturns(fn), "return nil", nil,
				Need{Desc: "go c.monitoring(address, newBackend)", Instr: isMon},
				Need{Desc: "backend." + n.add + "(address, newBackend)", Instr: func(in ssa.Instruction) bool {
					return callRender(R, in) == fRepl+n.add+"($0.backend,$2,$1)"
				}})
		}
		fn := c.Anchor(rule, fCtl+"monitoring")
		if fn != nil {
			R := NewRenderer(fn)
			var recv ssa.Instruction
			eachInstr(fn, func(in ssa.Instruction) {
				if u, ok := in.(*ssa.UnOp); ok && u.Op.String() == "<-" {
					recv = in
				}
			})
			if recv == nil {
				c.Bad(rule, FnName(fn)+" | receive from monitor channel", "", "monitoring no longer waits on the backend's monitor channel", nil)
			} else {
				isRet := func(in ssa.Instruction) bool { _, ok := in.(*ssa.Return); return ok }
				chk := func(desc string, gen func(ssa.Instruction) bool) {
					ws := Query{Fn: fn, Start: recv, Gen: gen, IsSite: isRet}.Run()
					key := FnName(fn) + " | after monitor event | " + desc
					if len(ws) == 0 {
						c.OK(rule, key, c.P.InstrPos(recv), "every path from the monitor event to return passes "+desc, true)
					} else {
						c.Bad(rule, key, c.P.InstrPos(recv), "a path from the monitor event returns without "+desc+" (failed replica stays attached)", c.witness(ws[0]))
					}
				}
				chk("c.Lock()", isWLockCall)
				chk("RemoveReplicaNoLock(address)", func(in ssa.Instruction) bool { return callRender(R, in) == fCtl+"RemoveReplicaNoLock($0,$1)" })
				// err != nil => ERR before removal
				ev := recv.(ssa.Value)
				_, nonNil := nilTestEdges(fn, ev)
				ws := afterEdge(fn, nonNil, func(in ssa.Instruction) bool {
					return callRender(R, in) == fCtl+`setReplicaModeNoLock($0,$1,"ERR")`
				}, nil, func(in ssa.Instruction) bool { return callRender(R, in) == fCtl+"RemoveReplicaNoLock($0,$1)" })
				key := FnName(fn) + " | monitor error | marked ERR before removal"
				if len(ws) == 0 {
					c.OK(rule, key, c.P.InstrPos(recv), "on a monitor error the replica is marked ERR before it is removed", true)
				} else {
					c.Bad(rule, key, c.P.InstrPos(recv), "monitor error does not mark the replica ERR", c.witness(ws[0]))
				}
				// lock before mode change
				c.Guard(rule, fn, CallsTo(fn, fCtl+"setReplicaModeNoLock", fCtl+"RemoveReplicaNoLock"), "membership change", lockOrUnlock, needWLock("controller write lock taken"))
			}
		}
		// handleErrorNoLock marks every failed address ERR
		if fn := c.Anchor(rule, fCtl+"handleErrorNoLock"); fn != nil {
			R := NewRenderer(fn)
			want := fCtl + `setReplicaModeNoLock($0,key(as<*controller.BackendError>($1).Errors),"ERR")`
			found := false
			for _, s := range CallsTo(fn, fCtl+"setReplicaModeNoLock") {
				if callRender(R, s) == want {
					found = true
					body := s.Block()
					direct := len(body.Preds) == 1 && atomEdges(fn, R, "more(as<*controller.BackendError>($1).Errors)")(body.Preds[0], succIndex(body.Preds[0], body))
					if direct {
						c.OK(rule, FnName(fn)+" | mark every failed address ERR", c.P.InstrPos(s), "for address := range bErr.Errors { setReplicaModeNoLock(address, ERR) } unconditionally", true)
					} else {
						c.Bad(rule, FnName(fn)+" | mark every failed address ERR", c.P.InstrPos(s), "marking ERR is conditional inside the loop over bErr.Errors", nil)
					}
				}
			}
			if !found {
				c.Bad(rule, FnName(fn)+" | mark every failed address ERR", "", "handleErrorNoLock does not call "+want, nil)
			}
			// error suppressed only when a RW replica remains
			var sup []ssa.Instruction
			for _, r := range Returns(fn) {
				for _, v := range phiInputs(strip(r.Results[0])) {
					if isNilConst(v) {
						// find the block providing nil: approximate by requiring the guard on the return via phi edge — checked below through atoms on all nil-producing edges
						_ = v
					}
				}
				sup = append(sup, r)
			}
			// the only way the result differs from the argument is the edge Mode==RW
			phiOK := true
			for _, r := range Returns(fn) {
				p, ok := strip(r.Results[0]).(*ssa.Phi)
				if !ok {
					if isNilConst(strip(r.Results[0])) {
						// `return nil` written out: the return itself sits behind the Mode == RW edge
						// ... or behind "there was no error to begin with"
						ge := atomEdges(fn, R, `+"RW" -$0.replicas[*].Mode ==0`, isNilAtom("$1"))
						rr := r
						if len(Query{Fn: fn, IsSite: func(in ssa.Instruction) bool { return in == ssa.Instruction(rr) }, GenEdge: ge}.Run()) > 0 {
							phiOK = false
						}
					} else if !sameValue(r.Results[0], fn.Params[1]) {
						phiOK = false
					}
					continue
				}
				for i, e := range allPhiEdges(p) {
					_ = i
					if isNilConst(e.val) {
						// edge must come (transitively) from a block controlled by Mode == RW
						site := e.from.Instrs[len(e.from.Instrs)-1]
						ge := atomEdges(fn, R, `+"RW" -$0.replicas[*].Mode ==0`, isNilAtom("$1"))
						if len(Query{Fn: fn, IsSite: func(in ssa.Instruction) bool { return in == site }, GenEdge: ge}.Run()) > 0 {
							phiOK = false
						}
					} else if !sameValue(e.val, fn.Params[1]) {
						phiOK = false
					}
				}
			}
			if phiOK {
				c.OK(rule, FnName(fn)+" | error suppressed only if a RW replica remains", c.P.Pos(fn.Pos()), "the nil result is produced only on an edge controlled by Mode==RW of some replica", true)
			} else {
				c.Bad(rule, FnName(fn)+" | error suppressed only if a RW replica remains", c.P.Pos(fn.Pos()), "handleErrorNoLock can turn an error into nil without a remaining RW replica", nil)
			}
		}
		c.Floor(rule, 11)
	}
}

type phiEdge struct {
	val  ssa.Value
	from *ssa.BasicBlock
	to   *ssa.BasicBlock
}

// allPhiEdges flattens nested phis into (value, predecessor block of the innermost phi).
func allPhiEdges(p *ssa.Phi) []phiEdge {
	var out []phiEdge
	seen := map[*ssa.Phi]bool{}
	var walk func(q *ssa.Phi)
	walk = func(q *ssa.Phi) {
		if seen[q] {
			return
		}
		seen[q] = true
		for i, e := range q.Edges {
			if in, ok := e.(*ssa.Phi); ok {
				walk(in)
				continue
			}
			out = append(out, phiEdge{e, q.Block().Preds[i], q.Block()})
		}
	}
	walk(p)
	return out
}

// ---------------------------------------------------------------------------
// C07 / C18 admission
// ---------------------------------------------------------------------------

func ruleC07AddOrder(rule string) ruleFn {
	return func(c *Ctx) {
		c.Doc(rule, "addReplicaNoLock: the append to c.replicas and AddBackend are cut off by canAdd()==true; when snapshot is requested, by success of c.backend.Snapshot and newBackend.Snapshot with the same (uuid,false,created); by success of newBackend.SetReplicaMode(WO); the appended entry and the backend wrapper carry mode WO")
		base := c.Anchor(rule, fCtl+"addReplicaNoLock")
		if base == nil {
			return
		}
		// the admission (append + AddBackend) lives in addReplicaNoLock; when the snapshot flag was
		// specialised away (one variant for the live add, one for start-up) the inlined view shows
		// it in addReplica as well: every function of the two that admits is checked
		var cands []*ssa.Function
		for _, f := range []*ssa.Function{base, c.P.Fn(fCtl + "addReplica")} {
			if f != nil && len(StoresTo(f, "Controller", "replicas")) > 0 && len(CallsTo(f, fRepl+"AddBackend")) > 0 {
				cands = append(cands, f)
			}
		}
		if len(cands) == 0 {
			c.Bad(rule, FnName(base)+" | append + AddBackend", "", "expected a store to c.replicas and a call of backend.AddBackend", nil)
		}
		liveCovered := false
		for _, fn := range cands {
			R := NewRenderer(fn)
			var sites []ssa.Instruction
			sites = append(sites, StoresTo(fn, "Controller", "replicas")...)
			ab := CallsTo(fn, fRepl+"AddBackend")
			sites = append(sites, ab...)
			addr, be := "$2", "$1"
			if args := ab[0].(*ssa.Call).Call.Args; len(args) == 3 {
				addr, be = R.V(args[1]), R.V(args[2])
			}
			hasFlag := fn == base && len(fn.Params) == 4
			live := FnName(fn) == fCtl+"addReplica"
			if fn == base && !hasFlag {
				if ar := c.P.Fn(fCtl + "addReplica"); ar != nil && len(CallsTo(ar, fCtl+"addReplicaNoLock")) > 0 {
					live = true
				}
			}
			if hasFlag || live {
				liveCovered = true
			}
			snapAll := fRepl + "Snapshot($0.backend,util.UUID(),false,util.Now())"
			snapNew := "invoke.Snapshot(" + be + ",util.UUID(),false,util.Now())"
			needs := []Need{c.admitted(fn, "canAdd(address)", addr)}
			switch {
			case hasFlag:
				needs = append(needs,
					atom("snapshot not requested or taken on all existing replicas", "!$3", "+"+snapAll+" -nil ==0"),
					atom("snapshot not requested or taken on the new replica", "!$3", "+"+snapNew+" -nil ==0"))
			case live:
				needs = append(needs,
					atom("snapshot taken on all existing replicas", "+"+snapAll+" -nil ==0"),
					atom("snapshot taken on the new replica", "+"+snapNew+" -nil ==0"))
			}
			needs = append(needs, atom("new replica set to WO", "+invoke.SetReplicaMode("+be+`,"WO") -nil ==0`))
			c.Guard(rule, fn, sites, "admit replica", nil, needs...)
			// same uuid/created value objects on both snapshot calls
			a, b := CallsTo(fn, fRepl+"Snapshot"), CallsTo(fn, "invoke:Snapshot")
			if len(a) == 1 && len(b) == 1 {
				aa, ba := a[0].(*ssa.Call).Call.Args, b[0].(*ssa.Call).Call.Args
				if aa[1] == ba[0] && aa[3] == ba[2] && R.V(aa[2]) == "false" && R.V(ba[1]) == "false" {
					c.OK(rule, FnName(fn)+" | same snapshot name on old and new replicas", c.P.InstrPos(a[0]), "both Snapshot calls receive the same uuid and created values", true)
				} else {
					c.Bad(rule, FnName(fn)+" | same snapshot name on old and new replicas", c.P.InstrPos(b[0]), "the snapshot taken on the new replica differs in name/created/userCreated from the one taken on the existing replicas", nil)
				}
				// order: existing replicas first
				c.Guard(rule, fn, b, "newBackend.Snapshot", nil, atom("snapshot on existing replicas succeeded", "+"+snapAll+" -nil ==0"))
			} else if hasFlag || live {
				c.Bad(rule, FnName(fn)+" | same snapshot name on old and new replicas", "", "expected one c.backend.Snapshot and one newBackend.Snapshot", nil)
			}
			// literal mode
			okMode := false
			eachInstr(fn, func(in ssa.Instruction) {
				if st, ok := in.(*ssa.Store); ok && R.V(st.Addr) == "&var(complit).Mode" && R.V(st.Val) == `"WO"` {
					okMode = true
				}
			})
			if okMode {
				c.OK(rule, FnName(fn)+" | appended entry has Mode WO", "", "types.Replica{Address, Mode: WO}", false)
			} else {
				c.Bad(rule, FnName(fn)+" | appended entry has Mode WO", "", "the appended replica entry is not created in WO mode", nil)
			}
		}
		if len(cands) > 0 && !liveCovered {
			c.Bad(rule, FnName(base)+" | live add takes the snapshot", "", "no admitting function takes the snapshot for a replica added to a running volume", nil)
		}
		for _, w := range []string{"AddBackend", "AddQuorumBackend"} {
			if f := c.Anchor(rule, fRepl+w); f != nil {
				R2 := NewRenderer(f)
				ok := false
				eachInstr(f, func(in ssa.Instruction) {
					if st, ok2 := in.(*ssa.Store); ok2 && R2.V(st.Addr) == "&var(complit).mode" && R2.V(st.Val) == `"WO"` {
						ok = true
					}
				})
				if ok {
					c.OK(rule, fRepl+w+" | wrapper mode WO", "", "backendWrapper{mode: WO}", false)
				} else {
					c.Bad(rule, fRepl+w+" | wrapper mode WO", "", "a new backend is not registered in WO mode (it would serve reads before verification)", nil)
				}
			}
		}
		c.Floor(rule, 12)
	}
}

func ruleCanAdd(rule string) ruleFn {
	return func(c *Ctx) {
		c.Doc(rule, "canAdd: every `return true` is cut off by hasReplica(address)==false, by IsSnapDeletionInProgress==false, and by (no WO replica) or (newcomer has greater revision and RemoveReplicaNoLock(woReplica) succeeded); addReplica: the admission is made in the lock region of the append (canAdd re-checked by addReplicaNoLock)")
		fn := c.Anchor(rule, fCtl+"canAdd")
		if fn == nil {
			return
		}
		// the admitting returns: `return true, nil`, or — when canAdd reports only an error — the
		// success returns
		var sites []ssa.Instruction
		if boolResultIndex(fn) == 0 {
			for _, r := range Returns(fn) {
				if cst, ok := strip(r.Results[0]).(*ssa.Const); ok && constString(cst) == "true" {
					sites = append(sites, r)
				} else if !ok {
					c.Bad(rule, FnName(fn)+" | non-constant verdict", c.P.InstrPos(r), "canAdd returns a non-constant verdict", nil)
				}
			}
		} else {
			sites = successReturns(fn)
		}
		if len(sites) == 0 {
			c.Bad(rule, FnName(fn)+" | admitting return", c.P.Pos(fn.Pos()), "canAdd has no admitting return", nil)
		}
		R0 := NewRenderer(fn)
		woAddr := fCtl + "hasWOReplica($0)#0"
		noWO := Need{Atoms: []string{"!" + fCtl + "hasWOReplica($0)#1"}}
		if c.P.Fn(fCtl+"hasWOReplica") == nil {
			// the search for a WO replica written out in canAdd: "none" is the exhaustion edge of the
			// loop that tests Mode == WO; the WO address is whatever is handed to hasGreaterRevisionCount,
			// which must be a replicas[i].Address selected under Mode == WO
			var header *ssa.BasicBlock
			for _, ea := range allAtoms(fn, R0) {
				if ea.Atom.String() == `+"WO" -$0.replicas[*].Mode ==0` {
					if b := loopHeaderOf(ea.B); b != nil {
						header = b
					}
				}
			}
			if header != nil {
				done := func(b *ssa.BasicBlock, k int) bool { return b == header && k == 1 }
				noWO = Need{Edge: orEdges(done, flagEdgesImplying(fn, done))}
			}
			for _, g := range CallsTo(fn, fCtl+"hasGreaterRevisionCount") {
				arg := g.(*ssa.Call).Call.Args[1]
				woAddr = R0.V(arg)
				okSel := true
				n := 0
				if p, ok := strip(arg).(*ssa.Phi); ok {
					for _, e := range allPhiEdges(p) {
						if cst, ok := strip(e.val).(*ssa.Const); ok && constString(cst) == `""` {
							continue
						}
						n++
						if R0.V(e.val) != "$0.replicas[*].Address" {
							okSel = false
						}
						site := e.from.Instrs[len(e.from.Instrs)-1]
						if len(Query{Fn: fn, IsSite: func(in ssa.Instruction) bool { return in == site }, GenEdge: atomEdges(fn, R0, `+"WO" -$0.replicas[*].Mode ==0`)}.Run()) > 0 {
							okSel = false
						}
					}
				} else {
					okSel = false
				}
				if okSel && n > 0 {
					c.OK(rule, FnName(fn)+" | WO replica selected under Mode == WO", c.P.InstrPos(g), "address handed to hasGreaterRevisionCount is a replicas[i].Address chosen on the edge Mode == WO", true)
				} else {
					c.Bad(rule, FnName(fn)+" | WO replica selected under Mode == WO", c.P.InstrPos(g), "the address compared / removed is not that of a replica found in mode WO: "+woAddr, nil)
				}
			}
		}
		// "removed": the atom on the call's own error, or - when the removal's error is merged with
		// others before it is tested (the take-over written as a helper with early returns) - the
		// success edge of that call found through the merge
		rmEdges := []func(*ssa.BasicBlock, int) bool{}
		if noWO.Edge != nil {
			rmEdges = append(rmEdges, noWO.Edge)
		}
		for _, rc := range CallsTo(fn, fCtl+"RemoveReplicaNoLock") {
			if cl, ok := rc.(*ssa.Call); ok && len(cl.Call.Args) >= 2 && R0.V(cl.Call.Args[1]) == woAddr {
				rmEdges = append(rmEdges, successEdgesOfCall(fn, rc))
			}
		}
		rmNeed := Need{Desc: "no WO replica, or the WO replica was removed", Atoms: append([]string{"+" + fCtl + "RemoveReplicaNoLock($0," + woAddr + ") -nil ==0"}, noWO.Atoms...), Edge: orEdges(rmEdges...)}
		gtNeed := Need{Desc: "no WO replica, or newcomer has the greater revision", Atoms: append([]string{fCtl + "hasGreaterRevisionCount($0," + woAddr + ",$1)#0"}, noWO.Atoms...), Edge: noWO.Edge}
		c.Guard(rule, fn, sites, "return true", nil,
			atom("address not yet a member", "!"+fCtl+"hasReplica($0,$1)"),
			atom("no snapshot deletion in progress", "!$0.IsSnapDeletionInProgress"),
			rmNeed, gtNeed)
		// hasReplica scans both lists by address
		if f := c.Anchor(rule, fCtl+"hasReplica"); f != nil {
			var t []ssa.Instruction
			for _, r := range Returns(f) {
				if cst, ok := strip(r.Results[0]).(*ssa.Const); ok && constString(cst) == "false" {
					t = append(t, r)
				}
			}
			c.Guard(rule, f, t, "return false", nil,
				atom("all data replicas scanned", "+* -len($0.replicas) >=0"),
				atom("all quorum replicas scanned", "+* -len($0.quorumReplicas) >=0"))
			R := NewRenderer(f)
			var tr []ssa.Instruction
			for _, r := range Returns(f) {
				if cst, ok := strip(r.Results[0]).(*ssa.Const); ok && constString(cst) == "true" {
					tr = append(tr, r)
				}
			}
			_ = R
			c.Guard(rule, f, tr, "return true", nil, atom("address equal", "+$0.replicas[*].Address -$1 ==0", "+$0.quorumReplicas[*].Address -$1 ==0"))
		}
		// hasWOReplica
		if f := c.P.Fn(fCtl + "hasWOReplica"); f != nil { // optional: may be written out in canAdd
			var t []ssa.Instruction
			for _, r := range Returns(f) {
				if cst, ok := strip(r.Results[1]).(*ssa.Const); ok && constString(cst) == "false" {
					t = append(t, r)
				}
			}
			c.Guard(rule, f, t, "return false", nil, atom("all data replicas scanned", "+* -len($0.replicas) >=0"))
			var tr []ssa.Instruction
			for _, r := range Returns(f) {
				if cst, ok := strip(r.Results[1]).(*ssa.Const); ok && constString(cst) == "true" {
					tr = append(tr, r)
				}
			}
			c.Guard(rule, f, tr, "return true", nil, atom("mode is WO", `+"WO" -$0.replicas[*].Mode ==0`))
		}
		// hasGreaterRevisionCount: true only when strictly greater
		if f := c.Anchor(rule, fCtl+"hasGreaterRevisionCount"); f != nil {
			var tr []ssa.Instruction
			for _, r := range Returns(f) {
				if cst, ok := strip(r.Results[0]).(*ssa.Const); ok && constString(cst) == "true" {
					tr = append(tr, r)
				}
			}
			R := NewRenderer(f)
			// find the atom that compares two revision counts: new - wo - 1 >= 0
			okc := false
			for _, ea := range allAtoms(f, R) {
				s := ea.Atom.String()
				// the WO side is the count the WO replica reports now; the count it registered with at
				// start-up may be used only under the WO address as the key (it then never applies:
				// the registry is keyed by IP) — a registered count is stale for a rebuilding replica
				live := fRepl + "GetRevisionCounter($0.backend,$1)#0"
				if strings.HasSuffix(s, "-1 >=0") && strings.Contains(s, "+strconv.ParseInt(") &&
					(strings.HasPrefix(s, "-"+live+" +strconv.ParseInt(") || strings.HasPrefix(s, "-phi{$0.RegisteredReplicas[$1].RevCount | "+live+"} +strconv.ParseInt(")) {
					okc = true
					c.Guard(rule, f, tr, "return true", nil, atom("new revision strictly greater", s))
				}
			}
			if !okc {
				c.Bad(rule, FnName(f)+" | strict comparison", "", "no strict `newRevCnt > woRevCnt` guard against the WO replica's live revision count found for the true verdict", nil)
			}
		}
		c.Floor(rule, 10)
	}
}

func ruleC18(c *Ctx) {
	const rule = "C18-PAIR"
	c.Doc(rule, "membership pairing: in RemoveReplicaNoLock the splice of c.replicas and backend.RemoveBackend(r.Address) occur together under Address==address, followed by UpdateVolStatus/UpdateCheckpoint on every mutating path; in addReplica the replication-factor check dominates the admission; reset() replaces list and backend together")
	fn := c.Anchor(rule, fCtl+"RemoveReplicaNoLock")
	if fn != nil {
		R := NewRenderer(fn)
		st := StoresTo(fn, "Controller", "replicas")
		rb := CallsTo(fn, fRepl+"RemoveBackend")
		if len(st) != 1 {
			c.Bad(rule, FnName(fn)+" | splice of c.replicas", "", fmt.Sprintf("expected one store to c.replicas, found %d", len(st)), nil)
		} else {
			v := R.V(st[0].(*ssa.Store).Val)
			// the index: the range index of the loop that found the entry, or the result of a
			// search loop (`idx := -1; for i ... { if match { idx = i; break } }; if idx != -1 {...}`)
			idx := "*"
			const found = "phi{* | -1}"
			if strings.HasPrefix(v, "append($0.replicas[:+"+found+"],") {
				idx = found
			}
			if v == "append($0.replicas[:+"+idx+"],$0.replicas[+"+idx+" +1:])" || (idx == "*" && strings.HasPrefix(v, "append($0.replicas[:+*],")) {
				c.OK(rule, FnName(fn)+" | splice removes index i", c.P.InstrPos(st[0]), "c.replicas = append(c.replicas[:i], c.replicas[i+1:]...)", false)
			} else {
				c.Bad(rule, FnName(fn)+" | splice removes index i", c.P.InstrPos(st[0]), "unexpected new value of c.replicas: "+v, nil)
			}
			match := "+$0.replicas[*].Address -$1 ==0"
			if idx == "*" {
				c.Guard(rule, fn, st, "splice", nil, atom("entry address matches", match))
			} else {
				// the position was recorded under the address test, and a position was found
				c.Guard(rule, fn, st, "splice", nil, atom("an entry was found", "+"+found+" +1 !=0"))
				okSel := false
				var used *ssa.Phi
				if ap, ok := strip(st[0].(*ssa.Store).Val).(*ssa.Call); ok && len(ap.Call.Args) > 0 {
					if sl, ok := strip(ap.Call.Args[0]).(*ssa.Slice); ok && sl.High != nil {
						used, _ = stripConv(sl.High).(*ssa.Phi)
					}
				}
				eachInstr(fn, func(in ssa.Instruction) {
					p, ok := in.(*ssa.Phi)
					if !ok || p != used {
						return
					}
					okSel = true
					for ei, ev := range p.Edges {
						if cst, ok := strip(ev).(*ssa.Const); ok && cst.Value != nil {
							continue
						}
						from := p.Block().Preds[ei]
						site := from.Instrs[len(from.Instrs)-1]
						if len(Query{Fn: fn, IsSite: func(x ssa.Instruction) bool { return x == site }, GenEdge: atomEdges(fn, R, match)}.Run()) > 0 {
							okSel = false
						}
					}
				})
				if okSel {
					c.OK(rule, FnName(fn)+" | splice | entry address matches", c.P.InstrPos(st[0]), "the position is recorded on the edge replicas[i].Address == address", true)
				} else {
					c.Bad(rule, FnName(fn)+" | splice | entry address matches", c.P.InstrPos(st[0]), "the position that is spliced out is not (only) recorded under the address test", nil)
				}
			}
			// RemoveBackend in same block with the entry's address
			paired := false
			for _, x := range rb {
				cr := callRender(R, x)
				if x.Block() == st[0].Block() && (cr == fRepl+"RemoveBackend($0.backend,$0.replicas[*].Address)" || (idx != "*" && cr == fRepl+"RemoveBackend($0.backend,$0.replicas[+"+idx+"].Address)")) {
					paired = true
				}
			}
			// the address handed to RemoveBackend is the removed entry's: read before the splice (a
			// copy of the element), not through a pointer into the list after it was shifted
			for _, x := range rb {
				cl, ok := x.(*ssa.Call)
				if !ok || len(cl.Call.Args) < 2 || x.Block() != st[0].Block() {
					continue
				}
				if ld, ok := cl.Call.Args[1].(*ssa.UnOp); ok && ld.Op == token.MUL && ld.Block() == st[0].Block() && pointsIntoSlice(ld.X, 0) {
					si, li := -1, -1
					for k, in := range ld.Block().Instrs {
						if in == st[0] {
							si = k
						}
						if in == ssa.Instruction(ld) {
							li = k
						}
					}
					if si >= 0 && li > si {
						paired = false
						c.Bad(rule, FnName(fn)+" | address of the removed entry is read before the splice", c.P.InstrPos(x), "RemoveBackend is handed a field read through a pointer into c.replicas after the list was shifted: it names the next replica", nil)
					}
				}
			}
			if paired {
				c.OK(rule, FnName(fn)+" | splice paired with RemoveBackend", c.P.InstrPos(st[0]), "list entry and backend removed together", true)
			} else {
				c.Bad(rule, FnName(fn)+" | splice paired with RemoveBackend", c.P.InstrPos(st[0]), "c.replicas is spliced without backend.RemoveBackend(r.Address) in the same block (removed replica keeps receiving I/O)", nil)
			}
		}
		// after any mutation: UpdateVolStatus + UpdateCheckpoint
		muts := append(append([]ssa.Instruction{}, st...), StoresTo(fn, "Controller", "quorumReplicas")...)
		for i, m := range muts {
			for _, up := range []string{"UpdateVolStatus", "UpdateCheckpoint"} {
				ws := Query{Fn: fn, Start: m, Gen: func(in ssa.Instruction) bool { return isPlainCall(in) && callMatches(in, fCtl+up) },
					IsSite: func(in ssa.Instruction) bool { _, ok := in.(*ssa.Return); return ok }}.Run()
				key := fmt.Sprintf("%s | list mutation[%d] | %s before return", FnName(fn), i, up)
				if len(ws) == 0 {
					c.OK(rule, key, c.P.InstrPos(m), "re-evaluated before return", true)
				} else {
					c.Bad(rule, key, c.P.InstrPos(m), "replica list changed without "+up+"()", c.witness(ws[0]))
				}
			}
		}
	}
	// addReplica: RF check before admission, canAdd before admission
	if fn := c.Anchor(rule, fCtl+"addReplica"); fn != nil {
		sites := CallsTo(fn, fCtl+"addReplicaNoLock")
		if len(sites) == 0 {
			// the admission written out (or inlined) in addReplica itself
			sites = StoresTo(fn, "Controller", "replicas")
		}
		c.Guard(rule, fn, sites, "admission", nil,
			atom("replication factor not reached", "+"+fCtl+"verifyReplicationFactor($0) -nil ==0"),
			c.admitted(fn, "canAdd", "$1"),
			atom("backend created", "+invoke.Create($0.factory,$1)#1 -nil ==0"))
		c.Guard(rule, fn, sites, "admission", lockOrUnlock, needWLock("controller write lock (re)taken"))
		// the replication-factor check must hold in the lock region of the admission itself
		// (the lock is dropped around factory.Create: a check made before that is stale)
		c.Guard("C18-RF", fn, sites, "admission", func(in ssa.Instruction) bool { return isUnlockCall(in) || isLockCall(in) },
			atom("replication factor not reached, checked in this lock region", "+"+fCtl+"verifyReplicationFactor($0) -nil ==0"))
		c.Doc("C18-RF", "addReplica: the append of a data replica is cut off by verifyReplicationFactor()==nil evaluated in the same lock region (no Lock/Unlock between the check and addReplicaNoLock)")
	}
	if fn := c.Anchor(rule, fCtl+"verifyReplicationFactor"); fn != nil {
		c.Guard(rule, fn, nilErrorReturns(fn), "return nil", nil,
			atom("RF configured", "+util.CheckReplicationFactor() !=0"),
			atom("fewer replicas than RF", "+len($0.replicas) -util.CheckReplicationFactor() !=0"))
	}
	if fn := c.Anchor(rule, fCtl+"reset"); fn != nil {
		a, b, q := StoresTo(fn, "Controller", "replicas"), StoresTo(fn, "Controller", "backend"), StoresTo(fn, "Controller", "quorumReplicas")
		if len(a) == 1 && len(b) == 1 && len(q) == 1 {
			c.OK(rule, FnName(fn)+" | list and backend replaced together", c.P.Pos(fn.Pos()), "reset() installs empty lists and a fresh replicator", false)
		} else {
			c.Bad(rule, FnName(fn)+" | list and backend replaced together", c.P.Pos(fn.Pos()), "reset() must replace c.replicas, c.quorumReplicas and c.backend together", nil)
		}
	}
	c.Floor(rule, 12)
}

// ---------------------------------------------------------------------------
// C09
// ---------------------------------------------------------------------------

func ruleC09(c *Ctx) {
	const rule = "C09-ELECT"
	c.Doc(rule, "registerReplica/signalReplica/Start: the start signal after an election is guarded by len(Registered) >= RF/2+1 (and the quorum conjunct); a rebuilding registrant never becomes leader; the leader is replaced only by a registered entry with a strictly greater RevCount, and the value stored is that entry's key; StartSignalled=true only on success of SignalToAdd, on failure the leader is deleted from the map BEFORE MaxRevReplica is cleared; Start is accepted only from tcp://<MaxRevReplica>:9502 with no replicas attached; replicas whose counter differs from the maximum are marked ERR")
	fn := c.Anchor(rule, fCtl+"registerReplica")
	if fn != nil {
		R := NewRenderer(fn)
		sig := CallsTo(fn, fCtl+"signalReplica")
		// the election signal: the one not under StartSignalled==true/Address==MaxRevReplica
		var elect []ssa.Instruction
		for _, s := range sig {
			ctl := controlAtoms(fn, R, s.Block())
			re := false
			for _, a := range ctl {
				if a == "+$0.MaxRevReplica -$1.Address ==0" {
					re = true
				}
			}
			if !re {
				elect = append(elect, s)
			}
		}
		if len(elect) != 1 {
			c.Bad(rule, FnName(fn)+" | election signal", "", fmt.Sprintf("expected exactly one post-election signalReplica call, found %d", len(elect)), nil)
		}
		c.Guard(rule, fn, elect, "signal after election", nil,
			atom("majority of data replicas registered", "-div(+$0.ReplicationFactor,+2) +len($0.RegisteredReplicas) -1 >=0"),
			atom("majority incl. quorum replicas registered", "-div(+$0.ReplicationFactor +$0.quorumReplicaCount,+2) +len($0.RegisteredQuorumReplicas) +len($0.RegisteredReplicas) -1 >=0"),
			atom("registrant is not rebuilding", `+"rebuilding" -$1.RepState !=0`),
			atom("no replica attached yet", "-len($0.replicas) >=0"),
			atom("registrant has a UUID", `+"" -$1.UUID !=0`),
			needWLock("controller write lock taken"))
		// leader stores
		for i, s := range StoresTo(fn, "Controller", "MaxRevReplica") {
			v := R.V(s.(*ssa.Store).Val)
			key := fmt.Sprintf("%s | MaxRevReplica = %s [%d]", FnName(fn), v, i)
			switch v {
			case `""`:
				// withdrawal: the delete of the old leader must precede it in the block
				okd := false
				for _, x := range s.Block().Instrs {
					if x == s {
						break
					}
					if callRender(R, x) == "delete($0.RegisteredReplicas,$0.MaxRevReplica)" {
						okd = true
					}
				}
				if okd {
					c.OK(rule, key, c.P.InstrPos(s), "unreachable leader deleted from the registry before the leader name is cleared", true)
				} else {
					c.Bad(rule, key, c.P.InstrPos(s), "leader name cleared without first deleting the unreachable leader from RegisteredReplicas (it keeps counting towards the majority)", nil)
				}
			case "$1.Address":
				ctl := controlAtoms(fn, R, s.Block())
				first := false
				for _, a := range ctl {
					if a == `+"" -$0.MaxRevReplica ==0` {
						first = true
					}
				}
				c.Guard(rule, fn, []ssa.Instruction{s}, "leader := registrant", nil, atom("registrant is not rebuilding", `+"rebuilding" -$1.RepState !=0`))
				if !first {
					// inside the election loop: the value must be the range key that was found greater
					c.Bad(rule, key+" | argmax", c.P.InstrPos(s), "election loop stores the registrant's address, not the key of the entry whose RevCount was found greater (a lower-revision replica can become leader)", nil)
				}
			case "key($0.RegisteredReplicas)":
				c.Guard(rule, fn, []ssa.Instruction{s}, "leader := greater entry", nil,
					// the entry under the iteration's key, or the iteration's value (`for k, v := range M`)
					atom("entry has strictly greater RevCount than current leader", "-$0.RegisteredReplicas[$0.MaxRevReplica].RevCount +$0.RegisteredReplicas[key($0.RegisteredReplicas)].RevCount -1 >=0", "-$0.RegisteredReplicas[$0.MaxRevReplica].RevCount +$0.RegisteredReplicas[*].RevCount -1 >=0"),
					atom("entry is not rebuilding", `+"rebuilding" -$0.RegisteredReplicas[key($0.RegisteredReplicas)].RepState !=0`, `+"rebuilding" -$0.RegisteredReplicas[*].RepState !=0`))
			default:
				c.Bad(rule, key, c.P.InstrPos(s), "unexpected leader value "+v, nil)
			}
		}
		// the election loop exists
		loop := false
		for _, ea := range allAtoms(fn, R) {
			if as := ea.Atom.String(); as == "-$0.RegisteredReplicas[$0.MaxRevReplica].RevCount +$0.RegisteredReplicas[key($0.RegisteredReplicas)].RevCount -1 >=0" || as == "-$0.RegisteredReplicas[$0.MaxRevReplica].RevCount +$0.RegisteredReplicas[*].RevCount -1 >=0" {
				loop = true
			}
		}
		if loop {
			c.OK(rule, FnName(fn)+" | election compares RevCount over all registered", "", "range over RegisteredReplicas with strict RevCount comparison against the current leader", false)
		} else {
			c.Bad(rule, FnName(fn)+" | election compares RevCount over all registered", "", "no strict RevCount comparison of every registered entry against the current leader", nil)
		}
		// registration recorded before election
		var regs []ssa.Instruction
		eachInstr(fn, func(in ssa.Instruction) {
			if mu, ok := in.(*ssa.MapUpdate); ok && R.V(mu.Map) == "$0.RegisteredReplicas" && R.V(mu.Key) == "$1.Address" {
				regs = append(regs, in)
			}
		})
		c.Guard(rule, fn, elect, "signal after election", nil, Need{Desc: "registrant recorded in RegisteredReplicas", Instr: func(in ssa.Instruction) bool {
			for _, r := range regs {
				if r == in {
					return true
				}
			}
			return false
		}})
	}
	if fn := c.Anchor(rule, fCtl+"signalReplica"); fn != nil {
		R := NewRenderer(fn)
		sg := "+invoke.SignalToAdd($0.factory,$0.MaxRevReplica,\"start\") -nil"
		c.Guard(rule, fn, storesOfConst(fn, "Controller", "StartSignalled", "true"), "StartSignalled=true", nil, atom("start signal delivered", sg+" ==0"))
		// failure edge: delete, clear, return err
		_, nonNil := nilTestEdges(fn, errOfCall(firstOr(CallsTo(fn, "invoke:SignalToAdd"))))
		isRet := func(in ssa.Instruction) bool { _, ok := in.(*ssa.Return); return ok }
		for _, step := range []struct {
			d string
			g func(ssa.Instruction) bool
		}{
			{"delete(RegisteredReplicas, MaxRevReplica)", func(in ssa.Instruction) bool {
				return callRender(R, in) == "delete($0.RegisteredReplicas,$0.MaxRevReplica)"
			}},
			{"StartSignalled=false", func(in ssa.Instruction) bool {
				for _, s := range storesOfConst(fn, "Controller", "StartSignalled", "false") {
					if s == in {
						return true
					}
				}
				return false
			}},
		} {
			ws := afterEdge(fn, nonNil, step.g, nil, isRet)
			key := FnName(fn) + " | signal failed | " + step.d
			if len(ws) == 0 {
				c.OK(rule, key, "", "failure edge passes "+step.d, true)
			} else {
				c.Bad(rule, key, "", "failure of the start signal does not "+step.d, c.witness(ws[0]))
			}
		}
		for i, s := range storesOfConst(fn, "Controller", "MaxRevReplica", `""`) {
			okd := false
			for _, x := range s.Block().Instrs {
				if x == s {
					break
				}
				if callRender(R, x) == "delete($0.RegisteredReplicas,$0.MaxRevReplica)" {
					okd = true
				}
			}
			key := fmt.Sprintf("%s | delete before clear [%d]", FnName(fn), i)
			if okd {
				c.OK(rule, key, c.P.InstrPos(s), "leader deleted from the registry before its name is cleared", true)
			} else {
				c.Bad(rule, key, c.P.InstrPos(s), "leader name cleared before delete(RegisteredReplicas, MaxRevReplica)", nil)
			}
		}
		// failure returns the error
		for _, r := range Returns(fn) {
			_ = r
		}
	}
	if fn := c.Anchor(rule, fCtl+"Start"); fn != nil {
		R := NewRenderer(fn)
		var sites []ssa.Instruction
		sites = append(sites, CallsTo(fn, fCtl+"reset")...)
		sites = append(sites, CallsTo(fn, fCtl+"addReplicaDuringStartNoLock")...)
		c.Guard(rule, fn, sites, "start volume", lockOrUnlock,
			atom("addresses given", "+len($1) !=0"),
			atom("no replica attached", "-len($0.replicas) >=0"),
			atom("request comes from the signalled leader", `+$1[+0] -(("tcp://" + $0.MaxRevReplica) + ":9502") ==0`),
			needWLock("controller write lock taken"))
		// conflict marking
		var marks []ssa.Instruction
		for _, s := range CallsTo(fn, fCtl+"setReplicaModeNoLock") {
			if callRender(R, s) == fCtl+`setReplicaModeNoLock($0,key(makemap),"ERR")` {
				marks = append(marks, s)
			}
		}
		if len(marks) != 1 {
			c.Bad(rule, FnName(fn)+" | revision conflict marking", "", "no `setReplicaModeNoLock(address, ERR)` over the collected revision counters", nil)
		} else {
			// guard: counter != expected where expected is the running max over the same counters
			var guard string
			for _, ea := range allAtoms(fn, R) {
				s := ea.Atom.String()
				if strings.HasPrefix(s, "+makemap[*] -phi{") && strings.Contains(s, fRepl+"GetRevisionCounter($0.backend,$0.replicas[*].Address)#0") && strings.Contains(s, "| 0 |") && strings.HasSuffix(s, "!=0") {
					guard = s
				}
			}
			if guard == "" {
				c.Bad(rule, FnName(fn)+" | revision conflict marking | guard", c.P.InstrPos(marks[0]), "the ERR marking is not guarded by counter != max(counters)", nil)
			} else {
				c.Guard(rule, fn, marks, "mark lower revision ERR", nil, atom("counter != running maximum", guard))
				// marked unconditionally under that guard
				body := marks[0].Block()
				direct := len(body.Preds) == 1 && atomEdges(fn, R, guard)(body.Preds[0], succIndex(body.Preds[0], body))
				if direct {
					c.OK(rule, FnName(fn)+" | every differing counter is marked", c.P.InstrPos(marks[0]), "marking sits directly on the counter != max edge", true)
				} else {
					c.Bad(rule, FnName(fn)+" | every differing counter is marked", c.P.InstrPos(marks[0]), "marking is additionally conditioned", nil)
				}
			}
			// running max: edge counter > expected
			mx := false
			for _, ea := range allAtoms(fn, R) {
				s := ea.Atom.String()
				if strings.HasPrefix(s, "+"+fRepl+"GetRevisionCounter($0.backend,$0.replicas[*].Address)#0 -phi{") && strings.Contains(s, "| 0 |") && strings.HasSuffix(s, "-1 >=0") {
					mx = true
				}
			}
			if mx {
				c.OK(rule, FnName(fn)+" | expected revision is the maximum", "", "expectedRevision updated on counter > expectedRevision", false)
			} else {
				c.Bad(rule, FnName(fn)+" | expected revision is the maximum", "", "expectedRevision is not the running maximum of the collected counters", nil)
			}
		}
		// success return re-evaluates
		c.Guard(rule, fn, afterSites(fn, firstOr(CallsTo(fn, fCtl+"reset")), nilErrorReturns(fn)), "return nil after start", nil, called(fCtl+"UpdateVolStatus"), called(fCtl+"UpdateCheckpoint"))
	}
	// forgetting the election when the volume goes down: whoever shuts the frontend down because the
	// last replica left, or drops a registration, clears StartSignalled / MaxRevReplica first
	if fn := c.Anchor(rule, fCtl+"RemoveReplicaNoLock"); fn != nil {
		R := NewRenderer(fn)
		sd := CallsTo(fn, "invoke:Shutdown")
		if len(sd) == 0 {
			c.Bad(rule, FnName(fn)+" | frontend shut down with the last replica", "", "RemoveReplicaNoLock no longer shuts the frontend down when the last replica leaves", nil)
		}
		c.Guard(rule, fn, sd, "frontend.Shutdown (last replica left)", nil,
			Need{Desc: "StartSignalled = false", Instr: func(in ssa.Instruction) bool {
				s, ok := in.(*ssa.Store)
				return ok && R.V(s.Addr) == "&$0.StartSignalled" && R.V(s.Val) == "false"
			}},
			Need{Desc: `MaxRevReplica = ""`, Instr: func(in ssa.Instruction) bool {
				s, ok := in.(*ssa.Store)
				return ok && R.V(s.Addr) == "&$0.MaxRevReplica" && R.V(s.Val) == `""`
			}},
			atom("it is the last data replica", "+len($0.replicas) -1 ==0"))
	}
	// the registration that is dropped with a replica is the one whose address maps to it: the
	// registry is keyed by the bare IP, the member list by tcp://<ip>:9502
	if fn := c.P.Fn(fCtl + "RemoveReplicaNoLock"); fn != nil {
		R := NewRenderer(fn)
		n := 0
		for _, m := range []string{"RegisteredReplicas", "RegisteredQuorumReplicas"} {
			for _, d := range CallsTo(fn, "builtin:delete") {
				args := d.(*ssa.Call).Call.Args
				if len(args) != 2 || R.V(args[0]) != "$0."+m {
					continue
				}
				n++
				k := R.V(args[1])
				key := FnName(fn) + " | registration dropped is the removed replica's | " + m
				if k != "key($0."+m+")" {
					c.Bad(rule, key, c.P.InstrPos(d), "the registry entry deleted is "+k+", not an entry found by comparing tcp://<key>:9502 with the removed address (a key computed from the address must undo exactly that mapping; strings.TrimRight / Trim take cut-SETS, not suffixes)", nil)
					continue
				}
				c.Guard(rule, fn, []ssa.Instruction{d}, "delete from "+m, nil, atom("entry belongs to the removed address", eqAtom("$1", `(("tcp://" + key($0.`+m+`)) + ":9502")`)))
			}
		}
		if n < 2 {
			c.Bad(rule, FnName(fn)+" | registration dropped with the replica", "", "RemoveReplicaNoLock must delete the removed replica's entry from RegisteredReplicas and RegisteredQuorumReplicas", nil)
		}
	}
	if fn := c.Anchor(rule, fCtl+"rmReplicaFromRegisteredReplicas"); fn != nil {
		a, b := storesOfConst(fn, "Controller", "StartSignalled", "false"), storesOfConst(fn, "Controller", "MaxRevReplica", `""`)
		if len(a) == 1 && len(b) == 1 {
			c.OK(rule, FnName(fn)+" | clears the election state", c.P.Pos(fn.Pos()), "StartSignalled=false; MaxRevReplica=\"\"", false)
		} else {
			c.Bad(rule, FnName(fn)+" | clears the election state", c.P.Pos(fn.Pos()), "a failed start must clear StartSignalled and MaxRevReplica", nil)
		}
	}
	// forgetting the leader forgets that it was signalled: wherever MaxRevReplica is cleared, every
	// return reached afterwards has passed StartSignalled = false (or it was cleared just before)
	for _, fn := range pkgFuncs(c.P, "controller") {
		clr := storesOfConst(fn, "Controller", "MaxRevReplica", `""`)
		if len(clr) == 0 {
			continue
		}
		sig := storesOfConst(fn, "Controller", "StartSignalled", "false")
		for i, st := range clr {
			st := st
			key := fmt.Sprintf("%s | MaxRevReplica cleared[%d] | StartSignalled cleared with it", FnName(fn), i)
			// cleared before, in the same block
			before := false
			for _, x := range st.Block().Instrs {
				if x == st {
					break
				}
				for _, s2 := range sig {
					if s2 == x {
						before = true
					}
				}
			}
			if before {
				c.OK(rule, key, c.P.InstrPos(st), "StartSignalled = false precedes it in the block", true)
				continue
			}
			ws := Query{Fn: fn, Start: st, IsSite: func(in ssa.Instruction) bool { _, ok := in.(*ssa.Return); return ok },
				Gen: func(in ssa.Instruction) bool {
					for _, s2 := range sig {
						if s2 == in {
							return true
						}
					}
					return false
				}}.Run()
			if len(ws) == 0 {
				c.OK(rule, key, c.P.InstrPos(st), "every return after the store passes StartSignalled = false", true)
			} else {
				c.Bad(rule, key, c.P.InstrPos(st), "the leader is forgotten but StartSignalled stays true: the next registrant takes the 'signalled to start again' branch, which skips the majority check", c.witness(ws[0]))
			}
		}
	}
	c.Floor(rule, 26)
}

func firstOr(xs []ssa.Instruction) ssa.Instruction {
	if len(xs) == 0 {
		return nil
	}
	return xs[0]
}

// afterSites: those of sites that are reachable from start.
func afterSites(fn *ssa.Function, start ssa.Instruction, sites []ssa.Instruction) []ssa.Instruction {
	if start == nil {
		return nil
	}
	set := map[ssa.Instruction]bool{}
	for _, s := range sites {
		set[s] = true
	}
	var out []ssa.Instruction
	for _, w := range reachableFrom(start, func(in ssa.Instruction) bool { return set[in] }) {
		out = append(out, w.Site)
	}
	return out
}

// ---------------------------------------------------------------------------
// C13 (controller part)
// ---------------------------------------------------------------------------

func ruleC13Ctl(c *Ctx) {
	const rule = "C13-SNAP"
	c.Doc(rule, "Controller.Snapshot: the fan-out is cut off by c.Lock() (no release) and RWReplicaCount==ReplicationFactor; replicator.Snapshot: one backend.Snapshot(name,userCreated,created) per non-ERR backend with the caller's arguments, wg.Wait before return, failures returned; UpdateCheckpoint: Checkpoint is non-empty only when rw==RF, GetLatestSnapshot ok and SetCheckpoint ok; GetLatestSnapshot: chain[1] of every RW chain must agree and chains of all backends were fetched; SetCheckpoint: nil only if every backend stored it")
	if fn := c.Anchor(rule, fCtl+"Snapshot"); fn != nil {
		sites := CallsTo(fn, fRepl+"Snapshot")
		c.Guard(rule, fn, sites, "snapshot fan-out", lockOrUnlock,
			needWLock("controller write lock taken"),
			atom("all RF replicas are RW", "+$0.RWReplicaCount -$0.ReplicationFactor ==0"))
		R := NewRenderer(fn)
		for _, s := range sites {
			a := s.(*ssa.Call).Call.Args
			if R.V(a[2]) == "true" {
				c.OK(rule, FnName(fn)+" | user-created flag", c.P.InstrPos(s), "volume snapshot is recorded as user-created", false)
			} else {
				c.Bad(rule, FnName(fn)+" | user-created flag", c.P.InstrPos(s), "volume snapshot not marked user-created (reclamation may thin it)", nil)
			}
			// result goes through handleErrorNoLock
			used := false
			for _, r := range *s.(*ssa.Call).Referrers() {
				if ci, ok := r.(*ssa.Call); ok && callMatches(ci, fCtl+"handleErrorNoLock") {
					used = true
				}
			}
			if used {
				c.OK(rule, FnName(fn)+" | failures handled", c.P.InstrPos(s), "per-replica snapshot failures go to handleErrorNoLock", false)
			} else {
				c.Bad(rule, FnName(fn)+" | failures handled", c.P.InstrPos(s), "result of the snapshot fan-out is not passed to handleErrorNoLock (a replica that missed the snapshot stays RW)", nil)
			}
		}
	}
	if fn := c.Anchor(rule, fRepl+"Snapshot"); fn != nil {
		R := NewRenderer(fn)
		var rets []ssa.Instruction
		for _, r := range Returns(fn) {
			rets = append(rets, r)
		}
		c.Guard(rule, fn, rets, "return", nil, called("(*sync.WaitGroup).Wait"))
		c.Guard(rule, fn, nilErrorReturns(fn), "return nil", nil, errorsEmpty(fn, "no per-replica failure recorded"))
		fanoutErrorType(c, rule, fn)
		var gos []ssa.Instruction
		eachInstr(fn, func(in ssa.Instruction) {
			if _, ok := in.(*ssa.Go); ok {
				gos = append(gos, in)
			}
		})
		c.Guard(rule, fn, gos, "go snapshot", nil, atom("backend not ERR", `+"ERR" -$0.backends[*].mode !=0`))
		for _, g := range gos {
			ctl := controlAtoms(fn, R, g.Block())
			extra := []string{}
			for _, a := range ctl {
				if a != `+"ERR" -$0.backends[*].mode !=0` && !strings.HasPrefix(a, "more(") {
					extra = append(extra, a)
				}
			}
			if len(extra) > 0 {
				c.Bad(rule, FnName(fn)+" | fan-out to every non-ERR backend", c.P.InstrPos(g), "fan-out additionally restricted by "+strings.Join(extra, ";"), nil)
			} else {
				c.OK(rule, FnName(fn)+" | fan-out to every non-ERR backend", c.P.InstrPos(g), "every non-ERR backend receives the snapshot", true)
			}
			if mc, ok := g.(*ssa.Go).Call.Value.(*ssa.MakeClosure); ok {
				cl := mc.Fn.(*ssa.Function)
				CR := NewRenderer(cl)
				ops := CallsTo(cl, "invoke:Snapshot")
				if len(ops) == 1 && CR.V(ops[0].(*ssa.Call)) == "invoke.Snapshot($1,^$1,^$2,^$3)" {
					c.OK(rule, FnName(cl)+" | same arguments to every replica", c.P.InstrPos(ops[0]), "backend.Snapshot(name, userCreated, created) with the caller's values", false)
				} else {
					c.Bad(rule, FnName(cl)+" | same arguments to every replica", c.P.InstrPos(g), "goroutine does not forward (name, userCreated, created) unchanged", nil)
				}
				if len(ops) == 1 {
					_, nonNil := nilTestEdges(cl, errOfCall(ops[0]))
					ws := afterEdge(cl, nonNil, func(in ssa.Instruction) bool {
						mu, ok := in.(*ssa.MapUpdate)
						return ok && CR.V(mu.Key) == "$0"
					}, nil, func(in ssa.Instruction) bool { _, ok := in.(*ssa.Return); return ok })
					if len(ws) == 0 {
						c.OK(rule, FnName(cl)+" | failure recorded under the address", c.P.InstrPos(ops[0]), "retError.Errors[address] = err", true)
					} else {
						c.Bad(rule, FnName(cl)+" | failure recorded under the address", c.P.InstrPos(ops[0]), "a failed per-replica snapshot is not recorded", c.witness(ws[0]))
					}
				}
				var crets []ssa.Instruction
				for _, r := range Returns(cl) {
					crets = append(crets, r)
				}
				c.Guard(rule, cl, crets, "goroutine exit", nil, called("(*sync.WaitGroup).Done"))
			}
		}
	}
	if fn := c.Anchor(rule, fCtl+"UpdateCheckpoint"); fn != nil {
		R := NewRenderer(fn)
		st := StoresTo(fn, "Controller", "Checkpoint")
		if len(st) != 1 {
			c.Bad(rule, FnName(fn)+" | store to Checkpoint", "", fmt.Sprintf("expected one store to c.Checkpoint, found %d", len(st)), nil)
		} else {
			v := strip(st[0].(*ssa.Store).Val)
			latest := fRepl + "GetLatestSnapshot($0.backend)"
			setck := fRepl + "SetCheckpoint($0.backend," + latest + "#0)"
			p, isPhi := v.(*ssa.Phi)
			good := isPhi
			if isPhi {
				for _, e := range allPhiEdges(p) {
					s := R.V(e.val)
					if s == `""` {
						continue
					}
					if s != latest+"#0" {
						good = false
						continue
					}
					// the edge must come from a block controlled by rw==RF, latest ok, setcheckpoint ok
					ctl := strings.Join(controlAtoms(fn, R, e.from), " ; ")
					for _, want := range []string{"+$0.ReplicationFactor -" + rwCntD + " ==0", "+" + latest + "#1 -nil ==0", "+" + setck + " -nil ==0"} {
						if !strings.Contains(ctl, want) {
							good = false
							c.Bad(rule, FnName(fn)+" | checkpoint set only if "+want, c.P.InstrPos(st[0]), "c.Checkpoint can receive the latest snapshot without the fact "+want, nil)
						} else {
							c.OK(rule, FnName(fn)+" | checkpoint set only if "+want, c.P.InstrPos(st[0]), "non-empty checkpoint edge is controlled by "+want, true)
						}
					}
				}
			}
			if !good {
				c.Bad(rule, FnName(fn)+" | checkpoint value", c.P.InstrPos(st[0]), "c.Checkpoint must be \"\" or the agreed latest snapshot: got "+R.V(v), nil)
			}
			var rets []ssa.Instruction
			for _, r := range Returns(fn) {
				rets = append(rets, r)
			}
			c.Guard(rule, fn, rets, "return", nil, Need{Desc: "c.Checkpoint assigned", Instr: func(in ssa.Instruction) bool { return in == st[0] }})
		}
	}
	if fn := c.Anchor(rule, fRepl+"GetLatestSnapshot"); fn != nil {
		R := NewRenderer(fn)
		okRets := successReturns(fn)
		c.Guard(rule, fn, okRets, "return snapshot,nil", nil,
			called("(*sync.WaitGroup).Wait"),
			errorsEmpty(fn, "no fetch failed"),
			atom("a chain from every backend", "+len($0.backends) -len(makemap) ==0"))
		// the agreement loop over the collected chains: in this function, or in a helper that is
		// handed the map of chains (its call then sits behind the three facts above, being returned)
		exec, ER, M := fn, R, "makemap"
		hasAgree := func(f *ssa.Function, FR *Renderer, m string) bool {
			for _, ea := range allAtoms(f, FR) {
				s := ea.Atom.String()
				if strings.HasPrefix(s, "+"+m+"[*][+1] -phi{") && strings.HasSuffix(s, "!=0") {
					return true
				}
			}
			return false
		}
		if !hasAgree(fn, R, M) {
			eachInstr(fn, func(in ssa.Instruction) {
				cl, ok := in.(*ssa.Call)
				if !ok || exec != fn {
					return
				}
				h := cl.Call.StaticCallee()
				if h == nil || h.Blocks == nil || !isJivaFn(h) || h == fn {
					return
				}
				for k, a := range callArgs(R, cl) {
					HR := NewRenderer(h)
					if a == "makemap" && hasAgree(h, HR, fmt.Sprintf("$%d", k)) {
						exec, ER, M = h, HR, fmt.Sprintf("$%d", k)
						c.Guard(rule, fn, []ssa.Instruction{in}, "agreement check by "+FnName(h), nil,
							called("(*sync.WaitGroup).Wait"),
							errorsEmpty(fn, "no fetch failed"),
							atom("a chain from every backend", "+len($0.backends) -len(makemap) ==0"))
						// its verdict is what the function returns
						for _, r := range okRets {
							rr := r.(*ssa.Return)
							if ex, ok := strip(rr.Results[len(rr.Results)-1]).(*ssa.Extract); !ok || ex.Tuple != ssa.Value(cl) {
								c.Bad(rule, FnName(fn)+" | returns the helper's verdict", c.P.InstrPos(r), "a success return does not forward the error of "+FnName(h), nil)
							}
						}
					}
				}
			})
		}
		execOK := nilErrorReturns(exec)
		agree, short := false, false
		for _, ea := range allAtoms(exec, ER) {
			s := ea.Atom.String()
			if strings.HasPrefix(s, "+"+M+"[*][+1] -phi{") && strings.HasSuffix(s, "!=0") {
				agree = true
				// that edge must lead only to error returns
				ws := afterEdge(exec, func(b *ssa.BasicBlock, k int) bool { return b == ea.B && k == ea.Succ }, nil, nil, func(in ssa.Instruction) bool {
					for _, r := range execOK {
						if r == in {
							return true
						}
					}
					return false
				})
				succ := ea.B.Succs[ea.Succ]
				if r, ok := succ.Instrs[len(succ.Instrs)-1].(*ssa.Return); ok && provablyNonNilError(r.Results[1]) {
					c.OK(rule, FnName(fn)+" | disagreement on chain[1] is an error", c.P.InstrPos(r), "snapName != chain[1] returns an error", true)
				} else {
					c.Bad(rule, FnName(fn)+" | disagreement on chain[1] is an error", "", "replicas disagreeing on their latest snapshot do not produce an error", c.witnessOr(ws))
				}
			}
			if s == "-len("+M+"[*]) +1 >=0" {
				short = true
			}
		}
		if !agree {
			c.Bad(rule, FnName(fn)+" | disagreement on chain[1] is an error", "", "no comparison of chain[1] across replicas", nil)
		}
		if short {
			c.OK(rule, FnName(fn)+" | chain without snapshot is an error", "", "len(chain) <= 1 guarded", false)
		} else {
			c.Bad(rule, FnName(fn)+" | chain without snapshot is an error", "", "missing len(chain) <= 1 guard before chain[1]", nil)
		}
		var gos []ssa.Instruction
		eachInstr(fn, func(in ssa.Instruction) {
			if _, ok := in.(*ssa.Go); ok {
				gos = append(gos, in)
			}
		})
		c.Guard(rule, fn, gos, "go fetch chain", nil, atom("backend is RW", `+"RW" -$0.backends[*].mode ==0`))
	}
	if fn := c.Anchor(rule, fRepl+"SetCheckpoint"); fn != nil {
		c.Guard(rule, fn, nilErrorReturns(fn), "return nil", nil,
			called("(*sync.WaitGroup).Wait"),
			errorsEmpty(fn, "no store failed"),
			atomMatching(fn, "every backend stored it", `^\+len\(\$0\.backends\) -(var\(int[#0-9]*\)|[^ ]*complit[^ ]*) ==0$`))
	}
	c.Floor(rule, 20)
}

// fanoutErrorType: a fan-out's failure must be returned as the *BackendError that names the failed
// replicas (handleErrorNoLock only understands that type); wrapping it hides them.
func fanoutErrorType(c *Ctx, rule string, fn *ssa.Function) {
	for _, r := range Returns(fn) {
		ei := errResultIndex(fn)
		if ei < 0 {
			continue
		}
		v := r.Results[ei]
		if isNilConst(strip(v)) {
			continue
		}
		key := FnName(fn) + " | failure returned as *BackendError"
		var isBE func(v ssa.Value, d int) bool
		isBE = func(v ssa.Value, d int) bool {
			if isNilConst(strip(v)) {
				return true
			}
			if mi, ok := v.(*ssa.MakeInterface); ok {
				return strings.HasSuffix(mi.X.Type().String(), "controller.BackendError")
			}
			if p, ok := v.(*ssa.Phi); ok && d < 4 {
				for _, e := range p.Edges {
					if !isBE(e, d+1) {
						return false
					}
				}
				return true
			}
			// a function with a defer returns through result cells: every value stored there
			if ld, ok := v.(*ssa.UnOp); ok && ld.Op == token.MUL && d < 4 {
				if al, ok := ld.X.(*ssa.Alloc); ok && al.Referrers() != nil {
					n := 0
					for _, ref := range *al.Referrers() {
						switch x := ref.(type) {
						case *ssa.Store:
							if x.Addr != ssa.Value(al) || !isBE(x.Val, d+1) {
								return false
							}
							n++
						case *ssa.UnOp, *ssa.DebugRef:
						default:
							return false
						}
					}
					return n > 0
				}
			}
			return false
		}
		if isBE(v, 0) {
			c.OK(rule, key, c.P.InstrPos(r), "per-replica failures reach handleErrorNoLock", false)
		} else {
			// Snapshot / Resize have no refusal of their own: every failure they report is a per-replica one
			c.Bad(rule, key, c.P.InstrPos(r), "the fan-out reports a failure as "+NewRenderer(fn).V(v)+" instead of the *BackendError naming the failed replicas: handleErrorNoLock cannot mark them ERR and a replica that missed the operation stays RW", nil)
		}
	}
}

func (c *Ctx) witnessOr(ws []Witness) []string {
	if len(ws) == 0 {
		return nil
	}
	return c.witness(ws[0])
}

// ---------------------------------------------------------------------------
// C16 (controller part), C19 (controller part)
// ---------------------------------------------------------------------------

func ruleC16Ctl(c *Ctx) {
	const rule = "C16-CTRL"
	// one unit system end to end: sizes are parsed with units.RAMInBytes (binary: 1k = 1024) by
	// controller and replica; the remote backend hands the request's size string on unchanged
	for _, fn := range prodFns(c.P) {
		for _, in := range AnyCallsTo(fn, "github.com/docker/go-units.FromHumanSize") {
			c.Bad(rule, FnName(fn)+" | decimal size units", c.P.InstrPos(in), "units.FromHumanSize counts 1k = 1000; controller and replica would disagree on the size of the volume (the rest of the code uses units.RAMInBytes)", nil)
		}
	}
	if rf := c.Anchor(rule, "(*backend/remote.Remote).Resize"); rf != nil {
		R := NewRenderer(rf)
		okFwd := false
		eachInstr(rf, func(in ssa.Instruction) {
			if mu, ok := in.(*ssa.MapUpdate); ok && R.V(mu.Key) == `"size"` {
				okFwd = R.V(mu.Value) == "$2"
			}
		})
		if okFwd {
			c.OK(rule, FnName(rf)+" | size forwarded unchanged", c.P.Pos(rf.Pos()), `"size": size`, false)
		} else {
			c.Bad(rule, FnName(rf)+" | size forwarded unchanged", c.P.Pos(rf.Pos()), "the resize request sent to the replica does not carry the caller's size string as it is", nil)
		}
	}
	c.Doc(rule, "Controller.Resize: the backend resize is cut off by name==c.Name and newSize-c.size-1>=0 under the controller lock; c.size=newSize is cut off by success of the backend resize (through handleErrorNoLock) and of frontend.Resize")
	fn := c.Anchor(rule, fCtl+"Resize")
	if fn == nil {
		return
	}
	// the parsed request size: with or without the "empty string counts as 0" default
	sz := "phi{0 | github.com/docker/go-units.RAMInBytes($2)#0}"
	for _, s := range StoresTo(fn, "Controller", "size") {
		if v := NewRenderer(fn).V(s.(*ssa.Store).Val); v == "github.com/docker/go-units.RAMInBytes($2)#0" {
			sz = v
		}
	}
	c.Guard(rule, fn, CallsTo(fn, fRepl+"Resize"), "backend.Resize", lockOrUnlock,
		needWLock("controller write lock taken"),
		atom("volume name matches", "+$0.Name -$1 ==0"),
		atom("size parsed", `+"" -$2 ==0`, "+github.com/docker/go-units.RAMInBytes($2)#1 -nil ==0"),
		atom("new size >= old size", "-$0.size +"+sz+" >=0"),
		atom("new size != old size", "+$0.size -"+sz+" !=0"))
	st := StoresTo(fn, "Controller", "size")
	c.Guard(rule, fn, st, "c.size = new", nil,
		atom("replicas resized", "+"+fCtl+"handleErrorNoLock($0,"+fRepl+"Resize($0.backend,$1,$2)) -nil ==0"),
		atom("frontend resized (or absent)", "+$0.frontend -nil ==0", "+invoke.Resize($0.frontend,"+sz+") -nil ==0"))
	R := NewRenderer(fn)
	for _, s := range st {
		if v := R.V(s.(*ssa.Store).Val); v != sz {
			c.Bad(rule, FnName(fn)+" | stored size", c.P.InstrPos(s), "c.size receives "+v+", expected the parsed request size", nil)
		} else {
			c.OK(rule, FnName(fn)+" | stored size", c.P.InstrPos(s), "c.size = sizeInBytes", false)
		}
	}
	c.Guard(rule, fn, nilErrorReturns(fn), "return nil", nil, Need{Desc: "c.size updated", Instr: func(in ssa.Instruction) bool {
		for _, s := range st {
			if s == in {
				return true
			}
		}
		return false
	}})
	if f := c.Anchor(rule, fRepl+"Resize"); f != nil {
		var gos []ssa.Instruction
		eachInstr(f, func(in ssa.Instruction) {
			if _, ok := in.(*ssa.Go); ok {
				gos = append(gos, in)
			}
		})
		c.Guard(rule, f, gos, "go resize", nil, atom("backend not ERR", `+"ERR" -$0.backends[*].mode !=0`))
		c.Guard(rule, f, nilErrorReturns(f), "return nil", nil, called("(*sync.WaitGroup).Wait"), errorsEmpty(f, "no replica failed"))
		fanoutErrorType(c, rule, f)
	}
	c.Floor(rule, 12)
}

func ruleC19Promote(rule string) ruleFn {
	return func(c *Ctx) {
		c.Doc(rule, "addReplicaDuringStartNoLock: backend.SetReplicaMode(RW) and setReplicaModeNoLock(RW) are cut off by a successful GetCloneStatus whose value is none of \"\", \"inProgress\", \"error\"; the error status removes the replica and returns an error; the replica was admitted through addReplicaNoLock (WO)")
		fn := c.Anchor(rule, fCtl+"addReplicaDuringStartNoLock")
		if fn == nil {
			return
		}
		R := NewRenderer(fn)
		gs := fRepl + "GetCloneStatus($0.backend,$1)"
		var sites []ssa.Instruction
		for _, s := range CallsTo(fn, fRepl+"SetReplicaMode", fCtl+"setReplicaModeNoLock") {
			sites = append(sites, s)
		}
		c.Guard(rule, fn, sites, "promote at start", nil,
			func() Need { n := okcall(fCtl + "addReplicaNoLock"); n.Desc = "admitted in WO first"; return n }(),
			atom("clone status read", "+"+gs+"#1 -nil ==0"),
			atom("status not empty", `+"" -`+gs+"#0 !=0"),
			atom("status not inProgress", `+"inProgress" -`+gs+"#0 !=0"),
			atom("status not error", `+"error" -`+gs+"#0 !=0"))
		// setReplicaModeNoLock(RW) after success of backend.SetReplicaMode(RW)
		c.Guard(rule, fn, CallsTo(fn, fCtl+"setReplicaModeNoLock"), "controller-side promotion", nil,
			atom("replica accepted RW", "+"+fRepl+`SetReplicaMode($0.backend,$1,"RW") -nil ==0`))
		// error status => removal + error return
		for _, e := range []string{`+"error" -` + gs + "#0 ==0", "+" + gs + "#1 -nil !=0"} {
			ws := afterEdge(fn, atomEdges(fn, R, e), func(in ssa.Instruction) bool { return callRender(R, in) == fCtl+"RemoveReplicaNoLock($0,$1)" }, nil,
				func(in ssa.Instruction) bool { _, ok := in.(*ssa.Return); return ok })
			key := FnName(fn) + " | " + e + " | replica removed"
			if len(ws) == 0 {
				c.OK(rule, key, "", "failed clone: replica removed before returning", true)
			} else {
				c.Bad(rule, key, "", "a failed clone (or unreadable status) does not remove the replica", c.witness(ws[0]))
			}
			// and returns non-nil error: no nil-error return after that edge
			ws = afterEdge(fn, atomEdges(fn, R, e), nil, nil, func(in ssa.Instruction) bool {
				for _, r := range successReturns(fn) {
					if r == in {
						return true
					}
				}
				return false
			})
			key = FnName(fn) + " | " + e + " | error returned"
			if len(ws) == 0 {
				c.OK(rule, key, "", "failed clone is reported as an error", true)
			} else {
				c.Bad(rule, key, "", "a failed clone can be reported as success", c.witness(ws[0]))
			}
		}
		c.Floor(rule, 14)
	}
}

var _ = types.Typ

// loopHeaderOf: the header block of the innermost range/for loop that contains b (the nearest
// block, walking predecessors, whose comment marks a loop head).
func loopHeaderOf(b *ssa.BasicBlock) *ssa.BasicBlock {
	seen := map[*ssa.BasicBlock]bool{}
	work := []*ssa.BasicBlock{b}
	for len(work) > 0 {
		x := work[0]
		work = work[1:]
		if seen[x] {
			continue
		}
		seen[x] = true
		if x.Comment == "rangeindex.loop" || x.Comment == "rangeiter.loop" || x.Comment == "for.loop" {
			return x
		}
		work = append(work, x.Preds...)
	}
	return nil
}

// admitted: "canAdd(addr) admitted the replica" as seen from a caller fn: the true edge of the
// boolean verdict, or (when canAdd only reports an error) the success edge of the call.
func (c *Ctx) admitted(fn *ssa.Function, desc, addr string) Need {
	h := c.P.Fn(fCtl + "canAdd")
	if h != nil && boolResultIndex(h) < 0 {
		R := NewRenderer(fn)
		return Need{Desc: desc, Edge: okOf(fn, R, fCtl+"canAdd", "($0,"+addr+")").Edge}
	}
	return atom(desc, fCtl+"canAdd($0,"+addr+")#0")
}

// isLoopHeader: some predecessor of b is reachable from b (b heads a cycle).
func isLoopHeader(b *ssa.BasicBlock) bool {
	seen := map[*ssa.BasicBlock]bool{}
	var stack []*ssa.BasicBlock
	stack = append(stack, b.Succs...)
	for len(stack) > 0 {
		x := stack[len(stack)-1]
		stack = stack[:len(stack)-1]
		if seen[x] {
			continue
		}
		seen[x] = true
		stack = append(stack, x.Succs...)
	}
	for _, p := range b.Preds {
		if seen[p] {
			return true
		}
	}
	return false
}

// pointsIntoSlice: the address is (a field of) an element of a slice in place - `&s[i]`, possibly
// held in a local pointer variable - as opposed to a local copy of the element.
func pointsIntoSlice(a ssa.Value, d int) bool {
	if d > 4 {
		return false
	}
	switch x := a.(type) {
	case *ssa.FieldAddr:
		return pointsIntoSlice(x.X, d+1)
	case *ssa.IndexAddr:
		return true
	case *ssa.Phi:
		for _, e := range x.Edges {
			if pointsIntoSlice(e, d+1) {
				return true
			}
		}
	case *ssa.UnOp:
		// a pointer variable: some store puts an element address there
		if al, ok := x.X.(*ssa.Alloc); ok && x.Op == token.MUL && al.Referrers() != nil {
			for _, ref := range *al.Referrers() {
				if st, ok := ref.(*ssa.Store); ok && st.Addr == ssa.Value(al) && pointsIntoSlice(st.Val, d+1) {
					return true
				}
			}
		}
	}
	return false
}
