package main

import (
	"encoding/json"
	"fmt"
	"os"
	"path/filepath"
	"sort"
	"strings"
	"time"

	"golang.org/x/tools/go/ssa"
)

// Obl is one obligation: (rule, construct key) with its verdict.
type Obl struct {
	Rule       string   `json:"rule"`
	Key        string   `json:"key"`
	Status     string   `json:"status"` // discharged | violated | undecided | known
	Where      string   `json:"where,omitempty"`
	Detail     string   `json:"detail,omitempty"`
	Witness    []string `json:"witness,omitempty"`
	Nontrivial bool     `json:"nontrivial"`
}

type Finding struct {
	Property string `json:"property"`
	Rule     string `json:"rule"`
	Key      string `json:"key"`
	Status   string `json:"status"` // open | fixed
	Commit   string `json:"commit,omitempty"`
	What     string `json:"what"`
}

type Ctx struct {
	P        *Prog
	Prop     string
	Tier     string
	Obls     []*Obl
	seen     map[string]*Obl
	count    map[string]int
	ruleDocs map[string]string
	findings []Finding
	curRule  string
}

func newCtx(P *Prog, prop, tier string, findings []Finding) *Ctx {
	return &Ctx{P: P, Prop: prop, Tier: tier, seen: map[string]*Obl{}, count: map[string]int{}, ruleDocs: map[string]string{}, findings: findings}
}

func (c *Ctx) Doc(rule, doc string) { c.ruleDocs[rule] = doc }

func (c *Ctx) add(o *Obl) *Obl {
	k := o.Rule + "\x00" + o.Key
	if p, ok := c.seen[k]; ok {
		// same construct key twice: disambiguate by ordinal
		n := 2
		for {
			k2 := fmt.Sprintf("%s#%d", o.Key, n)
			if _, ok := c.seen[o.Rule+"\x00"+k2]; !ok {
				o.Key = k2
				k = o.Rule + "\x00" + k2
				break
			}
			n++
		}
		_ = p
	}
	c.seen[k] = o
	c.Obls = append(c.Obls, o)
	c.count[o.Rule]++
	return o
}

func (c *Ctx) OK(rule, key, where, detail string, nontrivial bool) {
	c.add(&Obl{Rule: rule, Key: key, Status: "discharged", Where: where, Detail: detail, Nontrivial: nontrivial})
}

func (c *Ctx) Bad(rule, key, where, detail string, witness []string) {
	c.add(&Obl{Rule: rule, Key: key, Status: "violated", Where: where, Detail: detail, Witness: witness, Nontrivial: true})
}

func (c *Ctx) Undecided(rule, key, where, detail string) {
	c.add(&Obl{Rule: rule, Key: key, Status: "undecided", Where: where, Detail: detail, Nontrivial: true})
}

// Anchor resolves a nominal function anchor; records a failure if absent.
func (c *Ctx) Anchor(rule, name string) *ssa.Function {
	f := c.P.Fn(name)
	if f == nil {
		c.Undecided(rule, "anchor "+name, "", "unresolved anchor: function "+name+" not found (renamed or removed mechanism must be re-confirmed)")
	}
	return f
}

// Floor: vacuity guard — the rule must have produced at least n obligations.
func (c *Ctx) Floor(rule string, n int) {
	if c.count[rule] < n {
		c.Undecided(rule, "vacuity-floor", "", fmt.Sprintf("rule matched %d < %d instances confirmed by hand: anchor moved or rule blind", c.count[rule], n))
	}
}

func (c *Ctx) witness(w Witness) []string {
	var out []string
	for _, b := range w.Path {
		pos := "?"
		for _, in := range b.Instrs {
			if in.Pos().IsValid() {
				pos = c.P.Pos(in.Pos())
				break
			}
		}
		out = append(out, fmt.Sprintf("b%d(%s)@%s", b.Index, b.Comment, pos))
	}
	if len(out) > 24 {
		out = append(out[:12], append([]string{"…"}, out[len(out)-11:]...)...)
	}
	return out
}

func loadFindings(path string) ([]Finding, error) {
	b, err := os.ReadFile(path)
	if err != nil {
		if os.IsNotExist(err) {
			return nil, nil
		}
		return nil, err
	}
	var doc struct {
		Findings []Finding `json:"findings"`
	}
	if err := json.Unmarshal(b, &doc); err != nil {
		return nil, err
	}
	return doc.Findings, nil
}

// finish applies the known-findings file, prints the verdict lines, writes evidence.
func (c *Ctx) finish(verifDir string, seed int, start time.Time, explanation string, assumptions []string, extra map[string]interface{}) int {
	violations := 0
	known := 0
	var vio []*Obl
	for _, o := range c.Obls {
		if o.Status == "violated" || o.Status == "undecided" {
			matched := false
			for _, f := range c.findings {
				if f.Status == "open" && f.Property == c.Prop && f.Rule == strings.TrimSuffix(o.Rule, "[tags=debug]") && f.Key == o.Key {
					matched = true
					fmt.Printf("KNOWN-FINDING: property=%s %s %s — %s\n", c.Prop, o.Rule, o.Key, f.What)
					break
				}
			}
			if matched {
				o.Status = "known"
				known++
			} else {
				violations++
				vio = append(vio, o)
			}
		}
	}
	evDir := filepath.Join(verifDir, "evidence")
	os.MkdirAll(evDir, 0o755)
	vdir := filepath.Join(evDir, c.Prop+".violations")
	os.RemoveAll(vdir)
	for i, o := range vio {
		os.MkdirAll(vdir, 0o755)
		p := filepath.Join(vdir, fmt.Sprintf("%d.json", i+1))
		rep := map[string]interface{}{
			"property": c.Prop, "rule": o.Rule, "key": o.Key, "status": o.Status, "where": o.Where,
			"detail": o.Detail, "witness": o.Witness, "rule_doc": c.ruleDocs[o.Rule],
			"replay": fmt.Sprintf("%s/bin/jivacheck -property %s -explain %s", verifDir, c.Prop, p),
		}
		b, _ := json.MarshalIndent(rep, "", " ")
		os.WriteFile(p, b, 0o644)
		fmt.Printf("VIOLATION property=%s replay=%s\n", c.Prop, p)
		fmt.Printf("  %s [%s] %s: %s\n", o.Rule, o.Status, o.Where, o.Detail)
		fmt.Printf("  construct: %s\n", o.Key)
		if len(o.Witness) > 0 {
			fmt.Printf("  witness path: %s\n", strings.Join(o.Witness, " -> "))
		}
	}
	// evidence
	total := len(c.Obls)
	discharged := 0
	nontriv := map[string]bool{}
	perRule := map[string]int{}
	for _, o := range c.Obls {
		perRule[o.Rule]++
		if o.Status == "discharged" {
			discharged++
		}
		if o.Nontrivial {
			nontriv[o.Rule+"|"+o.Key] = true
		}
	}
	var samples []interface{}
	seenRule := map[string]int{}
	for _, o := range c.Obls {
		if seenRule[o.Rule] < 2 && len(samples) < 24 {
			seenRule[o.Rule]++
			samples = append(samples, o)
		}
	}
	var rules []string
	for r := range perRule {
		rules = append(rules, r)
	}
	sort.Strings(rules)
	ruleDocs := map[string]string{}
	for _, r := range rules {
		ruleDocs[r] = c.ruleDocs[r]
	}
	var knownList []string
	for _, o := range c.Obls {
		if o.Status == "known" {
			knownList = append(knownList, o.Rule+" "+o.Key)
		}
	}
	cov := map[string]interface{}{
		"explanation":         explanation,
		"evaluations":         total,
		"distinct_nontrivial": len(nontriv),
		"rule":                "one evaluation = one obligation (rule id, construct key) decided on the resolved program; non-trivial = required a path / dominance / dataflow computation over the function's CFG or the call graph (counted per obligation, not assumed)",
		"obligations":         total,
		"discharged":          discharged,
		"known_findings":      knownList,
		"samples":             samples,
		"rule_instances":      perRule,
		"rules":               ruleDocs,
		"packages":            c.P.NumPkgs,
		"functions":           len(c.P.AllFns),
		"callgraph_nodes":     len(c.P.CG.Nodes),
		"config":              map[string]string{"tags": c.P.Tags, "repo": c.P.RepoDir},
		"checker_cmd":         fmt.Sprintf("%s/bin/jivacheck -property %s -tier %s", verifDir, c.Prop, c.Tier),
		"exhaustive":          false,
	}
	for k, v := range extra {
		cov[k] = v
	}
	ev := map[string]interface{}{
		"property_id": c.Prop,
		"tier":        c.Tier,
		"seed":        seed,
		"level":       "other",
		"coverage":    cov,
		"assumptions": assumptions,
		"wall_s":      time.Since(start).Seconds(),
		"violations":  violations,
	}
	b, _ := json.MarshalIndent(ev, "", " ")
	if err := os.WriteFile(filepath.Join(evDir, c.Prop+".json"), b, 0o644); err != nil {
		fmt.Fprintf(os.Stderr, "cannot write evidence: %v\n", err)
		return 1
	}
	fmt.Printf("%s tier=%s: %d obligations, %d discharged, %d known findings, %d violations; %d packages, %d functions, %d call-graph nodes (%.1fs)\n",
		c.Prop, c.Tier, total, discharged, known, violations, c.P.NumPkgs, len(c.P.AllFns), len(c.P.CG.Nodes), time.Since(start).Seconds())
	for _, r := range rules {
		fmt.Printf("  %-22s %3d instances\n", r, perRule[r])
	}
	if violations > 0 {
		return 1
	}
	return 0
}
