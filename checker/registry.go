package main

func init() {
	registry["C01"] = &propSpec{
		Rules:       []ruleFn{ruleC01Range},
		Explanation: "tbd",
		NotDecided:  "tbd",
	}
	registry["C02"] = &propSpec{
		Rules:       []ruleFn{ruleC02Majority, ruleC02WaitAll, ruleC02Decode, ruleDetach("C02-DETACH"), ruleBuildRW("C02-WRITERS"), ruleIndexMapUse("C02-INDEXMAP")},
		Explanation: "tbd",
		NotDecided:  "tbd",
	}
}
