package main

func init() {
	registry["C01"] = &propSpec{
		Rules:       []ruleFn{ruleC01Range, ruleC01Head},
		Explanation: "tbd",
		NotDecided:  "tbd",
	}
	registry["C02"] = &propSpec{
		Rules:       []ruleFn{ruleC02Majority, ruleC02WaitAll, ruleC02Decode, ruleDetach("C02-DETACH"), ruleBuildRW("C02-WRITERS"), ruleIndexMapUse("C02-INDEXMAP")},
		Explanation: "tbd",
		NotDecided:  "tbd",
	}
	registry["C03"] = &propSpec{Rules: []ruleFn{ruleC03Thresh, ruleC03Gate, ruleFresh("C03-FRESH", fCtl+"UpdateVolStatus")}, Explanation: "tbd", NotDecided: "tbd"}
	registry["C04"] = &propSpec{Rules: []ruleFn{ruleBuildRW("C04-READERS"), ruleC04Lists("C04-LISTS"), ruleIndexMapUse("C04-READSRC"), ruleC04Verify("C04-VERIFY"), ruleC04Promote("C04-PROMOTE"), ruleC04ReadGate}, Explanation: "tbd", NotDecided: "tbd"}
	registry["C05"] = &propSpec{Rules: []ruleFn{ruleDetach("C05-DETACH"), ruleC05Monitor("C05-MONITOR"), ruleC04Lists("C05-STOPIO"), ruleC05Ping("C05-PING"), ruleC15Client, ruleC02Majority, ruleIndexMapUse("C05-INDEXMAP")}, Explanation: "tbd", NotDecided: "tbd"}
	registry["C07"] = &propSpec{Rules: []ruleFn{ruleC07AddOrder("C07-ADD-ORDER"), ruleC07Merge, ruleC07Sync, ruleCanAdd("C07-ONE-WO"), ruleC04Verify("C07-VERIFY")}, Explanation: "tbd", NotDecided: "tbd"}
	registry["C09"] = &propSpec{Rules: []ruleFn{ruleC09}, Explanation: "tbd", NotDecided: "tbd"}
	registry["C13"] = &propSpec{Rules: []ruleFn{ruleC13Ctl, ruleFresh("C13-FRESH", fCtl+"UpdateCheckpoint")}, Explanation: "tbd", NotDecided: "tbd"}
	registry["C16"] = &propSpec{Rules: []ruleFn{ruleC16Ctl, ruleC16Repl}, Explanation: "tbd", NotDecided: "tbd"}
	registry["C18"] = &propSpec{Rules: []ruleFn{ruleC18, ruleCanAdd("C18-ADMIT"), ruleC04Promote("C18-MODE")}, Explanation: "tbd", NotDecided: "tbd"}
	registry["C19"] = &propSpec{Rules: []ruleFn{ruleC19Promote("C19-PROMOTE"), ruleC19Clone}, Explanation: "tbd", NotDecided: "tbd"}
	registry["C14"] = &propSpec{Rules: []ruleFn{ruleC14Lock, ruleC14Block, ruleC14Fatal, ruleC14Idx, ruleC14Wrap, ruleC17Matrix, ruleC17Srv}, Explanation: "tbd", NotDecided: "tbd"}
	registry["C06"] = &propSpec{Rules: []ruleFn{ruleC06Hole, ruleC06Snapstep}, Explanation: "tbd", NotDecided: "tbd"}
	registry["C08"] = &propSpec{Rules: []ruleFn{ruleC08Atomic, ruleC08Err, ruleC08Commit, ruleC08Dur}, Explanation: "tbd", NotDecided: "tbd"}
	registry["C10"] = &propSpec{Rules: []ruleFn{ruleC10, ruleC04Verify("C10-PROMOTE-COPY")}, Explanation: "tbd", NotDecided: "tbd"}
	registry["C11"] = &propSpec{Rules: []ruleFn{ruleC11Refuse("C11-REFUSE"), ruleC11Sync}, Explanation: "tbd", NotDecided: "tbd"}
	registry["C12"] = &propSpec{Rules: []ruleFn{ruleC12, ruleC08Commit}, Explanation: "tbd", NotDecided: "tbd"}
	registry["C15"] = &propSpec{Rules: []ruleFn{ruleC15Codec, ruleC15Client, ruleC05Ping("C15-PING")}, Explanation: "tbd", NotDecided: "tbd"}
	registry["C17"] = &propSpec{Rules: []ruleFn{ruleC17Attach, ruleC17Srv, ruleC17Matrix, ruleC11Refuse("C17-RW-ONLY"), ruleC10}, Explanation: "tbd", NotDecided: "tbd"}
}
