package main

// Per property: the rules that decide its structural clauses, what they establish, and what
// is deliberately NOT decided (the behavioural remainder).  DESIGN.md section 4 has the
// long form.

func init() {
	registry["C01"] = &propSpec{
		Rules:       []ruleFn{ruleC01Range, ruleC01Head, ruleC17Srv, ruleC06Hole, ruleC06Snapstep, ruleC06Run},
		Explanation: "Necessary structural conditions of block read-back semantics, decided on every path of the source: (C01-RANGE) each controller call into the replicator's WriteAt/ReadAt is dominated by the exact facts off>=0 and off+len(b)<=c.size under the controller lock; (C01-HEADWRITE) fullWriteAt writes only the head file and records every written sector in the block map unconditionally, no other function writes a chain file, read-modify-write of edge blocks runs under rmLock, RemoveIndex shifts every entry >= index, lookup probes from the head downwards, preload records every extent under the scanned file; (C17-SRV-GUARD) the replica data path dereferences the open replica only under the server read lock and a nil test. (C06-RUN) a pending run of blocks to punch is extended only on the equality edge of the contiguity test current == offset + length.",
		NotDecided:  "byte-level equality of what is read with what was written (values of the run-time map, FIEMAP extents, unaligned split arithmetic), zero-fill of never-written ranges.",
	}
	registry["C02"] = &propSpec{
		Rules:       []ruleFn{ruleC02Majority, ruleC02WaitAll, ruleC02Decode, ruleDetach("C02-DETACH"), ruleBuildRW("C02-WRITERS"), ruleIndexMapUse("C02-INDEXMAP"), ruleC03Gate, ruleC04Lists("C02-LISTS"), ruleC15Client, ruleErrFlow("C02-ERRFLOW")},
		Explanation: "Decides that (C02-WAITALL) MultiWriterAt waits for every writer and records each writer's error in its own slot; (C02-MAJORITY) a majority-encoded return taken with errors is guarded by the exact strict-majority fact W-E-W/2-1>=0 (and the writers+updaters conjunct for WriteAt), every other error return carries the no-majority encoding; (C02-DECODE) Controller.WriteAt/Sync/Unmap accept exactly that encoding; (C02-INDEXMAP) per-writer errors are attributed through the index map built in lock-step with the writer list; (C02-DETACH) every failed replica is marked ERR and removed before the I/O's lock is released; (C02-WRITERS) writers are exactly the non-ERR backends.",
		NotDecided:  "that a replica which reported success applied the write; the history-level consequence (every in-service replica holds every acknowledged write).",
	}
	registry["C03"] = &propSpec{
		Rules:       []ruleFn{ruleC03Thresh, ruleC03Gate, ruleFresh("C03-FRESH", fCtl+"UpdateVolStatus"), ruleC05Monitor("C03-MONITOR"), ruleGuardedBy("C03-GUARDEDBY")},
		Explanation: "Decides that (C03-THRESH) ReadOnly is false exactly on the edge rw >= (RF+quorum)/2+1 with rw counting Mode==RW entries; (C03-GATE) every mutating backend call is dominated by ReadOnly==false tested after taking the controller write lock, in the same lock region; (C03-FRESH) a typestate analysis with interprocedural, error-split summaries shows that at every release of the controller lock no membership or mode change is pending without UpdateVolStatus(). (GUARDEDBY) every read / write of a lock-protected field (frozen guard table) happens with the protecting mutex class held on all paths, in the function or at every call site of it.",
		NotDecided:  "that replicas believed RW are up to date; liveness beyond freshness at unlock.",
	}
	registry["C04"] = &propSpec{
		Rules:       []ruleFn{ruleBuildRW("C04-READERS"), ruleC04Lists("C04-LISTS"), ruleIndexMapUse("C04-READSRC"), ruleC04Verify("C04-VERIFY"), ruleC04Promote("C04-PROMOTE"), ruleC04ReadGate, ruleDetach("C04-DETACH"), ruleC05Monitor("C04-ERRSUPPRESS"), ruleC19Promote("C04-CLONEGATE"), ruleC09, ruleGuardedBy("C04-GUARDEDBY")},
		Explanation: "Decides that readers are exactly the mode==RW backends and are rebuilt after every change of the backend map or of a mode; reads are issued only from replicator.ReadAt on r.readers[index] and a failed reader is reported under the same index; the only promotion sites are the allow-listed ones; VerifyRebuildReplica promotes only after, in order, WO mode, both chains and the checkpoint fetched, checkpoint containment, DeepEqual of the chains, the RW counter read, the replica switched to RW and the counter copied; the reference replica is selected under Mode==RW; ERR is sticky. (GUARDEDBY) every read / write of a lock-protected field (frozen guard table) happens with the protecting mutex class held on all paths, in the function or at every call site of it.",
		NotDecided:  "that an equal chain implies equal data; round-robin fairness.",
	}
	registry["C05"] = &propSpec{
		Rules:       []ruleFn{ruleDetach("C05-DETACH"), ruleC05Monitor("C05-MONITOR"), ruleC04Lists("C05-STOPIO"), ruleC05Ping("C05-PING"), ruleC15Client, ruleC02Majority, ruleC02Decode, ruleIndexMapUse("C05-INDEXMAP"), ruleC04ReadGate, ruleC14Block, ruleErrFlow("C05-ERRFLOW"), ruleC04Promote("C05-STICKY")},
		Explanation: "Decides that every failure detector ends in ERR marking plus removal under the controller lock (I/O error paths, monitor goroutine, ping failure, rpc time-out / transport error poisoning the client and failing all pending requests), that a removed backend leaves the reader/writer lists at once, that backend I/O is issued only through those lists, and that a failing strict minority still yields the majority encoding accepted by the controller. (C05-STICKY) a replica marked ERR is never switched back by a mode update.",
		NotDecided:  "wall-clock promptness; which detector fires first; that the survivors hold the data.",
	}
	registry["C06"] = &propSpec{
		Rules:       []ruleFn{ruleC06Hole, ruleC06Run, ruleC06Snapstep, ruleC01Head, ruleC11Sync, ruleC06RevertCtl, ruleC12Rollback, ruleC12, ruleC08CloseWho},
		Explanation: "Decides that every hole-punch request targets the file whose index the dominating strict guard compared with the latest user-created snapshot index (guard/use consistency via files[G] or paired phis), that UserCreatedSnap changes in lock-step with the file list and SnapIndx is set only under the user-created flag, that the hole queue is drained before files are unlinked or closed, that only fullWriteAt writes chain files (and only the head), and that revert creates the new head on the requested snapshot, commits volume.meta before removing the old head and reloads with preload. (C06-RUN) a pending run of blocks to punch is extended only on the equality edge of the contiguity test current == offset + length. (C08-CLOSEWHO) the superseded instance is not closed after a revert; RemoveIndex recomputes SnapIndx as the LAST user-created entry.",
		NotDecided:  "that the snapshot image equals the volume at the instant it was taken; byte identity after preload/reopen; what FIEMAP reports.",
	}
	registry["C07"] = &propSpec{
		Rules:       []ruleFn{ruleC07AddOrder("C07-ADD-ORDER"), ruleC07Merge, ruleC06Run, ruleC07Sync, ruleC07SyncFiles, ruleCanAdd("C07-ONE-WO"), ruleC04Verify("C07-VERIFY"), ruleBuildRW("C07-WRITERS"), ruleIndexMapUse("C07-INDEXMAP"), ruleC07Copy("C07-COPY"), ruleC01Head, ruleErrFlow("C07-ERRFLOW"), ruleSendFile("C07-SENDFILE")},
		Explanation: "Decides the ordering obligations of a rebuild: admission only after canAdd, the same snapshot on old and new replicas, WO mode on replica, list entry and wrapper; at most one WO unless the newcomer has the strictly greater revision and the old WO was removed; punching off and rebuilding flag set before the copy; ReloadReplica -> SyncDir -> UpdateLUNMap -> VerifyRebuildReplica -> SetRebuilding(false), each after the success of its predecessor; the live block map is overwritten by the preloaded one only where live <= preloaded; WO replicas receive every write; promotion as in C04-VERIFY. (C06-RUN) a pending run of blocks to punch is extended only on the equality edge of the contiguity test current == offset + length. (C07-SENDFILE) a file transfer counts as done only after two consecutive successful polls with exit code 0.",
		NotDecided:  "byte identity (copying is done by external ssync); interleavings and crash points of three processes.",
	}
	registry["C08"] = &propSpec{
		Rules:       []ruleFn{ruleC08Atomic, ruleC08Err, ruleC08Commit, ruleC08Dur, ruleC08CloseWho, ruleC16Repl, ruleErrFlow("C08-ERRFLOW"), ruleC08Order("C08-ORDER")},
		Explanation: "Decides that metadata is written tmp(O_CREATE|O_TRUNC|O_SYNC) -> Encode -> Close -> Rename -> SyncDir with each step after the success of the previous; that no error of a metadata/directory primitive is dropped or tested through the wrong variable; the commit order of snapshot creation and removal; and, by a {clean,dirty} typestate with interprocedural summaries, that on fault-free executions every exported replica operation returns success only with the directory fsynced after its last directory-entry change.",
		NotDecided:  "what reopen sees at each intermediate on-disk state; torn 4 KiB writes; durability of O_DIRECT data.",
	}
	registry["C09"] = &propSpec{
		Rules:       []ruleFn{ruleC09, ruleRevParse("C09-REVPARSE"), ruleC09Register, ruleC09RegWire},
		Explanation: "Decides that the post-election start signal is guarded by the registered-majority facts, that a rebuilding replica never becomes leader, that the leader is replaced only by the registered entry with a strictly greater RevCount (the stored value is that entry's key), that StartSignalled is set only after a delivered signal and an unreachable leader is deleted from the registry before its name is cleared, that Start is honoured only from the signalled leader with no replica attached, that lower counters are marked ERR against the running maximum, and that revision counts are parsed as 64-bit decimals. (C09-REGWIRE) both hand-written conversions of a registration carry every field over from its own source; the registry entry dropped with a replica is found by the tcp://<key>:9502 comparison.",
		NotDecided:  "truthfulness of reported counts; liveness probes; orderings of registrations as such.",
	}
	registry["C10"] = &propSpec{
		Rules:       []ruleFn{ruleC10, ruleRevParse("C10-REVPARSE"), ruleC04Verify("C10-PROMOTE-COPY"), ruleC17Srv, ruleC09, ruleErrFlow("C10-ERRFLOW"), ruleC08Order("C10-INIT"), ruleGuardedBy("C10-GUARDEDBY")},
		Explanation: "Decides that the counter is increased exactly once per write, only in RW mode and only after the data write succeeded; that the cache and the counter file are touched only by the revision-counter API under revisionLock, the cache after the persist and with the persisted value; that setting requires RW; and that promotion copies the RW replica's counter after switching the replica to RW, under the controller lock. (GUARDEDBY) every read / write of a lock-protected field (frozen guard table) happens with the protecting mutex class held on all paths, in the function or at every call site of it.",
		NotDecided:  "monotonicity across a crash (atomicity of one O_DIRECT 4 KiB write); equality of counters across replicas as a run-time fact.",
	}
	registry["C11"] = &propSpec{
		Rules:       []ruleFn{ruleC11Refuse("C11-REFUSE"), ruleC11Sync, ruleC11Rest, ruleC12, ruleC06Snapstep, ruleErrFlow("C11-ERRFLOW")},
		Explanation: "Decides the refusals (head, latest, base, non-RW) dominating every mark-removed / unlink, the candidate range chain[1:indx] below the checkpoint with both user-snapshot exclusions (disk and merge target), that the cleaner acts only when controller and replica agree on the checkpoint and never unlinks after a failed merge, that user deletion needs all RF replicas RW and a checkpoint that is not the victim, and the splice of file list / block map / activeDiskData at one index after re-parenting. removeDiskNode decides 'the removed disk was the latest snapshot' on the unspliced list and moves info.Parent on that edge.",
		NotDecided:  "that the external merge (sfold) preserves content.",
	}
	registry["C12"] = &propSpec{
		Rules:       []ruleFn{ruleC12, ruleC12Chain, ruleC12Rollback, ruleC08CloseWho, ruleC12Publish, ruleC08Commit, ruleC11Refuse("C12-REFUSE"), ruleC06Snapstep, ruleErrFlow("C12-ERRFLOW"), ruleC08Order("C12-ORDER")},
		Explanation: "Decides that every change of a persisted attribute is written to its metadata file on all success paths (or published only after the write), that request-supplied disk names are validated before any file operation, that open accepts every chain length create can produce, the commit order of createDisk, and (C12-PUBLISH) that createDisk / markDiskAsRemoved do not return an error after the in-memory chain was modified - the latter is violated today and recorded as a known finding. removeDiskNode decides 'the removed disk was the latest snapshot' on the unspliced list and moves info.Parent on that edge.",
		NotDecided:  "acyclicity/shape of the chain as a run-time graph; equality of the reopened chain with the previous one.",
	}
	registry["C13"] = &propSpec{
		Rules:       []ruleFn{ruleC13Ctl, ruleFresh("C13-FRESH", fCtl+"UpdateCheckpoint"), ruleC03Gate, ruleC12, ruleC13Persist, ruleC08Atomic, ruleC08Err, ruleErrFlow("C13-ERRFLOW"), ruleGuardedBy("C13-GUARDEDBY")},
		Explanation: "Decides that the snapshot fan-out and every mutating I/O run under the controller write lock (so they cannot interleave), that a volume snapshot needs RWReplicaCount==RF, goes to every non-ERR backend with identical arguments and reports per-replica failures; that the checkpoint is non-empty only when rw==RF, all RW chains agree on chain[1] and every replica stored it; that the checkpoint is recomputed before the lock is released after any membership change; and that the replica persists it. (GUARDEDBY) every read / write of a lock-protected field (frozen guard table) happens with the protecting mutex class held on all paths, in the function or at every call site of it.",
		NotDecided:  "identical content of the snapshot across replicas.",
	}
	registry["C14"] = &propSpec{
		Rules:       []ruleFn{ruleC14Lock, ruleC14Block, ruleC14Fatal, ruleC14Idx, ruleC14Wrap, ruleC17Matrix, ruleC17Srv, ruleC07AddOrder("C14-NODUP"), ruleC09, ruleWgDone("C14-WGDONE"), ruleNilOK("C14-NILOK"), ruleMakeLen("C14-MAKELEN"), ruleGuardedBy("C14-GUARDEDBY")},
		Explanation: "Decides, for every production function: no double unlock (incl. deferred), no self-deadlock directly or through a callee, no return with a lock held, an acyclic lock order; no blocking send under the controller / replica-server lock outside the allow-listed consumer-backed queues; in the handler-reachable region only allow-listed terminators and single-value type assertions, bounds facts on chains received from replicas, no nil result dereferenced with its error ignored; every route wrapped by HandleError and action routes by checkAction. (GUARDEDBY) every read / write of a lock-protected field (frozen guard table) happens with the protecting mutex class held on all paths, in the function or at every call site of it.",
		NotDecided:  "panics inside third-party handlers, resource exhaustion, liveness of remote calls made under the lock.",
	}
	registry["C15"] = &propSpec{
		Rules:       []ruleFn{ruleC15Codec, ruleC15Client, ruleC05Ping("C15-PING"), ruleC15Server},
		Explanation: "Decides sibling agreement of Wire.Write and Wire.Read (six fixed-width little-endian items in the same order and types, length-prefixed payload, fresh payload buffer, magic check, flush, wire locks), single-goroutine ownership of the pending map and sequence counter, unique pre-incremented sequence numbers inserted before sending, reply matching/removal/single completion, a deadline for every operation type, early refusal and failing of all pending requests once the client is poisoned, and reporting of ping / wire failures.",
		NotDecided:  "matching under all interleavings as a history property; behaviour on corrupted streams beyond the magic check; bounded time.",
	}
	registry["C16"] = &propSpec{
		Rules:       []ruleFn{ruleC16Ctl, ruleC16Repl, ruleC17Matrix, ruleErrFlow("C16-ERRFLOW")},
		Explanation: "Decides that shrinking and equal sizes are refused on the controller and shrinking on the replica before anything is touched; that the controller records the new size only after all non-ERR replicas (incl. rebuilding ones) and the frontend resized; that the replica truncates every chain member, extends the block map by (new-old)/4096 before overwriting the size, and persists r.info after the store.",
		NotDecided:  "that existing bytes are unchanged and the new range reads zero (properties of truncate(2)).",
	}
	registry["C17"] = &propSpec{
		Rules:       []ruleFn{ruleC17Attach, ruleC17Srv, ruleC17Matrix, ruleC17Status, ruleC11Refuse("C17-RW-ONLY"), ruleC10, ruleGuardedBy("C17-GUARDEDBY")},
		Explanation: "Decides that every Server method uses the open replica only under a server lock and a nil test, that closed replicas refuse I/O, that a second Open is refused, that Close marks the replica CLOSED unconditionally, that writes succeed only in RW/WO, that removal and counter updates require RW, that attach requires state closed, and that the state->action table forbids chain-mutating actions while rebuilding / open outside closed / create outside initial, with every action route gated by checkAction. (GUARDEDBY) every read / write of a lock-protected field (frozen guard table) happens with the protecting mutex class held on all paths, in the function or at every call site of it. (C17-STATUS) every state constant returned by Status / PrevStatus is cut off by the facts that define the state; an unreadable volume.meta is state error.",
		NotDecided:  "'refused without side effects' for actions that pass the table and fail later.",
	}
	registry["C18"] = &propSpec{
		Rules:       []ruleFn{ruleC18, ruleCanAdd("C18-ADMIT"), ruleC04Promote("C18-MODE"), ruleC07AddOrder("C18-ADD"), ruleC04Lists("C18-REMOVE"), ruleBuildRW("C18-INDEX"), ruleIndexMapUse("C18-INDEXUSE"), ruleFresh("C18-COUNT", fCtl+"UpdateVolStatus"), ruleC03Thresh, ruleGuardedBy("C18-GUARDEDBY")},
		Explanation: "Decides that each mutation site preserves the pairing of the replica list with the backend map (append/AddBackend, splice/RemoveBackend, mode/SetMode, reset), that admission is dominated by the duplicate test, the one-WO rule and the replication-factor test in the lock region of the append, that index maps are rebuilt from scratch with every change, and that the RW count is recomputed before the lock is released. (GUARDEDBY) every read / write of a lock-protected field (frozen guard table) happens with the protecting mutex class held on all paths, in the function or at every call site of it.",
		NotDecided:  "the invariants as statements over all reachable states (only preservation by every mutation site).",
	}
	registry["C19"] = &propSpec{
		Rules:       []ruleFn{ruleC19Promote("C19-PROMOTE"), ruleC19Clone, ruleC07AddOrder("C19-WO"), ruleSyncFilesAs("C19-SYNCFILES", 5), ruleC08Err, ruleErrFlow("C19-ERRFLOW"), ruleSendFile("C19-SENDFILE")},
		Explanation: "Decides that the clone procedure reports success only after SetRebuilding(true), the copy of the chain from S, UpdateCloneInfo(S, S's revision), reload, block-map rebuild and SetRebuilding(false) each succeeded in that order; that the status becomes completed only after that (or if it already was), inProgress before the copy, error after a failure, and is persisted; and that the new controller promotes the replica only after reading a status that is none of empty / inProgress / error, removing the replica on error. (C19-SENDFILE) a file transfer counts as done only after two consecutive successful polls with exit code 0.",
		NotDecided:  "byte identity with S; the interleaving of the copy with the other controller's polling as a schedule.",
	}
}
