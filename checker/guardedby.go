package main

import (
	"fmt"
	"go/token"
	"go/types"
	"sort"
	"strings"

	"golang.org/x/tools/go/ssa"
)

// ---------------------------------------------------------------------------
// GUARDED-BY (rule kind WHO/LOCK of DESIGN.md).
//
// Lock classes held at every memory access: the per-function lock typestate gives the
// set of mutex *classes* (struct type + field) held on ALL paths to an instruction;
// the classes held at function entry are the intersection over all call sites (plain
// calls of this module; `go`, calls from library code and roots hold nothing).
// jiva has one Controller, one replica Server and one live Replica per process, so a
// class identifies the instance (stated as an assumption in the evidence).
// ---------------------------------------------------------------------------

type gbAccess struct {
	Fn    *ssa.Function
	In    ssa.Instruction
	Field string // "controller.Controller.replicas"
	Write bool
	Elem  bool // access to the content (map cell / slice element / iteration) of the field's value
	Fresh bool // base object allocated in this very function (not yet shared)
	Held  map[string]byte
}

type GuardInfo struct {
	P        *Prog
	L        *LockInfo
	res      map[*ssa.Function]*LockResult
	Entry    map[*ssa.Function]map[string]byte // nil = TOP (not yet constrained)
	InitOnly map[*ssa.Function]bool
	Accesses []gbAccess
}

var gbDebugFn string

var guardInfoCache = map[*Prog]*GuardInfo{}

func guardInfo(P *Prog) *GuardInfo {
	if g, ok := guardInfoCache[P]; ok {
		return g
	}
	g := buildGuardInfo(P, nil)
	guardInfoCache[P] = g
	return g
}

// fieldKey names a struct field by its declaring named type.
func fieldKeyOf(fa *ssa.FieldAddr) string {
	pt, ok := fa.X.Type().Underlying().(*types.Pointer)
	if !ok {
		return ""
	}
	st, ok := pt.Elem().Underlying().(*types.Struct)
	if !ok {
		return ""
	}
	n, ok := pt.Elem().(*types.Named)
	if !ok || n.Obj().Pkg() == nil || !isJivaPkg(n.Obj().Pkg()) {
		return ""
	}
	return short(n.Obj().Pkg().Path()) + "." + typName(n) + "." + fldName(st.Field(fa.Field))
}

func isFreshBase(v ssa.Value) bool {
	for i := 0; i < 6; i++ {
		switch x := v.(type) {
		case *ssa.Alloc:
			return true
		case *ssa.FieldAddr:
			v = x.X
		case *ssa.UnOp:
			if x.Op != token.MUL {
				return false
			}
			// load of a local that holds a fresh allocation
			if al, ok := x.X.(*ssa.Alloc); ok {
				if val := reachingStore(al, x); val != nil {
					v = val
					continue
				}
				return false
			}
			if fa, ok := x.X.(*ssa.FieldAddr); ok {
				// field of a fresh object (embedded struct pointer) is as fresh as its holder only
				// when the holder is fresh AND the field was stored in this function: be conservative
				_ = fa
				return false
			}
			return false
		default:
			return false
		}
	}
	return false
}

// guardedLoadField: v is a load of a field of a jiva struct — directly, or handed out by a
// getter (a same-module function whose every return is such a load: `func (c *Controller)
// ListReplicas() []types.Replica { return c.replicas }`): the slice / map returned IS the
// shared container, and touching its content is touching the field.
func guardedLoadField(v ssa.Value) (*ssa.FieldAddr, bool) {
	if cl, ok := v.(*ssa.Call); ok {
		if g := cl.Call.StaticCallee(); g != nil && isJivaFn(g) && len(g.Blocks) > 0 && len(g.Blocks) <= 3 {
			var fa *ssa.FieldAddr
			n := 0
			for _, r := range Returns(g) {
				n++
				if len(r.Results) != 1 {
					return nil, false
				}
				u, ok := r.Results[0].(*ssa.UnOp)
				if !ok || u.Op != token.MUL {
					return nil, false
				}
				f, ok := u.X.(*ssa.FieldAddr)
				if !ok || fieldKeyOf(f) == "" || (fa != nil && fieldKeyOf(fa) != fieldKeyOf(f)) {
					return nil, false
				}
				fa = f
			}
			if fa != nil && n > 0 {
				switch fa.X.Type().Underlying().(*types.Pointer).Elem().Underlying().(*types.Struct).Field(fa.Field).Type().Underlying().(type) {
				case *types.Slice, *types.Map:
					return fa, true
				}
			}
		}
		return nil, false
	}
	u, ok := v.(*ssa.UnOp)
	if !ok || u.Op != token.MUL {
		return nil, false
	}
	fa, ok := u.X.(*ssa.FieldAddr)
	if !ok || fieldKeyOf(fa) == "" {
		return nil, false
	}
	return fa, true
}

// classify: which guarded-field accesses does the instruction perform.
func gbClassify(in ssa.Instruction) (fa *ssa.FieldAddr, write, elem, ok bool) {
	switch x := in.(type) {
	case *ssa.UnOp:
		if x.Op == token.MUL {
			if f, isFA := x.X.(*ssa.FieldAddr); isFA && fieldKeyOf(f) != "" {
				return f, false, false, true
			}
			// element load through IndexAddr of a field's slice
			if ia, isIA := x.X.(*ssa.IndexAddr); isIA {
				if f, ok2 := guardedLoadField(ia.X); ok2 {
					return f, false, true, true
				}
			}
			// field of an element: s.f[i].g
			if f2, isFA := x.X.(*ssa.FieldAddr); isFA {
				if ia, isIA := f2.X.(*ssa.IndexAddr); isIA {
					if f, ok2 := guardedLoadField(ia.X); ok2 {
						return f, false, true, true
					}
				}
			}
		}
	case *ssa.Store:
		if f, isFA := x.Addr.(*ssa.FieldAddr); isFA {
			if fieldKeyOf(f) != "" {
				if ia, isIA := f.X.(*ssa.IndexAddr); isIA {
					if g, ok2 := guardedLoadField(ia.X); ok2 {
						return g, true, true, true
					}
				}
				return f, true, false, true
			}
			if ia, isIA := f.X.(*ssa.IndexAddr); isIA {
				if g, ok2 := guardedLoadField(ia.X); ok2 {
					return g, true, true, true
				}
			}
		}
		if ia, isIA := x.Addr.(*ssa.IndexAddr); isIA {
			if f, ok2 := guardedLoadField(ia.X); ok2 {
				return f, true, true, true
			}
		}
	case *ssa.MapUpdate:
		if f, ok2 := guardedLoadField(x.Map); ok2 {
			return f, true, true, true
		}
	case *ssa.Lookup:
		if f, ok2 := guardedLoadField(x.X); ok2 {
			return f, false, true, true
		}
	case *ssa.Range:
		if f, ok2 := guardedLoadField(x.X); ok2 {
			return f, false, true, true
		}
	case *ssa.Next:
		if r, isR := x.Iter.(*ssa.Range); isR {
			if f, ok2 := guardedLoadField(r.X); ok2 {
				return f, false, true, true
			}
		}
	case *ssa.Call:
		if b, isB := x.Call.Value.(*ssa.Builtin); isB && b.Name() == "delete" && len(x.Call.Args) > 0 {
			if f, ok2 := guardedLoadField(x.Call.Args[0]); ok2 {
				return f, true, true, true
			}
		}
		// append(dst, src...) / copy(dst, src) read the content of src
		if b, isB := x.Call.Value.(*ssa.Builtin); isB && (b.Name() == "append" || b.Name() == "copy") && len(x.Call.Args) == 2 {
			if f, ok2 := guardedLoadField(x.Call.Args[1]); ok2 {
				if _, isSlice := x.Call.Args[1].Type().Underlying().(*types.Slice); isSlice {
					return f, false, true, true
				}
			}
		}
	}
	return nil, false, false, false
}

func classHeld(res *LockResult, in ssa.Instruction) map[string]byte {
	out := map[string]byte{}
	for p, m := range res.MustHold[in] {
		cl := res.ClassOf[p]
		if cl == "" {
			continue
		}
		if out[cl] != 'W' {
			out[cl] = m
		}
	}
	return out
}

// buildGuardInfo: pinned gives required-at-entry classes for known functions (the frozen
// table); functions not in it get the intersection over their callers.
func buildGuardInfo(P *Prog, pinned map[string]map[string]byte) *GuardInfo {
	G := &GuardInfo{P: P, L: lockInfo(P), res: map[*ssa.Function]*LockResult{}, Entry: map[*ssa.Function]map[string]byte{}}
	fns := prodFns(P)
	inProd := map[*ssa.Function]bool{}
	for _, fn := range fns {
		inProd[fn] = true
		G.res[fn] = G.L.analyzeLocksAll(fn)
	}
	// call sites per callee
	type site struct {
		caller   *ssa.Function
		in       ssa.Instruction
		async    bool
		deferred bool
		fresh    bool // receiver is an object allocated in the caller (constructor context)
		self     bool // receiver is the caller's own receiver
	}
	sites := map[*ssa.Function][]site{}
	for _, fn := range fns {
		eachInstr(fn, func(in ssa.Instruction) {
			c, ok := in.(ssa.CallInstruction)
			if !ok {
				return
			}
			_, isGo := in.(*ssa.Go)
			_, isDefer := in.(*ssa.Defer)
			fresh, self := false, false
			if args := c.Common().Args; !c.Common().IsInvoke() && len(args) > 0 {
				fresh = isFreshBase(args[0])
				if len(fn.Params) > 0 && args[0] == ssa.Value(fn.Params[0]) {
					self = true
				}
			}
			for _, g := range P.Callees(c) {
				if inProd[g] {
					sites[g] = append(sites[g], site{fn, in, isGo, isDefer, fresh, self})
				}
			}
		})
	}
	// external callers (library code calling back: http handlers, goroutine starts, sort...)
	external := map[*ssa.Function]bool{}
	for _, fn := range fns {
		if n := P.CG.Nodes[fn]; n != nil {
			for _, e := range n.In {
				if e.Caller != nil && e.Caller.Func != nil && !inProd[e.Caller.Func] && !isJivaFn(e.Caller.Func) {
					external[fn] = true
				}
			}
		}
		if len(sites[fn]) == 0 {
			external[fn] = true
		}
	}
	for _, fn := range fns {
		if p, ok := pinned[FnName(fn)]; ok {
			G.Entry[fn] = p
		} else if external[fn] {
			G.Entry[fn] = map[string]byte{}
		} else {
			G.Entry[fn] = nil // TOP
		}
	}
	// init-only functions: every call site is in a constructor context (fresh receiver, or the
	// own receiver of an init-only function)
	initOnly := map[*ssa.Function]bool{}
	for changed := true; changed; {
		changed = false
		for _, fn := range fns {
			if initOnly[fn] || external[fn] || len(sites[fn]) == 0 || fn.Signature.Recv() == nil {
				continue
			}
			all := true
			for _, s := range sites[fn] {
				if s.async || !(s.fresh || (s.self && initOnly[s.caller])) {
					all = false
				}
			}
			if all {
				initOnly[fn] = true
				changed = true
			}
		}
	}
	G.InitOnly = initOnly
	heldAtSite := func(s site) map[string]byte {
		if s.async {
			return map[string]byte{}
		}
		var h map[string]byte
		if s.deferred {
			// a deferred call runs when the caller returns: what is held at every RunDefers
			first := true
			eachInstr(s.caller, func(in ssa.Instruction) {
				if _, ok := in.(*ssa.RunDefers); !ok {
					return
				}
				if _, reached := G.res[s.caller].MustHold[in]; !reached {
					return
				}
				x := classHeld(G.res[s.caller], in)
				if first {
					h, first = x, false
					return
				}
				for k, v := range h {
					if xv, ok := x[k]; !ok {
						delete(h, k)
					} else if xv != v {
						h[k] = 'R'
					}
				}
			})
			if h == nil {
				h = map[string]byte{}
			}
		} else {
			h = classHeld(G.res[s.caller], s.in)
		}
		if e := G.Entry[s.caller]; e != nil {
			for k, v := range e {
				if h[k] != 'W' {
					h[k] = v
				}
			}
		} else {
			return nil // TOP caller: no constraint yet
		}
		return h
	}
	for changed, iter := true, 0; changed && iter < 60; iter++ {
		changed = false
		for _, fn := range fns {
			if _, ok := pinned[FnName(fn)]; ok || external[fn] {
				continue
			}
			var meet map[string]byte
			first := true
			for _, s := range sites[fn] {
				if s.fresh || (s.self && initOnly[s.caller]) {
					continue // constructor context: the object is not shared yet
				}
				h := heldAtSite(s)
				if h == nil {
					continue
				}
				if first {
					meet = map[string]byte{}
					for k, v := range h {
						meet[k] = v
					}
					first = false
					continue
				}
				for k, v := range meet {
					hv, ok := h[k]
					if !ok {
						delete(meet, k)
					} else if hv != v {
						meet[k] = 'R'
					}
				}
			}
			if first {
				continue
			}
			old := G.Entry[fn]
			if old == nil || len(old) != len(meet) || !sameHeld(old, meet) {
				G.Entry[fn] = meet
				changed = true
			}
		}
	}
	for _, fn := range fns {
		if G.Entry[fn] == nil {
			G.Entry[fn] = map[string]byte{} // unreachable cycles
		}
	}
	if gbDebugFn != "" {
		for _, fn := range fns {
			if strings.Contains(FnName(fn), gbDebugFn) {
				fmt.Printf("== %s external=%v entry=[%s]\n", FnName(fn), external[fn], heldStr(G.Entry[fn]))
				for _, s := range sites[fn] {
					fmt.Printf("   site %s %s async=%v held=[%s]\n", FnName(s.caller), P.InstrPos(s.in), s.async, heldStr(heldAtSite(s)))
				}
				if n := P.CG.Nodes[fn]; n != nil {
					for _, e := range n.In {
						if e.Caller != nil && e.Caller.Func != nil && !inProd[e.Caller.Func] {
							fmt.Printf("   external caller %s\n", e.Caller.Func.String())
						}
					}
				}
			}
		}
	}
	// accesses
	for _, fn := range fns {
		res := G.res[fn]
		eachInstr(fn, func(in ssa.Instruction) {
			fa, w, el, ok := gbClassify(in)
			if !ok {
				return
			}
			if _, reached := res.MustHold[in]; !reached {
				return // unreachable in the typestate exploration (after a terminator)
			}
			h := classHeld(res, in)
			for k, v := range G.Entry[fn] {
				if h[k] != 'W' {
					h[k] = v
				}
			}
			G.Accesses = append(G.Accesses, gbAccess{Fn: fn, In: in, Field: fieldKeyOf(fa), Write: w, Elem: el, Fresh: isFreshBase(fa.X) || initOnly[fn], Held: h})
		})
	}
	return G
}

func sameHeld(a, b map[string]byte) bool {
	if len(a) != len(b) {
		return false
	}
	for k, v := range a {
		if b[k] != v {
			return false
		}
	}
	return true
}

func heldStr(h map[string]byte) string {
	var ks []string
	for k, v := range h {
		ks = append(ks, k+"="+string(v))
	}
	sort.Strings(ks)
	return strings.Join(ks, ",")
}

// guardStats prints, per field, under which lock classes it is accessed (discovery aid:
// candidates are confirmed by reading and frozen in guardTable).
func guardStats(P *Prog, sub string) {
	if strings.HasPrefix(sub, "fn:") {
		gbDebugFn = sub[3:]
		buildGuardInfo(P, nil)
		return
	}
	G := buildGuardInfo(P, nil)
	type row struct {
		n     int
		by    map[string]int
		sites []string
	}
	rows := map[string]*row{}
	for _, a := range G.Accesses {
		if a.Fresh {
			continue
		}
		if sub != "" && !strings.Contains(a.Field, sub) {
			continue
		}
		r := rows[a.Field]
		if r == nil {
			r = &row{by: map[string]int{}}
			rows[a.Field] = r
		}
		r.n++
		k := heldStr(a.Held)
		r.by[k]++
		mode := "r"
		if a.Write {
			mode = "W"
		}
		if a.Elem {
			mode += "e"
		}
		r.sites = append(r.sites, fmt.Sprintf("    %-2s %-60s %-22s [%s]", mode, FnName(a.Fn), P.InstrPos(a.In), k))
	}
	var ks []string
	for k := range rows {
		ks = append(ks, k)
	}
	sort.Strings(ks)
	for _, k := range ks {
		r := rows[k]
		var bs []string
		for b, n := range r.by {
			bs = append(bs, fmt.Sprintf("%d×[%s]", n, b))
		}
		sort.Strings(bs)
		fmt.Printf("%s  n=%d  %s\n", k, r.n, strings.Join(bs, " "))
		if sub != "" {
			sort.Strings(r.sites)
			for _, s := range r.sites {
				fmt.Println(s)
			}
		}
	}
	if sub != "" {
		fmt.Println("-- entry-held (non-empty) --")
		for _, fn := range prodFns(P) {
			if e := G.Entry[fn]; len(e) > 0 {
				fmt.Printf("  %-70s [%s]\n", FnName(fn), heldStr(e))
			}
		}
	}
}

// ---------------------------------------------------------------------------
// The rule.  guardTable is the frozen result of the discovery pass (-guardstats): for every
// field listed, the lock classes under which ALL its accesses outside constructors are made on
// the confirmed tree, except the (function, field) pairs of guardExceptions, each read and given
// a reason.  A new access without the lock, a lock region that no longer covers an access, a
// caller of a callers-hold function that does not hold the lock: all are reported at the access,
// with the call sites that reach the function without the lock.
// ---------------------------------------------------------------------------

type guardSpec struct {
	any       []string // lock classes, any of which protects the field
	writeExcl []string // classes that must be held EXCLUSIVELY for a write (nil: same as any, mode W)
	sharedW   bool     // writes are made under a shared (read) hold by design
}

const (
	lkCtl  = "controller.Controller.RWMutex"
	lkSrv  = "replica.Server.RWMutex"
	lkRep  = "replica.Replica.RWMutex"
	lkRev  = "replica.Replica.revisionLock"
	lkWR   = "rpc.Wire.ReadLock"
	lkWW   = "rpc.Wire.WriteLock"
	lkAgnt = "sync/agent.Server.Mutex"
)

func ctlFields(typ string, fs ...string) map[string]guardSpec {
	m := map[string]guardSpec{}
	for _, f := range fs {
		m[typ+"."+f] = guardSpec{any: []string{lkCtl}}
	}
	return m
}

var guardTable = func() map[string]guardSpec {
	m := map[string]guardSpec{}
	add := func(x map[string]guardSpec) {
		for k, v := range x {
			m[k] = v
		}
	}
	add(ctlFields("controller.Controller", "replicas", "quorumReplicas", "backend", "ReadOnly", "Checkpoint", "RWReplicaCount", "MaxRevReplica", "StartSignalled", "RegisteredReplicas", "RegisteredQuorumReplicas", "quorumReplicaCount", "size", "IsSnapDeletionInProgress"))
	add(ctlFields("controller.replicator", "backends", "quorumBackends", "readers", "writer", "next", "readerIndex", "writerIndex", "updaterIndex", "backendsAvailable"))
	add(ctlFields("controller.MultiWriterAt", "writers", "updaters"))
	add(ctlFields("types.Replica", "Mode"))
	m["replica.Server.r"] = guardSpec{any: []string{lkSrv}}
	rep := guardSpec{any: []string{lkRep, lkSrv}}
	for _, f := range []string{"replica.Replica.mode", "replica.Replica.diskData", "replica.Replica.activeDiskData", "replica.Replica.diskChildrenMap", "replica.Replica.info", "replica.Replica.volume",
		"replica.diffDisk.files", "replica.diffDisk.UserCreatedSnap", "replica.diffDisk.SnapIndx",
		"replica.disk.Parent", "replica.disk.Removed", "replica.disk.UserCreated", "replica.disk.Name",
		"replica.Info.Head", "replica.Info.Parent", "replica.Info.Size", "replica.Info.Dirty", "replica.Info.Rebuilding", "replica.Info.Checkpoint"} {
		m[f] = rep
	}
	// the block map is filled in by writes, which hold the replica lock shared (the data path is
	// serialised per block by the RPC layer / rmLock)
	m["replica.diffDisk.location"] = guardSpec{any: []string{lkRep, lkSrv}, sharedW: true}
	m["replica.Replica.revisionCache"] = guardSpec{any: []string{lkRev}}
	m["replica.Replica.revisionFile"] = guardSpec{any: []string{lkRev}}
	m["rpc.Wire.reader"] = guardSpec{any: []string{lkWR}}
	m["rpc.Wire.writer"] = guardSpec{any: []string{lkWW}}
	for _, f := range []string{"processes", "processesByPort", "currentPort", "processCounter"} {
		m["sync/agent.Server."+f] = guardSpec{any: []string{lkAgnt}}
	}
	return m
}()

func (sp guardSpec) satisfied(h map[string]byte, write bool) bool {
	for _, cl := range sp.any {
		mode, ok := h[cl]
		if !ok {
			continue
		}
		if !write || sp.sharedW || mode == 'W' {
			return true
		}
	}
	return false
}

// guardExceptions: "function | field" -> reason.  Accesses of the confirmed tree that are made
// without the lock; each was read.
var guardExceptions = map[string]string{
	"(*controller.Controller).GetSize | controller.Controller.size":                   "word-sized value read for the frontend geometry / statistics; no decision of a listed property is taken on it",
	"(*controller.Controller).Size | controller.Controller.size":                      "word-sized value read for the frontend geometry / statistics",
	"(*controller.Controller).ListReplicas | controller.Controller.replicas":          "hands out the slice for listing; REST handlers that act on the result (delete, snapshot guards) take the controller lock around the call themselves",
	"(*controller.Controller).Revert | controller.Controller.replicas":                "pre-existing: the 'all replicas RW, none rebuilding' test is made before the lock because the frontend has to be shut down without it (in-flight I/O needs the lock); recorded in DESIGN.md, observations",
	"(*controller.Controller).clientsAndSnapshot | controller.Controller.replicas":    "pre-existing: called by Revert before the lock, same reason",
	"(*controller.Controller).signalToAdd | controller.Controller.MaxRevReplica":      "unused function (no caller)",
	"(*controller/rest.Server).GetVolumeStats | controller.Controller.ReadOnly":       "statistics endpoint: reports the flag, decides nothing",
	"(*controller/rest.Server).listVolumes | controller.Controller.ReadOnly":          "volume listing: reports the flag, decides nothing",
	"app.checkPrerequisites | controller.Controller.IsSnapDeletionInProgress":         "auto-snapshot-deletion goroutine polls the flag; the admission path (canAdd) reads it under the lock",
	"(*replica.Replica).GetUsage | replica.Replica.revisionCache":                     "statistics: reports the cached counter (C10-REV lists the readers that are allowed to skip revisionLock)",
	"(*replica.Server).Stats | replica.Replica.revisionCache":                         "statistics: reports the cached counter",
	"(*replica.Replica).Info | replica.Replica.info":                                  "returns a copy of the info block; used by Status and the REST read-only routes (C17-SRV-GUARD callers-hold table)",
	"(*replica.Replica).Sync | replica.Info.Dirty":                                    "idempotent store of true under the shared hold (data path)",
	"(*replica.Replica).Unmap | replica.Info.Dirty":                                   "idempotent store of true under the shared hold (data path)",
	"(*replica.Replica).WriteAt | replica.Info.Dirty":                                 "idempotent store of true under the shared hold (data path)",
	"(*replica.Replica).removeStaleFromChildrenMap | replica.Replica.diskChildrenMap": "unused function (no caller)",
	"(*replica.Replica).rmChildDisk | replica.Replica.diskChildrenMap":                "unlocked only through the unused removeStaleFromChildrenMap; its other caller holds the replica lock",
	"(*replica.Server).Replica | replica.Server.r":                                    "accessor used by the replica process' own goroutines (sync agent, cleaner), C17-SRV-GUARD callers-hold table",
	"(*replica.Server).Status | replica.Server.r":                                     "state for the action table is sampled without the lock (C17-SRV-GUARD callers-hold table): the operations re-check under the server lock",
	"(*replica.UsedGenerator).findExtents | replica.diffDisk.location":                "generator goroutine of preload: reads the map of the diffDisk being preloaded (a private copy in UpdateLUNMap, an unshared instance during open)",
	"replica.construct | replica.disk.Parent":                                         "constructor: the instance is not shared yet",
	"replica.preload | replica.diffDisk.UserCreatedSnap":                              "preload works on a private copy (UpdateLUNMap) or on an instance under construction",
	"replica.preload | replica.diffDisk.files":                                        "preload works on a private copy (UpdateLUNMap) or on an instance under construction",
	"replica.preload | replica.diffDisk.location":                                     "preload works on a private copy (UpdateLUNMap) or on an instance under construction",
}

func ruleGuardedBy(rule string) ruleFn {
	return func(c *Ctx) {
		c.Doc(rule, "lock-class analysis: every read / write of a lock-protected field (frozen table: membership and quorum state of the Controller and its replicator, Server.r, the chain state of a Replica and its diffDisk, the revision cache, the wire's reader / writer, the sync agent's process table) happens with the protecting mutex class held on ALL paths (in the function itself, or at every call site of it, transitively); writes need the exclusive hold; constructors (fresh object, init-only helpers) are exempt; pre-existing unlocked accesses are an exception table with reasons")
		G := guardInfo(c.P)
		type grp struct {
			fn    *ssa.Function
			field string
			write bool
		}
		bad := map[grp][]gbAccess{}
		all := map[grp]int{}
		for _, a := range G.Accesses {
			sp, ok := guardTable[a.Field]
			if !ok || a.Fresh {
				continue
			}
			g := grp{a.Fn, a.Field, a.Write}
			all[g]++
			if !sp.satisfied(a.Held, a.Write) {
				bad[g] = append(bad[g], a)
			}
		}
		var gs []grp
		for g := range all {
			gs = append(gs, g)
		}
		sort.Slice(gs, func(i, j int) bool {
			if FnName(gs[i].fn) != FnName(gs[j].fn) {
				return FnName(gs[i].fn) < FnName(gs[j].fn)
			}
			if gs[i].field != gs[j].field {
				return gs[i].field < gs[j].field
			}
			return !gs[i].write && gs[j].write
		})
		usedExc := map[string]bool{}
		for _, g := range gs {
			mode := "read"
			if g.write {
				mode = "write"
			}
			key := fmt.Sprintf("%s | %s %s", FnName(g.fn), mode, g.field)
			ek := FnName(g.fn) + " | " + g.field
			bs := bad[g]
			if len(bs) == 0 {
				c.OK(rule, key, c.P.Pos(g.fn.Pos()), fmt.Sprintf("%d access(es) under %s", all[g], strings.Join(guardTable[g.field].any, " or ")), true)
				continue
			}
			if why, ok := guardExceptions[ek]; ok {
				usedExc[ek] = true
				c.OK(rule, key, c.P.InstrPos(bs[0].In), "exception: "+why, false)
				continue
			}
			a := bs[0]
			detail := fmt.Sprintf("%s of %s without %s held on every path (held here: [%s])", mode, g.field, strings.Join(guardTable[g.field].any, " or "), heldStr(a.Held))
			if g.write && len(a.Held) > 0 {
				detail += "; a write needs the exclusive hold"
			}
			if blame := G.blame(g.fn, guardTable[g.field], g.write, 3); blame != "" {
				detail += "; reached without the lock through " + blame
			}
			c.Bad(rule, key, c.P.InstrPos(a.In), detail, nil)
		}
		c.Floor(rule, 150)
	}
}

// blame: call sites through which fn is entered without the lock (up to depth levels up).
func (G *GuardInfo) blame(fn *ssa.Function, sp guardSpec, write bool, depth int) string {
	if depth == 0 || sp.satisfied(G.Entry[fn], write) {
		return ""
	}
	var parts []string
	for _, caller := range prodFns(G.P) {
		res := G.res[caller]
		if res == nil {
			continue
		}
		eachInstr(caller, func(in ssa.Instruction) {
			cl, ok := in.(ssa.CallInstruction)
			if !ok || len(parts) >= 3 {
				return
			}
			for _, g := range G.P.Callees(cl) {
				if g != fn {
					continue
				}
				h := classHeld(res, in)
				for k, v := range G.Entry[caller] {
					if h[k] != 'W' {
						h[k] = v
					}
				}
				_, isGo := in.(*ssa.Go)
				if isGo || !sp.satisfied(h, write) {
					what := "call"
					if isGo {
						what = "go statement"
					}
					parts = append(parts, fmt.Sprintf("%s in %s @%s", what, FnName(caller), G.P.InstrPos(in)))
				}
			}
		})
	}
	if len(parts) == 0 {
		return "an entry point (no caller in this module holds it)"
	}
	return strings.Join(parts, ", ")
}
