package main

import (
	"fmt"
	"go/token"
	"go/types"
	"sort"
	"strings"

	"golang.org/x/tools/go/ssa"
)

// Rules written after round 7 ("ordinary maintenance work": features, over-corrections, fast paths).

// ---------------------------------------------------------------------------
// *-RESTFWD: a replica REST action answers with the verdict of the one operation it performed
// ---------------------------------------------------------------------------

func ruleRestForward(rule string) ruleFn {
	return func(c *Ctx) {
		c.Doc(rule, "every action handler of the replica's REST API performs its replica.Server operation exactly once per request (not per element of a list in the request) and answers with that call's own error: the error is not filtered, reset or replaced on the way to doOp (a refusal such as 'already exists' is not turned into success), and a refused request has changed nothing that an earlier iteration committed")
		n := 0
		for _, fn := range prodFns(c.P) {
			if !strings.HasPrefix(FnName(fn), "(*replica/rest.Server).") || strings.Contains(FnName(fn), "$") {
				continue
			}
			for _, in := range CallsTo(fn, "(*replica/rest.Server).doOp") {
				cl := in.(*ssa.Call)
				if len(cl.Call.Args) < 3 {
					continue
				}
				n++
				key := FnName(fn) + " | answers with the operation's own verdict"
				v := strip(cl.Call.Args[2])
				op, ok := v.(*ssa.Call)
				if ex, isEx := v.(*ssa.Extract); isEx {
					op, ok = ex.Tuple.(*ssa.Call)
				}
				callee := ""
				if ok {
					callee = CalleeName(op)
				}
				switch {
				case ok && (strings.HasPrefix(callee, "(*replica.Server).") || callee == "util.SetLogging"):
					c.OK(rule, key, c.P.InstrPos(in), callee, false)
					// once per request: the operation does not sit in a loop
					if inLoop(op.Block()) {
						c.Bad(rule, FnName(fn)+" | one operation per request", c.P.InstrPos(op), "the operation is performed in a loop: a request that is refused half-way has already changed the replica", nil)
					}
				default:
					R := NewRenderer(fn)
					c.Bad(rule, key, c.P.InstrPos(in), "doOp is handed "+R.V(cl.Call.Args[2])+" instead of the result of the Server operation itself", nil)
				}
			}
			// a Server operation called in a loop (with or without doOp)
			eachInstr(fn, func(in ssa.Instruction) {
				if cl, ok := in.(*ssa.Call); ok && strings.HasPrefix(CalleeName(cl), "(*replica.Server).") && inLoop(cl.Block()) {
					nm := CalleeName(cl)
					if strings.HasSuffix(nm, ".Replica") || strings.HasSuffix(nm, ".Status") || strings.HasSuffix(nm, ".PrevStatus") {
						return
					}
					c.Bad(rule, FnName(fn)+" | one operation per request | "+nm, c.P.InstrPos(in), "a mutating Server operation is called in a loop of the handler", nil)
				}
			})
		}
		if n < 15 {
			c.Undecided(rule, "vacuity-floor", "", fmt.Sprintf("only %d doOp calls found", n))
		}
	}
}

// inLoop: the block can reach itself.
func inLoop(b *ssa.BasicBlock) bool {
	seen := map[*ssa.BasicBlock]bool{}
	var q []*ssa.BasicBlock
	q = append(q, b.Succs...)
	for len(q) > 0 {
		x := q[0]
		q = q[1:]
		if x == b {
			return true
		}
		if seen[x] {
			continue
		}
		seen[x] = true
		q = append(q, x.Succs...)
	}
	return false
}

// ---------------------------------------------------------------------------
// C06-HOLECONSUMER: the hole creator punches exactly what was queued
// ---------------------------------------------------------------------------

func ruleHoleConsumer(rule string) ruleFn {
	return func(c *Ctx) {
		c.Doc(rule, "CreateHoles punches, for each request it receives from HoleCreatorChan, that request's file at that request's offset and length: requests are not merged, widened or re-ordered between the queue and fallocate (the guards that decide what may be punched were evaluated per request, by the producer)")
		fn := c.Anchor(rule, "replica.CreateHoles")
		if fn == nil {
			return
		}
		fa := CallsTo(fn, "syscall.Fallocate")
		if len(fa) != 1 {
			c.Bad(rule, FnName(fn)+" | one fallocate per request", c.P.Pos(fn.Pos()), fmt.Sprintf("found %d Fallocate calls", len(fa)), nil)
			return
		}
		fromRecv := func(v ssa.Value, field string) bool {
			// v is <received>.field where <received> is the value of `<-HoleCreatorChan` in this function
			for i := 0; i < 6; i++ {
				switch x := stripConv(v).(type) {
				case *ssa.Field:
					st, ok := x.X.Type().Underlying().(*types.Struct)
					if !ok || st.Field(x.Field).Name() != field {
						return false
					}
					u, ok := x.X.(*ssa.UnOp)
					if !ok || u.Op != token.ARROW {
						return false
					}
					ld, ok := u.X.(*ssa.UnOp)
					g, ok2 := func() (*ssa.Global, bool) {
						if !ok {
							return nil, false
						}
						g, ok := ld.X.(*ssa.Global)
						return g, ok
					}()
					return ok2 && g.Name() == "HoleCreatorChan"
				case *ssa.UnOp:
					if x.Op == token.MUL {
						// load of a field of a local holding the received value
						if fa, ok := x.X.(*ssa.FieldAddr); ok {
							_, f, _ := fieldAddrOf(fa)
							if f != field {
								return false
							}
							if al, ok := fa.X.(*ssa.Alloc); ok {
								var src ssa.Value
								cnt := 0
								for _, r := range *al.Referrers() {
									if st, ok := r.(*ssa.Store); ok && st.Addr == ssa.Value(al) {
										src = st.Val
										cnt++
									}
								}
								if cnt != 1 {
									return false
								}
								u, ok := src.(*ssa.UnOp)
								if !ok || u.Op != token.ARROW {
									return false
								}
								ld, ok := u.X.(*ssa.UnOp)
								if !ok {
									return false
								}
								g, ok := ld.X.(*ssa.Global)
								return ok && g.Name() == "HoleCreatorChan"
							}
						}
					}
					return false
				case *ssa.Phi:
					// `fd` kept in a variable across the retry label: every operand qualifies
					for _, e := range x.Edges {
						if e != ssa.Value(x) && !fromRecvDepth(e, field, fn) {
							return false
						}
					}
					return true
				default:
					return false
				}
			}
			return false
		}
		cl := fa[0].(*ssa.Call)
		okOff, okLen := fromRecv(targetArgs(cl)[2], "offset"), fromRecv(targetArgs(cl)[3], "len")
		// the descriptor: <received>.f.Fd()
		okFd := false
		var walk func(v ssa.Value, d int) bool
		walk = func(v ssa.Value, d int) bool {
			if d > 5 {
				return false
			}
			switch x := stripConv(v).(type) {
			case *ssa.Call:
				return x.Call.IsInvoke() && x.Call.Method.Name() == "Fd" && fromRecv(x.Call.Value, "f")
			case *ssa.Phi:
				any := false
				for _, e := range x.Edges {
					if e == ssa.Value(x) {
						continue
					}
					if k, ok := e.(*ssa.Const); ok && k.Value != nil && k.Value.String() == "0" {
						continue
					}
					if !walk(e, d+1) {
						return false
					}
					any = true
				}
				return any
			case *ssa.UnOp:
				if al, ok := x.X.(*ssa.Alloc); ok && x.Op == token.MUL {
					any := false
					for _, r := range *al.Referrers() {
						if st, ok := r.(*ssa.Store); ok && st.Addr == ssa.Value(al) {
							if !walk(st.Val, d+1) {
								return false
							}
							any = true
						}
					}
					return any
				}
			}
			return false
		}
		okFd = walk(targetArgs(cl)[0], 0)
		key := FnName(fn) + " | punches the received request unchanged"
		if okOff && okLen && okFd {
			c.OK(rule, key, c.P.InstrPos(cl), "Fallocate(hole.f.Fd(), PUNCH, hole.offset, hole.len) with hole := <-HoleCreatorChan", false)
		} else {
			c.Bad(rule, key, c.P.InstrPos(cl), fmt.Sprintf("the range handed to fallocate is not the received request's own (fd %v, offset %v, len %v): merged or recomputed ranges punch blocks no guard was evaluated for", okFd, okOff, okLen), nil)
		}
		c.Floor(rule, 1)
	}
}

func fromRecvDepth(v ssa.Value, field string, fn *ssa.Function) bool {
	if f, ok := stripConv(v).(*ssa.Field); ok {
		st, ok := f.X.Type().Underlying().(*types.Struct)
		if !ok || st.Field(f.Field).Name() != field {
			return false
		}
		u, ok := f.X.(*ssa.UnOp)
		return ok && u.Op == token.ARROW
	}
	return false
}

// ---------------------------------------------------------------------------
// C18-MEMBER: hasReplica answers for every listed address
// ---------------------------------------------------------------------------

func ruleMembershipTest(rule string) ruleFn {
	return func(c *Ctx) {
		c.Doc(rule, "hasReplica(address) is true for every entry of the replica and quorum lists with that address, whatever its mode: on the edge Address == address nothing else is tested before `return true` (RemoveReplicaNoLock returns early for an address hasReplica does not know - an ERR entry that is filtered out is never detached)")
		fn := c.Anchor(rule, fCtl+"hasReplica")
		if fn == nil {
			return
		}
		R := NewRenderer(fn)
		n := 0
		for _, lst := range []string{"$0.replicas", "$0.quorumReplicas"} {
			eq := atomEdgesDirect(fn, R, eqAtom(lst+"[*].Address", "$1"), eqAtom("$1", lst+"[*].Address"))
			// from the equality edge, nothing but `return true`
			ws := afterEdge(fn, eq, func(in ssa.Instruction) bool {
				r, ok := in.(*ssa.Return)
				return ok && len(r.Results) == 1 && R.V(r.Results[0]) == "true"
			}, nil, func(in ssa.Instruction) bool {
				switch x := in.(type) {
				case *ssa.If:
					return true
				case *ssa.Return:
					return !(len(x.Results) == 1 && R.V(x.Results[0]) == "true")
				}
				return false
			})
			key := FnName(fn) + " | every entry of " + lst + " with the address counts"
			found := false
			for _, ea := range allAtoms(fn, R) {
				if s := ea.Atom.String(); s == eqAtom(lst+"[*].Address", "$1") || s == eqAtom("$1", lst+"[*].Address") {
					found = true
				}
			}
			if !found {
				c.Bad(rule, key, c.P.Pos(fn.Pos()), "no comparison of the entries' address with the argument", nil)
				continue
			}
			n++
			if len(ws) == 0 {
				c.OK(rule, key, c.P.Pos(fn.Pos()), "Address == address leads straight to `return true`", true)
			} else {
				c.Bad(rule, key, c.P.InstrPos(ws[0].Site), "a further condition decides whether a listed address counts as a member", c.witness(ws[0]))
			}
		}
		c.Floor(rule, 2)
	}
}

// ---------------------------------------------------------------------------
// C17-DATAREFUSE: the replica server refuses I/O only when no replica is open
// ---------------------------------------------------------------------------

func ruleServerDataRefusal(rule string) ruleFn {
	return func(c *Ctx) {
		c.Doc(rule, "replica.Server.ReadAt / WriteAt / Sync / Unmap return either the result of the open replica's operation or, on the edge s.r == nil, the 'no replica' refusal: there is no other bound or state the server itself checks (a cached size or flag kept next to s.r goes stale when the replica grows, reloads or reverts)")
		n := 0
		for _, m := range []string{"ReadAt", "WriteAt", "Sync", "Unmap"} {
			fn := c.Anchor(rule, fSrv+m)
			if fn == nil {
				continue
			}
			ops := CallsTo(fn, fRep+m)
			var other []ssa.Instruction
			for _, r := range Returns(fn) {
				if len(r.Block().Preds) == 0 && r.Block().Index != 0 {
					continue
				}
				fwd := false
				for _, res := range r.Results {
					v := strip(res)
					if ex, ok := v.(*ssa.Extract); ok {
						v = ex.Tuple
					}
					for _, op := range ops {
						if v == ssa.Value(op.(*ssa.Call)) {
							fwd = true
						}
					}
				}
				if !fwd {
					other = append(other, r)
				}
			}
			n++
			if len(other) == 0 {
				c.OK(rule, FnName(fn)+" | only refusal is 'no replica'", c.P.Pos(fn.Pos()), "every return forwards the replica's result", false)
				continue
			}
			c.Guard(rule, fn, other, "refuse the request", nil, atom("no replica is open", isNilAtom("$0.r")))
		}
		c.Floor(rule, 4)
	}
}

// ---------------------------------------------------------------------------
// C14-DIVZERO
// ---------------------------------------------------------------------------

func ruleDivZero(rule string) ruleFn {
	return func(c *Ctx) {
		c.Doc(rule, "handler region: an integer division or remainder whose divisor is not a non-zero constant is cut off on every path by a fact that excludes zero for that very divisor (d != 0, d > 0, d >= k > 0), or the divisor is one of the allow-listed quantities that are non-zero by construction (sector sizes, lengths of lists tested non-empty)")
		region := handlerRegion(c.P)
		n := 0
		for _, fn := range prodFns(c.P) {
			if region != nil && !region[fn] {
				continue
			}
			R := NewRenderer(fn)
			eachInstr(fn, func(in ssa.Instruction) {
				bo, ok := in.(*ssa.BinOp)
				if !ok || (bo.Op != token.QUO && bo.Op != token.REM) || !isIntType(bo.X.Type()) {
					return
				}
				if k, ok := stripConv(bo.Y).(*ssa.Const); ok && k.Value != nil && k.Value.String() != "0" {
					return
				}
				d := R.V(bo.Y)
				n++
				key := FnName(fn) + " | divisor " + d
				if why, ok := divisorExceptions[FnName(fn)+" | "+strings.SplitN(d, "{", 2)[0]]; ok {
					c.OK(rule, key, c.P.InstrPos(in), "exception: "+why, false)
					return
				}
				for _, okd := range divisorAllowed {
					if strings.Contains(d, okd) {
						c.OK(rule, key, c.P.InstrPos(in), "non-zero by construction ("+okd+")", false)
						return
					}
				}
				atoms := []string{"+" + d + " !=0", "+" + d + " -1 >=0", "+" + d + " -2 >=0"}
				ws := Query{Fn: fn, IsSite: func(x ssa.Instruction) bool { return x == in }, GenEdge: atomEdges(fn, R, atoms...)}.Run()
				if len(ws) == 0 {
					c.OK(rule, key, c.P.InstrPos(in), "zero excluded on every path", true)
				} else {
					c.Bad(rule, key, c.P.InstrPos(in), "the divisor can be zero here: integer divide by zero panics in the request handler", c.witness(ws[0]))
				}
			})
		}
		c.OK(rule, "handler region | divisions with a variable divisor", "", fmt.Sprintf("%d found", n), false)
	}
}

var divisorExceptions = map[string]string{
	"replica.construct | $3":          "the sector size handed to construct is the server's default (4096 / command line flag) or the one construct itself recorded in volume.meta",
	"util.ConvertHumanReadable | phi": "starts at 1024 and is only ever multiplied by 1024",
}

var divisorAllowed = []string{"sectorSize", "SectorSize", "len($0.readers)", "defaultSectorSize"}

// ---------------------------------------------------------------------------
// C13-FANOUTWHO: who may fan a management operation out to the replicas
// ---------------------------------------------------------------------------

var fanoutCallers = map[string][]string{
	fRepl + "Snapshot":           {fCtl + "Snapshot", fCtl + "addReplicaNoLock", fCtl + "addQuorumReplicaNoLock"},
	fRepl + "Resize":             {fCtl + "Resize"},
	fRepl + "SetCheckpoint":      {fCtl + "UpdateCheckpoint"},
	fRepl + "SetRevisionCounter": {fCtl + "VerifyRebuildReplica"},
	fRepl + "SetReplicaMode":     {fCtl + "VerifyRebuildReplica", fCtl + "addReplicaDuringStartNoLock"},
}

func ruleFanoutWho(rule string) ruleFn {
	return func(c *Ctx) {
		c.Doc(rule, "the replicator's management fan-outs are issued only by the controller operations that carry their preconditions: Snapshot by Controller.Snapshot (RW count == replication factor, remaining-snapshot check) and by the add-replica paths (join snapshot), Resize by Controller.Resize, SetCheckpoint by UpdateCheckpoint, SetRevisionCounter / SetReplicaMode by the rebuild verification and the start path: a new caller (a pre-revert snapshot, a convenience endpoint) by-passes those gates")
		n := 0
		names := make([]string, 0, len(fanoutCallers))
		for k := range fanoutCallers {
			names = append(names, k)
		}
		sort.Strings(names)
		for _, callee := range names {
			for _, fn := range prodFns(c.P) {
				for _, in := range CallsTo(fn, callee) {
					n++
					who := FnName(fn)
					if i := strings.Index(who, "$"); i > 0 {
						who = who[:i]
					}
					key := who + " | calls " + callee
					ok := false
					for _, a := range fanoutCallers[callee] {
						if a == who {
							ok = true
						}
					}
					if !ok && issuerAllowed(c.P, fn, fanoutCallers[callee], 0) {
						ok = true
					}
					if ok {
						c.OK(rule, key, c.P.InstrPos(in), "allow-listed issuer", false)
					} else {
						c.Bad(rule, key, c.P.InstrPos(in), "a new issuer of this fan-out: the gates of "+strings.Join(fanoutCallers[callee], " / ")+" do not apply to it", nil)
					}
				}
			}
		}
		if n < 6 {
			c.Undecided(rule, "vacuity-floor", "", fmt.Sprintf("only %d fan-out calls found", n))
		}
	}
}

// ---------------------------------------------------------------------------
// C06-REVERT-WO: no revert while a replica is being rebuilt
// ---------------------------------------------------------------------------

func ruleRevertNoWO(rule string) ruleFn {
	return func(c *Ctx) {
		c.Doc(rule, "Controller.Revert / clientsAndSnapshot: a replica in WO mode makes the revert fail - it is never skipped: a rebuilding replica that keeps its head while the others are reverted to the newest snapshot still passes the chain comparison and is promoted with the discarded writes in its image")
		fn := c.Anchor(rule, fCtl+"clientsAndSnapshot")
		if fn == nil {
			return
		}
		R := NewRenderer(fn)
		wo := atomEdgesDirect(fn, R, `+"WO" -$0.replicas[*].Mode ==0`)
		has := false
		for _, ea := range allAtoms(fn, R) {
			if ea.Atom.String() == `+"WO" -$0.replicas[*].Mode ==0` {
				has = true
			}
		}
		key := FnName(fn) + " | WO replica refuses the revert"
		if !has {
			c.Bad(rule, key, c.P.Pos(fn.Pos()), "the replicas' mode is no longer tested for WO", nil)
			return
		}
		ws := afterEdge(fn, wo, nil, nil, func(in ssa.Instruction) bool {
			r, ok := in.(*ssa.Return)
			if !ok {
				return false
			}
			ei := errResultIndex(fn)
			return ei >= 0 && !provablyNonNilError(r.Results[ei])
		})
		if len(ws) == 0 {
			c.OK(rule, key, c.P.Pos(fn.Pos()), "from the edge Mode == WO only error returns are reachable", true)
		} else {
			c.Bad(rule, key, c.P.InstrPos(ws[0].Site), "after a replica was found in WO mode the function can still succeed (the replica is skipped)", c.witness(ws[0]))
		}
		c.Floor(rule, 1)
	}
}

// ---------------------------------------------------------------------------
// C12-REPLACEIDX: the target's position is looked up after the source left the chain
// ---------------------------------------------------------------------------

func ruleReplaceIndex(rule string) ruleFn {
	return func(c *Ctx) {
		c.Doc(rule, "ReplaceDisk looks the target's position in the live chain up after the source's node was removed (the removal shifts every position above it): the file that is closed and reopened is the target's")
		fn := c.Anchor(rule, fRep+"ReplaceDisk")
		if fn == nil {
			return
		}
		R := NewRenderer(fn)
		var finds []ssa.Instruction
		for _, in := range CallsTo(fn, fRep+"findDisk") {
			if strings.HasSuffix(callRender(R, in), "findDisk($0,$1)") {
				finds = append(finds, in)
			}
		}
		if len(finds) == 0 {
			c.Bad(rule, FnName(fn)+" | position of the target", c.P.Pos(fn.Pos()), "findDisk(target) not found", nil)
			return
		}
		c.Guard(rule, fn, finds, "look the target up", nil, okcall(fRep+"removeDiskNode"))
		c.Floor(rule, 1)
	}
}

// ---------------------------------------------------------------------------
// C15-SERVE: a data connection that is given up is closed
// ---------------------------------------------------------------------------

func ruleServeLoop(rule string) ruleFn {
	return func(c *Ctx) {
		c.Doc(rule, "replica/rpc.Server.ListenAndServe: when serving a connection fails the replica is stopped and the process ends - the loop never goes back to Accept with the failed connection left open (the controller would get neither a reply nor EOF and every pending request would run into its full deadline)")
		fn := c.Anchor(rule, "(*replica/rpc.Server).ListenAndServe")
		if fn == nil {
			return
		}
		hs := CallsTo(fn, "(*rpc.Server).Handle")
		if len(hs) == 0 {
			c.Bad(rule, FnName(fn)+" | serves the connection", c.P.Pos(fn.Pos()), "no call of rpc.Server.Handle", nil)
			return
		}
		for _, h := range hs {
			_, nonNil := nilTestEdges(fn, errOfCall(h))
			acc := func(in ssa.Instruction) bool {
				cl, ok := in.(*ssa.Call)
				return ok && cl.Call.IsInvoke() && (cl.Call.Method.Name() == "Accept" || cl.Call.Method.Name() == "AcceptTCP") || (ok && strings.HasSuffix(CalleeName(cl), ".AcceptTCP"))
			}
			closed := func(in ssa.Instruction) bool {
				cl, ok := in.(*ssa.Call)
				if !ok {
					return false
				}
				nm := CalleeName(cl)
				return strings.HasSuffix(nm, ".Close") || strings.Contains(nm, "Fatal") || (cl.Call.IsInvoke() && cl.Call.Method.Name() == "Close")
			}
			ws := afterEdge(fn, nonNil, closed, nil, acc)
			key := FnName(fn) + " | failed connection is not left open"
			if len(ws) == 0 {
				c.OK(rule, key, c.P.InstrPos(h), "after Handle failed the next Accept is reached only past a Close / process exit", true)
			} else {
				c.Bad(rule, key, c.P.InstrPos(ws[0].Site), "after Handle failed the loop accepts the next connection without having closed the failed one", c.witness(ws[0]))
			}
		}
		c.Floor(rule, 1)
	}
}
