package main

import (
	"fmt"
	"sort"
	"strings"

	"golang.org/x/tools/go/ssa"
)

// ---------------------------------------------------------------------------
// FRESH typestate (DESIGN.md section 2, TS/FRESH): at every release of the controller
// write lock no membership mutation may be pending, i.e. every mutation of
// c.replicas / element modes / backend set is followed by the refreshing call
// (UpdateVolStatus resp. UpdateCheckpoint) before the lock is dropped.
//
// Path-sensitive exploration with interprocedural summaries split by the nil-ness of
// the returned error.  Events: "T" (unconditional), "A:<address expr>" (mode change of
// one address: a no-op when the address is not a member), "E:<error expr>" (ERR marking
// of the addresses of a BackendError by handleErrorNoLock).
// ---------------------------------------------------------------------------

const ctlMutexClass = "controller.Controller.RWMutex"

type fexit struct {
	kind    byte // 'n' nil error, 'e' non-nil error, 'u' unknown / no error result
	cleared bool
	pending string // sorted, '\x1f'-joined
}

type FreshViolation struct {
	Fn      *ssa.Function
	At      ssa.Instruction
	Release string
	Event   string
	Origin  string
	Witness []*ssa.BasicBlock
}

type Fresh struct {
	P         *Prog
	refresh   string // FnName of the refreshing function
	summaries map[*ssa.Function][]fexit
	inprog    map[*ssa.Function]bool
	Viol      []FreshViolation
	Checked   map[*ssa.Function]int // functions with a controller write-lock region -> number of releases checked
	States    int
	origin    map[string]string // event -> first generating site
}

func newFresh(P *Prog, refresh string) *Fresh {
	return &Fresh{P: P, refresh: refresh, summaries: map[*ssa.Function][]fexit{}, inprog: map[*ssa.Function]bool{}, Checked: map[*ssa.Function]int{}, origin: map[string]string{}}
}

type fstate struct {
	pending  map[string]bool
	cleared  bool
	known    map[ssa.Value]byte
	deferRel bool // a deferred Unlock of the controller mutex is registered
	held     bool // controller write lock held by this function
}

func (s fstate) key() string {
	var ks []string
	for k := range s.pending {
		ks = append(ks, k)
	}
	sort.Strings(ks)
	var kn []string
	for v, k := range s.known {
		kn = append(kn, fmt.Sprintf("%p%c", v, k))
	}
	sort.Strings(kn)
	return fmt.Sprintf("%s|%v|%v|%v|%s", strings.Join(ks, "\x1f"), s.cleared, s.deferRel, s.held, strings.Join(kn, ","))
}

func (s fstate) clone() fstate {
	n := fstate{pending: map[string]bool{}, cleared: s.cleared, known: map[ssa.Value]byte{}, deferRel: s.deferRel, held: s.held}
	for k := range s.pending {
		n.pending[k] = true
	}
	for k, v := range s.known {
		n.known[k] = v
	}
	return n
}

func (s fstate) pendingKey() string {
	var ks []string
	for k := range s.pending {
		ks = append(ks, k)
	}
	sort.Strings(ks)
	return strings.Join(ks, "\x1f")
}

func inCtlPkgs(fn *ssa.Function) bool {
	n := FnName(fn)
	return strings.Contains(n, "controller.") || strings.Contains(n, "controller/rest.")
}

// isMembershipStore: store into c.replicas / c.quorumReplicas / c.backend (whole or element).
func isMembershipMutation(R *Renderer, in ssa.Instruction) (string, bool) {
	switch x := in.(type) {
	case *ssa.Store:
		a := R.V(x.Addr)
		for _, f := range []string{"replicas", "quorumReplicas", "backend"} {
			for _, recv := range []string{"$0", "$0.c"} {
				p := "&" + recv + "." + f
				if a == p || strings.HasPrefix(a, p+"[") {
					return "store " + a, true
				}
			}
		}
	case *ssa.Call:
		n := CalleeName(x)
		switch n {
		case fRepl + "AddBackend", fRepl + "AddQuorumBackend", fRepl + "RemoveBackend", fRepl + "SetMode":
			return "call " + n, true
		}
	}
	return "", false
}

func (F *Fresh) summary(fn *ssa.Function) []fexit {
	if s, ok := F.summaries[fn]; ok {
		return s
	}
	if F.inprog[fn] {
		return []fexit{{kind: 'u'}}
	}
	F.inprog[fn] = true
	ex := F.explore(fn)
	delete(F.inprog, fn)
	F.summaries[fn] = ex
	return ex
}

var beErrRe = "as<*controller.BackendError>("

func (F *Fresh) explore(fn *ssa.Function) []fexit {
	if len(fn.Blocks) == 0 {
		return []fexit{{kind: 'u'}}
	}
	R := NewRenderer(fn)
	// does this function contain the detach loop for error X?
	hasLoopFor := map[string]bool{}
	for _, in := range CallsTo(fn, fCtl+"RemoveReplicaNoLock") {
		s := callRender(R, in)
		pre := fCtl + "RemoveReplicaNoLock(" // receiver may be $0 or $0.c
		if i := strings.Index(s, ",key("+beErrRe); i > 0 && strings.HasPrefix(s, pre) && strings.HasSuffix(s, ").Errors))") {
			x := s[i+len(",key("+beErrRe) : len(s)-len(").Errors))")]
			hasLoopFor[x] = true
		}
	}
	type node struct {
		b *ssa.BasicBlock
		k string
	}
	type item struct {
		b *ssa.BasicBlock
		s fstate
	}
	seen := map[node]bool{}
	prev := map[node]node{}
	exits := map[fexit]bool{}
	queue := []item{{fn.Blocks[0], fstate{pending: map[string]bool{}, known: map[ssa.Value]byte{}}}}
	trace := func(n node) []*ssa.BasicBlock {
		var w []*ssa.BasicBlock
		cur := n
		for i := 0; i < 2000; i++ {
			w = append(w, cur.b)
			p, ok := prev[cur]
			if !ok {
				break
			}
			cur = p
		}
		for i, j := 0, len(w)-1; i < j; i, j = i+1, j-1 {
			w[i], w[j] = w[j], w[i]
		}
		return w
	}
	vioSeen := map[string]bool{}
	release := func(s *fstate, at ssa.Instruction, how string, n node) {
		if s.held {
			F.Checked[fn]++
			for ev := range s.pending {
				k := how + "|" + ev
				if !vioSeen[k] {
					vioSeen[k] = true
					F.Viol = append(F.Viol, FreshViolation{Fn: fn, At: at, Release: how, Event: ev, Origin: F.origin[FnName(fn)+"|"+ev], Witness: trace(n)})
				}
			}
		}
		s.pending = map[string]bool{}
		s.cleared = false
		s.held = false
	}
	addEv := func(s *fstate, ev string, at ssa.Instruction) {
		s.pending[ev] = true
		k := FnName(fn) + "|" + ev
		if _, ok := F.origin[k]; !ok {
			F.origin[k] = F.P.InstrPos(at)
		}
	}
	for len(queue) > 0 {
		it := queue[0]
		queue = queue[1:]
		n := node{it.b, it.s.key()}
		if seen[n] {
			continue
		}
		seen[n] = true
		F.States++
		if len(seen) > 30000 {
			break
		}
		// states is a work list because a call may fork the state
		states := []fstate{it.s.clone()}
		stopped := false
		for _, in := range it.b.Instrs {
			var next []fstate
			for _, s := range states {
				s := s
				switch x := in.(type) {
				case *ssa.Defer:
					if lo, ok := lockOpOf(R, x); ok && lo.op == 'U' && lo.class == ctlMutexClass {
						s.deferRel = true
					}
					next = append(next, s)
				case *ssa.RunDefers:
					if s.deferRel {
						release(&s, in, "deferred Unlock at return", n)
						s.deferRel = false
					}
					next = append(next, s)
				case *ssa.Store:
					if d, ok := isMembershipMutation(R, in); ok {
						_ = d
						addEv(&s, "T", in)
					}
					next = append(next, s)
				case *ssa.Call:
					if lo, ok := lockOpOf(R, x); ok && lo.class == ctlMutexClass {
						switch lo.op {
						case 'L':
							s.held = true
							s.pending = map[string]bool{}
							s.cleared = false
						case 'U':
							release(&s, in, "Unlock", n)
						}
						next = append(next, s)
						break
					}
					name := CalleeName(x)
					args := callArgs(R, x)
					switch {
					case name == F.refresh:
						s.pending = map[string]bool{}
						s.cleared = true
						next = append(next, s)
					case name == fCtl+"setReplicaModeNoLock":
						addEv(&s, "A:"+args[1], in)
						next = append(next, s)
					case name == fCtl+"handleErrorNoLock" && F.leavesPending(x.Common().StaticCallee()):
						// marks the addresses of err ERR without re-evaluating: keyed event,
						// discharged by the detach loop over err's keys
						addEv(&s, "E:"+args[1], in)
						next = append(next, s)
					case name == fCtl+"RemoveReplicaNoLock":
						a := args[1]
						if strings.HasPrefix(a, "key("+beErrRe) {
							next = append(next, s) // loop body: handled on the loop's exit edge
							break
						}
						delete(s.pending, "A:"+a)
						// either not a member (nothing changed) or removed + refreshed
						s2 := s.clone()
						s2.pending = map[string]bool{}
						s2.cleared = true
						next = append(next, s, s2)
					default:
						if _, ok := isMembershipMutation(R, in); ok {
							addEv(&s, "T", in)
							next = append(next, s)
							break
						}
						g := x.Common().StaticCallee()
						if g == nil || !inCtlPkgs(g) || g.Blocks == nil {
							next = append(next, s)
							break
						}
						ev := errOfCall(x)
						for _, e := range F.summary(g) {
							ns := s.clone()
							if e.cleared {
								ns.pending = map[string]bool{}
								ns.cleared = true
							}
							if e.pending != "" {
								for _, p := range strings.Split(e.pending, "\x1f") {
									addEv(&ns, substEvent(p, args), in)
								}
							}
							if ev != nil && e.kind != 'u' {
								ns.known[ev] = e.kind
							}
							next = append(next, ns)
						}
					}
				case *ssa.Return:
					kind := byte('u')
					if ei := errResultIndex(fn); ei >= 0 && ei < len(x.Results) {
						v := strip(x.Results[ei])
						switch {
						case isNilConst(v):
							kind = 'n'
						case provablyNonNilError(v):
							kind = 'e'
						default:
							if k, ok := s.known[v]; ok {
								kind = k
							}
						}
					}
					exits[fexit{kind, s.cleared, s.pendingKey()}] = true
					next = append(next, s)
				default:
					next = append(next, s)
				}
			}
			states = dedupStates(next)
			if isTerminatorCall(in) {
				stopped = true
				break
			}
		}
		if stopped {
			continue
		}
		for _, s := range states {
			for k, succ := range it.b.Succs {
				ns := s.clone()
				if iff, ok := it.b.Instrs[len(it.b.Instrs)-1].(*ssa.If); ok {
					// nil-tests of error values: prune / learn
					if v, isNil, ok := nilTestOf(iff.Cond); ok {
						want := byte('e')
						if (isNil && k == 0) || (!isNil && k == 1) {
							want = 'n'
						}
						sv := strip(v)
						if have, ok := ns.known[sv]; ok && have != want {
							continue // infeasible under the callee's summary
						}
						ns.known[sv] = want
					}
					at := R.CondAtom(iff.Cond)
					if k == 1 {
						at = at.Neg()
					}
					as := at.String()
					for ev := range ns.pending {
						if !strings.HasPrefix(ev, "E:") {
							continue
						}
						x := ev[2:]
						if as == "!is<*controller.BackendError>("+x+")" || as == "-len("+beErrRe+x+").Errors) >=0" ||
							(as == "!more("+beErrRe+x+").Errors)" && hasLoopFor[x]) {
							delete(ns.pending, ev)
						}
					}
				}
				nn := node{succ, ns.key()}
				if !seen[nn] {
					if _, ok := prev[nn]; !ok {
						prev[nn] = n
					}
					queue = append(queue, item{succ, ns})
				}
			}
		}
	}
	var out []fexit
	for e := range exits {
		out = append(out, e)
	}
	sort.Slice(out, func(i, j int) bool {
		return fmt.Sprint(out[i]) < fmt.Sprint(out[j])
	})
	if len(out) == 0 {
		out = []fexit{{kind: 'u'}}
	}
	return out
}

// leavesPending: some exit of g carries a pending mutation.
func (F *Fresh) leavesPending(g *ssa.Function) bool {
	if g == nil {
		return true
	}
	for _, e := range F.summary(g) {
		if e.pending != "" {
			return true
		}
	}
	return false
}

func dedupStates(xs []fstate) []fstate {
	seen := map[string]bool{}
	var out []fstate
	for _, s := range xs {
		k := s.key()
		if !seen[k] {
			seen[k] = true
			out = append(out, s)
		}
	}
	return out
}

// nilTestOf: cond is `v == nil` / `v != nil`; returns v and whether it is the == form.
func nilTestOf(cond ssa.Value) (ssa.Value, bool, bool) {
	neg := false
	for {
		if u, ok := cond.(*ssa.UnOp); ok && u.Op.String() == "!" {
			cond = u.X
			neg = !neg
			continue
		}
		break
	}
	bo, ok := cond.(*ssa.BinOp)
	if !ok || (bo.Op.String() != "==" && bo.Op.String() != "!=") {
		return nil, false, false
	}
	var other ssa.Value
	if isNilConst(bo.Y) {
		other = bo.X
	} else if isNilConst(bo.X) {
		other = bo.Y
	} else {
		return nil, false, false
	}
	eq := bo.Op.String() == "=="
	if neg {
		eq = !eq
	}
	return other, eq, true
}

func substEvent(ev string, args []string) string {
	if ev == "T" {
		return ev
	}
	return ev[:2] + substParams(ev[2:], args)
}

// run explores every function of the controller packages that takes the controller write lock.
func (F *Fresh) run() {
	for _, fn := range F.P.AllFns {
		if !inCtlPkgs(fn) {
			continue
		}
		R := NewRenderer(fn)
		locks := false
		eachInstr(fn, func(in ssa.Instruction) {
			if lo, ok := lockOpOf(R, in); ok && lo.op == 'L' && lo.class == ctlMutexClass {
				locks = true
			}
		})
		if locks {
			F.summary(fn)
		}
	}
}

func ruleFresh(rule, refreshName string) ruleFn {
	return func(c *Ctx) {
		c.Doc(rule, "at every release of the controller write lock (explicit Unlock or deferred Unlock at return) no membership mutation is pending: every store to c.replicas/c.quorumReplicas/c.backend (or element), AddBackend/RemoveBackend/SetMode, reset(), mode change by setReplicaModeNoLock(address) and ERR marking by handleErrorNoLock(err) is followed by "+refreshName+"() before the lock is dropped.  Interprocedural summaries split by nil-ness of the returned error; a mode change of address a is discharged by RemoveReplicaNoLock(a) (which re-evaluates exactly when a is a member), an ERR marking of err's addresses by the detach loop over err's keys")
		if c.Anchor(rule, refreshName) == nil {
			return
		}
		F := newFresh(c.P, refreshName)
		F.run()
		vioBy := map[*ssa.Function][]FreshViolation{}
		for _, v := range F.Viol {
			vioBy[v.Fn] = append(vioBy[v.Fn], v)
		}
		var fns []*ssa.Function
		for fn := range F.Checked {
			fns = append(fns, fn)
		}
		sort.Slice(fns, func(i, j int) bool { return FnName(fns[i]) < FnName(fns[j]) })
		for _, fn := range fns {
			vs := vioBy[fn]
			if len(vs) == 0 {
				c.OK(rule, FnName(fn)+" | lock releases fresh", c.P.Pos(fn.Pos()), fmt.Sprintf("%d release point visits, no pending membership mutation", F.Checked[fn]), true)
				continue
			}
			seen := map[string]bool{}
			for _, v := range vs {
				key := fmt.Sprintf("%s | stale at %s | %s", FnName(fn), v.Release, v.Event)
				if seen[key] {
					continue
				}
				seen[key] = true
				what := "membership changed (store / AddBackend / RemoveBackend / reset)"
				if len(v.Event) > 2 && v.Event[0] == 'A' {
					what = "mode of replica " + v.Event[2:] + " changed"
				} else if len(v.Event) > 2 && v.Event[0] == 'E' {
					what = "replicas named by error " + v.Event[2:] + " marked ERR"
				}
				c.Bad(rule, key, c.P.InstrPos(v.At), fmt.Sprintf("controller lock released with a pending mutation: %s (first generated at %s) and no %s() since", what, v.Origin, refreshName), c.witness(Witness{Path: v.Witness}))
			}
		}
		// side conditions of the keyed-event argument
		if rm := c.Anchor(rule, fCtl+"RemoveReplicaNoLock"); rm != nil {
			ok := true
			detail := ""
			for _, e := range F.summary(rm) {
				if e.pending != "" {
					ok = false
					detail = "RemoveReplicaNoLock can return with a pending mutation (" + strings.ReplaceAll(e.pending, "\x1f", ",") + ")"
				}
			}
			// the non-refreshing return must be the `!hasReplica(address)` one
			R := NewRenderer(rm)
			ws := Query{Fn: rm, IsSite: func(in ssa.Instruction) bool { _, ok := in.(*ssa.Return); return ok },
				Gen:     func(in ssa.Instruction) bool { return isPlainCall(in) && callMatches(in, refreshName) },
				GenEdge: atomEdges(rm, R, "!"+fCtl+"hasReplica($0,$1)")}.Run()
			if len(ws) > 0 {
				ok = false
				detail = "RemoveReplicaNoLock has a return that neither re-evaluates nor is the not-a-member early return"
			}
			if ok {
				c.OK(rule, "side-condition | RemoveReplicaNoLock re-evaluates unless address is not a member", c.P.Pos(rm.Pos()), "every return passes "+refreshName+"() or the !hasReplica(address) edge; no pending mutation at exit", true)
			} else {
				c.Bad(rule, "side-condition | RemoveReplicaNoLock re-evaluates unless address is not a member", c.P.Pos(rm.Pos()), detail, c.witnessOr(ws))
			}
		}
		if sm := c.Anchor(rule, fCtl+"setReplicaModeNoLock"); sm != nil {
			R := NewRenderer(sm)
			var muts []ssa.Instruction
			eachInstr(sm, func(in ssa.Instruction) {
				if _, ok := isMembershipMutation(R, in); ok {
					muts = append(muts, in)
				}
			})
			c.Guard(rule, sm, muts, "side-condition | setReplicaModeNoLock mutates only the entry of its address", nil,
				atom("entry address == address", "+$0.replicas[*].Address -$1 ==0", "+$0.quorumReplicas[*].Address -$1 ==0"))
		}
		if he := c.Anchor(rule, fCtl+"handleErrorNoLock"); he != nil {
			R := NewRenderer(he)
			bad := 0
			eachInstr(he, func(in ssa.Instruction) {
				if _, ok := isMembershipMutation(R, in); ok {
					bad++
				}
				if cl, ok := in.(*ssa.Call); ok {
					if g := cl.Common().StaticCallee(); g != nil && inCtlPkgs(g) && g.Blocks != nil && FnName(g) != fCtl+"setReplicaModeNoLock" {
						for _, e := range F.summary(g) {
							if e.pending != "" {
								bad++
							}
						}
					}
				}
			})
			if bad == 0 {
				c.OK(rule, "side-condition | handleErrorNoLock mutates only through setReplicaModeNoLock(key(err.Errors), ERR)", c.P.Pos(he.Pos()), "no other membership mutation in handleErrorNoLock", true)
			} else {
				c.Bad(rule, "side-condition | handleErrorNoLock mutates only through setReplicaModeNoLock(key(err.Errors), ERR)", c.P.Pos(he.Pos()), "handleErrorNoLock mutates membership in a way the keyed-event argument does not cover", nil)
			}
		}
		c.Floor(rule, 12)
	}
}
