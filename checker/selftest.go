package main

import (
	"encoding/json"
	"fmt"
	"os"
	"path/filepath"
	"runtime"
	"sort"
	"strconv"
	"strings"

	"golang.org/x/tools/go/ssa"
)

// ---------------------------------------------------------------------------
// Thorough tier: (a) second build configuration (-tags debug), (b) seeded self-test —
// every /verif/seeded/<id>/patch.diff of the property is applied to an in-memory overlay
// of the touched files and the property re-checked.  Self-test results are evidence only.
// ---------------------------------------------------------------------------

type hunk struct {
	oldStart int
	oldLines []string // context + removed
	newLines []string // context + added
}

type filePatch struct {
	path  string
	hunks []hunk
}

func parseUnifiedDiff(s string) []filePatch {
	var out []filePatch
	var cur *filePatch
	var h *hunk
	flush := func() {
		if cur != nil && h != nil {
			cur.hunks = append(cur.hunks, *h)
		}
		h = nil
	}
	for _, line := range strings.Split(s, "\n") {
		switch {
		case strings.HasPrefix(line, "diff --git "):
			flush()
			if cur != nil {
				out = append(out, *cur)
			}
			cur = &filePatch{}
		case strings.HasPrefix(line, "+++ "):
			if cur != nil {
				p := strings.TrimPrefix(line, "+++ ")
				p = strings.TrimPrefix(p, "b/")
				cur.path = p
			}
		case strings.HasPrefix(line, "--- "), strings.HasPrefix(line, "index "), strings.HasPrefix(line, "new file"), strings.HasPrefix(line, "deleted file"):
		case strings.HasPrefix(line, "@@ "):
			flush()
			h = &hunk{}
			// @@ -a,b +c,d @@
			f := strings.Fields(line)
			if len(f) >= 2 {
				a := strings.TrimPrefix(f[1], "-")
				if i := strings.Index(a, ","); i >= 0 {
					a = a[:i]
				}
				h.oldStart, _ = strconv.Atoi(a)
			}
		default:
			if h == nil {
				continue
			}
			switch {
			case strings.HasPrefix(line, "+"):
				h.newLines = append(h.newLines, line[1:])
			case strings.HasPrefix(line, "-"):
				h.oldLines = append(h.oldLines, line[1:])
			case strings.HasPrefix(line, " "):
				h.oldLines = append(h.oldLines, line[1:])
				h.newLines = append(h.newLines, line[1:])
			case line == "":
				// blank context line whose leading space was stripped
				h.oldLines = append(h.oldLines, "")
				h.newLines = append(h.newLines, "")
			}
		}
	}
	flush()
	if cur != nil {
		out = append(out, *cur)
	}
	return out
}

func applyPatchToContent(content string, fp filePatch) (string, bool) {
	lines := strings.Split(content, "\n")
	offset := 0
	for _, h := range fp.hunks {
		old := h.oldLines
		// trailing empty artefact
		for len(old) > 0 && old[len(old)-1] == "" && len(h.newLines) > 0 && h.newLines[len(h.newLines)-1] == "" {
			old = old[:len(old)-1]
			h.newLines = h.newLines[:len(h.newLines)-1]
		}
		pos := -1
		want := h.oldStart - 1 + offset
		match := func(at int) bool {
			if at < 0 || at+len(old) > len(lines) {
				return false
			}
			for i, l := range old {
				if lines[at+i] != l {
					return false
				}
			}
			return true
		}
		for d := 0; d < 400 && pos < 0; d++ {
			if match(want + d) {
				pos = want + d
			} else if match(want - d) {
				pos = want - d
			}
		}
		if pos < 0 {
			return "", false
		}
		nl := append([]string{}, lines[:pos]...)
		nl = append(nl, h.newLines...)
		nl = append(nl, lines[pos+len(old):]...)
		offset += len(h.newLines) - len(old)
		lines = nl
	}
	return strings.Join(lines, "\n"), true
}

type selfTestResult struct {
	Applied  int      `json:"applied"`
	Detected int      `json:"detected"`
	Missed   []string `json:"missed"`
	Skipped  []string `json:"skipped"`
	Details  []string `json:"details"`
}

func clearCaches() {
	lockInfoCache = map[*Prog]*LockInfo{}
	regionCache = map[*Prog]map[*ssa.Function]bool{}
	allocNames = map[*ssa.Function]map[*ssa.Alloc]string{}
	helperFactsMemo = map[*ssa.Function]*siteFacts{}
	nonNilFnMemo = map[*ssa.Function]int{}
	constCmpMemo = map[*ssa.Function]map[*ssa.BasicBlock]*constCmpT{}
	branchedPhiMemo = map[*ssa.Function]map[*ssa.Phi]bool{}
	pureMemo = map[*ssa.Function]*string{}
	tupleMemo = map[*ssa.Function]map[int]*string{}
	runtime.GC()
}

func runSelfTest(repo, verifDir, prop string, spec *propSpec, findings []Finding) selfTestResult {
	var res selfTestResult
	quietView = true
	defer func() { quietView = false }()
	dirs, _ := filepath.Glob(filepath.Join(verifDir, "seeded", "*"))
	sort.Strings(dirs)
	for _, d := range dirs {
		mb, err := os.ReadFile(filepath.Join(d, "meta.json"))
		if err != nil {
			continue
		}
		var meta struct {
			Property string `json:"property"`
		}
		json.Unmarshal(mb, &meta)
		if meta.Property != prop {
			continue
		}
		name := filepath.Base(d)
		pb, err := os.ReadFile(filepath.Join(d, "patch.diff"))
		if err != nil {
			res.Skipped = append(res.Skipped, name+": no patch.diff")
			continue
		}
		overlay := map[string][]byte{}
		ok := true
		for _, fp := range parseUnifiedDiff(string(pb)) {
			if fp.path == "" || fp.path == "/dev/null" {
				ok = false
				break
			}
			abs := filepath.Join(repo, fp.path)
			cb, err := os.ReadFile(abs)
			if err != nil {
				ok = false
				break
			}
			nc, applied := applyPatchToContent(string(cb), fp)
			if !applied {
				ok = false
				break
			}
			overlay[abs] = []byte(nc)
		}
		if !ok || len(overlay) == 0 {
			res.Skipped = append(res.Skipped, name+": patch no longer applies to the current tree")
			continue
		}
		P, err := loadProg(repo, "", overlay)
		if err != nil {
			res.Skipped = append(res.Skipped, name+": variant does not load: "+firstLines(err.Error(), 2))
			continue
		}
		res.Applied++
		c, _ := evaluate(P, prop, "thorough", spec, findings)
		var rules []string
		seen := map[string]bool{}
		for _, o := range c.Obls {
			if o.Status == "violated" || o.Status == "undecided" {
				known := false
				for _, f := range findings {
					if f.Status == "open" && f.Property == prop && f.Rule == o.Rule && f.Key == o.Key {
						known = true
					}
				}
				if !known && !seen[o.Rule] {
					seen[o.Rule] = true
					rules = append(rules, o.Rule)
				}
			}
		}
		if len(rules) > 0 {
			res.Detected++
			res.Details = append(res.Details, fmt.Sprintf("%s: reported by %s", name, strings.Join(rules, ",")))
		} else {
			res.Missed = append(res.Missed, name)
		}
		clearCaches()
	}
	return res
}
