package main

import (
	"fmt"
	"go/token"
	"go/types"
	"regexp"
	"strings"

	"golang.org/x/tools/go/ssa"
)

const (
	fDD  = "(*replica.diffDisk)."
	fRep = "(*replica.Replica)."
	fSrv = "(*replica.Server)."
)

// ---------------------------------------------------------------------------
// C01 (replica side)
// ---------------------------------------------------------------------------

func ruleC01Head(c *Ctx) {
	const rule = "C01-HEADWRITE"
	c.Doc(rule, "fullWriteAt writes only to the head file d.files[len(d.files)-1] and, for every sector of the write, unconditionally stores d.location[startSector+i] = len(d.files)-1 (same index term as the loop's read of d.location); no other function of package replica invokes WriteAt on a chain file; readModifyWrite runs fullReadAt and fullWriteAt with d.rmLock held; RemoveIndex shifts every map entry >= index down by one; lookup probes files from the head (len-1) downwards; preload records every extent's block under the scanned file's index")
	fn := c.Anchor(rule, fDD+"fullWriteAt")
	if fn != nil {
		R := NewRenderer(fn)
		ws := CallsTo(fn, "invoke:WriteAt")
		if len(ws) != 1 || callRender(R, ws[0]) != "invoke.WriteAt($0.files[+len($0.files) -1],$1,$2)" {
			got := ""
			if len(ws) > 0 {
				got = callRender(R, ws[0])
			}
			c.Bad(rule, FnName(fn)+" | write goes to the head file", "", "expected exactly one d.files[len(d.files)-1].WriteAt(buf, offset); got "+got, nil)
		} else {
			c.OK(rule, FnName(fn)+" | write goes to the head file", c.P.InstrPos(ws[0]), "d.files[len(d.files)-1].WriteAt(buf, offset)", false)
		}
		// location store
		var st []ssa.Instruction
		eachInstr(fn, func(in ssa.Instruction) {
			if s, ok := in.(*ssa.Store); ok && strings.HasPrefix(R.V(s.Addr), "&$0.location[") {
				st = append(st, in)
			}
		})
		if len(st) != 1 {
			c.Bad(rule, FnName(fn)+" | map update", "", fmt.Sprintf("expected exactly one store into d.location, found %d", len(st)), nil)
		} else {
			s := st[0].(*ssa.Store)
			a, v := R.V(s.Addr), R.V(s.Val)
			wantA := "&$0.location[+* +div(+$2,+$0.sectorSize)]"
			if a == wantA && v == "(+len($0.files) -1)" {
				c.OK(rule, FnName(fn)+" | map update value/index", c.P.InstrPos(s), "d.location[startSector+i] = uint16(len(d.files)-1)", false)
			} else {
				c.Bad(rule, FnName(fn)+" | map update value/index", c.P.InstrPos(s), "store is "+a+" = "+v+", expected "+wantA+" = (+len($0.files) -1)", nil)
			}
			// unconditional within the loop: from the loop-body entry edge every path to the back edge passes the store
			body := atomEdges(fn, R, "-* +div(+len($1),+$0.sectorSize) -1 >=0")
			wsx := afterEdge(fn, body, func(in ssa.Instruction) bool { return in == st[0] }, nil, func(in ssa.Instruction) bool {
				// site: the increment of the induction variable (loop latch)
				b, ok := in.(*ssa.BinOp)
				return ok && b.Op == token.ADD && R.V(b) == "*" && in.Block() != st[0].Block() || (ok && R.V(b) == "*" && instrIndex(in) < instrIndex(st[0]) && in.Block() == st[0].Block())
			})
			if len(wsx) == 0 {
				c.OK(rule, FnName(fn)+" | map update on every sector", c.P.InstrPos(s), "every iteration of the sector loop passes the store before the loop latch", true)
			} else {
				c.Bad(rule, FnName(fn)+" | map update on every sector", c.P.InstrPos(s), "a sector of the write can be left with its old map entry (store is conditional)", c.witness(wsx[0]))
			}
		}
	}
	// WHO: WriteAt on DiffDisk
	for _, f := range pkgFuncs(c.P, "replica") {
		for _, in := range AnyCallsTo(f, "invoke:WriteAt") {
			cc := in.(ssa.CallInstruction).Common()
			if !strings.HasSuffix(types.TypeString(cc.Value.Type(), nil), "types.DiffDisk") {
				continue
			}
			if FnName(f) == fDD+"fullWriteAt" {
				c.OK(rule, FnName(f)+" | DiffDisk.WriteAt site", c.P.InstrPos(in), "allow-listed writer of chain files", false)
			} else {
				c.Bad(rule, FnName(f)+" | DiffDisk.WriteAt site", c.P.InstrPos(in), "new writer of a chain file outside fullWriteAt (could write a snapshot file or bypass the block map)", nil)
			}
		}
	}
	// read-modify-write under rmLock
	if f := c.Anchor(rule, fDD+"readModifyWrite"); f != nil {
		L := lockInfo(c.P)
		res := L.analyzeLocks(f)
		for _, name := range []string{fDD + "fullReadAt", fDD + "fullWriteAt"} {
			calls := CallsTo(f, name)
			if len(calls) != 1 {
				c.Bad(rule, FnName(f)+" | "+name, "", "expected one call", nil)
				continue
			}
			if res.MustHold[calls[0]]["$0.rmLock"] == 'W' {
				c.OK(rule, FnName(f)+" | "+name+" under rmLock", c.P.InstrPos(calls[0]), "d.rmLock held on every path", true)
			} else {
				c.Bad(rule, FnName(f)+" | "+name+" under rmLock", c.P.InstrPos(calls[0]), "read-modify-write step runs without d.rmLock: two unaligned writes to one block can interleave", nil)
			}
		}
		// no release between read and write
		rd, wr := CallsTo(f, fDD+"fullReadAt"), CallsTo(f, fDD+"fullWriteAt")
		if len(rd) == 1 && len(wr) == 1 {
			ws := Query{Fn: f, Start: rd[0], Kill: nil, Gen: func(in ssa.Instruction) bool { return false }, IsSite: isUnlockCall}.Run()
			if len(ws) == 0 {
				c.OK(rule, FnName(f)+" | lock not released between read and write", c.P.InstrPos(rd[0]), "no explicit Unlock after the read", true)
			} else {
				c.Bad(rule, FnName(f)+" | lock not released between read and write", c.P.InstrPos(ws[0].Site), "rmLock released between the read and the write", nil)
			}
			// the old content of the block is always read first: a map entry 0 means "owner not
			// known yet", not "never written"
			c.Guard(rule, f, wr, "write merged block", nil, Need{Desc: "surrounding block read successfully", Edge: successEdgesOfCall(f, rd[0])})
			R := NewRenderer(f)
			if callRender(R, wr[0]) == fDD+"fullWriteAt($0,makeslice($0.sectorSize),(+$0.sectorSize*div(+$2,+$0.sectorSize)))" || strings.HasPrefix(callRender(R, wr[0]), fDD+"fullWriteAt($0,makeslice($0.sectorSize),") {
				c.OK(rule, FnName(f)+" | writes back the merged block", c.P.InstrPos(wr[0]), "the block read is the block written", false)
			} else {
				c.Bad(rule, FnName(f)+" | writes back the merged block", c.P.InstrPos(wr[0]), "unexpected write-back "+callRender(R, wr[0]), nil)
			}
		}
	}
	// RemoveIndex
	if f := c.Anchor(rule, fDD+"RemoveIndex"); f != nil {
		R := NewRenderer(f)
		var st []ssa.Instruction
		eachInstr(f, func(in ssa.Instruction) {
			if s, ok := in.(*ssa.Store); ok && strings.HasPrefix(R.V(s.Addr), "&$0.location[") {
				st = append(st, in)
			}
		})
		c.Guard(rule, f, st, "shift map entry", nil, atom("entry >= removed index", "+$0.location[*] -$1 >=0"))
		for _, s := range st {
			if v := R.V(s.(*ssa.Store).Val); v != "(+$0.location[*] -1)" {
				c.Bad(rule, FnName(f)+" | shift by one", c.P.InstrPos(s), "map entry becomes "+v, nil)
			} else {
				c.OK(rule, FnName(f)+" | shift by one", c.P.InstrPos(s), "d.location[i]--", false)
			}
			// directly on the >= edge (not additionally conditioned)
			ctl := controlAtoms(f, R, s.Block())
			// ... or, when the body does more on that edge (counting for a log line), the store is
			// passed on every path from the >= edge to the next evaluation of the test / the return
			ge := atomEdges(f, R, "+$0.location[*] -$1 >=0")
			var tests []ssa.Instruction
			for _, b := range f.Blocks {
				for k := range b.Succs {
					if ge(b, k) && len(b.Instrs) > 0 {
						tests = append(tests, b.Instrs[len(b.Instrs)-1])
					}
				}
			}
			onEveryPath := len(tests) > 0 && len(afterEdge(f, ge, func(in ssa.Instruction) bool { return in == s }, nil, func(in ssa.Instruction) bool {
				if _, ok := in.(*ssa.Return); ok {
					return true
				}
				for _, t := range tests {
					if in == t {
						return true
					}
				}
				return false
			})) == 0
			if (len(ctl) > 0 && ctl[0] == "+$0.location[*] -$1 >=0") || onEveryPath {
				c.OK(rule, FnName(f)+" | every entry >= index shifted", c.P.InstrPos(s), "decrement sits directly on the >= edge inside the full scan", true)
			} else {
				c.Bad(rule, FnName(f)+" | every entry >= index shifted", c.P.InstrPos(s), "decrement is conditioned by "+strings.Join(ctl, ";"), nil)
			}
		}
		// splice of files and UserCreatedSnap at the same index, after the scan of the whole map
		var sp []ssa.Instruction
		sp = append(sp, StoresTo(f, "diffDisk", "files")...)
		c.Guard(rule, f, sp, "splice files", nil, atom("whole map scanned", "+* -len($0.location) >=0"))
		if len(st) == 0 || len(sp) == 0 {
			c.Bad(rule, FnName(f)+" | structure", "", "RemoveIndex must shift the map and splice the file list", nil)
		}
	}
	// lookup starts at the head
	if f := c.Anchor(rule, fDD+"lookup"); f != nil {
		R := NewRenderer(f)
		fm := CallsTo(f, "github.com/frostschutz/go-fibmap.Fiemap")
		ok := len(fm) == 1 && strings.Contains(callRender(R, fm[0]), "invoke.Fd($0.files[-* +len($0.files) -1])")
		if ok {
			c.OK(rule, FnName(f)+" | probe starts at the head and descends", c.P.InstrPos(fm[0]), "for i := len(d.files)-1; i > 0; i--", false)
		} else {
			c.Bad(rule, FnName(f)+" | probe starts at the head and descends", "", "the top-down extent probe does not start at len(d.files)-1 (head data would be invisible after a reload without preload)", nil)
		}
		// known entry returned as is; unknown only then probed
		c.Guard(rule, f, fm, "FIEMAP probe", nil, atom("map entry unknown", "+$0.location[+$1] ==0"))
		// found => recorded and returned
		var recs []ssa.Instruction
		eachInstr(f, func(in ssa.Instruction) {
			if s, ok := in.(*ssa.Store); ok && R.V(s.Addr) == "&$0.location[+$1]" {
				recs = append(recs, in)
			}
		})
		if len(recs) >= 2 {
			c.OK(rule, FnName(f)+" | probe result cached in the map", "", "d.location[sector] = i on a hit", false)
		} else {
			c.Bad(rule, FnName(f)+" | probe result cached in the map", "", "probe result is not recorded", nil)
		}
	}
	// preload map store
	if f := c.Anchor(rule, "replica.preload"); f != nil {
		R := NewRenderer(f)
		var st []ssa.Instruction
		eachInstr(f, func(in ssa.Instruction) {
			if s, ok := in.(*ssa.Store); ok && strings.HasPrefix(R.V(s.Addr), "&$0.location[") {
				st = append(st, in)
			}
		})
		if len(st) == 1 && R.V(st[0].(*ssa.Store).Val) == "*" && strings.Contains(R.V(st[0].(*ssa.Store).Addr), "Generate(replica.newGenerator($0,$0.files[*]))") {
			// unconditional for each generated offset
			more := atomEdges(f, R, "recv((*replica.UsedGenerator).Generate(replica.newGenerator($0,$0.files[*])))#1")
			ws := afterEdge(f, more, func(in ssa.Instruction) bool { return in == st[0] }, nil, func(in ssa.Instruction) bool {
				u, ok := in.(*ssa.UnOp)
				return ok && u.Op == token.ARROW
			})
			if len(ws) == 0 {
				c.OK(rule, FnName(f)+" | every extent block recorded under the scanned file", c.P.InstrPos(st[0]), "d.location[offset] = uint16(i) on every generated offset", true)
			} else {
				c.Bad(rule, FnName(f)+" | every extent block recorded under the scanned file", c.P.InstrPos(st[0]), "a generated offset can be skipped", c.witness(ws[0]))
			}
		} else {
			c.Bad(rule, FnName(f)+" | every extent block recorded under the scanned file", "", "preload must store d.location[offset] = uint16(i) for the file being scanned", nil)
		}
		// files scanned oldest to newest, skipping only index 0
		ok := false
		for _, ea := range allAtoms(f, R) {
			if ea.Atom.String() == "+* ==0" {
				ok = true
			}
		}
		if ok {
			c.OK(rule, FnName(f)+" | scans every chain file from the base up", "", "range over d.files skipping index 0", false)
		} else {
			c.Bad(rule, FnName(f)+" | scans every chain file from the base up", "", "file scan order/skip changed", nil)
		}
	}
	// extent generator: the next FIEMAP batch starts right after the last extent reported
	if f := c.Anchor(rule, "(*replica.UsedGenerator).findExtents"); f != nil {
		R := NewRenderer(f)
		fm := CallsTo(f, "github.com/frostschutz/go-fibmap.Fiemap")
		if len(fm) == 1 {
			start := R.V(fm[0].(*ssa.Call).Call.Args[1])
			if regexp.MustCompile(`^phi\{\(\+.*#0\[\*\]\.Length \+.*#0\[\*\]\.Logical\) \| 0 \| …\}$`).MatchString(start) {
				c.OK(rule, FnName(f)+" | batch cursor = end of the last extent", c.P.InstrPos(fm[0]), "start = extent.Logical + extent.Length", false)
			} else {
				c.Bad(rule, FnName(f)+" | batch cursor = end of the last extent", c.P.InstrPos(fm[0]), "next FIEMAP batch starts at "+start+": with more than one batch, blocks are skipped or reported twice (preload then punches live data)", nil)
			}
		} else {
			c.Bad(rule, FnName(f)+" | structure", "", "expected one Fiemap call", nil)
		}
		var sends []ssa.Instruction
		eachInstr(f, func(in ssa.Instruction) {
			if s, ok := in.(*ssa.Send); ok {
				sends = append(sends, in)
				if v := R.V(s.X); !regexp.MustCompile(`^\(\(\+.*#0\[\*\]\.Logical \+phi\{.*\}\) / \$0\.d\.sectorSize\)$`).MatchString(v) {
					c.Bad(rule, FnName(f)+" | emitted block number", c.P.InstrPos(in), "generator emits "+v+", expected (extent.Logical + i) / sectorSize", nil)
				}
			}
		})
		if len(sends) == 1 {
			c.OK(rule, FnName(f)+" | emits (Logical+i)/sectorSize for every block of every extent", c.P.InstrPos(sends[0]), "", false)
		}
	}
	c.Floor(rule, 18)
}

// ruleC06RevertCtl: controller side of revert.
func ruleC06RevertCtl(c *Ctx) {
	const rule = "C06-REVERT-CTL"
	c.Doc(rule, "Controller.Revert: refused unless some replica is RW and none is rebuilding; the frontend is shut down before any replica reverts; every replica of the collected clients is asked to revert to the same snapshot; the replica whose revert failed (the map key of that client) is marked ERR; success needs at least one reverted replica and restarts the frontend")
	fn := c.Anchor(rule, fCtl+"Revert")
	if fn == nil {
		return
	}
	R := NewRenderer(fn)
	cl := fCtl + "clientsAndSnapshot($0,$1)"
	rv := CallsTo(fn, fRC+"Revert")
	if len(rv) != 1 || callRender(R, rv[0]) != fRC+"Revert("+cl+"#0[*],"+cl+"#1,util.Now())" {
		c.Bad(rule, FnName(fn)+" | every client reverts to the same snapshot", "", "expected client.Revert(name, now) over the collected clients", nil)
		return
	}
	c.OK(rule, FnName(fn)+" | every client reverts to the same snapshot", c.P.InstrPos(rv[0]), "", false)
	c.Guard(rule, fn, rv, "replica revert", nil,
		okcall(fCtl+"shutdownFrontend"), okcall(fCtl+"clientsAndSnapshot"), needWLock("controller write lock taken"))
	_, nonNil := nilTestEdges(fn, errOfCall(rv[0]))
	want := fCtl + "setReplicaModeNoLock($0,key(" + cl + `#0),"ERR")`
	ws := afterEdge(fn, nonNil, func(in ssa.Instruction) bool { return callRender(R, in) == want }, nil, func(in ssa.Instruction) bool {
		_, isRet := in.(*ssa.Return)
		return isRet || in == rv[0]
	})
	if len(ws) == 0 {
		c.OK(rule, FnName(fn)+" | failed replica marked ERR", c.P.InstrPos(rv[0]), want, true)
	} else {
		c.Bad(rule, FnName(fn)+" | failed replica marked ERR", c.P.InstrPos(rv[0]), "a replica whose revert failed is not marked ERR under its own address (it stays RW and serves un-reverted data)", c.witness(ws[0]))
	}
	c.Guard(rule, fn, CallsTo(fn, fCtl+"startFrontend"), "restart frontend", nil, atom("at least one replica reverted", "phi{false | true}"))
	if f := c.Anchor(rule, fCtl+"clientsAndSnapshot"); f != nil {
		FR := NewRenderer(f)
		var ins []ssa.Instruction
		eachInstr(f, func(in ssa.Instruction) {
			if mu, ok := in.(*ssa.MapUpdate); ok && FR.V(mu.Key) == "$0.replicas[*].Address" {
				ins = append(ins, in)
			}
		})
		c.Guard(rule, f, ins, "collect client", nil, atom("replica is RW", eqAtom(`"RW"`, "$0.replicas[*].Mode")))
		c.Guard(rule, f, nilErrorReturns(f), "return clients", nil, atom("all replicas visited", "+* -len($0.replicas) >=0"))
		if len(ins) == 0 {
			c.Bad(rule, FnName(f)+" | clients keyed by address", "", "clients are not collected under the replica's address", nil)
		}
	}
	c.Floor(rule, 8)
}

// ---------------------------------------------------------------------------
// C06: hole punching never touches a user-created snapshot
// ---------------------------------------------------------------------------

// pairedIndex: for a file value F passed to a punch, find the index value G it is derived from.
func pairedIndex(R *Renderer, F ssa.Value) (ssa.Value, string) {
	F = strip(F)
	// F = files[G]
	if ld, ok := F.(*ssa.UnOp); ok && ld.Op == token.MUL {
		if ia, ok := ld.X.(*ssa.IndexAddr); ok && strings.HasSuffix(R.V(ia.X), ".files") {
			return ia.Index, "files[G]"
		}
	}
	if p, ok := F.(*ssa.Phi); ok {
		for _, in := range p.Block().Instrs {
			g, ok := in.(*ssa.Phi)
			if !ok {
				break
			}
			if !isIntType(g.Type()) || g == p {
				continue
			}
			if phisPaired(R, p, g, map[[2]*ssa.Phi]bool{}) {
				return g, "paired phi"
			}
		}
	}
	return nil, ""
}

func phisPaired(R *Renderer, f, g *ssa.Phi, assume map[[2]*ssa.Phi]bool) bool {
	if f.Block() != g.Block() || len(f.Edges) != len(g.Edges) {
		return false
	}
	k := [2]*ssa.Phi{f, g}
	if assume[k] {
		return true
	}
	assume[k] = true
	for i := range f.Edges {
		fe, ge := strip(f.Edges[i]), strip(g.Edges[i])
		if fe == ssa.Value(f) && ge == ssa.Value(g) {
			continue
		}
		if isNilConst(fe) {
			if cst, ok := ge.(*ssa.Const); ok && cst.Value != nil && cst.Value.String() == "0" {
				continue
			}
			return false
		}
		if fp, ok := fe.(*ssa.Phi); ok {
			gp, ok := ge.(*ssa.Phi)
			if !ok || !phisPaired(R, fp, gp, assume) {
				return false
			}
			continue
		}
		// fe = files[x] with x == ge
		ld, ok := fe.(*ssa.UnOp)
		if !ok || ld.Op != token.MUL {
			return false
		}
		ia, ok := ld.X.(*ssa.IndexAddr)
		if !ok || !strings.HasSuffix(R.V(ia.X), ".files") {
			return false
		}
		x := strip(ia.Index)
		if x == ge {
			continue
		}
		// two loads of the same map cell in one block with no store/call in between
		if sameCellLoads(R, x, ge) {
			continue
		}
		return false
	}
	return true
}

func sameCellLoads(R *Renderer, a, b ssa.Value) bool {
	la, ok1 := a.(*ssa.UnOp)
	lb, ok2 := b.(*ssa.UnOp)
	if !ok1 || !ok2 || la.Op != token.MUL || lb.Op != token.MUL {
		return false
	}
	if la.Block() != lb.Block() || R.V(la) != R.V(lb) {
		return false
	}
	i, j := instrIndex(la), instrIndex(lb)
	if i > j {
		i, j = j, i
	}
	for k := i + 1; k < j; k++ {
		switch la.Block().Instrs[k].(type) {
		case *ssa.Store, *ssa.Call, *ssa.MapUpdate:
			return false
		}
	}
	return true
}

// userSnapTerm validates that U denotes "index of the latest user-created snapshot".
func userSnapTerm(fn *ssa.Function, R *Renderer, U ssa.Value) (string, bool) {
	U = strip(U)
	s := R.V(U)
	if strings.HasSuffix(s, ".SnapIndx") {
		return s, true
	}
	if fn.Parent() != nil {
		if _, _, ok := capturedUserSnapIndex(fn, U); ok {
			return s, true
		}
	}
	p, ok := U.(*ssa.Phi)
	if !ok {
		return s, false
	}
	for _, e := range allPhiEdges(p) {
		v := strip(e.val)
		if cst, ok := v.(*ssa.Const); ok && cst.Value != nil && cst.Value.String() == "0" {
			continue
		}
		if !isRangeIndex(v) {
			return s, false
		}
		// the block providing the index must be controlled by <X>.UserCreatedSnap[*] being true
		ctl := controlAtoms(fn, R, e.from)
		ok := false
		for _, a := range ctl {
			if strings.HasSuffix(a, ".UserCreatedSnap[*]") && !strings.HasPrefix(a, "!") {
				ok = true
			}
		}
		if !ok {
			return s, false
		}
	}
	return s, true
}

// holeHelper handles a punch site whose file is a parameter of its function: finds the index
// parameter the strict guard is on and checks every caller passes (files[x], x) (or a paired
// phi).  Returns the number of caller sites.
func (c *Ctx) holeHelper(rule string, fn *ssa.Function, R *Renderer, site ssa.Instruction, filePar *ssa.Parameter, key, where string) int {
	fi, gi := -1, -1
	var Uval ssa.Value
	for i, p := range fn.Params {
		if p == filePar {
			fi = i
			continue
		}
		if !isIntType(p.Type()) || gi >= 0 {
			continue
		}
		var U ssa.Value
		guard := strictUserSnapGuard(fn, R, p, &U, false)
		if len(Query{Fn: fn, IsSite: func(in ssa.Instruction) bool { return in == site }, GenEdge: guard}.Run()) == 0 && U != nil {
			gi, Uval = i, U
		}
	}
	if fi < 0 || gi < 0 {
		c.Bad(rule, key+" | target derived from guarded index", where, "the file passed to the punch is a parameter and no integer parameter is strictly compared with the latest user snapshot index on every path", nil)
		return 0
	}
	us, _ := userSnapTerm(fn, R, Uval)
	c.OK(rule, key+" | guard on the index parameter", where, fmt.Sprintf("every path passes the strict edge $%d > %s; callers must pass the file of that index as $%d", gi, us, fi), true)
	ncall := 0
	for _, caller := range pkgFuncs(c.P, "replica") {
		CR := NewRenderer(caller)
		for ci, call := range CallsTo(caller, FnName(fn)) {
			ncall++
			args := call.(*ssa.Call).Call.Args
			k2 := fmt.Sprintf("%s | caller %s[%d] passes (files[x], x)", key, FnName(caller), ci)
			if fi >= len(args) || gi >= len(args) {
				c.Bad(rule, k2, c.P.InstrPos(call), "argument list does not match", nil)
				continue
			}
			G, how := pairedIndex(CR, args[fi])
			if G != nil && (strip(G) == strip(args[gi]) || sameCellLoads(CR, strip(G), strip(args[gi]))) {
				c.OK(rule, k2, c.P.InstrPos(call), "file argument is "+how+" of the index argument "+CR.V(args[gi]), true)
			} else {
				c.Bad(rule, k2, c.P.InstrPos(call), "the file passed ("+CR.V(args[fi])+") is not the file of the index passed ("+CR.V(args[gi])+"): the callee's guard tests a different index than the file that is punched", nil)
			}
		}
	}
	if ncall == 0 {
		c.Bad(rule, key+" | callers", where, "no caller found for the punching helper", nil)
	}
	return ncall
}

func ruleC06Hole(c *Ctx) {
	const rule = "C06-HOLE"
	c.Doc(rule, "every request to punch a hole (call of sendToCreateHole, syscall.Fallocate in diffDisk.Unmap) passes a file that is derived from the very index the dominating guard compared: file = files[G] or (file, G) is a paired phi whose incoming pairs are (nil,0) / (files[x], x); the guard is the strict fact G - U - 1 >= 0 with U the latest user-created snapshot index (d.SnapIndx, or a local assigned i only under UserCreatedSnap[i], complete before use); and shouldCreateHoles() is true")
	n := 0
	for _, fn := range pkgFuncs(c.P, "replica") {
		sites := CallsTo(fn, "replica.sendToCreateHole")
		if FnName(fn) == fDD+"Unmap" {
			sites = append(sites, CallsTo(fn, "syscall.Fallocate")...)
		}
		if len(sites) == 0 {
			continue
		}
		R := NewRenderer(fn)
		for i, site := range sites {
			n++
			call := site.(*ssa.Call)
			var F ssa.Value
			isFalloc := callMatches(site, "syscall.Fallocate")
			if isFalloc {
				// fd = file.Fd(): take the receiver of the Fd() call
				if fdc, ok := strip(targetArgs(call)[0]).(*ssa.Call); ok && fdc.Call.IsInvoke() && fdc.Call.Method.Name() == "Fd" {
					F = fdc.Call.Value
				}
			} else {
				F = call.Call.Args[0]
			}
			key := fmt.Sprintf("%s | punch[%d]", FnName(fn), i)
			where := c.P.InstrPos(site)
			if F == nil {
				c.Bad(rule, key+" | target", where, "cannot identify the file being punched", nil)
				continue
			}
			G, how := pairedIndex(R, F)
			if par, isPar := strip(F).(*ssa.Parameter); G == nil && isPar && fn.Parent() == nil {
				// helper taking (file, index): the guard is on the index parameter; every caller
				// must pass a file derived from the index it passes
				n--
				n += c.holeHelper(rule, fn, R, site, par, key, where)
				if !isFalloc {
					c.Guard(rule, fn, []ssa.Instruction{site}, fmt.Sprintf("punch[%d]", i), nil, atom("hole punching enabled", c.P.boolCallAtom("replica.shouldCreateHoles")))
				}
				continue
			}
			if G == nil {
				c.Bad(rule, key+" | target derived from guarded index", where, "the file passed to the punch ("+R.V(F)+") is neither files[G] nor a phi paired with an index phi", nil)
				continue
			}
			// dominating guard comparing G with some U, strictly (directly, or inside a boolean helper
			// that receives G as an argument)
			var Uval ssa.Value
			guard := strictUserSnapGuard(fn, R, G, &Uval, true)
			ws := Query{Fn: fn, IsSite: func(in ssa.Instruction) bool { return in == site }, GenEdge: guard}.Run()
			if len(ws) == 0 && Uval != nil {
				ufn, UR := fn, R
				if in, ok := Uval.(ssa.Instruction); ok && in.Parent() != fn {
					ufn, UR = in.Parent(), NewRenderer(in.Parent())
				}
				us, _ := userSnapTerm(ufn, UR, Uval)
				c.OK(rule, key+" | target derived from guarded index", where, fmt.Sprintf("file is %s of G=%s; every path passes the strict edge G > %s", how, R.V(G), us), true)
				// the site lives in a function literal: it stands for every call of that literal
				if fn.Parent() != nil {
					calls := closureCalls(fn)
					n += len(calls) - 1
					if par, done, ok := capturedUserSnapIndex(fn, Uval); ok {
						for ci, call := range calls {
							call := call
							k2 := fmt.Sprintf("%s | call[%d] of the punching literal | latest-user-snapshot scan complete", key, ci)
							if call.Parent() != par {
								c.Bad(rule, k2, c.P.InstrPos(call), "the literal is called from another literal: not followed", nil)
								continue
							}
							ws2 := Query{Fn: par, IsSite: func(in ssa.Instruction) bool { return in == call }, GenEdge: done}.Run()
							if len(ws2) == 0 {
								c.OK(rule, k2, c.P.InstrPos(call), "the scan over UserCreatedSnap ran to its end before the literal is called", true)
							} else {
								c.Bad(rule, k2, c.P.InstrPos(call), "the loop computing the latest user-created snapshot index can be left early: an older index may be used and a later user snapshot punched", c.witness(ws2[0]))
							}
						}
					}
				}
				// U complete before use when it is a loop-computed local of a separate loop
				if p, ok := strip(Uval).(*ssa.Phi); ok {
					if loopDone := separateLoopDoneEdge(fn, R, p); loopDone != nil {
						ws2 := Query{Fn: fn, IsSite: func(in ssa.Instruction) bool { return in == site }, GenEdge: loopDone}.Run()
						if len(ws2) == 0 {
							c.OK(rule, key+" | latest-user-snapshot scan complete", where, "the scan over UserCreatedSnap ran to its end before the index is used", true)
						} else {
							c.Bad(rule, key+" | latest-user-snapshot scan complete", where, "the loop computing the latest user-created snapshot index can be left early: an older index may be used and a later user snapshot punched", c.witness(ws2[0]))
						}
					}
				}
			} else {
				c.Bad(rule, key+" | target derived from guarded index", where, fmt.Sprintf("no dominating strict guard `%s > <latest user snapshot index>` for the file being punched (file is %s of that index): the guard tests a different index than the file that is punched", R.V(G), how), c.witnessOr(ws))
			}
			if !isFalloc {
				c.Guard(rule, fn, []ssa.Instruction{site}, fmt.Sprintf("punch[%d]", i), nil, atom("hole punching enabled", c.P.boolCallAtom("replica.shouldCreateHoles")))
			}
		}
	}
	if n < 8 {
		c.Undecided(rule, "vacuity-floor sites", "", fmt.Sprintf("only %d punch sites found (expected >= 8)", n))
	}
	// WHO: Fallocate callers
	for _, fn := range prodFns(c.P) {
		for _, in := range AnyCallsTo(fn, "syscall.Fallocate") {
			switch FnName(fn) {
			case fDD + "Unmap", "replica.CreateHoles":
				c.OK(rule, FnName(fn)+" | Fallocate site", c.P.InstrPos(in), "allow-listed punch site", false)
			default:
				c.Bad(rule, FnName(fn)+" | Fallocate site", c.P.InstrPos(in), "new fallocate(PUNCH_HOLE) site", nil)
			}
		}
	}
	c.Floor(rule, 12)
}

// strictUserSnapGuard: predicate for the edges of fn on which `G > U` holds strictly, U being a
// valid latest-user-snapshot term (recorded in *Uout).  With helpers=true, the true edge of a
// same-module boolean helper h(…G…) counts when every positive return of h is cut off by such
// an edge on the corresponding parameter.
func strictUserSnapGuard(fn *ssa.Function, R *Renderer, G ssa.Value, Uout *ssa.Value, helpers bool) func(*ssa.BasicBlock, int) bool {
	return func(b *ssa.BasicBlock, k int) bool {
		iff, ok := b.Instrs[len(b.Instrs)-1].(*ssa.If)
		if !ok {
			return false
		}
		if bo, ok := iff.Cond.(*ssa.BinOp); ok {
			var other ssa.Value
			gIsX := false
			if valueEq(R, strip(bo.X), strip(G)) {
				other, gIsX = bo.Y, true
			} else if valueEq(R, strip(bo.Y), strip(G)) {
				other = bo.X
			} else {
				return false
			}
			strict := false
			switch bo.Op {
			case token.GTR: // X > Y
				strict = (gIsX && k == 0)
			case token.LSS: // X < Y
				strict = (!gIsX && k == 0)
			case token.LEQ: // X <= Y ; false edge: X > Y
				strict = (gIsX && k == 1)
			case token.GEQ: // X >= Y ; false edge: X < Y
				strict = (!gIsX && k == 1)
			}
			if strict {
				if _, ok := userSnapTerm(fn, R, other); ok {
					*Uout = other
					return true
				}
			}
			return false
		}
		if !helpers {
			return false
		}
		cond, neg := iff.Cond, false
		for {
			if u, ok := cond.(*ssa.UnOp); ok && u.Op == token.NOT {
				cond, neg = u.X, !neg
				continue
			}
			break
		}
		cl, ok := cond.(*ssa.Call)
		if !ok || (k == 0) == neg {
			return false
		}
		h := cl.Call.StaticCallee()
		if h == nil || h.Blocks == nil || !isJivaFn(h) || h.Signature.Results().Len() != 1 || !isBoolType(h.Signature.Results().At(0).Type()) {
			return false
		}
		for j, a := range cl.Call.Args {
			if strip(a) != strip(G) || j >= len(h.Params) {
				continue
			}
			HR := NewRenderer(h)
			var hu ssa.Value
			hg := strictUserSnapGuard(h, HR, h.Params[j], &hu, false)
			okAll := true
			n := 0
			for _, r := range Returns(h) {
				v := strip(r.Results[0])
				var sites []ssa.Instruction
				if p, ok := v.(*ssa.Phi); ok {
					for _, e := range allPhiEdges(p) {
						if c, ok := strip(e.val).(*ssa.Const); ok && c.Value != nil && c.Value.String() == "false" {
							continue
						}
						sites = append(sites, e.from.Instrs[len(e.from.Instrs)-1])
					}
				} else if c, ok := v.(*ssa.Const); ok && c.Value != nil && c.Value.String() == "false" {
					continue
				} else {
					sites = append(sites, r)
				}
				for _, s := range sites {
					n++
					s := s
					if len((Query{Fn: h, IsSite: func(in ssa.Instruction) bool { return in == s }, GenEdge: hg}).Run()) > 0 {
						okAll = false
					}
				}
			}
			if okAll && n > 0 && hu != nil {
				*Uout = hu
				return true
			}
		}
		return false
	}
}

func valueEq(R *Renderer, a, b ssa.Value) bool {
	if a == b {
		return true
	}
	// two loads of one local / captured variable that this function never assigns
	la, ok1 := a.(*ssa.UnOp)
	lb, ok2 := b.(*ssa.UnOp)
	if !ok1 || !ok2 || la.Op != token.MUL || lb.Op != token.MUL || la.X != lb.X {
		return false
	}
	switch la.X.(type) {
	case *ssa.FreeVar, *ssa.Alloc:
	default:
		return false
	}
	assigned := false
	eachInstr(la.Parent(), func(in ssa.Instruction) {
		if s, ok := in.(*ssa.Store); ok && s.Addr == la.X {
			assigned = true
		}
	})
	return !assigned
}

// closureCalls: the call instructions, anywhere in the enclosing top-level function, that invoke
// the function literal cl.
func closureCalls(cl *ssa.Function) []ssa.Instruction {
	root := cl
	for root.Parent() != nil {
		root = root.Parent()
	}
	var out []ssa.Instruction
	for _, f := range withClosures(root) {
		eachInstr(f, func(in ssa.Instruction) {
			ci, ok := in.(ssa.CallInstruction)
			if !ok {
				return
			}
			if mc, ok := ci.Common().Value.(*ssa.MakeClosure); ok && mc.Fn == ssa.Value(cl) {
				out = append(out, in)
			}
		})
	}
	return out
}

// liftSites: sites that lie in a function literal are represented by the calls of that literal
// (for "the site runs only under condition X established by the enclosing function").
func liftSites(fn *ssa.Function, sites []ssa.Instruction) []ssa.Instruction {
	var out []ssa.Instruction
	seen := map[*ssa.Function]bool{}
	for _, s := range sites {
		if s.Parent() == fn {
			out = append(out, s)
			continue
		}
		cl := s.Parent()
		if seen[cl] {
			continue
		}
		seen[cl] = true
		for _, c := range closureCalls(cl) {
			if c.Parent() == fn {
				out = append(out, c)
			}
		}
	}
	return out
}

// capturedUserSnapIndex: U is a load of a variable captured from the enclosing function; every
// assignment of that variable there is 0 or a range index taken under UserCreatedSnap[i].
// Returns the exhaustion edge of the scanning loop (in the enclosing function).
func capturedUserSnapIndex(cl *ssa.Function, U ssa.Value) (par *ssa.Function, done func(*ssa.BasicBlock, int) bool, ok bool) {
	ld, isLoad := strip(U).(*ssa.UnOp)
	if !isLoad || ld.Op != token.MUL {
		return nil, nil, false
	}
	fv, isFV := ld.X.(*ssa.FreeVar)
	if !isFV {
		return nil, nil, false
	}
	a := freeVarAlloc(cl, fv)
	if a == nil {
		return nil, nil, false
	}
	par = a.Parent()
	PR := NewRenderer(par)
	var header *ssa.BasicBlock
	good := true
	n := 0
	for _, f := range withClosures(par) {
		eachInstr(f, func(in ssa.Instruction) {
			s, isStore := in.(*ssa.Store)
			if !isStore {
				return
			}
			if f == par {
				if s.Addr != ssa.Value(a) {
					return
				}
			} else if fv2, isFV := s.Addr.(*ssa.FreeVar); !isFV || freeVarAlloc(f, fv2) != a {
				return
			}
			v := strip(s.Val)
			if cst, isC := v.(*ssa.Const); isC && cst.Value != nil && cst.Value.String() == "0" {
				return
			}
			if f != par || !isRangeIndex(v) {
				good = false
				return
			}
			n++
			okc := false
			for _, at := range controlAtoms(par, PR, s.Block()) {
				if strings.HasSuffix(at, ".UserCreatedSnap[*]") && !strings.HasPrefix(at, "!") {
					okc = true
				}
			}
			if !okc {
				good = false
			}
			// loop header: block of the range-index increment
			if b, isB := v.(*ssa.BinOp); isB {
				header = b.Block()
			} else if p, isP := v.(*ssa.Phi); isP {
				header = p.Block()
			}
		})
	}
	if !good || n == 0 || header == nil {
		return nil, nil, false
	}
	if _, isIf := header.Instrs[len(header.Instrs)-1].(*ssa.If); !isIf {
		return nil, nil, false
	}
	return par, func(bb *ssa.BasicBlock, k int) bool { return bb == header && k == 1 }, true
}

// separateLoopDoneEdge: if phi p is computed by a range loop of its own (its header block is p's
// block), return the predicate for the loop's exhaustion edge.
func separateLoopDoneEdge(fn *ssa.Function, R *Renderer, p *ssa.Phi) func(*ssa.BasicBlock, int) bool {
	// the scanning loop is identified through the range index the phi receives (the phi itself
	// sits in the loop header when the loop runs to its end, behind the loop when it can be left
	// early): header = block of the range-index increment
	var header *ssa.BasicBlock
	for _, e := range allPhiEdges(p) {
		v := strip(e.val)
		if !isRangeIndex(v) {
			continue
		}
		var hb *ssa.BasicBlock
		if b, ok := v.(*ssa.BinOp); ok {
			hb = b.Block()
		} else if q, ok := v.(*ssa.Phi); ok {
			hb = q.Block()
		}
		if hb == nil || (header != nil && header != hb) {
			return nil
		}
		header = hb
	}
	if header == nil {
		return nil
	}
	iff, ok := header.Instrs[len(header.Instrs)-1].(*ssa.If)
	if !ok {
		return nil
	}
	// only when the range is over UserCreatedSnap (UpdateLUNMap); preload's running index lives in the outer loop over d.files
	a := R.CondAtom(iff.Cond).String()
	if !strings.Contains(a, ".UserCreatedSnap)") {
		return nil
	}
	return func(bb *ssa.BasicBlock, k int) bool { return bb == header && k == 1 }
}

func ruleC06Snapstep(c *Ctx) {
	const rule = "C06-SNAPSTEP"
	c.Doc(rule, "every function that changes diffDisk.files changes UserCreatedSnap identically in the same block (same splice/append shape); createDisk stores SnapIndx = len(files)-2 only under userCreated after the append; openLiveChain stores SnapIndx only under the member's UserCreated flag; RemoveDiffDisk/ReplaceDisk drain the hole queue before files are unlinked, Server.Close before files are closed; revertDisk commits volume.meta before removing the old head and reloads with preload")
	n := 0
	for _, fn := range pkgFuncs(c.P, "replica") {
		R := NewRenderer(fn)
		var fs, us []ssa.Instruction
		eachInstr(fn, func(in ssa.Instruction) {
			if s, ok := in.(*ssa.Store); ok {
				a := R.V(s.Addr)
				if strings.HasSuffix(a, "volume.files") || a == "&$0.files" {
					fs = append(fs, in)
				}
				if strings.HasSuffix(a, "volume.UserCreatedSnap") || a == "&$0.UserCreatedSnap" {
					us = append(us, in)
				}
			}
		})
		if len(fs) == 0 && len(us) == 0 {
			continue
		}
		n++
		key := FnName(fn) + " | files <-> UserCreatedSnap in lock-step"
		if len(fs) != len(us) {
			c.Bad(rule, key, c.P.Pos(fn.Pos()), fmt.Sprintf("%d updates of files vs %d of UserCreatedSnap", len(fs), len(us)), nil)
			continue
		}
		ok := true
		detail := ""
		for i := range fs {
			fv := shapeOf(R.V(fs[i].(*ssa.Store).Val))
			uv := shapeOf(R.V(us[i].(*ssa.Store).Val))
			if fv != uv {
				ok = false
				detail = "files := " + fv + " but UserCreatedSnap := " + uv
			}
			// no return between the two updates, whichever comes first
			a, b := fs[i], us[i]
			if a.Block() == b.Block() && instrIndex(b) < instrIndex(a) {
				a, b = b, a
			} else if a.Block() != b.Block() && len(Query{Fn: fn, Start: b, IsSite: func(in ssa.Instruction) bool { return in == a }}.Run()) > 0 &&
				len(Query{Fn: fn, Start: a, IsSite: func(in ssa.Instruction) bool { return in == b }}.Run()) == 0 {
				a, b = b, a
			}
			ws := Query{Fn: fn, Start: a, Gen: func(in ssa.Instruction) bool { return in == b }, IsSite: func(in ssa.Instruction) bool { _, ok := in.(*ssa.Return); return ok }}.Run()
			if len(ws) > 0 {
				ok = false
				detail = "a return is reachable between the update of files and of UserCreatedSnap"
			}
		}
		if ok {
			c.OK(rule, key, c.P.Pos(fn.Pos()), "same shape of update on both lists, no exit in between", true)
		} else {
			c.Bad(rule, key, c.P.Pos(fn.Pos()), detail, nil)
		}
	}
	if n < 5 {
		c.Undecided(rule, "vacuity-floor functions", "", fmt.Sprintf("only %d functions updating diffDisk.files found (expected 5)", n))
	}
	// SnapIndx stores
	if fn := c.Anchor(rule, fRep+"createDisk"); fn != nil {
		R := NewRenderer(fn)
		var st []ssa.Instruction
		eachInstr(fn, func(in ssa.Instruction) {
			if s, ok := in.(*ssa.Store); ok && R.V(s.Addr) == "&$0.volume.SnapIndx" {
				st = append(st, in)
			}
		})
		if len(st) == 1 && R.V(st[0].(*ssa.Store).Val) == "(+len($0.volume.files) -2)" {
			c.Guard(rule, fn, st, "SnapIndx = len(files)-2", nil, atom("snapshot is user created", "$2"),
				Need{Desc: "after the new head was appended to files", Instr: func(in ssa.Instruction) bool {
					s, ok := in.(*ssa.Store)
					return ok && R.V(s.Addr) == "&$0.volume.files"
				}})
		} else {
			c.Bad(rule, FnName(fn)+" | SnapIndx", "", "createDisk must set SnapIndx = len(files)-2 under userCreated", nil)
		}
		// UserCreatedSnap appended value is the userCreated parameter
		for _, in := range StoresTo(fn, "diffDisk", "UserCreatedSnap") {
			v := R.V(in.(*ssa.Store).Val)
			if strings.HasPrefix(v, "append($0.volume.UserCreatedSnap,") {
				c.OK(rule, FnName(fn)+" | flag appended", c.P.InstrPos(in), "UserCreatedSnap = append(UserCreatedSnap, userCreated)", false)
			} else {
				c.Bad(rule, FnName(fn)+" | flag appended", c.P.InstrPos(in), "unexpected "+v, nil)
			}
		}
	}
	if fn := c.Anchor(rule, fRep+"openLiveChain"); fn != nil {
		R := NewRenderer(fn)
		var st []ssa.Instruction
		eachInstr(fn, func(in ssa.Instruction) {
			if s, ok := in.(*ssa.Store); ok && R.V(s.Addr) == "&$0.volume.SnapIndx" {
				st = append(st, in)
			}
		})
		var flag string
		for _, ea := range allAtoms(fn, R) {
			s := ea.Atom.String()
			if strings.HasSuffix(s, ".UserCreated") && !strings.HasPrefix(s, "!") {
				flag = s
			}
		}
		if len(st) == 1 && flag != "" {
			c.Guard(rule, fn, st, "SnapIndx", nil, atom("member is user created", flag))
			// the value is the slot the member was just appended to: files[0] is nil, the k-th member
			// opened (k = 0, 1, ...) lands in slot k+1 = len(files)-1 after the append
			v := R.V(st[0].(*ssa.Store).Val)
			if v == "(+* +1)" || v == "(+len($0.volume.files) -1)" {
				c.OK(rule, FnName(fn)+" | SnapIndx is the member's own slot", c.P.InstrPos(st[0]), "SnapIndx = "+v, true)
			} else {
				c.Bad(rule, FnName(fn)+" | SnapIndx is the member's own slot", c.P.InstrPos(st[0]), "SnapIndx receives "+v+", not the slot of the user-created member just appended (k+1 = len(files)-1): the punching fence is off by one after every open", nil)
			}
		} else {
			c.Bad(rule, FnName(fn)+" | SnapIndx", "", "openLiveChain must set SnapIndx under the member's UserCreated flag", nil)
		}
	}
	// RemoveIndex closes the file it removes: files[index] is closed while it still IS the removed
	// file, i.e. before the list is spliced (afterwards that slot holds the removed file's child)
	if fn := c.P.Fn(fDD + "RemoveIndex"); fn != nil {
		R := NewRenderer(fn)
		var cl []ssa.Instruction
		for _, in := range CallsTo(fn, "invoke:Close") {
			if strings.Contains(callRender(R, in), "($0.files[+$1])") || callRender(R, in) == "invoke.Close($0.files[+$1])" {
				cl = append(cl, in)
			}
		}
		if len(cl) == 1 {
			c.Guard(rule, fn, StoresTo(fn, "diffDisk", "files"), "splice files", nil, Need{Desc: "removed file closed first", Instr: func(in ssa.Instruction) bool { return in == cl[0] }})
		} else {
			c.Bad(rule, FnName(fn)+" | closes the removed file", "", fmt.Sprintf("expected one Close of files[index], found %d", len(cl)), nil)
		}
	}
	// RemoveIndex recomputes SnapIndx as the LAST true entry: an ascending scan that runs to its
	// end (every later true entry overwrites), or a descending scan that stops at the first hit
	if fn := c.Anchor(rule, fDD+"RemoveIndex"); fn != nil {
		st := StoresTo(fn, "diffDisk", "SnapIndx")
		R := NewRenderer(fn)
		const desc = "(-* +len($0.UserCreatedSnap) -1)"
		for _, s := range st {
			v := R.V(s.(*ssa.Store).Val)
			// does control return to the loop after the store?
			loops := false
			var head *ssa.BasicBlock
			if phi, ok := strip(s.(*ssa.Store).Val).(*ssa.Phi); ok {
				head = phi.Block()
			} else if bo, ok := strip(s.(*ssa.Store).Val).(*ssa.BinOp); ok && isRangeIndex(bo) {
				// range over a slice: the index is phi+1, computed in the loop head
				head = bo.Block()
			} else if ex, ok := s.(*ssa.Store).Val.(*ssa.Extract); ok {
				if nx, ok := ex.Tuple.(*ssa.Next); ok {
					head = nx.Block()
				}
			}
			if head != nil {
				hd := head
				loops = len(Query{Fn: fn, Start: s, IsSite: func(in ssa.Instruction) bool { return in.Block() == hd }}.Run()) > 0
			}
			switch {
			case v == "*" && loops:
				c.Guard(rule, fn, []ssa.Instruction{s}, "SnapIndx = i", nil, atom("entry is user created", "$0.UserCreatedSnap[*]"))
				c.OK(rule, FnName(fn)+" | SnapIndx is the last user-created entry", c.P.InstrPos(s), "ascending scan, runs to the end", true)
			case v == desc && !loops && head != nil:
				c.Guard(rule, fn, []ssa.Instruction{s}, "SnapIndx = i", nil, atom("entry is user created", "$0.UserCreatedSnap[-* +len($0.UserCreatedSnap) -1]"))
				c.OK(rule, FnName(fn)+" | SnapIndx is the last user-created entry", c.P.InstrPos(s), "descending scan, stops at the first hit", true)
			case v == "*":
				c.Bad(rule, FnName(fn)+" | SnapIndx is the last user-created entry", c.P.InstrPos(s), "the ascending scan stops at the FIRST user-created entry (the loop is left after the store)", nil)
			case v == desc:
				c.Bad(rule, FnName(fn)+" | SnapIndx is the last user-created entry", c.P.InstrPos(s), "the descending scan goes on after the first hit: SnapIndx ends up as the LOWEST user-created entry", nil)
			default:
				c.Bad(rule, FnName(fn)+" | SnapIndx value", c.P.InstrPos(s), "SnapIndx receives "+v, nil)
			}
		}
		if len(st) == 0 {
			c.Bad(rule, FnName(fn)+" | SnapIndx recomputed", "", "RemoveIndex no longer recomputes SnapIndx after the splice", nil)
		}
	}
	// the drain itself is a hand-shake with the consumer goroutine: the caller announces the drain,
	// wakes the consumer with a sentinel and returns only once the consumer has answered DrainDone —
	// i.e. when no punch request is in flight any more (one already taken off the queue included)
	if fn := c.Anchor(rule, "replica.holeDrainer"); fn != nil {
		R := NewRenderer(fn)
		kStart, ok1 := c.P.pkgIntConst("types", "DrainStart")
		kDone, ok2 := c.P.pkgIntConst("types", "DrainDone")
		var rets []ssa.Instruction
		for _, r := range Returns(fn) {
			rets = append(rets, r)
		}
		if ok1 && ok2 {
			c.Guard(rule, fn, rets, "return", nil,
				Need{Desc: "drain announced (DrainOps = DrainStart)", Instr: func(in ssa.Instruction) bool {
					s, ok := in.(*ssa.Store)
					return ok && R.V(s.Addr) == "global:types.DrainOps" && R.V(s.Val) == fmt.Sprint(kStart)
				}},
				Need{Desc: "consumer woken through the queue", Instr: func(in ssa.Instruction) bool {
					s, ok := in.(*ssa.Send)
					return ok && R.V(s.Chan) == "replica.HoleCreatorChan"
				}},
				atom("consumer answered DrainDone", fmt.Sprintf("+types.DrainOps -%d ==0", kDone)))
		} else {
			c.Undecided(rule, "drain constants", "", "types.DrainStart / DrainDone not found")
		}
	}
	if fn := c.Anchor(rule, "replica.CreateHoles"); fn != nil {
		R := NewRenderer(fn)
		kStart, _ := c.P.pkgIntConst("types", "DrainStart")
		kDone, _ := c.P.pkgIntConst("types", "DrainDone")
		var done []ssa.Instruction
		eachInstr(fn, func(in ssa.Instruction) {
			if s, ok := in.(*ssa.Store); ok && R.V(s.Addr) == "global:types.DrainOps" && R.V(s.Val) == fmt.Sprint(kDone) {
				done = append(done, in)
			}
		})
		if len(done) == 1 {
			c.Guard(rule, fn, done, "answer DrainDone", nil, atom("a drain was announced", fmt.Sprintf("+types.DrainOps -%d ==0", kStart)), called("replica.drainHoleCreatorChan"))
		} else {
			c.Bad(rule, FnName(fn)+" | answers the drain", "", fmt.Sprintf("expected one store DrainOps = DrainDone in the consumer, found %d", len(done)), nil)
		}
		// the consumer tests for a drain before it touches the request it has just taken
		c.Guard(rule, fn, CallsTo(fn, "syscall.Fallocate"), "punch", nil, atom("no drain announced", fmt.Sprintf("+types.DrainOps -%d !=0", kStart)))
	}
	// DRAIN
	for _, d := range []struct {
		fn    string
		sites []string
	}{
		{fRep + "RemoveDiffDisk", []string{fRep + "removeDiskNode", fRep + "rmDisk"}},
		{fRep + "ReplaceDisk", []string{fRep + "hardlinkDisk", fRep + "removeDiskNode", fRep + "rmDisk"}},
	} {
		if fn := c.Anchor(rule, d.fn); fn != nil {
			R := NewRenderer(fn)
			c.Guard(rule, fn, CallsTo(fn, d.sites...), "unlink/close chain files", nil, Need{Desc: "hole queue drained (r.holeDrainer())", Instr: func(in ssa.Instruction) bool {
				cl, ok := in.(*ssa.Call)
				return ok && cl.Call.StaticCallee() == nil && !cl.Call.IsInvoke() && R.V(cl.Call.Value) == "$0.holeDrainer"
			}})
		}
	}
	// ... and before a coalesce is planned: a hole still queued for the parent was right when it was
	// queued; punched after the fold it erases the newer data the fold copied there
	// (the drain stands in the server's entry point, which every caller of a served replica goes
	// through - REST handler and snapshot cleaner -, or in the replica-level function itself)
	replicaLevel := false
	if fn := c.Anchor(rule, fRep+"PrepareRemoveDisk"); fn != nil {
		R := NewRenderer(fn)
		eachInstr(fn, func(in ssa.Instruction) {
			if cl, ok := in.(*ssa.Call); ok && cl.Call.StaticCallee() == nil && !cl.Call.IsInvoke() && R.V(cl.Call.Value) == "$0.holeDrainer" {
				replicaLevel = true
			}
		})
	}
	if fn := c.Anchor(rule, fSrv+"PrepareRemoveDisk"); fn != nil && !replicaLevel {
		R := NewRenderer(fn)
		sites := CallsTo(fn, fRep+"PrepareRemoveDisk")
		if len(sites) == 0 {
			c.Undecided(rule, FnName(fn)+" | plans the coalesce", c.P.Pos(fn.Pos()), "no call of the replica's PrepareRemoveDisk found")
		}
		c.Guard(rule, fn, sites, "plan the coalesce", nil, Need{Desc: "hole queue drained (s.r.holeDrainer())", Instr: func(in ssa.Instruction) bool {
			cl, ok := in.(*ssa.Call)
			return ok && cl.Call.StaticCallee() == nil && !cl.Call.IsInvoke() && R.V(cl.Call.Value) == "$0.r.holeDrainer"
		}})
		// only the server's entry point may plan a removal for a served replica
		for _, f := range c.P.AllFns {
			if f == fn || strings.Contains(FnName(f), "tests/functional") || strings.HasSuffix(c.P.Pos(f.Pos()), "_test.go") {
				continue
			}
			for _, s := range CallsTo(f, fRep+"PrepareRemoveDisk") {
				c.Bad(rule, FnName(f)+" | plans a coalesce without the server's drain", c.P.InstrPos(s), "Replica.PrepareRemoveDisk is called outside Server.PrepareRemoveDisk, which drains the hole queue first", nil)
			}
		}
	}
	if fn := c.Anchor(rule, fRep+"PrepareRemoveDisk"); fn != nil && replicaLevel {
		R := NewRenderer(fn)
		sites := CallsTo(fn, fRep+"processPrepareRemoveDisks")
		if len(sites) == 0 {
			for _, r := range successReturns(fn) {
				if ret, ok := r.(*ssa.Return); ok && len(ret.Results) > 0 && !isNilConst(strip(ret.Results[0])) {
					sites = append(sites, r)
				}
			}
		}
		if len(sites) == 0 {
			c.Undecided(rule, FnName(fn)+" | plans the coalesce", c.P.Pos(fn.Pos()), "no emission of the removal plan found")
		}
		c.Guard(rule, fn, sites, "plan the coalesce", nil, Need{Desc: "hole queue drained (r.holeDrainer())", Instr: func(in ssa.Instruction) bool {
			cl, ok := in.(*ssa.Call)
			return ok && cl.Call.StaticCallee() == nil && !cl.Call.IsInvoke() && R.V(cl.Call.Value) == "$0.holeDrainer"
		}})
	}
	if fn := c.Anchor(rule, fSrv+"Close"); fn != nil {
		R := NewRenderer(fn)
		c.Guard(rule, fn, CallsTo(fn, fRep+"Close"), "close replica", nil, Need{Desc: "hole queue drained (s.r.holeDrainer())", Instr: func(in ssa.Instruction) bool {
			cl, ok := in.(*ssa.Call)
			return ok && cl.Call.StaticCallee() == nil && !cl.Call.IsInvoke() && R.V(cl.Call.Value) == "$0.r.holeDrainer"
		}})
	}
	// REVERT
	if fn := c.Anchor(rule, fRep+"revertDisk"); fn != nil {
		R := NewRenderer(fn)
		nh := CallsTo(fn, fRep+"createNewHead")
		if len(nh) == 1 && callRender(R, nh[0]) == fRep+"createNewHead($0,$0.info.Head,$1,$2)" {
			c.OK(rule, FnName(fn)+" | new head on top of the requested snapshot", c.P.InstrPos(nh[0]), "createNewHead(oldHead, parent, created)", false)
		} else {
			c.Bad(rule, FnName(fn)+" | new head on top of the requested snapshot", "", "revertDisk must create the new head with the requested snapshot as parent", nil)
		}
		c.Guard(rule, fn, CallsTo(fn, fRep+"rmDisk"), "remove old head", nil,
			atom("new head created", "+"+fRep+"createNewHead($0,$0.info.Head,$1,$2)#2 -nil ==0"),
			atom("volume.meta committed", "+"+fRep+`encodeToFile($0,&var(replica.Info),"volume.meta") -nil ==0`))
		rl := CallsTo(fn, fRep+"Reload")
		if len(rl) == 1 && callRender(R, rl[0]) == fRep+"Reload($0,true)" {
			c.OK(rule, FnName(fn)+" | reload with preload", c.P.InstrPos(rl[0]), "r.Reload(true)", false)
			c.Guard(rule, fn, rl, "reload", nil, atom("old head removed", "+"+fRep+"rmDisk($0,$0.info.Head) -nil ==0"))
		} else {
			c.Bad(rule, FnName(fn)+" | reload with preload", "", "revert must reload the chain with preload (block map rebuilt from extents)", nil)
		}
		c.Guard(rule, fn, successReturns(fn), "return success", nil, atom("reload succeeded", "+"+fRep+"Reload($0,true)#1 -nil ==0"))
		// parent must exist
		c.Guard(rule, fn, nh, "createNewHead", nil, atom("snapshot file exists", isNilAtom("os.Stat("+fRep+"diskPath($0,$1))#1")))
	}
	c.Floor(rule, 20)
}

// shapeOf abstracts a splice/append rendering from the list it applies to.
func shapeOf(s string) string {
	s = strings.ReplaceAll(s, "$0.volume.files", "L")
	s = strings.ReplaceAll(s, "$0.volume.UserCreatedSnap", "L")
	s = strings.ReplaceAll(s, "$0.files", "L")
	s = strings.ReplaceAll(s, "$0.UserCreatedSnap", "L")
	if i := strings.Index(s, ",&var("); i > 0 {
		s = s[:i] + ",…)"
	}
	if i := strings.Index(s, "append(&var("); i == 0 {
		if j := strings.LastIndex(s, ","); j > 0 {
			s = "append(lit," + s[j+1:]
		}
	}
	return s
}

// ---------------------------------------------------------------------------
// C07-MERGE
// ---------------------------------------------------------------------------

func ruleC07Merge(c *Ctx) {
	const rule = "C07-MERGE"
	c.Doc(rule, "Server.UpdateLUNMap: the preloaded map overwrites a live entry only on the edge live <= preloaded (live map compared with the preloaded one, never with itself), inside the second s.Lock() region; a hole for a shadowed block is requested only on live > preloaded")
	fn := c.Anchor(rule, fSrv+"UpdateLUNMap")
	if fn == nil {
		return
	}
	R := NewRenderer(fn)
	var st []ssa.Instruction
	eachInstr(fn, func(in ssa.Instruction) {
		if s, ok := in.(*ssa.Store); ok && R.V(s.Addr) == "&$0.r.volume.location[*]" {
			st = append(st, in)
		}
	})
	if len(st) != 1 {
		c.Bad(rule, FnName(fn)+" | merge store", "", fmt.Sprintf("expected exactly one merge store into s.r.volume.location, found %d", len(st)), nil)
		return
	}
	// the private copy is whatever was handed to PreloadLunMap
	priv := "var(replica.diffDisk)"
	privAllocs := map[string]bool{}
	if pl := CallsTo(fn, "replica.PreloadLunMap"); len(pl) == 1 {
		priv = strings.TrimPrefix(R.V(pl[0].(*ssa.Call).Call.Args[0]), "&")
		// ... or a local it was copied from as a whole (`volume := shadow()` written out)
		privAllocs[priv] = true
		for changed := true; changed; {
			changed = false
			eachInstr(fn, func(in ssa.Instruction) {
				if s, ok := in.(*ssa.Store); ok {
					if dst := strings.TrimPrefix(R.V(s.Addr), "&"); privAllocs[dst] {
						var leaves []ssa.Value
						var walk func(v ssa.Value, d int)
						walk = func(v ssa.Value, d int) {
							if p, ok := v.(*ssa.Phi); ok && d < 4 {
								for _, e := range p.Edges {
									walk(e, d+1)
								}
								return
							}
							leaves = append(leaves, v)
						}
						walk(s.Val, 0)
						for _, v := range leaves {
							if u, ok := v.(*ssa.UnOp); ok {
								if al, ok := u.X.(*ssa.Alloc); ok {
									if src := strings.TrimPrefix(R.V(al), "&"); !privAllocs[src] && strings.HasPrefix(src, "var(replica.diffDisk") {
										privAllocs[src] = true
										changed = true
									}
								}
							}
						}
					}
				}
			})
		}
	}
	if v := R.V(st[0].(*ssa.Store).Val); v != priv+".location[*]" {
		c.Bad(rule, FnName(fn)+" | merge value", c.P.InstrPos(st[0]), "live map entry receives "+v+", expected the preloaded entry", nil)
	} else {
		c.OK(rule, FnName(fn)+" | merge value", c.P.InstrPos(st[0]), "s.r.volume.location[offset] = volume.location[offset]", false)
	}
	c.Guard(rule, fn, st, "overwrite live entry", lockOrUnlock,
		atom("live <= preloaded", "-$0.r.volume.location[*] +"+priv+".location[*] >=0"),
		atom("preloaded entry known", "+"+priv+".location[*] !=0"),
		needWLock("server lock (re)taken"),
		okcall("replica.PreloadLunMap"))
	var holes []ssa.Instruction
	for _, f := range withClosures(fn) {
		holes = append(holes, CallsTo(f, "replica.sendToCreateHole")...)
	}
	c.Guard(rule, fn, liftSites(fn, holes), "request hole", lockOrUnlock,
		needWLock("server lock (re)taken"))
	// the private copy: location re-allocated before preload
	var alloc []ssa.Instruction
	eachInstr(fn, func(in ssa.Instruction) {
		if s, ok := in.(*ssa.Store); ok && strings.HasSuffix(R.V(s.Addr), ".location") && privAllocs[strings.TrimSuffix(strings.TrimPrefix(R.V(s.Addr), "&"), ".location")] && strings.HasPrefix(R.V(s.Val), "makeslice(") {
			alloc = append(alloc, in)
		}
	})
	c.Guard(rule, fn, CallsTo(fn, "replica.PreloadLunMap"), "preload private map", nil, Need{Desc: "private map allocated (not aliasing the live map)", Instr: func(in ssa.Instruction) bool {
		for _, a := range alloc {
			if a == in {
				return true
			}
		}
		return false
	}})
	// ... and it starts EMPTY: preload treats a non-zero entry as "an older file already holds this
	// block" and queues a hole for it - a map seeded with live entries makes it punch the newest data
	seeded := ""
	eachInstr(fn, func(in ssa.Instruction) {
		switch x := in.(type) {
		case *ssa.Call:
			if callMatches(x, "builtin:copy") && len(x.Call.Args) == 2 {
				dst := R.V(x.Call.Args[0])
				for pa := range privAllocs {
					if strings.HasPrefix(dst, pa+".location") || strings.HasPrefix(dst, "makeslice(") {
						seeded = c.P.InstrPos(in)
					}
				}
			}
		case *ssa.Store:
			a := R.V(x.Addr)
			for pa := range privAllocs {
				if strings.HasPrefix(a, "&"+pa+".location[") {
					seeded = c.P.InstrPos(in)
				}
			}
		}
	})
	if seeded == "" {
		c.OK(rule, FnName(fn)+" | private map starts empty", "", "nothing is copied or stored into the private map before / besides PreloadLunMap", false)
	} else {
		c.Bad(rule, FnName(fn)+" | private map starts empty", seeded, "entries are written into the private map outside PreloadLunMap: preload takes every non-zero entry for a block shadowed in an older file and punches it out", nil)
	}
	c.Floor(rule, 8)
}

// ---------------------------------------------------------------------------
// C06-RUN: a pending run of blocks to punch (file, offset, length) is extended only by a block
// that continues it: the increment of the run length is cut off by the equality
// current == offset + length (contiguity).  Without it, blocks that lie between two members of
// the run - and are stored nowhere else - are punched with it.
// ---------------------------------------------------------------------------

func phiClosure(v ssa.Value) map[ssa.Value]bool {
	seen := map[ssa.Value]bool{}
	var walk func(x ssa.Value)
	walk = func(x ssa.Value) {
		for {
			switch y := x.(type) {
			case *ssa.Convert:
				x = y.X
				continue
			case *ssa.ChangeType:
				x = y.X
				continue
			}
			break
		}
		if seen[x] {
			return
		}
		seen[x] = true
		switch y := x.(type) {
		case *ssa.Phi:
			for _, e := range y.Edges {
				walk(e)
			}
		case *ssa.BinOp:
			// length+1, offset kept: follow the variable through its own increments
			if y.Op == token.ADD {
				if c, ok := y.Y.(*ssa.Const); ok && c.Value != nil && c.Value.String() == "1" {
					walk(y.X)
				}
			}
		}
	}
	walk(v)
	return seen
}

func stripConv(x ssa.Value) ssa.Value {
	for {
		switch y := x.(type) {
		case *ssa.Convert:
			x = y.X
			continue
		case *ssa.ChangeType:
			x = y.X
			continue
		}
		return x
	}
}

func ruleC06Run(c *Ctx) {
	const rule = "C06-RUN"
	c.Doc(rule, "every run of blocks handed to sendToCreateHole(file, offset*sectorSize, length*sectorSize) whose length is accumulated in a loop is extended (length+1) only on the equality edge of a contiguity test current == offset + length over the same two variables")
	incs := 0
	for _, fn := range pkgFuncs(c.P, "replica") {
		sites := CallsTo(fn, "replica.sendToCreateHole")
		done := map[ssa.Value]bool{}
		for _, s := range sites {
			args := s.(*ssa.Call).Call.Args
			if len(args) < 3 {
				continue
			}
			factor := func(v ssa.Value) ssa.Value {
				if m, ok := stripConv(v).(*ssa.BinOp); ok && m.Op == token.MUL {
					return m.X
				}
				return nil
			}
			ov, lv := factor(args[1]), factor(args[2])
			if ov == nil || lv == nil {
				continue // single block / parameters: no accumulated run here
			}
			oc, lc := phiClosure(ov), phiClosure(lv)
			// contiguity tests
			var tests []*ssa.BinOp
			eachInstr(fn, func(in ssa.Instruction) {
				bo, ok := in.(*ssa.BinOp)
				if !ok || (bo.Op != token.EQL && bo.Op != token.NEQ) {
					return
				}
				for _, side := range []ssa.Value{bo.X, bo.Y} {
					if sum, ok := stripConv(side).(*ssa.BinOp); ok && sum.Op == token.ADD {
						a, b := stripConv(sum.X), stripConv(sum.Y)
						if (oc[a] && lc[b]) || (oc[b] && lc[a]) {
							tests = append(tests, bo)
						}
					}
				}
			})
			eqEdge := func(b *ssa.BasicBlock, k int) bool {
				if len(b.Instrs) == 0 {
					return false
				}
				iff, ok := b.Instrs[len(b.Instrs)-1].(*ssa.If)
				if !ok {
					return false
				}
				for _, t := range tests {
					if iff.Cond == ssa.Value(t) {
						return (t.Op == token.EQL) == (k == 0)
					}
				}
				return false
			}
			for v := range lc {
				inc, ok := v.(*ssa.BinOp)
				if !ok || inc.Op != token.ADD || done[inc] {
					continue
				}
				done[inc] = true
				incs++
				key := FnName(fn) + " | run extended only by the adjacent block"
				ws := Query{Fn: fn, IsSite: func(in ssa.Instruction) bool { return in == ssa.Instruction(inc) }, GenEdge: eqEdge}.Run()
				if len(tests) > 0 && len(ws) == 0 {
					c.OK(rule, key, c.P.InstrPos(inc), "length+1 is cut off by current == offset + length", true)
				} else {
					c.Bad(rule, key, c.P.InstrPos(inc), "the pending run (offset, length) is extended by a block that is not known to be adjacent to it (no equality current == offset + length on the way): blocks in between would be punched with the run", c.witnessOr(ws))
				}
			}
		}
	}
	if incs < 3 {
		c.Undecided(rule, "vacuity-floor", "", fmt.Sprintf("only %d accumulated punch runs found (expected 3: preload, fullWriteAt, UpdateLUNMap)", incs))
	}
}
