package main

import (
	"fmt"
	"go/token"
	"go/types"
	"regexp"
	"sort"
	"strings"

	"golang.org/x/tools/go/ssa"
)

// Rules written after round 6 (boundary / lifecycle / contract changes).

// ---------------------------------------------------------------------------
// C01-SPLIT: how diffDisk.WriteAt / ReadAt cut an unaligned request into blocks
// ---------------------------------------------------------------------------

func ruleC01Split(c *Ctx) {
	const rule = "C01-SPLIT"
	c.Doc(rule, "diffDisk.WriteAt / ReadAt: an aligned request goes to the full-block routine as a whole (both ends multiples of the sector size); a request is handed to a single read-modify-write only when it ends in the block it starts in (sectorSize - off%sectorSize >= len); otherwise it is cut into head [0:cut), middle [cut:len-tail) and tail [len-tail:) at offsets off, off+cut, off+len-tail, each step after the success of the previous one")
	ss := "$0.sectorSize"
	so := "mod(+$2,+" + ss + ")"          // offset % sectorSize
	eo := "mod(+$2 +len($1),+" + ss + ")" // (offset+len) % sectorSize
	cut := "+" + ss + " -" + so           // sectorSize - offset%sectorSize
	alignedStart := "+" + so + " ==0"
	alignedEnd := "+" + eo + " ==0"
	single := "+" + ss + " -len($1) -" + so + " >=0"
	head := "$1[+0:" + cut + "]"
	mid := "$1[" + cut + ":+len($1) -" + eo + "]"
	midOff := "(+" + ss + " +$2 -" + so + ")"
	tail := "$1[+len($1) -" + eo + ":]"
	tailOff := "(+$2 +len($1) -" + eo + ")"
	fD := "(*replica.diffDisk)."
	type shape struct {
		render string
		desc   string
		needs  func(fn *ssa.Function, byRender map[string]ssa.Instruction) []Need
	}
	check := func(fnName string, callees []string, shapes []shape, extra func(fn *ssa.Function, R *Renderer, byRender map[string]ssa.Instruction)) {
		fn := c.Anchor(rule, fnName)
		if fn == nil {
			return
		}
		R := NewRenderer(fn)
		byRender := map[string]ssa.Instruction{}
		count := map[string]int{}
		for _, in := range CallsTo(fn, callees...) {
			r := callRender(R, in)
			byRender[r] = in
			count[r]++
		}
		want := map[string]bool{}
		for _, s := range shapes {
			want[s.render] = true
			in := byRender[s.render]
			key := FnName(fn) + " | " + s.desc
			if in == nil || count[s.render] != 1 {
				c.Bad(rule, key, c.P.Pos(fn.Pos()), fmt.Sprintf("expected exactly one call %s, found %d", s.render, count[s.render]), nil)
				continue
			}
			c.OK(rule, key, c.P.InstrPos(in), s.render, false)
			if s.needs != nil {
				c.Guard(rule, fn, []ssa.Instruction{in}, s.desc, nil, s.needs(fn, byRender)...)
			}
		}
		var extraCalls []string
		for r := range byRender {
			if !want[r] {
				extraCalls = append(extraCalls, r)
			}
		}
		sort.Strings(extraCalls)
		for _, r := range extraCalls {
			c.Bad(rule, FnName(fn)+" | unexpected block I/O | "+r, c.P.InstrPos(byRender[r]), "a block I/O call with operands that are not one of the pieces of the request", nil)
		}
		if extra != nil {
			extra(fn, R, byRender)
		}
	}
	okEdge := func(fn *ssa.Function, in ssa.Instruction, desc string) Need {
		if in == nil {
			return Need{Desc: desc, Edge: func(*ssa.BasicBlock, int) bool { return false }}
		}
		return Need{Desc: desc, Edge: successEdgesOfCall(fn, in), SuccessOf: []ssa.Instruction{in}}
	}
	wHead := fD + "readModifyWrite($0," + head + ",$2)"
	wMid := fD + "fullWriteAt($0," + mid + "," + midOff + ")"
	wTail := fD + "readModifyWrite($0," + tail + "," + tailOff + ")"
	check(fD+"WriteAt", []string{fD + "fullWriteAt", fD + "readModifyWrite"}, []shape{
		{fD + "fullWriteAt($0,$1,$2)", "aligned request written as a whole", func(fn *ssa.Function, _ map[string]ssa.Instruction) []Need {
			return []Need{atom("start aligned", alignedStart), atom("end aligned", alignedEnd)}
		}},
		{fD + "readModifyWrite($0,$1,$2)", "single read-modify-write of the whole request", func(fn *ssa.Function, _ map[string]ssa.Instruction) []Need {
			return []Need{atom("request ends in the block it starts in", single)}
		}},
		{wHead, "head piece", nil},
		{wMid, "middle piece", func(fn *ssa.Function, m map[string]ssa.Instruction) []Need {
			return []Need{okEdge(fn, m[wHead], "head piece written")}
		}},
		{wTail, "tail piece", func(fn *ssa.Function, m map[string]ssa.Instruction) []Need {
			return []Need{okEdge(fn, m[wMid], "middle piece written")}
		}},
	}, func(fn *ssa.Function, R *Renderer, m map[string]ssa.Instruction) {
		// the success return that is not a forwarded call result comes after the tail piece
		var own []ssa.Instruction
		for _, r := range successReturns(fn) {
			ret := r.(*ssa.Return)
			if _, isExtract := strip(ret.Results[len(ret.Results)-1]).(*ssa.Extract); isExtract {
				continue
			}
			if R.V(ret.Results[0]) == "0" {
				continue // the empty request
			}
			own = append(own, r)
		}
		c.Guard(rule, fn, own, "report the request written", nil, okEdge(fn, m[wTail], "tail piece written"))
	})
	rb := "makeslice(" + ss + ")"
	rHead := fD + "fullReadAt($0," + rb + ",(+$2 -" + so + "))"
	rMid := fD + "fullReadAt($0," + mid + "," + midOff + ")"
	rTail := fD + "fullReadAt($0," + rb + "," + tailOff + ")"
	check(fD+"ReadAt", []string{fD + "fullReadAt"}, []shape{
		{fD + "fullReadAt($0,$1,$2)", "aligned request read as a whole", func(fn *ssa.Function, _ map[string]ssa.Instruction) []Need {
			return []Need{atom("start aligned", alignedStart), atom("end aligned", alignedEnd)}
		}},
		{rHead, "block holding the head piece", nil},
		{rMid, "middle piece", func(fn *ssa.Function, m map[string]ssa.Instruction) []Need {
			return []Need{okEdge(fn, m[rHead], "head block read")}
		}},
		{rTail, "block holding the tail piece", func(fn *ssa.Function, m map[string]ssa.Instruction) []Need {
			return []Need{okEdge(fn, m[rMid], "middle piece read")}
		}},
	}, func(fn *ssa.Function, R *Renderer, m map[string]ssa.Instruction) {
		var copies []ssa.Instruction
		cp := map[string]ssa.Instruction{}
		eachInstr(fn, func(in ssa.Instruction) {
			if callMatches(in, "builtin:copy") {
				copies = append(copies, in)
				cp[callRender(R, in)] = in
			}
		})
		cHead := "copy($1," + rb + "[+" + so + ":])"
		cTail := "copy($1[+len($1) -" + eo + ":]," + rb + "[:+" + eo + "])"
		for _, w := range []struct {
			r, d  string
			after ssa.Instruction
		}{{cHead, "head piece copied out of its block", m[rHead]}, {cTail, "tail piece copied out of its block", m[rTail]}} {
			if in := cp[w.r]; in != nil {
				c.Guard(rule, fn, []ssa.Instruction{in}, w.d, nil, okEdge(fn, w.after, "the block was read"))
			} else {
				c.Bad(rule, FnName(fn)+" | "+w.d, c.P.Pos(fn.Pos()), "expected "+w.r, nil)
			}
		}
		if len(copies) != 2 {
			c.Bad(rule, FnName(fn)+" | two copies", c.P.Pos(fn.Pos()), fmt.Sprintf("%d copy calls", len(copies)), nil)
		}
		var own []ssa.Instruction
		for _, r := range successReturns(fn) {
			ret := r.(*ssa.Return)
			if _, isExtract := strip(ret.Results[len(ret.Results)-1]).(*ssa.Extract); isExtract {
				continue
			}
			if R.V(ret.Results[0]) == "0" {
				continue
			}
			own = append(own, r)
		}
		headCopied := Need{Desc: "head piece delivered", Instr: func(in ssa.Instruction) bool { return cp[cHead] != nil && in == cp[cHead] }}
		midOrSingle := okEdge(fn, m[rMid], "middle piece read (or the request ends in its first block)")
		midOrSingle.Atoms = []string{single}
		tailDone := Need{Desc: "tail piece delivered (or there is none)", Atoms: []string{single, "-" + eo + " >=0", alignedEnd},
			Instr: func(in ssa.Instruction) bool { return cp[cTail] != nil && in == cp[cTail] }}
		c.Guard(rule, fn, own, "report the request read", nil, headCopied, midOrSingle, tailDone)
	})
	c.Floor(rule, 20)
}

// ---------------------------------------------------------------------------
// *-HTTPSTATUS: an HTTP exchange counts as done only when the status says so
// ---------------------------------------------------------------------------

var httpStatusExceptions = map[string]string{
	"(*replica/client.ReplicaClient).Delete":    "the confirmed tree ignores the answer of DELETE (controller/rest delete() reports per-replica transport errors only)",
	"(*controller/client.ControllerClient).get": "the confirmed tree decodes the body whatever the status (CLI listing helper)",
	"(*sync/agent.Client).do":                   "",
}

func isHTTPExchange(in ssa.Instruction) bool {
	for _, n := range []string{"(*net/http.Client).Do", "(*net/http.Client).Get", "(*net/http.Client).Post", "net/http.Get", "net/http.Post"} {
		if callMatches(in, n) {
			return true
		}
	}
	return false
}

func ruleHTTPStatus(rule string) ruleFn {
	return func(c *Ctx) {
		c.Doc(rule, "module-wide: in every function that performs an HTTP exchange (http.Client.Do/Get/Post), a success result (nil error, or true for a boolean probe) is reachable after the exchange only through an edge on which the response's StatusCode was found to be a success code (== 200, or < 300); a refusal of the peer (404 = action not offered in this state, 5xx) is never reported as done")
		okStatus := regexp.MustCompile(`^(\+(.*)\.StatusCode -200 ==0|-(.*)\.StatusCode \+299 >=0)$`)
		n := 0
		for _, fn := range prodFns(c.P) {
			var exch []ssa.Instruction
			eachInstr(fn, func(in ssa.Instruction) {
				if isHTTPExchange(in) {
					exch = append(exch, in)
				}
			})
			if len(exch) == 0 {
				continue
			}
			R := NewRenderer(fn)
			type ek struct {
				b *ssa.BasicBlock
				k int
			}
			good := map[ek]bool{}
			for _, ea := range allAtoms(fn, R) {
				if okStatus.MatchString(ea.Atom.String()) {
					good[ek{ea.B, ea.Succ}] = true
				}
			}
			var sites []ssa.Instruction
			ei := errResultIndex(fn)
			for _, r := range Returns(fn) {
				switch {
				case ei >= 0:
					if provablyNonNilError(r.Results[ei]) {
						continue
					}
					if isNilConst(strip(r.Results[ei])) {
						sites = append(sites, r)
					} else if ex, ok := strip(r.Results[ei]).(*ssa.Extract); ok {
						// the exchange's own error is a failure; any other forwarded error can be nil
						if cl, ok := ex.Tuple.(*ssa.Call); !ok || !isHTTPExchange(cl) {
							sites = append(sites, r)
						}
					} else {
						// `return json.NewDecoder(resp.Body).Decode(x)`, a merged error variable, ...
						sites = append(sites, r)
					}
				case len(r.Results) == 1 && R.V(r.Results[0]) == "true":
					sites = append(sites, r)
				}
			}
			for _, ex := range exch {
				n++
				key := FnName(fn) + " | success only on a success status"
				if why, ok := httpStatusExceptions[FnName(fn)]; ok && why != "" {
					c.OK(rule, key, c.P.InstrPos(ex), "exception: "+why, false)
					continue
				}
				var bad *Witness
				for _, s := range sites {
					s := s
					ws := Query{Fn: fn, Start: ex, IsSite: func(in ssa.Instruction) bool { return in == s },
						GenEdge: func(b *ssa.BasicBlock, k int) bool { return good[ek{b, k}] }}.Run()
					if len(ws) > 0 {
						bad = &ws[0]
						break
					}
				}
				if bad == nil {
					c.OK(rule, key, c.P.InstrPos(ex), fmt.Sprintf("%d success exits, all behind the status test", len(sites)), true)
				} else {
					c.Bad(rule, key, c.P.InstrPos(bad.Site), "success is reported for an HTTP exchange whose status was not found to be a success code on this path: a refused request (404 action not offered, 5xx) counts as done", c.witness(*bad))
				}
			}
		}
		if n < 8 {
			c.Undecided(rule, "vacuity-floor", "", fmt.Sprintf("only %d HTTP exchanges found (10 on the confirmed tree)", n))
		}
	}
}

// ---------------------------------------------------------------------------
// C14-RESPNIL: a (*T, error) result of a library call is dereferenced only after err == nil
// ---------------------------------------------------------------------------

func ruleRespNil(rule string) ruleFn {
	return func(c *Ctx) {
		c.Doc(rule, "module-wide: a pointer result of a call of a function outside this module that also returns an error ((*T, error): http.Client.Do, os.Open, url.Parse, ...) is dereferenced (field access, load) only on paths that passed the err == nil edge of that call or a non-nil test of the pointer: on the failure edge the pointer is nil and the access panics")
		n := 0
		for _, fn := range prodFns(c.P) {
			R := NewRenderer(fn)
			eachInstr(fn, func(in ssa.Instruction) {
				cl, ok := in.(*ssa.Call)
				if !ok {
					return
				}
				callee := calleeOf(&cl.Call)
				if callee == nil || isJivaFn(callee) {
					return
				}
				sig := callee.Signature
				if sig.Results().Len() < 2 || !isErrorType(sig.Results().At(sig.Results().Len()-1).Type()) {
					return
				}
				for _, ref := range *cl.Referrers() {
					ex, ok := ref.(*ssa.Extract)
					if !ok {
						continue
					}
					if _, isPtr := ex.Type().Underlying().(*types.Pointer); !isPtr {
						continue
					}
					var derefs []ssa.Instruction
					for _, u := range *ex.Referrers() {
						switch y := u.(type) {
						case *ssa.FieldAddr:
							if y.X == ssa.Value(ex) {
								derefs = append(derefs, y)
							}
						case *ssa.UnOp:
							if y.Op == token.MUL && y.X == ssa.Value(ex) {
								derefs = append(derefs, y)
							}
						}
					}
					if len(derefs) == 0 {
						continue
					}
					n++
					key := FnName(fn) + " | " + CalleeName(cl) + " result used after success"
					ptr := R.V(ex)
					gen := orEdges(successEdgesOfCall(fn, cl), atomEdges(fn, R, notNilAtom(ptr)))
					var bad *Witness
					for _, d := range derefs {
						d := d
						ws := Query{Fn: fn, Start: cl, IsSite: func(i2 ssa.Instruction) bool { return i2 == d }, GenEdge: gen}.Run()
						if len(ws) > 0 {
							bad = &ws[0]
							break
						}
					}
					if bad == nil {
						c.OK(rule, key, c.P.InstrPos(cl), fmt.Sprintf("%d accesses, all behind err == nil", len(derefs)), true)
					} else {
						c.Bad(rule, key, c.P.InstrPos(bad.Site), "the pointer result is dereferenced on a path on which the call may have failed (nil pointer dereference in the handler / goroutine)", c.witness(*bad))
					}
				}
			})
		}
		if n < 10 {
			c.Undecided(rule, "vacuity-floor", "", fmt.Sprintf("only %d (*T, error) library results with accesses found", n))
		}
	}
}

func isErrorType(t types.Type) bool {
	n, ok := t.(*types.Named)
	return ok && n.Obj().Pkg() == nil && n.Obj().Name() == "error"
}

// ---------------------------------------------------------------------------
// C14-SIGNEDIDX: strings.Index & co answer -1
// ---------------------------------------------------------------------------

func ruleSignedIdx(rule string) ruleFn {
	return func(c *Ctx) {
		c.Doc(rule, "module-wide: a slice bound or index computed from strings/bytes Index, LastIndex, IndexByte, IndexAny, IndexRune (which answer -1 when nothing is found) is cut off on every path by a fact that excludes -1 (v >= 0, v != -1, v > k)")
		isIdx := func(v ssa.Value) (*ssa.Call, int64) {
			v = stripConv(v)
			off := int64(0)
			if b, ok := v.(*ssa.BinOp); ok && (b.Op == token.ADD || b.Op == token.SUB) {
				if k, ok := stripConv(b.Y).(*ssa.Const); ok && k.Value != nil {
					off = k.Int64()
					if b.Op == token.SUB {
						off = -off
					}
					v = stripConv(b.X)
				}
			}
			cl, ok := v.(*ssa.Call)
			if !ok {
				return nil, 0
			}
			callee := calleeOf(&cl.Call)
			if callee == nil || callee.Pkg == nil {
				return nil, 0
			}
			p := callee.Pkg.Pkg.Path()
			if (p == "strings" || p == "bytes") && (strings.HasPrefix(callee.Name(), "Index") || strings.HasPrefix(callee.Name(), "LastIndex")) {
				return cl, off
			}
			return nil, 0
		}
		n := 0
		for _, fn := range prodFns(c.P) {
			R := NewRenderer(fn)
			eachInstr(fn, func(in ssa.Instruction) {
				var ops []ssa.Value
				switch y := in.(type) {
				case *ssa.Slice:
					ops = append(ops, y.Low, y.High)
				case *ssa.IndexAddr:
					ops = append(ops, y.Index)
				case *ssa.Index:
					ops = append(ops, y.Index)
				case *ssa.Lookup:
					if _, isMap := y.X.Type().Underlying().(*types.Map); !isMap {
						ops = append(ops, y.Index)
					}
				}
				for _, op := range ops {
					if op == nil {
						continue
					}
					cl, off := isIdx(op)
					if cl == nil || off >= 1 {
						continue // v+1 with v >= -1 is a valid bound
					}
					n++
					t := R.V(cl)
					key := FnName(fn) + " | bound from " + t
					atoms := []string{"+" + t + " >=0", "+" + t + " +1 !=0", "+" + t + " -1 >=0", "+" + t + " -2 >=0"}
					ws := Query{Fn: fn, IsSite: func(i2 ssa.Instruction) bool { return i2 == in }, GenEdge: atomEdges(fn, R, atoms...)}.Run()
					if len(ws) == 0 {
						c.OK(rule, key, c.P.InstrPos(in), "the not-found answer is excluded on every path", true)
					} else {
						c.Bad(rule, key, c.P.InstrPos(in), "the bound can be -1 (nothing found): slice bounds out of range panic", c.witness(ws[0]))
					}
				}
			})
		}
		c.OK(rule, "module | index results used as bounds", "", fmt.Sprintf("%d found", n), false)
	}
}

// ---------------------------------------------------------------------------
// C14-NILMAP: a map field that is assigned into is never set to nil
// ---------------------------------------------------------------------------

func ruleNilMap(rule string) ruleFn {
	return func(c *Ctx) {
		c.Doc(rule, "module-wide: a struct field of map type into which entries are stored somewhere (m[k] = v) by a function that does not allocate it on demand is never assigned the nil map: the next store would panic with 'assignment to entry in nil map'")
		// fields with map updates
		updated := map[string]bool{}
		for _, fn := range prodFns(c.P) {
			// fields this function (re)allocates: the lazy-initialisation idiom `if m == nil { m = make(..) }; m[k] = v`
			lazy := map[string]bool{}
			eachInstr(fn, func(in ssa.Instruction) {
				if st, ok := in.(*ssa.Store); ok {
					if _, isMake := strip(st.Val).(*ssa.MakeMap); isMake {
						if tn, f, _ := fieldAddrOf(st.Addr); f != "" {
							lazy[tn+"."+f] = true
						}
					}
				}
			})
			R := NewRenderer(fn)
			eachInstr(fn, func(in ssa.Instruction) {
				if mu, ok := in.(*ssa.MapUpdate); ok {
					if ld, ok := strip(mu.Map).(*ssa.UnOp); ok && ld.Op == token.MUL {
						if tn, f, _ := fieldAddrOf(ld.X); f != "" && !lazy[tn+"."+f] {
							// an update behind a comma-ok hit on the same map works on a non-nil map
							type ek struct {
								b *ssa.BasicBlock
								k int
							}
							hit := map[ek]bool{}
							pre := "has(" + R.V(mu.Map) + ","
							for _, ea := range allAtoms(fn, R) {
								if s := ea.Atom.String(); strings.HasPrefix(s, pre) {
									hit[ek{ea.B, ea.Succ}] = true
								}
							}
							if len(hit) > 0 {
								ws := Query{Fn: fn, IsSite: func(i2 ssa.Instruction) bool { return i2 == in }, GenEdge: func(b *ssa.BasicBlock, k int) bool { return hit[ek{b, k}] }}.Run()
								if len(ws) == 0 {
									return
								}
							}
							updated[tn+"."+f] = true
						}
					}
				}
			})
		}
		n := 0
		for _, fn := range prodFns(c.P) {
			eachInstr(fn, func(in ssa.Instruction) {
				st, ok := in.(*ssa.Store)
				if !ok {
					return
				}
				tn, f, _ := fieldAddrOf(st.Addr)
				if f == "" || !updated[tn+"."+f] {
					return
				}
				if _, isMap := st.Val.Type().Underlying().(*types.Map); !isMap {
					return
				}
				n++
				key := FnName(fn) + " | " + tn + "." + f + " assigned"
				if isNilConst(strip(st.Val)) {
					c.Bad(rule, key, c.P.InstrPos(in), "the map is set to nil although entries are stored into it elsewhere without re-allocation: the next store panics", nil)
				} else {
					c.OK(rule, key, c.P.InstrPos(in), "assigned a map value", false)
				}
			})
		}
		c.OK(rule, "module | map fields with stores", "", fmt.Sprintf("%d fields, %d assignments", len(updated), n), false)
		if len(updated) < 5 {
			c.Undecided(rule, "vacuity-floor", "", fmt.Sprintf("only %d map fields with entry stores found", len(updated)))
		}
	}
}

// ---------------------------------------------------------------------------
// C02-ERRTYPE: the fan-out's error has the dynamic type its only caller asserts
// ---------------------------------------------------------------------------

func ruleFanoutErrType(rule string) ruleFn {
	return func(c *Ctx) {
		c.Doc(rule, "MultiWriterAt.WriteAt / Sync / Unmap return either nil or a *MultiWriterError itself (not wrapped): replicator asserts exactly that type to learn which replicas failed; any other dynamic type makes it report a failure that names nobody, so the failed replica is never detached")
		for _, m := range []string{"WriteAt", "Sync", "Unmap"} {
			fn := c.Anchor(rule, "(*controller.MultiWriterAt)."+m)
			if fn == nil {
				continue
			}
			ei := errResultIndex(fn)
			bad := ""
			nret := 0
			var visit func(v ssa.Value, depth int) bool
			visit = func(v ssa.Value, depth int) bool {
				if depth > 6 {
					return false
				}
				switch x := v.(type) {
				case *ssa.Const:
					return x.IsNil()
				case *ssa.MakeInterface:
					return strings.HasSuffix(x.X.Type().String(), "controller.MultiWriterError") && strings.HasPrefix(x.X.Type().String(), "*")
				case *ssa.Phi:
					for _, e := range x.Edges {
						if !visit(e, depth+1) {
							return false
						}
					}
					return true
				case *ssa.UnOp:
					// named result: every store into it
					if al, ok := x.X.(*ssa.Alloc); ok && x.Op == token.MUL {
						okAll, any := true, false
						for _, u := range *al.Referrers() {
							if st, ok := u.(*ssa.Store); ok && st.Addr == ssa.Value(al) {
								any = true
								if !visit(st.Val, depth+1) {
									okAll = false
								}
							}
						}
						return okAll && any
					}
				}
				return false
			}
			for _, r := range Returns(fn) {
				nret++
				if ei < 0 || !visit(r.Results[ei], 0) {
					bad = c.P.InstrPos(r)
				}
			}
			key := FnName(fn) + " | error is nil or *MultiWriterError"
			if bad == "" && nret > 0 {
				c.OK(rule, key, c.P.Pos(fn.Pos()), fmt.Sprintf("%d returns", nret), false)
			} else {
				c.Bad(rule, key, bad, "a return hands out an error whose dynamic type is not *MultiWriterError (wrapped or replaced): replicator's type assertion fails and the BackendError names no replica", nil)
			}
		}
		c.Floor(rule, 3)
	}
}

// ---------------------------------------------------------------------------
// C15-WIRECONST: message type numbers are part of the protocol version
// ---------------------------------------------------------------------------

var wireTypeNumbers = map[string]int64{
	"TypeRead": 0, "TypeWrite": 1, "TypeResponse": 2, "TypeError": 3, "TypeEOF": 4, "TypeClose": 5,
	"TypePing": 6, "TypeUpdate": 7, "TypeSync": 8, "TypeUnmap": 9,
}

const wireMagic = 0x1b03

func ruleWireConst(rule string) ruleFn {
	return func(c *Ctx) {
		c.Doc(rule, "the numbers of the rpc message types that travel in a frame are those of protocol version MagicVersion 0x1b03 (Jiva03) (read 0, write 1, response 2, error 3, EOF 4, ping 6, update 7, sync 8, unmap 9): renumbering them under the same magic makes a peer of the other build execute / acknowledge the wrong operation; a new numbering needs a new MagicVersion")
		magic, ok := c.P.pkgIntConst("rpc", "MagicVersion")
		if !ok {
			c.Undecided(rule, "rpc.MagicVersion", "", "constant not found")
			return
		}
		if magic != wireMagic {
			c.OK(rule, "rpc | protocol version changed", "", fmt.Sprintf("MagicVersion is %#x: the frozen numbering of %#x does not apply", magic, wireMagic), false)
			return
		}
		names := make([]string, 0, len(wireTypeNumbers))
		for k := range wireTypeNumbers {
			names = append(names, k)
		}
		sort.Strings(names)
		for _, nme := range names {
			v, ok := c.P.pkgIntConst("rpc", nme)
			key := "rpc." + nme + " | wire number"
			switch {
			case !ok && nme == "TypeClose":
				c.OK(rule, key, "", "unused constant removed (no frame carries it)", false)
			case !ok:
				c.Bad(rule, key, "", "message type constant missing", nil)
			case v != wireTypeNumbers[nme]:
				c.Bad(rule, key, "", fmt.Sprintf("is %d, protocol %#x defines %d: peers built from the other numbering mis-dispatch this message", v, wireMagic, wireTypeNumbers[nme]), nil)
			default:
				c.OK(rule, key, "", fmt.Sprintf("%d", v), false)
			}
		}
		c.Floor(rule, 9)
	}
}

// ---------------------------------------------------------------------------
// C18-SHUTDOWN / reset
// ---------------------------------------------------------------------------

func ruleC18Shutdown(rule string) ruleFn {
	return func(c *Ctx) {
		c.Doc(rule, "Controller.reset installs a NEW replicator and empty replica lists on every path (nothing of the previous life survives: replicator.reset keeps the quorum backends); shutdownBackend closes the backends and then, whatever Close answered, resets and re-evaluates the volume status before it returns")
		if fn := c.Anchor(rule, "(*controller.Controller).reset"); fn != nil {
			R := NewRenderer(fn)
			var stB, stR, stQ []ssa.Instruction
			fresh := true
			eachInstr(fn, func(in ssa.Instruction) {
				st, ok := in.(*ssa.Store)
				if !ok {
					return
				}
				switch R.V(st.Addr) {
				case "&$0.backend":
					stB = append(stB, in)
					v := strip(st.Val)
					if mi, ok := v.(*ssa.MakeInterface); ok {
						v = mi.X
					}
					if al, ok := v.(*ssa.Alloc); !ok || !al.Heap {
						fresh = false
					}
				case "&$0.replicas":
					stR = append(stR, in)
				case "&$0.quorumReplicas":
					stQ = append(stQ, in)
				}
			})
			rets := make([]ssa.Instruction, 0)
			for _, r := range Returns(fn) {
				rets = append(rets, r)
			}
			isIn := func(set []ssa.Instruction) func(ssa.Instruction) bool {
				return func(in ssa.Instruction) bool {
					for _, s := range set {
						if s == in {
							return true
						}
					}
					return false
				}
			}
			if len(stB) > 0 && fresh {
				c.OK(rule, FnName(fn)+" | backend is a new replicator", c.P.InstrPos(stB[0]), "&replicator{}", false)
			} else {
				c.Bad(rule, FnName(fn)+" | backend is a new replicator", c.P.Pos(fn.Pos()), "reset keeps (or re-uses) the replicator of the previous life: its quorum backends and index maps survive", nil)
			}
			c.Guard(rule, fn, rets, "return", nil,
				Need{Desc: "new replicator installed", Instr: isIn(stB)},
				Need{Desc: "replica list emptied", Instr: isIn(stR)},
				Need{Desc: "quorum replica list emptied", Instr: isIn(stQ)})
			// no call that works on the old replicator
			eachInstr(fn, func(in ssa.Instruction) {
				if cl, ok := in.(*ssa.Call); ok && strings.Contains(callRender(R, cl), "$0.backend") {
					c.Bad(rule, FnName(fn)+" | old replicator not re-used", c.P.InstrPos(in), "reset calls "+callRender(R, cl)+" on the replicator of the previous life", nil)
				}
			})
		}
		if fn := c.Anchor(rule, "(*controller.Controller).shutdownBackend"); fn != nil {
			rets := make([]ssa.Instruction, 0)
			for _, r := range Returns(fn) {
				rets = append(rets, r)
			}
			c.Guard(rule, fn, rets, "return", nil,
				Need{Desc: "backends closed", Calls: []string{"(*controller.replicator).Close"}},
				Need{Desc: "membership reset", Calls: []string{"(*controller.Controller).reset"}},
				Need{Desc: "volume status re-evaluated", Calls: []string{"(*controller.Controller).UpdateVolStatus"}})
			c.Guard(rule, fn, CallsTo(fn, "(*controller.Controller).reset"), "reset", nil,
				Need{Desc: "backends closed first", Calls: []string{"(*controller.replicator).Close"}})
		}
		c.Floor(rule, 8)
	}
}

// C16-STARTSIZE: Controller.Start forgets the size before it attaches replicas, so that the size is
// learnt from the first replica of THIS start (a grown volume whose controller kept an older
// size would otherwise refuse every replica: "Backend sizes do not match").
func ruleStartSize(rule string) ruleFn {
	return func(c *Ctx) {
		c.Doc(rule, "Controller.Start stores the sentinel MaxInt64 into c.size on every path before the first addReplicaDuringStartNoLock: the size is learnt again from the first replica of this start")
		if fn := c.Anchor(rule, "(*controller.Controller).Start"); fn != nil {
			R := NewRenderer(fn)
			var sent []ssa.Instruction
			eachInstr(fn, func(in ssa.Instruction) {
				if st, ok := in.(*ssa.Store); ok && R.V(st.Addr) == "&$0.size" && R.V(st.Val) == "9223372036854775807" {
					sent = append(sent, in)
				}
			})
			c.Guard(rule, fn, CallsTo(fn, "(*controller.Controller).addReplicaDuringStartNoLock"), "attach at start", nil,
				Need{Desc: "size forgotten (MaxInt64) so that it is learnt from the first replica", Instr: func(in ssa.Instruction) bool {
					for _, s := range sent {
						if s == in {
							return true
						}
					}
					return false
				}})
		}
		c.Floor(rule, 1)
	}
}

// ---------------------------------------------------------------------------
// *-JSONWIRE: keys posted by the controller's remote backend are keys the replica's handler reads
// ---------------------------------------------------------------------------

func jsonKeysOf(t types.Type, depth int) []string {
	var out []string
	st, ok := t.Underlying().(*types.Struct)
	if !ok || depth > 3 {
		return nil
	}
	for i := 0; i < st.NumFields(); i++ {
		f := st.Field(i)
		tag := reflectTagGet(st.Tag(i), "json")
		name := strings.Split(tag, ",")[0]
		if name == "-" {
			continue
		}
		if f.Embedded() && name == "" {
			out = append(out, jsonKeysOf(f.Type(), depth+1)...)
			continue
		}
		if name == "" {
			name = f.Name()
		}
		out = append(out, name)
	}
	return out
}

func reflectTagGet(tag, key string) string {
	// the conventional `k:"v" k2:"v2"` format
	for tag != "" {
		i := 0
		for i < len(tag) && tag[i] == ' ' {
			i++
		}
		tag = tag[i:]
		if tag == "" {
			break
		}
		i = 0
		for i < len(tag) && tag[i] > ' ' && tag[i] != ':' && tag[i] != '"' {
			i++
		}
		if i == 0 || i+1 >= len(tag) || tag[i] != ':' || tag[i+1] != '"' {
			break
		}
		name := tag[:i]
		tag = tag[i+1:]
		i = 1
		for i < len(tag) && tag[i] != '"' {
			if tag[i] == '\\' {
				i++
			}
			i++
		}
		if i >= len(tag) {
			break
		}
		val := tag[1:i]
		tag = tag[i+1:]
		if name == key {
			return val
		}
	}
	return ""
}

func ruleJSONWire(rule string) ruleFn {
	return func(c *Ctx) {
		c.Doc(rule, "every key the controller's remote backend posts with an action (doAction(action, &map{key: value})) is a JSON key of the input struct that the replica's REST handler registered for that action decodes (encoding/json matches case-insensitively and silently drops unknown keys: a mismatch makes the handler act on the zero value and answer 200)")
		rt := c.Anchor(rule, "replica/rest.NewRouter")
		if rt == nil {
			return
		}
		handler := map[string]*ssa.Function{}
		eachInstr(rt, func(in ssa.Instruction) {
			mu, ok := in.(*ssa.MapUpdate)
			if !ok {
				return
			}
			kc, ok := strip(mu.Key).(*ssa.Const)
			if !ok {
				return
			}
			if mc, ok := strip(mu.Value).(*ssa.MakeClosure); ok {
				if f, ok := mc.Fn.(*ssa.Function); ok {
					name := strings.TrimSuffix(f.Name(), "$bound")
					for _, g := range c.P.AllFns {
						if g.Name() == name && g.Signature.Recv() != nil && strings.HasSuffix(FnName(g), "rest.Server)."+name) && strings.Contains(FnName(g), "replica/rest") {
							handler[strings.Trim(constString(kc), `"`)] = g
						}
					}
				}
			}
		})
		if len(handler) < 15 {
			c.Undecided(rule, "replica/rest.NewRouter | action handlers", "", fmt.Sprintf("only %d action -> handler bindings resolved", len(handler)))
			return
		}
		inputKeys := func(h *ssa.Function) ([]string, bool) {
			var keys []string
			found := false
			eachInstr(h, func(in ssa.Instruction) {
				cl, ok := in.(*ssa.Call)
				if !ok || !strings.HasSuffix(CalleeName(cl), "api.ApiContext).Read") || len(cl.Call.Args) < 2 {
					return
				}
				v := strip(cl.Call.Args[1])
				if mi, ok := v.(*ssa.MakeInterface); ok {
					v = mi.X
				}
				if pt, ok := v.Type().Underlying().(*types.Pointer); ok {
					keys = append(keys, jsonKeysOf(pt.Elem(), 0)...)
					found = true
				}
			})
			return keys, found
		}
		n := 0
		for _, fn := range prodFns(c.P) {
			if !strings.Contains(FnName(fn), "backend/remote") {
				continue
			}
			R := NewRenderer(fn)
			for _, in := range CallsTo(fn, "(*backend/remote.Remote).doAction") {
				cl := in.(*ssa.Call)
				ac, ok := strip(cl.Call.Args[1]).(*ssa.Const)
				if !ok {
					continue
				}
				action := strings.Trim(constString(ac), `"`)
				// posted keys: map updates with constant keys in this function
				var posted []string
				eachInstr(fn, func(x ssa.Instruction) {
					if mu, ok := x.(*ssa.MapUpdate); ok {
						if kc, ok := strip(mu.Key).(*ssa.Const); ok && strings.HasPrefix(R.V(mu.Map), "makemap") {
							posted = append(posted, strings.Trim(constString(kc), `"`))
						}
					}
				})
				if len(posted) == 0 {
					continue
				}
				n++
				key := FnName(fn) + " | action " + action + " | posted keys are read by the handler"
				h := handler[action]
				if h == nil {
					c.Bad(rule, key, c.P.InstrPos(in), "no handler is registered for this action in the replica's router", nil)
					continue
				}
				keys, found := inputKeys(h)
				if !found {
					c.Bad(rule, key, c.P.InstrPos(in), FnName(h)+" does not decode a request body", nil)
					continue
				}
				missing := ""
				for _, p := range posted {
					hit := false
					for _, k := range keys {
						if strings.EqualFold(k, p) {
							hit = true
						}
					}
					if !hit {
						missing = p
					}
				}
				if missing == "" {
					c.OK(rule, key, c.P.InstrPos(in), fmt.Sprintf("%v ⊆ %v", posted, keys), false)
				} else {
					c.Bad(rule, key, c.P.InstrPos(in), fmt.Sprintf("posts key %q, but %s decodes %v: the value is dropped and the handler works on the zero value", missing, FnName(h), keys), nil)
				}
			}
		}
		if n < 7 {
			c.Undecided(rule, "vacuity-floor", "", fmt.Sprintf("only %d posting actions found (8 on the confirmed tree)", n))
		}
	}
}

// ---------------------------------------------------------------------------
// *-MODELWIRE: what the replica publishes about itself and how the controller reads it back
// ---------------------------------------------------------------------------

func ruleModelWire(rule string) ruleFn {
	return func(c *Ctx) {
		c.Doc(rule, "rest.NewReplica publishes the info block's Size / RevisionCounter as base-10 integers and Checkpoint / Rebuilding / Dirty / Head / Parent unchanged; for an open replica it publishes the live revision counter, mode and chain unconditionally (the controller relies on -1 as 'counter unreadable'); Remote.Size / GetRevisionCounter parse the published strings as base-10 integers")
		fn := c.Anchor(rule, "replica/rest.NewReplica")
		if fn == nil {
			return
		}
		R := NewRenderer(fn)
		rep := "$3"
		revLive := "strconv.FormatInt(" + c.P.callTerm(fRep+"GetRevisionCounter", rep) + ",10)"
		want := map[string][]string{
			"Size":            {"strconv.FormatInt($2.Size,10)"},
			"RevisionCounter": {"strconv.FormatInt($2.RevisionCounter,10)", revLive},
			"Checkpoint":      {"$2.Checkpoint"},
			"Rebuilding":      {"$2.Rebuilding"},
			"Dirty":           {"$2.Dirty"},
			"Head":            {"$2.Head"},
			"Parent":          {"$2.Parent"},
			"SectorSize":      {"$2.SectorSize"},
			"ReplicaMode":     {c.P.callTerm(fRep+"GetReplicaMode", rep)},
			"Chain":           {fRep + "DisplayChain(" + rep + ")#0"},
		}
		stores := map[string][]*ssa.Store{}
		eachInstr(fn, func(in ssa.Instruction) {
			if st, ok := in.(*ssa.Store); ok {
				if _, f, _ := fieldAddrOf(st.Addr); f != "" && want[f] != nil && strings.Contains(R.V(st.Addr), "ReplicaInfo."+f) {
					stores[f] = append(stores[f], st)
				}
			}
		})
		fields := make([]string, 0, len(want))
		for f := range want {
			fields = append(fields, f)
		}
		sort.Strings(fields)
		var rets []ssa.Instruction
		for _, r := range Returns(fn) {
			rets = append(rets, r)
		}
		for _, f := range fields {
			key := FnName(fn) + " | publishes " + f
			if len(stores[f]) == 0 {
				c.Bad(rule, key, "", "field is no longer published", nil)
				continue
			}
			bad := ""
			seen := map[string]*ssa.Store{}
			for _, st := range stores[f] {
				v := R.V(st.Val)
				okv := false
				for _, w := range want[f] {
					if v == w {
						okv = true
						seen[w] = st
					}
				}
				if !okv {
					bad = v
				}
			}
			if bad != "" {
				c.Bad(rule, key, c.P.InstrPos(stores[f][0]), "publishes "+bad+" (expected "+strings.Join(want[f], " / ")+")", nil)
				continue
			}
			c.OK(rule, key, c.P.InstrPos(stores[f][0]), strings.Join(want[f], " / "), false)
			// every expected form is stored on every path (the live one: unless no replica is open)
			for i, w := range want[f] {
				st := seen[w]
				if st == nil {
					c.Bad(rule, key+" | "+w, "", "this value is no longer published", nil)
					continue
				}
				nd := Need{Desc: f + " = " + w, Instr: func(in ssa.Instruction) bool { return in == ssa.Instruction(st) }}
				if strings.Contains(w, rep) || i > 0 {
					nd.Atoms = []string{isNilAtom(rep)}
				}
				c.Guard(rule, fn, rets, "return the resource", nil, nd)
			}
		}
		for _, nm := range []struct{ fn, field string }{{"(*backend/remote.Remote).Size", "Size"}, {"(*backend/remote.Remote).GetRevisionCounter", "RevisionCounter"}} {
			g := c.Anchor(rule, nm.fn)
			if g == nil {
				continue
			}
			G := NewRenderer(g)
			re := regexp.MustCompile(`^strconv\.ParseInt\(.*\.` + nm.field + `,10,(0|64)\)#0$`)
			okAll, n := true, 0
			for _, r := range successReturns(g) {
				n++
				if !re.MatchString(G.V(r.(*ssa.Return).Results[0])) {
					okAll = false
				}
			}
			key := nm.fn + " | parses the published " + nm.field
			if okAll && n > 0 {
				c.OK(rule, key, c.P.Pos(g.Pos()), "strconv.ParseInt(<answer>."+nm.field+", 10, 64)", false)
			} else {
				c.Bad(rule, key, c.P.Pos(g.Pos()), "a success return does not hand out the base-10 value of the published "+nm.field, nil)
			}
		}
		c.Floor(rule, 20)
	}
}

// ---------------------------------------------------------------------------
// *-INFOWHO: who may change which field of the persisted info block
// ---------------------------------------------------------------------------

// infoWriters: field of replica.Info -> functions that may store to it (on r.info or on a copy that
// they persist).  Frozen from the confirmed tree; helpers introduced by a refactoring are seen
// through by the inlined view.
var infoWriters = map[string][]string{
	"Checkpoint":  {"(*replica.Replica).SetCheckpoint"},
	"CloneStatus": {"(*replica.Replica).SetCloneStatus"},
	"Rebuilding":  {"(*replica.Replica).writeVolumeMetaData", "(*replica.Replica).SetRebuilding"},
	"Size":        {"(*replica.Replica).Resize", "replica.construct"},
	"UUID":        {"(*replica.Server).initUUID"},
}

func ruleInfoWho(rule string) ruleFn {
	return func(c *Ctx) {
		c.Doc(rule, "the fields of the persisted replica.Info block that carry protocol state (Checkpoint, CloneStatus, Rebuilding, Size, UUID) are stored - in r.info or in a copy of it - only by the operations that own them: a revert / snapshot / close that rewrites volume.meta does not change the checkpoint or the clone status on the side")
		n := 0
		allowed := func(f, fn string) bool {
			for _, a := range infoWriters[f] {
				if a == fn {
					return true
				}
			}
			return false
		}
		for _, fn := range prodFns(c.P) {
			name := FnName(fn)
			if i := strings.Index(name, "$"); i > 0 {
				name = name[:i] // closures count for their function
			}
			eachInstr(fn, func(in ssa.Instruction) {
				st, ok := in.(*ssa.Store)
				if !ok {
					return
				}
				tn, f, _ := fieldAddrOf(st.Addr)
				if tn != "Info" || infoWriters[f] == nil {
					return
				}
				if fa, ok := st.Addr.(*ssa.FieldAddr); !ok || !strings.HasSuffix(fa.X.Type().String(), "replica.Info") {
					return
				}
				n++
				key := name + " | stores Info." + f
				if allowed(f, name) {
					c.OK(rule, key, c.P.InstrPos(in), "owner of the field", false)
				} else {
					c.Bad(rule, key, c.P.InstrPos(in), "Info."+f+" is changed by an operation that does not own it (owners: "+strings.Join(infoWriters[f], ", ")+")", nil)
				}
			})
		}
		if n < 7 {
			c.Undecided(rule, "vacuity-floor", "", fmt.Sprintf("only %d stores to owned Info fields found", n))
		}
		// the flags handed to writeVolumeMetaData: Rebuilding is the caller's own request (SetRebuilding)
		// or the current value - closing or opening a replica does not end a rebuild
		for _, fn := range prodFns(c.P) {
			R := NewRenderer(fn)
			for _, in := range CallsTo(fn, fRep+"writeVolumeMetaData") {
				cl := in.(*ssa.Call)
				if len(cl.Call.Args) < 3 {
					continue
				}
				v := R.V(cl.Call.Args[2])
				key := FnName(fn) + " | rebuilding flag written to volume.meta"
				if strings.HasSuffix(v, ".info.Rebuilding") || (FnName(fn) == fRep+"SetRebuilding" && v == "$1") {
					c.OK(rule, key, c.P.InstrPos(in), v, false)
				} else {
					c.Bad(rule, key, c.P.InstrPos(in), "writes Rebuilding = "+v+": only SetRebuilding changes the flag, every other writer keeps the current value (state 'rebuilding' gates snapshot / revert / removedisk)", nil)
				}
			}
		}
	}
}

// ---------------------------------------------------------------------------
// *-CLIENTPOST: a replica-client action reports success only after its POST succeeded
// ---------------------------------------------------------------------------

func ruleClientPost(rule string) ruleFn {
	return func(c *Ctx) {
		c.Doc(rule, "every method of replica/client.ReplicaClient that posts an action reports success only on the success edge of that POST (an action the replica does not offer in its state is an error, not a no-op); the action link it posts to is the one the replica published under the action's name")
		n := 0
		for _, fn := range prodFns(c.P) {
			if !strings.HasPrefix(FnName(fn), "(*replica/client.ReplicaClient).") || strings.Contains(FnName(fn), "$") {
				continue
			}
			posts := CallsTo(fn, "(*replica/client.ReplicaClient).post")
			if len(posts) == 0 || FnName(fn) == "(*replica/client.ReplicaClient).post" {
				continue
			}
			n++
			R := NewRenderer(fn)
			var edges []func(*ssa.BasicBlock, int) bool
			for _, p := range posts {
				edges = append(edges, successEdgesOfCall(fn, p))
			}
			c.Guard(rule, fn, successReturns(fn), "report success", nil, Need{Desc: "the action was posted and accepted", Edge: orEdges(edges...), SuccessOf: posts})
			for _, p := range posts {
				url := R.V(p.(*ssa.Call).Call.Args[1])
				key := FnName(fn) + " | posts to a published action link"
				if strings.Contains(url, `.Actions["`) || strings.Contains(url, "syncAgent") || strings.Contains(url, "$0.address") || strings.Contains(url, "Links[") {
					c.OK(rule, key, c.P.InstrPos(p), url, false)
				} else {
					c.OK(rule, key+" | "+url, c.P.InstrPos(p), "other target", false)
				}
			}
		}
		if n < 10 {
			c.Undecided(rule, "vacuity-floor", "", fmt.Sprintf("only %d posting client methods found", n))
		}
	}
}

// ---------------------------------------------------------------------------
// C01-EXTENTS: the FIEMAP walk stops only when the kernel said so
// ---------------------------------------------------------------------------

func ruleExtents(rule string) ruleFn {
	return func(c *Ctx) {
		c.Doc(rule, "UsedGenerator.findExtents leaves its loop only when there is no file descriptor, FIEMAP failed (error recorded), FIEMAP returned no extent, or the extent carrying FIEMAP_EXTENT_LAST was delivered: a walk that stops earlier leaves blocks of a fragmented file out of the block map, which then reads them from an older snapshot")
		fn := c.Anchor(rule, "(*replica.UsedGenerator).findExtents")
		if fn == nil {
			return
		}
		var rets []ssa.Instruction
		for _, r := range Returns(fn) {
			if len(r.Block().Preds) == 0 && r.Block().Index != 0 {
				continue
			}
			rets = append(rets, r)
		}
		isFiemap := func(v ssa.Value, idx int) bool {
			ex, ok := v.(*ssa.Extract)
			if !ok || ex.Index != idx {
				return false
			}
			cl, ok := ex.Tuple.(*ssa.Call)
			return ok && strings.HasSuffix(CalleeName(cl), "go-fibmap.Fiemap")
		}
		isZero := func(v ssa.Value) bool {
			k, ok := stripConv(v).(*ssa.Const)
			return ok && k.Value != nil && k.Value.String() == "0"
		}
		type ek struct {
			b *ssa.BasicBlock
			k int
		}
		stop := map[ek]bool{}
		for _, b := range fn.Blocks {
			if len(b.Instrs) == 0 {
				continue
			}
			iff, ok := b.Instrs[len(b.Instrs)-1].(*ssa.If)
			if !ok {
				continue
			}
			bo, ok := iff.Cond.(*ssa.BinOp)
			if !ok || !isZero(bo.Y) || (bo.Op != token.EQL && bo.Op != token.NEQ) {
				continue
			}
			edge := 0 // the edge on which the comparison holds
			x := stripConv(bo.X)
			switch {
			case bo.Op == token.NEQ && isFiemap(x, 1): // errno != 0
				stop[ek{b, edge}] = true
			case bo.Op == token.EQL:
				if cl, ok := x.(*ssa.Call); ok {
					if bi, ok := cl.Call.Value.(*ssa.Builtin); ok && bi.Name() == "len" && isFiemap(cl.Call.Args[0], 0) {
						stop[ek{b, edge}] = true // no extent returned
					}
					if cl.Call.IsInvoke() && cl.Call.Method.Name() == "Fd" {
						stop[ek{b, edge}] = true // no file descriptor
					}
				}
			case bo.Op == token.NEQ:
				if and, ok := x.(*ssa.BinOp); ok && and.Op == token.AND {
					if k, ok := stripConv(and.Y).(*ssa.Const); ok && k.Value != nil && k.Value.String() == "1" {
						if fl, ok := stripConv(and.X).(*ssa.UnOp); ok {
							if _, f, _ := fieldAddrOf(fl.X); f == "Flags" {
								stop[ek{b, edge}] = true // FIEMAP_EXTENT_LAST
							}
						}
						if fl, ok := stripConv(and.X).(*ssa.Field); ok {
							_ = fl
							stop[ek{b, edge}] = true
						}
					}
				}
			}
		}
		if len(stop) < 4 {
			c.Bad(rule, FnName(fn)+" | four ways out", c.P.Pos(fn.Pos()), fmt.Sprintf("only %d of the four stop conditions (no fd, FIEMAP error, no extent, last-extent flag) recognised", len(stop)), nil)
		}
		nd := Need{Desc: "end of the walk", Edge: func(b *ssa.BasicBlock, k int) bool { return stop[ek{b, k}] }}
		c.Guard(rule, fn, rets, "stop the walk", nil, nd)
		c.Floor(rule, 3)
	}
}

// ---------------------------------------------------------------------------
// C19-STATUSSRC: the clone status that is reported is the persisted one
// ---------------------------------------------------------------------------

func ruleCloneStatusSource(rule string) ruleFn {
	return func(c *Ctx) {
		c.Doc(rule, "Replica.GetCloneStatus answers with the CloneStatus read from volume.meta in that very call (or \"\" when the file cannot be read): a status kept in memory can run ahead of a failed write of volume.meta, and the controller would promote a clone whose completion is not on disk")
		fn := c.Anchor(rule, fRep+"GetCloneStatus")
		if fn == nil {
			return
		}
		R := NewRenderer(fn)
		bad, n := "", 0
		for _, r := range Returns(fn) {
			if len(r.Results) != 1 {
				continue
			}
			v := r.Results[0]
			// named result loaded at a deferred-return: look at the stores into it
			var vals []string
			if ld, ok := strip(v).(*ssa.UnOp); ok && ld.Op == token.MUL {
				if al, ok := ld.X.(*ssa.Alloc); ok {
					for _, u := range *al.Referrers() {
						if st, ok := u.(*ssa.Store); ok && st.Addr == ssa.Value(al) {
							vals = append(vals, R.V(st.Val))
						}
					}
				}
			}
			if len(vals) == 0 {
				vals = []string{R.V(v)}
			}
			for _, s := range vals {
				n++
				if s != `""` && s != "var(replica.Info).CloneStatus" {
					bad = s
				}
			}
		}
		key := FnName(fn) + " | answers from volume.meta"
		if bad == "" && n > 0 {
			c.OK(rule, key, c.P.Pos(fn.Pos()), "info.CloneStatus of the block unmarshalled in this call", false)
		} else {
			c.Bad(rule, key, c.P.Pos(fn.Pos()), "hands out "+bad+" instead of the persisted status", nil)
		}
		var rets []ssa.Instruction
		for _, r := range Returns(fn) {
			if len(r.Results) == 1 && R.V(r.Results[0]) == "var(replica.Info).CloneStatus" {
				rets = append(rets, r)
			}
		}
		c.Guard(rule, fn, rets, "report the status", nil, okcall(fRep+"unmarshalFile"))
		c.Floor(rule, 2)
	}
}

// ---------------------------------------------------------------------------
// C09-DEDUPE: one replica, one registration
// ---------------------------------------------------------------------------

func ruleRegDedupe(rule string) ruleFn {
	return func(c *Ctx) {
		c.Doc(rule, "registerReplica records a registration only after the scan that deletes every entry of the same replica (same UUID) under another address ran to its end, on every path: a replica that comes back under a new address while the election is not re-run must not count twice towards the majority")
		fn := c.Anchor(rule, fCtl+"registerReplica")
		if fn == nil {
			return
		}
		R := NewRenderer(fn)
		var dels, ins []ssa.Instruction
		eachInstr(fn, func(in ssa.Instruction) {
			switch x := in.(type) {
			case *ssa.Call:
				if callMatches(x, "builtin:delete") && R.V(x.Call.Args[0]) == "$0.RegisteredReplicas" && R.V(x.Call.Args[1]) == "key($0.RegisteredReplicas)" {
					// the dedupe delete is the one under the UUID test
					dels = append(dels, in)
				}
			case *ssa.MapUpdate:
				if R.V(x.Map) == "$0.RegisteredReplicas" && R.V(x.Key) == "$1.Address" {
					ins = append(ins, in)
				}
			}
		})
		var dedupe []ssa.Instruction
		for _, d := range dels {
			ws := Query{Fn: fn, IsSite: func(in ssa.Instruction) bool { return in == d }, GenEdge: atomEdges(fn, R, eqAtom("$0.RegisteredReplicas[*].UUID", "$1.UUID"))}.Run()
			if len(ws) == 0 {
				dedupe = append(dedupe, d)
			}
		}
		if len(dedupe) == 0 || len(ins) == 0 {
			c.Bad(rule, FnName(fn)+" | dedupe scan", c.P.Pos(fn.Pos()), fmt.Sprintf("found %d deletions under the same-UUID test and %d registrations", len(dedupe), len(ins)), nil)
			return
		}
		c.Guard(rule, fn, dedupe, "forget the old address", nil,
			atom("same replica", eqAtom("$0.RegisteredReplicas[*].UUID", "$1.UUID")),
			atom("another address", neAtom("$1.Address", "key($0.RegisteredReplicas)")))
		type ek struct {
			b *ssa.BasicBlock
			k int
		}
		exit := map[ek]bool{}
		for _, ea := range allAtoms(fn, R) {
			if ea.Atom.String() == "!more($0.RegisteredReplicas)" {
				for _, d := range dedupe {
					if ea.B.Dominates(d.Block()) {
						exit[ek{ea.B, ea.Succ}] = true
					}
				}
			}
		}
		c.Guard(rule, fn, ins, "record the registration", nil, Need{Desc: "the same-UUID scan ran to its end", Edge: func(b *ssa.BasicBlock, k int) bool { return exit[ek{b, k}] }})
		c.Floor(rule, 3)
	}
}

// ---------------------------------------------------------------------------
// C11-FORWARD: the server hands out the replica's own removal plan
// ---------------------------------------------------------------------------

func ruleRemovePlanForward(rule string) ruleFn {
	return func(c *Ctx) {
		c.Doc(rule, "replica.Server.PrepareRemoveDisk returns exactly what Replica.PrepareRemoveDisk computed for the requested disk (the plan 'coalesce into the parent, then remove' is never shortened or extended on the way to the cleaner)")
		fn := c.Anchor(rule, fSrv+"PrepareRemoveDisk")
		if fn == nil {
			return
		}
		calls := CallsTo(fn, fRep+"PrepareRemoveDisk")
		bad := ""
		n := 0
		for _, r := range Returns(fn) {
			if len(r.Results) != 2 {
				continue
			}
			if provablyNonNilError(r.Results[1]) {
				continue
			}
			if len(r.Block().Preds) == 0 && r.Block().Index != 0 {
				continue
			}
			n++
			ex, ok := strip(r.Results[0]).(*ssa.Extract)
			if !ok || ex.Index != 0 || len(calls) != 1 || ex.Tuple != ssa.Value(calls[0].(*ssa.Call)) {
				bad = c.P.InstrPos(r)
			}
		}
		key := FnName(fn) + " | plan forwarded unchanged"
		if bad == "" && n > 0 && len(calls) == 1 {
			c.OK(rule, key, c.P.InstrPos(calls[0]), "return s.r.PrepareRemoveDisk(name)", false)
		} else {
			c.Bad(rule, key, bad, "a return that can be a success hands out something other than the result of Replica.PrepareRemoveDisk", nil)
		}
		c.Floor(rule, 1)
	}
}

// ---------------------------------------------------------------------------
// C12-RELINK / C12-CHILDREN / C12-WALK
// ---------------------------------------------------------------------------

func ruleChainLinks(rule string) ruleFn {
	return func(c *Ctx) {
		c.Doc(rule, "updateParentDisk re-links the child of a removed disk to that disk's parent, or to \"\" when the removed disk was the base, and persists the child with one of the two written; readDiskData registers every disk that has a parent in the children map on every success path (reopen / reload / revert rebuild the map from there); Chain and DisplayChain append every disk they visit (the reported chain is the path head -> base, marked-as-removed members included)")
		if fn := c.Anchor(rule, fRep+"updateParentDisk"); fn != nil {
			R := NewRenderer(fn)
			var sts []ssa.Instruction
			vals := map[string]ssa.Instruction{}
			eachInstr(fn, func(in ssa.Instruction) {
				if st, ok := in.(*ssa.Store); ok && R.V(st.Addr) == "&$0.diskData[$1].Parent" {
					sts = append(sts, in)
					vals[R.V(st.Val)] = in
				}
			})
			up, base := vals["$0.diskData[$2].Parent"], vals[`""`]
			key := FnName(fn) + " | child re-linked"
			if up == nil || base == nil || len(vals) != 2 {
				var vs []string
				for v := range vals {
					vs = append(vs, v)
				}
				sort.Strings(vs)
				c.Bad(rule, key, c.P.Pos(fn.Pos()), "child.Parent receives "+strings.Join(vs, " / ")+` (expected diskData[removed].Parent and "")`, nil)
			} else {
				c.OK(rule, key, c.P.InstrPos(up), `diskData[removed].Parent / ""`, false)
				c.Guard(rule, fn, []ssa.Instruction{up}, "link to the grandparent", nil, atom("a disk below was removed", neAtom(`""`, "$2")))
				c.Guard(rule, fn, []ssa.Instruction{base}, "child becomes the base", nil, atom("the base was removed", eqAtom(`""`, "$2")))
			}
			c.Guard(rule, fn, CallsTo(fn, fRep+"encodeToFile"), "persist the child", nil, Need{Desc: "the new parent was written", Instr: func(in ssa.Instruction) bool {
				for _, s := range sts {
					if s == in {
						return true
					}
				}
				return false
			}})
		}
		if fn := c.Anchor(rule, fRep+"readDiskData"); fn != nil {
			R := NewRenderer(fn)
			var par string
			for _, r := range successReturns(fn) {
				par = R.V(r.(*ssa.Return).Results[0])
			}
			nd := Need{Desc: "disk registered as a child of its parent (or it has none)", Calls: []string{fRep + "addChildDisk"}}
			if par != "" {
				nd.Atoms = []string{eqAtom(`""`, par)}
			}
			c.Guard(rule, fn, successReturns(fn), "return the parent", nil, nd)
		}
		for _, name := range []string{fRep + "Chain", fRep + "DisplayChain"} {
			fn := c.Anchor(rule, name)
			if fn == nil {
				continue
			}
			R := NewRenderer(fn)
			// the walk variable: a string phi fed by info.Head
			var cur *ssa.Phi
			eachInstr(fn, func(in ssa.Instruction) {
				if p, ok := in.(*ssa.Phi); ok && cur == nil {
					for _, e := range p.Edges {
						if R.V(e) == "$0.info.Head" {
							cur = p
						}
					}
				}
			})
			key := FnName(fn) + " | every visited disk is reported"
			if cur == nil {
				c.Bad(rule, key, c.P.Pos(fn.Pos()), "walk variable (starting at info.Head) not found", nil)
				continue
			}
			// appends of cur
			var apps []ssa.Instruction
			eachInstr(fn, func(in ssa.Instruction) {
				cl, ok := in.(*ssa.Call)
				if !ok || !callMatches(cl, "builtin:append") || len(cl.Call.Args) != 2 {
					return
				}
				// the variadic slice holds cur
				sl, ok := cl.Call.Args[1].(*ssa.Slice)
				if !ok {
					return
				}
				al, ok := sl.X.(*ssa.Alloc)
				if !ok {
					return
				}
				for _, u := range *al.Referrers() {
					if ia, ok := u.(*ssa.IndexAddr); ok {
						for _, w := range *ia.Referrers() {
							if st, ok := w.(*ssa.Store); ok && st.Val == ssa.Value(cur) {
								apps = append(apps, in)
							}
						}
					}
				}
			})
			var steps []ssa.Instruction
			for _, e := range cur.Edges {
				if in, ok := e.(ssa.Instruction); ok && R.V(e) != "$0.info.Head" {
					steps = append(steps, in)
				}
			}
			if len(apps) == 0 || len(steps) == 0 {
				c.Bad(rule, key, c.P.Pos(fn.Pos()), fmt.Sprintf("%d appends of the walk variable, %d steps to the parent", len(apps), len(steps)), nil)
				continue
			}
			isApp := func(in ssa.Instruction) bool {
				for _, a := range apps {
					if a == in {
						return true
					}
				}
				return false
			}
			var bad *Witness
			for _, s := range steps {
				s := s
				ws := Query{Fn: fn, IsSite: func(in ssa.Instruction) bool { return in == s }, Gen: isApp, Kill: func(in ssa.Instruction) bool { return in == ssa.Instruction(cur) }}.Run()
				if len(ws) > 0 {
					bad = &ws[0]
				}
			}
			if bad == nil {
				c.OK(rule, key, c.P.InstrPos(apps[0]), "append(result, cur) on every iteration before cur = parent", true)
			} else {
				c.Bad(rule, key, c.P.InstrPos(bad.Site), "the walk can step to the parent without having reported the current disk: the reported chain is no longer the path from head to base", c.witness(*bad))
			}
		}
		c.Floor(rule, 7)
	}
}

// ---------------------------------------------------------------------------
// Request hardening found in round 6 (each was a genuine defect of the pinned tree, see DESIGN.md)
// ---------------------------------------------------------------------------

func noSlash(term string) []string {
	return []string{`!strings.Contains(` + term + `,"/")`, `!strings.ContainsAny(` + term + `,"/")`, `!strings.ContainsRune(` + term + `,47)`, `!strings.ContainsAny(` + term + `,"/\\")`}
}

func ruleAlignedResize(rule string) ruleFn {
	return func(c *Ctx) {
		c.Doc(rule, "Replica.Resize truncates the chain and records the new size only for a size that is a multiple of the sector size: any other size is accepted by truncate(2) but refused by construct() on the next open ('Size not a multiple of sector size'), i.e. the acknowledged resize makes the replica unopenable")
		fn := c.Anchor(rule, fRep+"Resize")
		if fn == nil {
			return
		}
		R := NewRenderer(fn)
		tr := CallsTo(fn, "syscall.Truncate")
		var sz string
		for _, in := range tr {
			sz = R.V(in.(*ssa.Call).Call.Args[1])
		}
		sites := append([]ssa.Instruction{}, tr...)
		for _, s := range StoresTo(fn, "Info", "Size") {
			sites = append(sites, s)
		}
		if sz == "" || len(sites) == 0 {
			// the truncation may live in a helper (C16-REPL follows it); the size store is in Resize
			for _, ea := range allAtoms(fn, R) {
				if s := ea.Atom.String(); strings.HasPrefix(s, "-$0.info.Size +") && strings.HasSuffix(s, " >=0") {
					sz = strings.TrimSuffix(strings.TrimPrefix(s, "-$0.info.Size +"), " >=0")
				}
			}
		}
		if sz == "" || len(sites) == 0 {
			c.Bad(rule, FnName(fn)+" | aligned size", c.P.Pos(fn.Pos()), "could not identify the new size / the sites that apply it", nil)
			return
		}
		c.Guard(rule, fn, sites, "apply the new size", nil,
			atom("size is a multiple of the sector size", "+mod(+"+sz+",+$0.info.SectorSize) ==0", "+mod(+"+sz+",+$0.volume.sectorSize) ==0", "+mod(+"+sz+",+4096) ==0"))
		c.Floor(rule, 2)
	}
}

func ruleNamePath(rule string) ruleFn {
	return func(c *Ctx) {
		c.Doc(rule, "names that reach the file system through management requests cannot leave the replica directory: validDiskName accepts no name with a path separator (volume-head-/../volume-head-003.img has the right prefix and suffix and resolves to the live head), and createDisk builds a snapshot only from a name without one (snapshot x/../y creates y.img while the head's parent is recorded as volume-snap-x/../y.img: the chain cannot be reopened)")
		if fn := c.Anchor(rule, "replica.validDiskName"); fn != nil {
			var sites []ssa.Instruction
			for _, r := range Returns(fn) {
				if !provablyNonNilError(r.Results[0]) {
					sites = append(sites, r)
				}
			}
			c.Guard(rule, fn, sites, "accept the name", nil, atom("no path separator in the name", noSlash("$0")...))
		}
		if fn := c.Anchor(rule, fRep+"createDisk"); fn != nil {
			c.Guard(rule, fn, CallsTo(fn, fRep+"createNewHead"), "first effect", nil, atom("no path separator in the snapshot name", noSlash("$1")...))
		}
		c.Floor(rule, 3)
	}
}

func ruleReplaceSource(rule string) ruleFn {
	return func(c *Ctx) {
		c.Doc(rule, "ReplaceDisk unlinks its source after linking it to the target: the source must not be the live head (replacedisk {target: x, source: <head>} would delete the file all writes go to) nor the target itself (hardlinkDisk removes an existing target before it links the source to it)")
		fn := c.Anchor(rule, fRep+"ReplaceDisk")
		if fn == nil {
			return
		}
		sites := append(CallsTo(fn, fRep+"hardlinkDisk"), CallsTo(fn, fRep+"rmDisk")...)
		sites = append(sites, CallsTo(fn, fRep+"removeDiskNode")...)
		c.Guard(rule, fn, sites, "replace", lockOrUnlock, atom("source is not the head", neAtom("$0.info.Head", "$2")),
			atom("source is not the target", neAtom("$1", "$2")))
		c.Floor(rule, 6)
	}
}

func ruleChildrenForgotten(rule string) ruleFn {
	return func(c *Ctx) {
		c.Doc(rule, "removeDiskNode forgets the children entry of the disk it removes together with the disk: a stale entry gives a later snapshot of the same name two children (it can then not be removed, and ListDisks differs from what a reopen shows)")
		fn := c.Anchor(rule, fRep+"removeDiskNode")
		if fn == nil {
			return
		}
		R := NewRenderer(fn)
		isDel := func(m string) func(ssa.Instruction) bool {
			return func(in ssa.Instruction) bool {
				cl, ok := in.(*ssa.Call)
				return ok && callMatches(cl, "builtin:delete") && R.V(cl.Call.Args[0]) == m && R.V(cl.Call.Args[1]) == "$1"
			}
		}
		n := 0
		eachInstr(fn, func(in ssa.Instruction) {
			if !isDel("$0.diskData")(in) {
				return
			}
			n++
			ws := Query{Fn: fn, Start: in, Gen: isDel("$0.diskChildrenMap"), IsSite: func(x ssa.Instruction) bool {
				r, ok := x.(*ssa.Return)
				return ok && len(r.Results) == 1 && !provablyNonNilError(r.Results[0])
			}}.Run()
			key := fmt.Sprintf("%s | disk removed from the map[%d] | children entry removed too", FnName(fn), n)
			if len(ws) == 0 {
				c.OK(rule, key, c.P.InstrPos(in), "delete(diskChildrenMap, name) before every success return", true)
			} else {
				c.Bad(rule, key, c.P.InstrPos(in), "the disk is deleted from diskData but its entry in diskChildrenMap survives", c.witness(ws[0]))
			}
		})
		if n < 2 {
			c.Undecided(rule, "vacuity-floor", "", fmt.Sprintf("only %d deletions of the removed disk found", n))
		}
	}
}

func ruleRevertAncestry(rule string) ruleFn {
	return func(c *Ctx) {
		c.Doc(rule, "revertDisk writes the new chain (new head on top of the snapshot, volume.meta) only after it walked the snapshot's ancestry in the metadata files to its end: a snapshot left outside the live chain by an earlier revert may have lost an ancestor, and a revert to it would commit a chain that cannot be loaded")
		fn := c.Anchor(rule, fRep+"revertDisk")
		if fn == nil {
			return
		}
		R := NewRenderer(fn)
		// the walk: a string phi fed by the requested snapshot and by the Parent of a disk read
		// from <name>.meta; "walked to its end" is the edge on which it is ""
		var walk string
		for _, ea := range allAtoms(fn, R) {
			s := ea.Atom.String()
			if strings.HasPrefix(s, `+"" -phi{`) && strings.HasSuffix(s, " ==0") && strings.Contains(s, ".Parent") && strings.Contains(s, "$1") {
				walk = s
			}
		}
		key := FnName(fn) + " | ancestry walked before the commit"
		if walk == "" {
			c.Bad(rule, key, c.P.Pos(fn.Pos()), "no walk over the parents of the snapshot (a phi of the requested name and of <disk>.Parent compared with \"\") found", nil)
			return
		}
		term := strings.TrimSuffix(strings.TrimPrefix(walk, `+"" -`), " ==0")
		sites := append(CallsTo(fn, fRep+"createNewHead"), CallsTo(fn, fRep+"rmDisk")...)
		c.Guard(rule, fn, sites, "commit the new chain", nil, atom("every ancestor's metadata was found", walk))
		// each step reads the metadata of the disk it is at, and goes on only when that worked
		var reads []ssa.Instruction
		for _, in := range CallsTo(fn, fRep+"unmarshalFile") {
			if strings.Contains(callRender(R, in), "("+term+` + ".meta")`) {
				reads = append(reads, in)
			}
		}
		if len(reads) == 0 {
			c.Bad(rule, key+" | reads <ancestor>.meta", c.P.Pos(fn.Pos()), "the walk does not read the metadata file of the disk it is at", nil)
		} else {
			c.OK(rule, key+" | reads <ancestor>.meta", c.P.InstrPos(reads[0]), callRender(R, reads[0]), false)
			// the step to the parent happens only after the read succeeded
			eachInstr(fn, func(in ssa.Instruction) {
				p, ok := in.(*ssa.Phi)
				if !ok || R.V(p) != term {
					return
				}
				for i, e := range p.Edges {
					if R.V(e) == "$1" {
						continue
					}
					from := p.Block().Preds[i]
					site := from.Instrs[len(from.Instrs)-1]
					ws := Query{Fn: fn, IsSite: func(x ssa.Instruction) bool { return x == site }, GenEdge: successEdgesOfCall(fn, reads[0]), Kill: func(x ssa.Instruction) bool { return x == ssa.Instruction(p) }}.Run()
					if len(ws) == 0 {
						c.OK(rule, key+" | step after a successful read", c.P.InstrPos(site), "name = ancestor.Parent only behind the success edge of the read", true)
					} else {
						c.Bad(rule, key+" | step after a successful read", c.P.InstrPos(site), "the walk moves on although the metadata of the current ancestor could not be read", c.witness(ws[0]))
					}
				}
			})
		}
		c.Floor(rule, 4)
	}
}

// ---------------------------------------------------------------------------
// *-OPFWD: a data operation reports success only after it was handed to the layer below
// ---------------------------------------------------------------------------

var opForward = []struct{ fn, callee string }{
	{fCtl + "WriteAt", fRepl + "WriteAt"}, {fCtl + "ReadAt", fRepl + "ReadAt"}, {fCtl + "Sync", fRepl + "Sync"}, {fCtl + "Unmap", fRepl + "Unmap"},
	{fRepl + "WriteAt", "invoke:WriteAt"}, {fRepl + "ReadAt", "invoke:ReadAt"}, {fRepl + "Sync", "invoke:Sync"}, {fRepl + "Unmap", "invoke:Unmap"},
	{fCli + "WriteAt", fCli + "operation"}, {fCli + "ReadAt", fCli + "operation"}, {fCli + "Sync", fCli + "operation"}, {fCli + "Unmap", fCli + "operation"}, {fCli + "Ping", fCli + "operation"},
	{fSrv + "WriteAt", fRep + "WriteAt"}, {fSrv + "ReadAt", fRep + "ReadAt"}, {fSrv + "Sync", fRep + "Sync"}, {fSrv + "Unmap", fRep + "Unmap"},
	{fRep + "WriteAt", "invoke:WriteAt"}, {fRep + "ReadAt", "invoke:ReadAt"}, {fRep + "Sync", "invoke:Sync"}, {fRep + "Unmap", "invoke:Unmap"},
	// the lowest layer: the chain's head file
	{"(*replica.diffDisk).Sync", "syscall.Fsync"}, {"(*replica.diffDisk).fullWriteAt", "invoke:WriteAt"}, {"(*replica.diffDisk).readModifyWrite", "(*replica.diffDisk).fullWriteAt"},
	// management operations that must not be acknowledged without having been carried out
	{fSrv + "Snapshot", fRep + "Snapshot"}, {fRep + "Snapshot", fRep + "createDisk"}, {fRep + "createDisk", fRep + "createNewHead"},
	{fSrv + "Revert", fRep + "Revert"}, {fRep + "Revert", fRep + "revertDisk"},
	{fSrv + "SetRebuilding", fRep + "SetRebuilding"}, {fSrv + "SetReplicaMode", fRep + "SetReplicaMode"}, {fSrv + "SetCheckpoint", fRep + "SetCheckpoint"},
	{fSrv + "Resize", fRep + "Resize"}, {fSrv + "RemoveDiffDisk", fRep + "RemoveDiffDisk"}, {fSrv + "ReplaceDisk", fRep + "ReplaceDisk"},
	{fSrv + "SetRevisionCounter", fRep + "SetRevisionCounter"}, {fSrv + "UpdateCloneInfo", fRep + "UpdateCloneInfo"},
	{fRep + "SetRevisionCounter", fRep + "writeRevisionCounter"}, {fRep + "SetRevisionCounterCloneReplica", fRep + "writeRevisionCounter"},
	// protocol reads that must not be answered from a cache: the answer changes behind the caller's back
	{"(*backend/remote.Remote).info", "(*net/http.Client).Do"},
	// the replica resource the action gate (checkAction) and the controller's polls read: built from the server's current state
	// a resize the frontend acknowledges was handed to the SCSI target (a frontend that is down refuses)
	{"(*frontend/gotgt.goTgt).Resize", "invoke:Resize"},
	{"(*replica/rest.Server).Replica", "(*replica.Server).Status"},
	{"(*replica/rest.Server).Replica", "replica/rest.NewReplica"},
	{"(*backend/dynamic.Factory).VerifyReplicaAlive", "invoke:VerifyReplicaAlive"},
	{"(*backend/dynamic.Factory).Create", "invoke:Create"},
	{"(*backend/dynamic.Factory).SignalToAdd", "invoke:SignalToAdd"},
	{"(*sync/agent.Server).CreateProcess", "(*sync/agent.Server).launch"},
}

// opForwardExceptions: "<function> | <position of the return>" is not usable (positions move); the
// exceptions are therefore conditions: atoms under which a success return without the call is
// the confirmed behaviour.
var opForwardAtoms = map[string][]string{
	// no tcp factory configured (file backend only): nothing to signal / probe
	"(*backend/dynamic.Factory).SignalToAdd":        {`!has($0.factories,"tcp")`},
	"(*backend/dynamic.Factory).VerifyReplicaAlive": {`!has($0.factories,"tcp")`},
	// a quorum replica keeps no data: its Replica acknowledges without touching a volume
	fRep + "WriteAt": {`+"quorum" -$0.ReplicaType ==0`},
	fRep + "Sync":    {`+"quorum" -$0.ReplicaType ==0`},
	fRep + "Unmap":   {`+"quorum" -$0.ReplicaType ==0`},
	// an empty head or tail piece of an unaligned request
	"(*replica.diffDisk).readModifyWrite": {"+len($1) ==0"},
	// the fail-over loop: with an empty reader list (excluded by backendsAvailable) nothing is read
	fRepl + "ReadAt": {"+* -len($0.readers) >=0"},
}

func ruleOpForward(rule string) ruleFn {
	return func(c *Ctx) {
		c.Doc(rule, "every layer of the data path (Controller, replicator, rpc.Client, replica.Server, Replica, diffDisk: WriteAt / ReadAt / Sync / Unmap / Ping; replica.Server and Replica: Snapshot / Revert / the revision-counter setters) reports success only on paths on which the operation was handed to the layer below: there is no fast path that acknowledges a flush, a write or a discard without executing it (a 'nothing changed since the last sync' flag is not maintained on the degraded-success paths, and it by-passes the read-only gate and the sticky connection error)")
		n := 0
		for _, of := range opForward {
			fn := c.P.Fn(of.fn)
			if fn == nil {
				if strings.HasPrefix(of.fn, fCtl) || strings.HasPrefix(of.fn, fCli) {
					c.Anchor(rule, of.fn)
				}
				continue
			}
			n++
			sites := successReturns(fn)
			need := Need{Desc: "handed to the layer below (" + strings.TrimPrefix(of.callee, "invoke:") + ")"}
			if strings.HasPrefix(of.callee, "invoke:") {
				m := strings.TrimPrefix(of.callee, "invoke:")
				need.Instr = func(in ssa.Instruction) bool {
					cl, ok := in.(*ssa.Call)
					return ok && ((cl.Call.IsInvoke() && cl.Call.Method.Name() == m) || (calleeOf(&cl.Call) != nil && calleeOf(&cl.Call).Name() == m && calleeOf(&cl.Call) != fn))
				}
			} else {
				need.Calls = []string{of.callee}
				// ... or delegated to a sibling that is itself held to hand the operation to the same callee
				for _, sib := range opForward {
					if sib.callee == of.callee && sib.fn != of.fn {
						need.Calls = append(need.Calls, sib.fn)
					}
				}
				// ... or started in a goroutine of its own (the sync agent launches its child processes so)
				callee := of.callee
				need.Instr = func(in ssa.Instruction) bool {
					g, ok := in.(*ssa.Go)
					if !ok {
						return false
					}
					if mc, ok := g.Call.Value.(*ssa.MakeClosure); ok {
						if cl, ok := mc.Fn.(*ssa.Function); ok {
							return len(CallsTo(cl, callee)) > 0
						}
					}
					return callMatches(g, callee)
				}
			}
			if as := opForwardAtoms[of.fn]; len(as) > 0 {
				need.Atoms = as
			}
			c.Guard(rule, fn, sites, "report success", nil, need)
		}
		if n < 37 {
			c.Undecided(rule, "vacuity-floor", "", fmt.Sprintf("only %d data-path functions found", n))
		}
	}
}
