package main

import (
	"fmt"
	"go/token"
	"go/types"
	"strings"

	"golang.org/x/tools/go/ssa"
)

// ---------------------------------------------------------------------------
// Rules added after round 10 (refactoring pull requests with a slip).
// ---------------------------------------------------------------------------

// ruleSentinel: "the fan-out reached no majority" is reported by the replicator as the count -1
// (multi-writer) / by a replica as the revision count -1; whoever compares a call's first result
// with -1 must fail on that arm, whatever else holds.
func ruleSentinel(rule string) ruleFn {
	return func(c *Ctx) {
		c.Doc(rule, "controller: on the arm on which the count / counter returned by a call equals the sentinel -1 (no majority reached, counter unreadable) no return that may carry a nil error is reachable: a conjunction that makes the failure depend on something else (`n == -1 && errh != nil`) acknowledges an operation that reached fewer than a majority")
		n := 0
		for _, fn := range pkgFuncs(c.P, "controller") {
			if fn.Blocks == nil || errResultIndex(fn) < 0 {
				continue
			}
			for _, b := range fn.Blocks {
				if len(b.Instrs) == 0 {
					continue
				}
				iff, ok := b.Instrs[len(b.Instrs)-1].(*ssa.If)
				if !ok {
					continue
				}
				bo, ok := iff.Cond.(*ssa.BinOp)
				if !ok || (bo.Op != token.EQL && bo.Op != token.NEQ) {
					continue
				}
				isM1 := func(v ssa.Value) bool {
					k, ok := intConst(v)
					return ok && k == -1
				}
				var x ssa.Value
				if isM1(bo.Y) {
					x = bo.X
				} else if isM1(bo.X) {
					x = bo.Y
				} else {
					continue
				}
				// the compared value is (a merge of) first results of calls
				fromCall := false
				var walk func(v ssa.Value, d int) bool
				walk = func(v ssa.Value, d int) bool {
					switch y := stripConv(v).(type) {
					case *ssa.Extract:
						if _, isCall := y.Tuple.(*ssa.Call); isCall && y.Index == 0 {
							fromCall = true
							return true
						}
					case *ssa.Phi:
						if d < 3 {
							for _, e := range y.Edges {
								walk(e, d+1)
							}
						}
					}
					return false
				}
				walk(x, 0)
				if !fromCall {
					continue
				}
				arm := 0
				if bo.Op == token.NEQ {
					arm = 1
				}
				blk := b
				from := func(bb *ssa.BasicBlock, k int) bool { return bb == blk && k == arm }
				succ := map[ssa.Instruction]bool{}
				for _, r := range successReturns(fn) {
					succ[r] = true
				}
				ws := afterEdge(fn, from, nil, nil, func(in ssa.Instruction) bool { return succ[in] })
				n++
				key := fmt.Sprintf("%s | sentinel -1 of %s fails", FnName(fn), NewRenderer(fn).V(x))
				if len(ws) == 0 {
					c.OK(rule, key, c.P.InstrPos(iff), "every return behind the -1 arm carries an error", true)
				} else {
					c.Bad(rule, key, c.P.InstrPos(iff), "a return that may carry a nil error is reachable on the arm on which the call reported -1 (no majority / unreadable counter)", c.witness(ws[0]))
				}
			}
		}
		if n < 3 {
			c.Undecided(rule, "vacuity-floor", "", fmt.Sprintf("only %d comparisons with the sentinel -1 found (expected >= 3)", n))
		}
	}
}

// ruleLoopCapture: the module is `go 1.19`: a range / for variable is ONE variable for the whole
// loop.  A goroutine started in the loop that refers to it (instead of receiving its value as an
// argument) reads whatever the loop has moved on to: a fan-out then records a replica's failure
// under another replica's address.
func ruleLoopCapture(rule string) ruleFn {
	return func(c *Ctx) {
		c.Doc(rule, "no goroutine started inside a loop captures a variable that the loop assigns on every iteration (the range key / value, or a variable stored from them at loop level) by reference: under the module's language version (go 1.19) the variable is shared by all iterations, so the goroutine attributes its result to the element the loop has moved on to")
		n := 0
		for _, fn := range prodFns(c.P) {
			for _, b := range fn.Blocks {
				for _, in := range b.Instrs {
					g, ok := in.(*ssa.Go)
					if !ok {
						continue
					}
					mc, ok := g.Call.Value.(*ssa.MakeClosure)
					if !ok {
						continue
					}
					n++
					bad := ""
					for i, bnd := range mc.Bindings {
						al, ok := bnd.(*ssa.Alloc)
						if !ok || al.Referrers() == nil {
							continue
						}
						// the cell receives an element of a range iteration, in a block from which
						// the `go` statement is reachable again (same loop)
						for _, ref := range *al.Referrers() {
							st, ok := ref.(*ssa.Store)
							if !ok || st.Addr != ssa.Value(al) {
								continue
							}
							ex, ok := stripConv(st.Val).(*ssa.Extract)
							if !ok {
								continue
							}
							if _, isNext := ex.Tuple.(*ssa.Next); !isNext {
								continue
							}
							if st.Block() == b || st.Block().Dominates(b) {
								if reachesBlock(b, st.Block()) {
									name := fmt.Sprintf("#%d", i)
									if fnc, ok := mc.Fn.(*ssa.Function); ok && i < len(fnc.FreeVars) {
										name = fnc.FreeVars[i].Name()
									}
									bad = name
								}
							}
						}
					}
					key := fmt.Sprintf("%s | goroutine at %s", FnName(fn), c.P.InstrPos(g))
					if bad == "" {
						c.OK(rule, FnName(fn)+" | goroutines started in loops receive the element as an argument", c.P.InstrPos(g), "no range variable captured by reference", true)
					} else {
						c.Bad(rule, key, c.P.InstrPos(g), "the goroutine captures the range variable "+bad+" by reference (go 1.19: one variable for all iterations): it may read the next element's value", nil)
					}
				}
			}
		}
		if n < 10 {
			c.Undecided(rule, "vacuity-floor", "", fmt.Sprintf("only %d goroutine literals found (expected >= 10)", n))
		}
	}
}

// reachesBlock: to is reachable from from along successor edges (from != to counts a cycle back).
func reachesBlock(from, to *ssa.BasicBlock) bool {
	seen := map[*ssa.BasicBlock]bool{}
	var stack []*ssa.BasicBlock
	stack = append(stack, from.Succs...)
	for len(stack) > 0 {
		x := stack[len(stack)-1]
		stack = stack[:len(stack)-1]
		if x == to {
			return true
		}
		if seen[x] {
			continue
		}
		seen[x] = true
		stack = append(stack, x.Succs...)
	}
	return false
}

// ruleDeleteOrder: Replica.Delete unlinks the chain files first and the control files
// (volume.meta, revision.counter) last: a delete that fails half-way leaves a directory that still
// carries its revision counter - with the counter gone first, the next open re-creates it with 1
// beside data that was written under a higher count.
func ruleDeleteOrder(rule string) ruleFn {
	return func(c *Ctx) {
		c.Doc(rule, "Replica.Delete: no chain file is unlinked (rmDisk) after the revision counter file or volume.meta has been removed: a delete that fails or dies in between must not leave data files beside a missing (hence re-initialised) revision counter")
		fn := c.Anchor(rule, fRep+"Delete")
		if fn == nil {
			return
		}
		R := NewRenderer(fn)
		var ctl []ssa.Instruction
		for _, in := range CallsTo(fn, "os.Remove") {
			a := R.V(in.(*ssa.Call).Call.Args[0])
			if a == fRep+`diskPath($0,"revision.counter")` || a == fRep+`diskPath($0,"volume.meta")` {
				ctl = append(ctl, in)
			}
		}
		rm := CallsTo(fn, fRep+"rmDisk")
		if len(ctl) < 2 || len(rm) == 0 {
			c.Bad(rule, FnName(fn)+" | unlinks disks, then volume.meta and revision.counter", c.P.Pos(fn.Pos()), fmt.Sprintf("found %d removals of control files and %d rmDisk calls in Delete", len(ctl), len(rm)), nil)
			return
		}
		isRm := map[ssa.Instruction]bool{}
		for _, r := range rm {
			isRm[r] = true
		}
		for i, s := range ctl {
			key := fmt.Sprintf("%s | control file removal[%d] is not followed by a disk removal", FnName(fn), i)
			ws := reachableFrom(s, func(in ssa.Instruction) bool { return isRm[in] })
			if len(ws) == 0 {
				c.OK(rule, key, c.P.InstrPos(s), "no rmDisk reachable after "+R.V(s.(*ssa.Call).Call.Args[0]), true)
			} else {
				c.Bad(rule, key, c.P.InstrPos(s), "a chain file is unlinked after this control file: a failure in between leaves data without its revision counter / metadata", c.witness(ws[0]))
			}
		}
	}
}

var mustRegisterMemo = map[string]bool{}

// mustRegisterChild: on every path through f to a return, the idx-th parameter is either the empty
// string or has been entered as a key (value true) into a children set - directly, or by a callee
// that does so with the parameter handed on.
func mustRegisterChild(f *ssa.Function, idx int, depth int) bool {
	if f == nil || f.Blocks == nil || idx >= len(f.Params) || depth > 3 {
		return false
	}
	mk := fmt.Sprintf("%p/%d", f, idx)
	if v, ok := mustRegisterMemo[mk]; ok {
		return v
	}
	mustRegisterMemo[mk] = false
	R := NewRenderer(f)
	par := f.Params[idx]
	gen := func(in ssa.Instruction) bool {
		switch x := in.(type) {
		case *ssa.MapUpdate:
			if stripConv(x.Key) == ssa.Value(par) {
				if k, ok := x.Value.(*ssa.Const); ok && constString(k) == "true" {
					return true
				}
			}
		case *ssa.Call:
			if g := x.Call.StaticCallee(); g != nil && g.Blocks != nil {
				for j, a := range x.Call.Args {
					if stripConv(a) == ssa.Value(par) && mustRegisterChild(g, j, depth+1) {
						return true
					}
				}
			}
		}
		return false
	}
	empty := atomEdges(f, R, eqAtom(`""`, fmt.Sprintf("$%d", idx)))
	q := Query{Fn: f, Gen: gen, GenEdge: empty, IsSite: func(in ssa.Instruction) bool { _, ok := in.(*ssa.Return); return ok }}
	ok := len(q.Run()) == 0
	mustRegisterMemo[mk] = ok
	return ok
}

// ruleChildRelink: removing a disk from the middle of the chain hands its child over to its parent
// in the children index as well: a later removal of that parent decides by this index whether it
// is a leaf (files simply unlinked) or has to be folded.
func ruleChildRelink(rule string) ruleFn {
	return func(c *Ctx) {
		c.Doc(rule, "removeDiskNode: the child of the removed disk is entered into the children set of the removed disk's parent on every path of the function it is handed to (updateChildDisk -> addChildDisk: children[child] = true), whatever the set looked like after the removed disk left it; an early exit for 'no children left' in front of the registration makes the parent look like a leaf, and its removal then unlinks a file the chain still needs")
		fn := c.Anchor(rule, fRep+"removeDiskNode")
		if fn == nil {
			return
		}
		n := 0
		okc := 0
		RF := NewRenderer(fn)
		eachInstr(fn, func(in ssa.Instruction) {
			cl, ok := in.(*ssa.Call)
			if !ok {
				return
			}
			g := cl.Call.StaticCallee()
			if g == nil || g.Blocks == nil || !isJivaFn(g) {
				return
			}
			// calls that hand on a non-constant disk name and touch the children index
			touches := false
			for _, h := range append([]*ssa.Function{g}, calleesOf(g, 2)...) {
				eachInstr(h, func(x ssa.Instruction) {
					if fa, ok := x.(*ssa.FieldAddr); ok && fieldNameOf(fa) == "diskChildrenMap" {
						touches = true
					}
				})
			}
			if !touches {
				return
			}
			for j, a := range cl.Call.Args {
				if j == 0 {
					continue
				}
				if _, isConst := a.(*ssa.Const); isConst {
					continue
				}
				if a.Type().String() != "string" {
					continue
				}
				// the removed disk's own name is taken out, not handed over
				if stripConv(a) == ssa.Value(fn.Params[1]) {
					continue
				}
				// the child: taken from the children set of the removed disk
				if !strings.Contains(RF.V(a), "diskChildrenMap[$1]") {
					continue
				}
				n++
				key := fmt.Sprintf("%s | child handed to %s is registered on every path", FnName(fn), FnName(g))
				if mustRegisterChild(g, j, 0) {
					okc++
					c.OK(rule, key, c.P.InstrPos(in), "children[child] = true on every path (or child is empty)", true)
				} else {
					c.Bad(rule, key, c.P.InstrPos(in), "some path through "+FnName(g)+" returns without entering the child into the parent's children set", nil)
				}
			}
		})
		if n == 0 {
			c.Bad(rule, FnName(fn)+" | child handed over", c.P.Pos(fn.Pos()), "no call that hands the removed disk's child to the children index found", nil)
		}
	}
}

// calleesOf: static jiva callees of f up to the given depth.
func calleesOf(f *ssa.Function, depth int) []*ssa.Function {
	var out []*ssa.Function
	seen := map[*ssa.Function]bool{f: true}
	var walk func(g *ssa.Function, d int)
	walk = func(g *ssa.Function, d int) {
		if d == 0 {
			return
		}
		eachInstr(g, func(in ssa.Instruction) {
			if cl, ok := in.(ssa.CallInstruction); ok {
				if h := cl.Common().StaticCallee(); h != nil && h.Blocks != nil && isJivaFn(h) && !seen[h] {
					seen[h] = true
					out = append(out, h)
					walk(h, d-1)
				}
			}
		})
	}
	walk(f, depth)
	return out
}

// fieldNameOf: the (baseline) name of the struct field a FieldAddr selects.
func fieldNameOf(fa *ssa.FieldAddr) string {
	if pt, ok := fa.X.Type().Underlying().(*types.Pointer); ok {
		if st, ok := pt.Elem().Underlying().(*types.Struct); ok {
			return fldName(st.Field(fa.Field))
		}
	}
	return ""
}

// ruleSetErrorNonNil: SetError(nil) is not "no error": the dispatch loop treats the posted message
// as the end of the client, but the sticky error stays nil, pending and later requests answer
// success with nothing transferred.  Every caller hands SetError an error that is non-nil there.
func ruleSetErrorNonNil(rule string) ruleFn {
	return func(c *Ctx) {
		c.Doc(rule, "every call of rpc.Client.SetError passes an error that is non-nil at the call: a sentinel (ErrRWTimeout / ErrPingTimeout, or a merge of them), a constructed error, or a value behind its own non-nil test; a value looked up in a table (nil for a missing row) turns a deadline that ran out into a success")
		n := 0
		for _, fn := range prodFns(c.P) {
			for _, in := range AnyCallsTo(fn, fCli+"SetError", "invoke:SetError") {
				ci, ok := in.(ssa.CallInstruction)
				if !ok || len(ci.Common().Args) < 1 {
					continue
				}
				// (through an interface in front of the client the receiver is not an argument)
				v := ci.Common().Args[len(ci.Common().Args)-1]
				if v.Type().String() != "error" {
					continue
				}
				n++
				key := fmt.Sprintf("%s | SetError is handed a non-nil error", FnName(fn))
				if nonNilAt(v, in.Block()) || nonNilMerge(v, in.Block(), 0) {
					c.OK(rule, key, c.P.InstrPos(in), NewRenderer(fn).V(v), false)
				} else {
					c.Bad(rule, key, c.P.InstrPos(in), "the error handed to SetError ("+NewRenderer(fn).V(v)+") is not known to be non-nil here", nil)
				}
			}
		}
		if n < 4 {
			c.Undecided(rule, "vacuity-floor", "", fmt.Sprintf("only %d calls of SetError found (expected >= 4)", n))
		}
	}
}

// nonNilMerge: a merge all of whose arms are non-nil (sentinels, constructed errors, values
// tested in the arm's block).
func nonNilMerge(v ssa.Value, b *ssa.BasicBlock, d int) bool {
	p, ok := v.(*ssa.Phi)
	if !ok || d > 3 {
		return false
	}
	for i, e := range p.Edges {
		if i >= len(p.Block().Preds) {
			return false
		}
		pb := p.Block().Preds[i]
		if !(nonNilAt(e, pb) || nonNilMerge(e, pb, d+1)) {
			return false
		}
	}
	return len(p.Edges) > 0
}

// ruleMapSize: the block map of a replica that is opened covers the size recorded in its
// metadata (r.info.Size after readMetadata), not the size the caller happened to pass: a volume
// on a backing image is re-opened with the image's size, a grown one with the size before the grow.
func ruleMapSize(rule string) ruleFn {
	return func(c *Ctx) {
		c.Doc(rule, "replica.construct: the block map (volume.location) is allocated from r.info.Size - the persisted size once the metadata has been read - and never from the size parameter alone; a map shorter than the persisted size makes I/O on the grown range index out of range")
		fn := c.Anchor(rule, "replica.construct")
		if fn == nil {
			return
		}
		R := NewRenderer(fn)
		n := 0
		eachInstr(fn, func(in ssa.Instruction) {
			st, ok := in.(*ssa.Store)
			if !ok || !strings.HasSuffix(R.V(st.Addr), ".volume.location") {
				return
			}
			n++
			v := R.V(st.Val)
			key := FnName(fn) + " | block map sized from the recorded size"
			if strings.HasPrefix(v, "makeslice(") && strings.Contains(v, ".info.Size") && !strings.Contains(v, "$2") {
				c.OK(rule, key, c.P.InstrPos(in), v, false)
			} else {
				c.Bad(rule, key, c.P.InstrPos(in), "the block map is allocated as "+v+": not from r.info.Size", nil)
			}
		})
		if n == 0 {
			c.Bad(rule, FnName(fn)+" | block map sized from the recorded size", c.P.Pos(fn.Pos()), "no allocation of volume.location found in construct", nil)
		}
	}
}

// ruleMapBound: what is inside the block map is decided by the block map's own length: a cached
// or derived size goes stale when the map is grown (Resize appends to it), and a sector of the
// grown range is then answered as "outside: read the head / nothing there".
func ruleMapBound(rule string) ruleFn {
	return func(c *Ctx) {
		c.Doc(rule, "diffDisk.lookup: every access of location[sector] stands behind the comparison of that sector with len(d.location) itself (not with a size kept elsewhere); UsedGenerator.findExtents bounds the scan by len(location) * sectorSize")
		fn := c.Anchor(rule, "(*replica.diffDisk).lookup")
		if fn == nil {
			return
		}
		R := NewRenderer(fn)
		var sites []ssa.Instruction
		eachInstr(fn, func(in ssa.Instruction) {
			if ia, ok := in.(*ssa.IndexAddr); ok && strings.HasPrefix(R.V(ia), "&$0.location[") {
				sites = append(sites, in)
			}
		})
		if len(sites) == 0 {
			c.Bad(rule, FnName(fn)+" | block map accessed", c.P.Pos(fn.Pos()), "no access of d.location found in lookup", nil)
			return
		}
		c.Guard(rule, fn, sites, "location[sector]", nil, atom("sector < len(d.location)", "-$1 +len($0.location) -1 >=0"))
		if g := c.Anchor(rule, "(*replica.UsedGenerator).findExtents"); g != nil {
			GR := NewRenderer(g)
			ok := false
			eachInstr(g, func(in ssa.Instruction) {
				if cl, isCall := in.(*ssa.Call); isCall {
					if b, isB := cl.Call.Value.(*ssa.Builtin); isB && b.Name() == "len" && strings.HasSuffix(GR.V(cl.Call.Args[0]), ".d.location") {
						ok = true
					}
				}
			})
			key := FnName(g) + " | scan bounded by the block map's length"
			if ok {
				c.OK(rule, key, c.P.Pos(g.Pos()), "len(u.d.location)", false)
			} else {
				c.Bad(rule, key, c.P.Pos(g.Pos()), "the extent scan is no longer bounded by len(d.location)", nil)
			}
		}
	}
}
