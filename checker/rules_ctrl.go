package main

import (
	"fmt"
	"go/token"
	"go/types"
	"regexp"
	"strings"

	"golang.org/x/tools/go/ssa"
)

// ---------------------------------------------------------------------------
// Helpers shared by controller-side rules
// ---------------------------------------------------------------------------

const (
	fCtl   = "(*controller.Controller)."
	fRepl  = "(*controller.replicator)."
	fMW    = "(*controller.MultiWriterAt)."
	rwCntQ = `count{+"RW" -$0.quorumReplicas[*].Mode ==0}`
	rwCntR = `count{+"RW" -$0.replicas[*].Mode ==0}`
	rwCnt  = "(+" + rwCntQ + " +" + rwCntR + ")"
	rwCntD = `count{+"RW" -$0.replicas[*].Mode ==0}`
)

// okEach: one Need per call instance of name in fn ("success edge of the k-th call").
func okEach(fn *ssa.Function, name string) []Need {
	var out []Need
	for i, call := range CallsTo(fn, name) {
		call := call
		out = append(out, Need{
			Desc: fmt.Sprintf("success of %s[%d]", name, i),
			Edge: successEdgesOfCall(fn, call),
		})
	}
	return out
}

// paramIndexByType finds the first parameter whose type string matches.
func paramIndexByType(fn *ssa.Function, typ string) int {
	for i, p := range fn.Params {
		if types.TypeString(p.Type(), nil) == typ {
			return i
		}
	}
	return -1
}

// afterEdge: on every path that crosses an edge satisfying `from`, each site reached
// afterwards must have passed gen (instruction or edge) in between.
func afterEdge(fn *ssa.Function, from func(*ssa.BasicBlock, int) bool, gen func(ssa.Instruction) bool, genEdge func(*ssa.BasicBlock, int) bool, isSite func(ssa.Instruction) bool) []Witness {
	q := Query{Fn: fn, StartHeld: true, KillEdge: from, Gen: gen, GenEdge: genEdge, IsSite: isSite}
	return q.Run()
}

// reachableFrom: instructions reachable (forward) from the given instruction.
func reachableFrom(start ssa.Instruction, isSite func(ssa.Instruction) bool) []Witness {
	q := Query{Fn: start.Parent(), Start: start, IsSite: isSite}
	return q.Run()
}

func pkgFuncs(P *Prog, pkgShort string) []*ssa.Function {
	var out []*ssa.Function
	for _, f := range P.AllFns {
		pk := f.Pkg
		if pk == nil && f.Parent() != nil {
			pk = f.Parent().Pkg
		}
		if pk != nil && short(pk.Pkg.Path()) == pkgShort {
			out = append(out, f)
		}
	}
	return out
}

func callRender(R *Renderer, in ssa.Instruction) string {
	if c, ok := in.(*ssa.Call); ok {
		return R.V(c)
	}
	return ""
}

// ---------------------------------------------------------------------------
// C01-RANGE: controller range check before any replica is touched
// ---------------------------------------------------------------------------

func ruleC01Range(c *Ctx) {
	const rule = "C01-RANGE"
	c.Doc(rule, "every call of (*replicator).WriteAt/ReadAt is cut off from its caller's entry by the facts off>=0 and c.size-off-len(b)>=0 (exact linear normal form; weaker or stricter bounds fail)")
	for _, fn := range pkgFuncs(c.P, "controller") {
		sites := CallsTo(fn, fRepl+"WriteAt", fRepl+"ReadAt")
		if len(sites) == 0 {
			continue
		}
		bi, oi := paramIndexByType(fn, "[]byte"), paramIndexByType(fn, "int64")
		if bi < 0 || oi < 0 || fn.Signature.Recv() == nil {
			c.Undecided(rule, FnName(fn)+" | backend I/O call", c.P.InstrPos(sites[0]), "caller of replicator.WriteAt/ReadAt without (b []byte, off int64) parameters: cannot state the range fact")
			continue
		}
		c.Guard(rule, fn, sites, "call replicator I/O", lockOrUnlock,
			Need{Desc: "off >= 0", Atoms: []string{fmt.Sprintf("+$%d >=0", oi)}, Kill: func(ssa.Instruction) bool { return false }},
			atom("off+len(b) <= c.size, read in the lock region of the call", fmt.Sprintf("+$0.size -$%d -len($%d) >=0", oi, bi)),
			needWLock("controller lock taken"))
	}
	c.Floor(rule, 4)
}

// ---------------------------------------------------------------------------
// C02-*: majority acknowledgement
// ---------------------------------------------------------------------------

func ruleC02Majority(c *Ctx) {
	const rule = "C02-MAJORITY"
	c.Doc(rule, "in MultiWriterAt.WriteAt/Sync/Unmap a majority-encoded return (len(p) resp. 0) taken with a recorded error is guarded by the exact fact W-E-W/2-1>=0 (E = count of non-nil entries of the per-writer error slice); all other error returns carry the no-majority encoding (0 resp. -1)")
	wr := `len($0.writers)`
	ecount := `count{+makeslice(len($0.writers))[*] -nil !=0}`
	maj := fmt.Sprintf("-%s -div(+%s,+2) +%s -1 >=0", ecount, wr, wr)
	qcount := `count{+makeslice(len($0.updaters))[*] -nil !=0}`
	maj2 := fmt.Sprintf("-%s -%s -div(+len($0.updaters) +%s,+2) +len($0.updaters) +%s -1 >=0", qcount, ecount, wr, wr)
	for _, m := range []string{"WriteAt", "Sync", "Unmap"} {
		fn := c.Anchor(rule, fMW+m)
		if fn == nil {
			continue
		}
		R := NewRenderer(fn)
		okEnc, failEnc := "0", "-1"
		if m == "WriteAt" {
			okEnc, failEnc = "len($1)", "0"
		}
		var majSites []ssa.Instruction
		for _, r := range Returns(fn) {
			if len(r.Results) != 2 {
				continue
			}
			n := R.V(r.Results[0])
			errNil := isNilConst(strip(r.Results[1]))
			key := fmt.Sprintf("%s | return %s,%s", FnName(fn), n, map[bool]string{true: "nil", false: "err"}[errNil])
			switch {
			case errNil && n == okEnc:
				// clean success: handled by C02-RECORD
			case !errNil && n == okEnc:
				majSites = append(majSites, r)
			case !errNil && n == failEnc:
				c.OK(rule, key, c.P.InstrPos(r), "no-majority encoding returned with the error", false)
			default:
				c.Bad(rule, key, c.P.InstrPos(r), fmt.Sprintf("return encodes (%s, err=%v): not one of the agreed encodings (%s=majority, %s=no majority)", n, !errNil, okEnc, failEnc), nil)
			}
		}
		needs := []Need{atom("strict majority of writers succeeded", maj)}
		if m == "WriteAt" {
			needs = append(needs, atom("strict majority of writers+updaters succeeded", maj2))
		}
		if len(majSites) == 0 {
			c.Undecided(rule, FnName(fn)+" | majority return", "", "no majority-encoded error return found")
		}
		c.Guard(rule, fn, majSites, "return majority-encoded", nil, needs...)
	}
	c.Floor(rule, 7)
}

func ruleC02WaitAll(c *Ctx) {
	const rule = "C02-WAITALL"
	c.Doc(rule, "MultiWriterAt fan-out: every return is cut off by wg.Wait(); every go statement is preceded by wg.Add in its block; every goroutine body calls wg.Done on all paths; the goroutine forwards the caller's buffer/offset unchanged; on the err!=nil edge the error is recorded in the per-writer slot and the error flag set; the clean return is cut off by the flag being false")
	for _, m := range []string{"WriteAt", "Sync", "Unmap"} {
		fn := c.Anchor(rule, fMW+m)
		if fn == nil {
			continue
		}
		var rets []ssa.Instruction
		for _, r := range Returns(fn) {
			rets = append(rets, r)
		}
		c.Guard(rule, fn, rets, "return", nil, called("(*sync.WaitGroup).Wait"))
		// go statements
		var flags []string
		eachInstr(fn, func(in ssa.Instruction) {
			g, ok := in.(*ssa.Go)
			if !ok {
				return
			}
			key := fmt.Sprintf("%s | go %s", FnName(fn), CalleeName(g))
			added := false
			for _, x := range g.Block().Instrs {
				if x == in {
					break
				}
				if callMatches(x, "(*sync.WaitGroup).Add") {
					added = true
				}
			}
			if added {
				c.OK(rule, key+" | wg.Add before go", c.P.InstrPos(in), "wg.Add precedes the go statement in its block", false)
			} else {
				c.Bad(rule, key+" | wg.Add before go", c.P.InstrPos(in), "go statement not preceded by wg.Add in its block", nil)
			}
			mc, ok := g.Call.Value.(*ssa.MakeClosure)
			if !ok {
				c.Undecided(rule, key+" | closure", c.P.InstrPos(in), "goroutine is not a function literal")
				return
			}
			cl := mc.Fn.(*ssa.Function)
			var crets []ssa.Instruction
			for _, r := range Returns(cl) {
				crets = append(crets, r)
			}
			c.Guard(rule, cl, crets, "goroutine exit", nil, called("(*sync.WaitGroup).Done"))
			// forwards the operation and records errors
			CR := NewRenderer(cl)
			ops := CallsTo(cl, "invoke:"+m)
			if len(ops) != 1 {
				c.Bad(rule, key+" | forwards op", c.P.InstrPos(in), fmt.Sprintf("goroutine must invoke %s exactly once on its writer (found %d)", m, len(ops)), nil)
				return
			}
			got := CR.V(ops[0].(*ssa.Call))
			isUpdater := strings.Contains(R2(fn, g), "$0.updaters")
			want := map[string]string{"WriteAt": "invoke.WriteAt($1,^$1,^$2)", "Sync": "invoke.Sync($1)", "Unmap": "invoke.Unmap($1,^$1,^$2)"}[m]
			if isUpdater && m == "WriteAt" {
				want = "invoke.WriteAt($1,nil,0)"
			}
			if got == want {
				c.OK(rule, key+" | forwards op", c.P.InstrPos(ops[0]), "goroutine forwards "+want, false)
			} else {
				c.Bad(rule, key+" | forwards op", c.P.InstrPos(ops[0]), "goroutine calls "+got+", expected "+want, nil)
			}
			// error recording after the err != nil edge
			ev := errOfCall(ops[0])
			_, nonNil := nilTestEdges(cl, ev)
			recorded := func(in ssa.Instruction) bool {
				st, ok := in.(*ssa.Store)
				if !ok {
					return false
				}
				ia, ok := st.Addr.(*ssa.IndexAddr)
				if !ok {
					return false
				}
				return strip(st.Val) == strip(ev) && ia.Index == ssa.Value(cl.Params[0])
			}
			ws := afterEdge(cl, nonNil, recorded, nil, func(in ssa.Instruction) bool { _, ok := in.(*ssa.Return); return ok })
			if len(ws) == 0 {
				c.OK(rule, key+" | records error in slot[index]", c.P.InstrPos(ops[0]), "on err!=nil the error is stored at errs[index] (index = goroutine parameter)", true)
			} else {
				c.Bad(rule, key+" | records error in slot[index]", c.P.InstrPos(ops[0]), "a path from the err!=nil edge to the goroutine's exit does not store the error at errs[index]", c.witness(ws[0]))
			}
			// ... and the only way past the recording is the call's own error being nil: an error that
			// is filtered, translated or reset before the test is a failed replica that is never named
			strictNil := func(b *ssa.BasicBlock, k int) bool {
				if len(b.Instrs) == 0 {
					return false
				}
				iff, ok := b.Instrs[len(b.Instrs)-1].(*ssa.If)
				if !ok {
					return false
				}
				bo, ok := iff.Cond.(*ssa.BinOp)
				if !ok || (bo.Op != token.EQL && bo.Op != token.NEQ) {
					return false
				}
				var x ssa.Value
				if isNilConst(bo.Y) {
					x = bo.X
				} else if isNilConst(bo.X) {
					x = bo.Y
				}
				if x == nil || strip(x) != strip(ev) {
					return false
				}
				return (bo.Op == token.EQL) == (k == 0)
			}
			ws = Query{Fn: cl, Start: ops[0], IsSite: func(in ssa.Instruction) bool { _, ok := in.(*ssa.Return); return ok }, Gen: recorded, GenEdge: strictNil}.Run()
			if len(ws) == 0 {
				c.OK(rule, key+" | every error of the call is recorded", c.P.InstrPos(ops[0]), "the goroutine ends without recording only on the edge err == nil of the call's own error", true)
			} else {
				c.Bad(rule, key+" | every error of the call is recorded", c.P.InstrPos(ops[0]), "the goroutine can end without recording although the call's error was not found nil (the error is filtered or reset before it is tested): the replica that failed is never named", c.witness(ws[0]))
			}
			// flag
			flagName := ""
			flagSet := func(in ssa.Instruction) bool {
				st, ok := in.(*ssa.Store)
				if !ok {
					return false
				}
				fv, ok := st.Addr.(*ssa.FreeVar)
				if !ok {
					return false
				}
				if cst, ok := st.Val.(*ssa.Const); ok && cst.Value != nil && cst.Value.String() == "true" {
					flagName = strings.TrimPrefix(freeVarName(cl, fv), "^")
					return true
				}
				return false
			}
			ws = afterEdge(cl, nonNil, flagSet, nil, func(in ssa.Instruction) bool { _, ok := in.(*ssa.Return); return ok })
			if len(ws) == 0 && flagName != "" {
				c.OK(rule, key+" | sets error flag", c.P.InstrPos(ops[0]), "on err!=nil the shared flag "+flagName+" is set", true)
				flags = append(flags, flagName)
			} else {
				c.Bad(rule, key+" | sets error flag", c.P.InstrPos(ops[0]), "a path from the err!=nil edge does not set the shared error flag", nil)
			}
		})
		// clean return guarded by !flag for each discovered flag
		var clean []ssa.Instruction
		for _, r := range Returns(fn) {
			if len(r.Results) == 2 && isNilConst(strip(r.Results[1])) {
				clean = append(clean, r)
			}
		}
		for _, fl := range flags {
			c.Guard(rule, fn, clean, "return nil error", nil, atom("flag "+fl+" is false", "!"+fl))
		}
	}
	c.Floor(rule, 20)
}

// R2 renders, in the context of fn, the arguments of a go statement (to tell writers from updaters).
func R2(fn *ssa.Function, g *ssa.Go) string {
	R := NewRenderer(fn)
	var parts []string
	for _, a := range g.Call.Args {
		parts = append(parts, R.V(a))
	}
	return strings.Join(parts, ",")
}

// ioMethods: the four controller I/O entry points with their backend call.
var ioMethods = []struct{ name, backend string }{
	{"WriteAt", fRepl + "WriteAt"}, {"Sync", fRepl + "Sync"}, {"Unmap", fRepl + "Unmap"}, {"ReadAt", fRepl + "ReadAt"},
}

func ruleC02Decode(c *Ctx) {
	const rule = "C02-DECODE"
	c.Doc(rule, "Controller.WriteAt/Sync/Unmap: on the error branch of the backend call a nil-error (resp. handler-error) return requires the majority encoding produced by MultiWriterAt: n==len(b) && handleErrorNoLock()==nil for WriteAt, n!=-1 for Sync/Unmap")
	for _, m := range ioMethods[:3] {
		fn := c.Anchor(rule, fCtl+m.name)
		if fn == nil {
			continue
		}
		calls := CallsTo(fn, m.backend)
		if len(calls) != 1 {
			c.Undecided(rule, FnName(fn)+" | backend call", "", fmt.Sprintf("expected exactly one call of %s, found %d", m.backend, len(calls)))
			continue
		}
		R := NewRenderer(fn)
		call := calls[0]
		cs := R.V(call.(*ssa.Call))
		ev := errOfCall(call)
		_, nonNil := nilTestEdges(fn, ev)
		// returns reachable after the err != nil edge whose error is not provably non-nil
		var sites []ssa.Instruction
		q := Query{Fn: fn, GenEdge: nonNil, IsSite: func(ssa.Instruction) bool { return false }}
		_ = q
		for _, r := range Returns(fn) {
			if len(r.Results) != 2 {
				continue
			}
			// on error branch?
			w := Query{Fn: fn, StartHeld: true, KillEdge: nonNil, IsSite: func(in ssa.Instruction) bool { return in == ssa.Instruction(r) }}.Run()
			if len(w) == 0 {
				continue // not reachable through the error edge
			}
			if provablyNonNilError(r.Results[1]) {
				continue
			}
			if sameValue(r.Results[1], ev) {
				continue // `return n, err` on the success branch (err known nil) or propagating err
			}
			sites = append(sites, r)
		}
		if len(sites) == 0 {
			c.Undecided(rule, FnName(fn)+" | error-branch returns", c.P.InstrPos(call), "no possibly-successful return on the error branch found")
			continue
		}
		// only paths through the error edge matter: paths avoiding it are not sites' concern
		errBranchOnly := func(nd Need) Need { return nd }
		if m.name == "WriteAt" {
			bi := paramIndexByType(fn, "[]byte")
			for _, s := range sites {
				r := s.(*ssa.Return)
				// the majority verdict travels in the byte count: what is returned is the backend's n
				// (or len(b) where the two were found equal)
				if got := R.V(r.Results[0]); got != cs+"#0" {
					c.Guard(rule, fn, []ssa.Instruction{s}, "count returned after backend error is the backend's", nil,
						atom("n == len(b)", fmt.Sprintf("+%s#0 -len($%d) ==0", cs, bi)))
				} else {
					c.OK(rule, FnName(fn)+" | count returned after backend error is the backend's", c.P.InstrPos(s), "n", false)
				}
				if isNilConst(strip(r.Results[1])) {
					// the handler's verdict decides; the extra `n == len(b)` test of the confirmed tree is
					// redundant (with errh == nil both of its branches return (n, nil)) and is not required
					_ = bi
					c.Guard(rule, fn, []ssa.Instruction{s}, "return n,nil after backend error", nil,
						errBranchOnly(atom("handleErrorNoLock(err) == nil", fmt.Sprintf("+%shandleErrorNoLock($0,%s#1) -nil ==0", fCtl, cs))))
				} else {
					// `return n, errh`: fine, errh decides; n is what the backend said
					c.OK(rule, FnName(fn)+" | return n,errh after backend error", c.P.InstrPos(s), "handler's error is returned", false)
				}
			}
		} else {
			c.Guard(rule, fn, sites, "return 0,errh after backend error", nil,
				atom("n != -1", fmt.Sprintf("+%s#0 +1 !=0", cs)))
		}
	}
	c.Floor(rule, 3)
}

func ruleDetach(rule string) ruleFn {
	return func(c *Ctx) {
		c.Doc(rule, "the four Controller I/O methods: every return reachable from the err!=nil edge of the backend call passes handleErrorNoLock(err) and the loop `for address := range bErr.Errors { RemoveReplicaNoLock(address) }` (or the edges on which there is nothing to detach), with no release of the controller lock in between")
		for _, m := range ioMethods {
			fn := c.Anchor(rule, fCtl+m.name)
			if fn == nil {
				continue
			}
			calls := CallsTo(fn, m.backend)
			if len(calls) != 1 {
				c.Undecided(rule, FnName(fn)+" | backend call", "", fmt.Sprintf("expected exactly one call of %s, found %d", m.backend, len(calls)))
				continue
			}
			R := NewRenderer(fn)
			call := calls[0]
			cs := R.V(call.(*ssa.Call))
			ev := errOfCall(call)
			_, nonNil := nilTestEdges(fn, ev)
			isRet := func(in ssa.Instruction) bool { _, ok := in.(*ssa.Return); return ok }
			// (1) handleErrorNoLock(err)
			wantH := fCtl + "handleErrorNoLock($0," + cs + "#1)"
			ws := afterEdge(fn, nonNil, func(in ssa.Instruction) bool { return callRender(R, in) == wantH }, nil, isRet)
			key := FnName(fn) + " | err branch | handleErrorNoLock(err)"
			if len(ws) == 0 {
				c.OK(rule, key, c.P.InstrPos(call), "every return after a backend error passes "+wantH, true)
			} else {
				c.Bad(rule, key, c.P.InstrPos(call), "a return is reachable from the backend-error edge without calling handleErrorNoLock on that error (failed replicas not marked ERR)", c.witness(ws[0]))
			}
			// (2) removal loop (in the method itself, or in a helper that receives the error)
			key = FnName(fn) + " | err branch | RemoveReplicaNoLock loop"
			errV := cs + "#1"
			rm, loopOK, why := detachLoop(fn, R, "$0", errV)
			if len(rm) > 0 {
				done := atomEdges(fn, R, detachDoneAtoms(errV)...)
				ws = afterEdge(fn, nonNil, nil, done, isRet)
				if len(ws) == 0 && loopOK {
					c.OK(rule, key, c.P.InstrPos(rm[0]), "every return after a backend error has run the detach loop over bErr.Errors", true)
				} else if !loopOK {
					c.Bad(rule, key, c.P.InstrPos(rm[0]), why, nil)
				} else {
					c.Bad(rule, key, c.P.InstrPos(rm[0]), "a return is reachable from the backend-error edge without running the detach loop", c.witness(ws[0]))
				}
			} else {
				// helper: a controller function called with (c, err) that runs the loop on every path
				var via ssa.Instruction
				var hwhy string
				eachInstr(fn, func(in ssa.Instruction) {
					cl, ok := in.(*ssa.Call)
					if !ok || via != nil {
						return
					}
					h := cl.Call.StaticCallee()
					if h == nil || h.Blocks == nil || h == fn || !isJivaFn(h) || FnName(h) == fCtl+"handleErrorNoLock" {
						return
					}
					args := callArgs(R, cl)
					ei, ci := -1, -1
					for i, a := range args {
						if a == errV {
							ei = i
						}
						if a == "$0" {
							ci = i
						}
					}
					if ei < 0 || ci < 0 {
						return
					}
					HR := NewRenderer(h)
					hv := fmt.Sprintf("$%d", ei)
					hrm, hok, w := detachLoop(h, HR, fmt.Sprintf("$%d", ci), hv)
					if len(hrm) == 0 {
						return
					}
					if !hok {
						hwhy = FnName(h) + ": " + w
						return
					}
					isRetH := func(in ssa.Instruction) bool { _, ok := in.(*ssa.Return); return ok }
					if len(Query{Fn: h, IsSite: isRetH, GenEdge: atomEdges(h, HR, detachDoneAtoms(hv)...)}.Run()) > 0 {
						hwhy = FnName(h) + " can return without having traversed the detach loop"
						return
					}
					locks := false
					eachInstr(h, func(x ssa.Instruction) {
						if isUnlockCall(x) || isLockCall(x) {
							locks = true
						}
					})
					if locks {
						hwhy = FnName(h) + " releases or takes a lock"
						return
					}
					via = in
				})
				if via == nil {
					if hwhy == "" {
						hwhy = "no call " + fCtl + "RemoveReplicaNoLock($0,key(as<*controller.BackendError>(" + errV + ").Errors)), directly or in a helper taking (c, err) (failed replicas are not detached under the I/O's lock)"
					}
					c.Bad(rule, key, c.P.InstrPos(call), hwhy, nil)
				} else {
					ws = afterEdge(fn, nonNil, func(in ssa.Instruction) bool { return in == via }, nil, isRet)
					if len(ws) == 0 {
						c.OK(rule, key, c.P.InstrPos(via), "every return after a backend error has called "+CalleeName(via)+", which runs the detach loop over bErr.Errors on every path", true)
					} else {
						c.Bad(rule, key, c.P.InstrPos(via), "a return is reachable from the backend-error edge without running the detach loop", c.witness(ws[0]))
					}
				}
			}
			// (3) no lock release between backend call and return
			ws = reachableFrom(call, isUnlockCall)
			key = FnName(fn) + " | no unlock after backend call"
			if len(ws) == 0 {
				c.OK(rule, key, c.P.InstrPos(call), "no explicit Unlock is reachable after the backend call (lock is released by the deferred Unlock only)", true)
			} else {
				c.Bad(rule, key, c.P.InstrPos(ws[0].Site), "controller lock released between the backend call and the detach of failed replicas", c.witness(ws[0]))
			}
		}
		c.Floor(rule, 12)
	}
}

func detachDoneAtoms(errV string) []string {
	errs := "as<*controller.BackendError>(" + errV + ").Errors"
	return []string{"!more(" + errs + ")", "!is<*controller.BackendError>(" + errV + ")", "-len(" + errs + ") >=0"}
}

// detachLoop finds `for address := range err.(*BackendError).Errors { recv.RemoveReplicaNoLock(address) }`
// in fn (recv and errV rendered in fn's terms); ok when the call sits directly on the loop's
// more-edge (executed for every key).
func detachLoop(fn *ssa.Function, R *Renderer, recv, errV string) (rm []ssa.Instruction, ok bool, why string) {
	errs := "as<*controller.BackendError>(" + errV + ").Errors"
	wantR := fCtl + "RemoveReplicaNoLock(" + recv + ",key(" + errs + "))"
	for _, in := range CallsTo(fn, fCtl+"RemoveReplicaNoLock") {
		if callRender(R, in) == wantR {
			rm = append(rm, in)
		}
	}
	if len(rm) == 0 {
		return nil, false, "no call " + wantR
	}
	body := rm[0].Block()
	direct := len(body.Preds) == 1 && atomEdges(fn, R, "more("+errs+")")(body.Preds[0], succIndex(body.Preds[0], body))
	if !direct {
		return rm, false, "RemoveReplicaNoLock is not executed unconditionally for every key of bErr.Errors"
	}
	return rm, true, ""
}

func succIndex(b, s *ssa.BasicBlock) int {
	for i, x := range b.Succs {
		if x == s {
			return i
		}
	}
	return -1
}

// buildReadWriters: filters and index maps
func ruleBuildRW(rule string) ruleFn {
	return func(c *Ctx) {
		c.Doc(rule, "buildReadWriters: writers = backends with mode != ERR (exactly), readers = mode == RW (exactly), updaters = quorum backends != ERR; xIndex[len(list)] = address is paired with list = append(list, b.backend) of the same range iteration; the lists built are the ones installed in r.writer / r.readers")
		fn := c.Anchor(rule, fRepl+"buildReadWriters")
		if fn == nil {
			return
		}
		R := NewRenderer(fn)
		type spec struct{ idx, m, atom, field string }
		for _, s := range []spec{
			{"writerIndex", "backends", `+"ERR" -$0.backends[*].mode !=0`, "writers"},
			{"readerIndex", "backends", `+"RW" -$0.backends[*].mode ==0`, "readers"},
			{"updaterIndex", "quorumBackends", `+"ERR" -$0.quorumBackends[*].mode !=0`, "updaters"},
		} {
			var ups []ssa.Instruction
			eachInstr(fn, func(in ssa.Instruction) {
				if mu, ok := in.(*ssa.MapUpdate); ok && R.V(mu.Map) == "$0."+s.idx {
					ups = append(ups, in)
				}
			})
			key := FnName(fn) + " | " + s.idx
			if len(ups) != 1 {
				c.Bad(rule, key, "", fmt.Sprintf("expected exactly one update of r.%s, found %d", s.idx, len(ups)), nil)
				continue
			}
			mu := ups[0].(*ssa.MapUpdate)
			c.Guard(rule, fn, ups, s.idx+" update", nil, atom("mode filter "+s.atom, s.atom))
			// not over-restricted: the only controlling atoms between loop head and the update are the expected ones
			ctl := controlAtoms(fn, R, mu.Block())
			extra := []string{}
			for _, a := range ctl {
				if a != s.atom && !strings.HasPrefix(a, "more(") && !(s.idx == "readerIndex" && (a == `+"ERR" -$0.backends[*].mode !=0` || a == `+"ERR" -$0.backends[*].mode ==0`)) {
					extra = append(extra, a)
				}
			}
			if len(extra) == 0 {
				c.OK(rule, key+" | no extra filter", c.P.InstrPos(mu), "membership of the list is decided by the mode filter alone", true)
			} else {
				c.Bad(rule, key+" | no extra filter", c.P.InstrPos(mu), "list membership additionally restricted by: "+strings.Join(extra, " ; "), nil)
			}
			// pairing: key = len(L); value = key(range); same block append(L, b.backend)
			ok := false
			detail := ""
			if R.V(mu.Value) != "key($0."+s.m+")" {
				detail = "index map value is " + R.V(mu.Value) + ", expected the range key of r." + s.m
			} else if lc, isCall := mu.Key.(*ssa.Call); !isCall || !callMatches(lc, "builtin:len") {
				detail = "index map key is not len(list)"
			} else {
				list := lc.Call.Args[0]
				for _, in := range mu.Block().Instrs {
					if ac, isCall := in.(*ssa.Call); isCall && callMatches(ac, "builtin:append") && ac.Call.Args[0] == list {
						el := appendedElem(R, ac)
						if el == "$0."+s.m+"[*].backend" {
							ok = true
							// the list flows into the installed field
							if !flowsToField(fn, ac, s.field) {
								ok = false
								detail = "appended list does not flow into ." + s.field
							}
						} else {
							detail = "appended element is " + el + ", expected $0." + s.m + "[*].backend"
						}
					}
				}
				if !ok && detail == "" {
					detail = "no append(list, b.backend) on the same list in the block of the index update"
				}
			}
			if ok {
				c.OK(rule, key+" | paired with append", c.P.InstrPos(mu), "index[len(list)] = address and list = append(list, b.backend) use the same list and range iteration; list installed as ."+s.field, true)
			} else {
				c.Bad(rule, key+" | paired with append", c.P.InstrPos(mu), detail, nil)
			}
		}
		c.Floor(rule, 9)
	}
}

// controlAtoms: atoms of all branch edges that dominate block b on the way from its loop head
// (approximated: walk single-predecessor chain upwards).
func controlAtoms(fn *ssa.Function, R *Renderer, b *ssa.BasicBlock) []string {
	var out []string
	for hops := 0; hops < 16 && len(b.Preds) == 1; hops++ {
		p := b.Preds[0]
		if iff, ok := p.Instrs[len(p.Instrs)-1].(*ssa.If); ok {
			a := R.CondAtom(iff.Cond)
			if p.Succs[0] == b {
				out = append(out, a.String())
			} else {
				out = append(out, a.Neg().String())
			}
		}
		b = p
	}
	return out
}

// appendedElem renders the single element appended by append(s, x).
func appendedElem(R *Renderer, ac *ssa.Call) string {
	if len(ac.Call.Args) < 2 {
		return "?"
	}
	sl, ok := ac.Call.Args[1].(*ssa.Slice)
	if !ok {
		return R.V(ac.Call.Args[1])
	}
	al, ok := sl.X.(*ssa.Alloc)
	if !ok {
		return R.V(sl)
	}
	for _, r := range *al.Referrers() {
		if ia, ok := r.(*ssa.IndexAddr); ok {
			for _, rr := range *ia.Referrers() {
				if st, ok := rr.(*ssa.Store); ok {
					return R.V(st.Val)
				}
			}
		}
	}
	return "?"
}

// flowsToField: value v flows (through phis) into a Store to a field named f, in fn.
func flowsToField(fn *ssa.Function, v ssa.Value, field string) bool {
	seen := map[ssa.Value]bool{}
	var walk func(x ssa.Value) bool
	walk = func(x ssa.Value) bool {
		if seen[x] {
			return false
		}
		seen[x] = true
		refs := x.Referrers()
		if refs == nil {
			return false
		}
		for _, r := range *refs {
			switch y := r.(type) {
			case *ssa.Phi:
				if walk(y) {
					return true
				}
			case *ssa.Store:
				if y.Val == x {
					if _, f, _ := fieldAddrOf(y.Addr); f == field {
						return true
					}
				}
			}
		}
		return false
	}
	return walk(v)
}

func ruleIndexMapUse(rule string) ruleFn {
	return func(c *Ctx) {
		c.Doc(rule, "replicator.WriteAt/Sync/Unmap translate MultiWriterError.ReplicaErrors[i] through writerIndex[i] with the same range index; replicator.ReadAt records a failed reader under readerIndex[index] with the very index value used to select r.readers[index]")
		for _, m := range []string{"WriteAt", "Sync", "Unmap"} {
			fn := c.Anchor(rule, fRepl+m)
			if fn == nil {
				continue
			}
			R := NewRenderer(fn)
			n := 0
			// the translation loop: in the method, or in a method of the replicator that is handed
			// the writer's error and whose result is returned as the method's error
			exec, ER, errTerm := fn, R, ""
			hasMU := false
			eachInstr(fn, func(in ssa.Instruction) {
				if _, ok := in.(*ssa.MapUpdate); ok {
					hasMU = true
				}
			})
			if !hasMU {
				wcalls := CallsTo(fn, "invoke:"+m)
				eachInstr(fn, func(in ssa.Instruction) {
					cl, ok := in.(*ssa.Call)
					if !ok || exec != fn || len(wcalls) != 1 {
						return
					}
					h := cl.Call.StaticCallee()
					if h == nil || h.Blocks == nil || !isJivaFn(h) || h == fn || h.Signature.Recv() == nil {
						return
					}
					args := callArgs(R, cl)
					ek := -1
					for k, a := range args {
						if a == R.V(wcalls[0].(*ssa.Call))+"#1" {
							ek = k
						}
					}
					if ek < 0 || len(args) == 0 || args[0] != "$0" {
						return
					}
					returned := false
					for _, r := range Returns(fn) {
						for _, v := range r.Results {
							for _, x := range phiInputs(strip(v)) {
								if mi, ok := x.(*ssa.MakeInterface); ok {
									x = strip(mi.X)
								}
								if x == ssa.Value(cl) {
									returned = true
								}
							}
						}
					}
					if returned {
						exec, ER, errTerm = h, NewRenderer(h), fmt.Sprintf("$%d", ek)
					}
				})
			}
			eachInstr(exec, func(in ssa.Instruction) {
				mu, ok := in.(*ssa.MapUpdate)
				if !ok {
					return
				}
				n++
				k, v := ER.V(mu.Key), ER.V(mu.Value)
				key := FnName(fn) + " | errors[...] = ..."
				if errTerm != "" && !strings.Contains(v, "("+errTerm+").ReplicaErrors[*]") {
					c.Bad(rule, key, c.P.InstrPos(in), "helper "+FnName(exec)+" translates "+v+", not the errors of the error it was handed", nil)
					return
				}
				// only writers that failed are named
				c.Guard(rule, exec, []ssa.Instruction{in}, "attribute error", nil, atom("this writer failed", neAtom(v, "nil")))
				if k == "$0.writerIndex[*]" && strings.HasSuffix(v, ".ReplicaErrors[*]") && sameRangeIndex(mu.Key, mu.Value) {
					c.OK(rule, key, c.P.InstrPos(in), "errors[r.writerIndex[i]] = mErr.ReplicaErrors[i] (same range index)", true)
				} else {
					c.Bad(rule, key, c.P.InstrPos(in), "per-writer error is attributed through "+k+" <- "+v+"; expected r.writerIndex[i] <- ReplicaErrors[i] with the same i", nil)
				}
			})
			if n == 0 {
				c.Bad(rule, FnName(fn)+" | errors[...] = ...", "", "no translation of per-writer errors to addresses found", nil)
			}
		}
		fn := c.Anchor(rule, fRepl+"ReadAt")
		if fn != nil {
			R := NewRenderer(fn)
			calls := CallsTo(fn, "invoke:ReadAt")
			key := FnName(fn) + " | failed reader attribution"
			if len(calls) != 1 {
				c.Bad(rule, key, "", fmt.Sprintf("expected one reader.ReadAt call, found %d", len(calls)), nil)
			} else {
				call := calls[0].(*ssa.Call)
				recv := call.Call.Value
				var idx ssa.Value
				if ld, ok := recv.(*ssa.UnOp); ok {
					if ia, ok := ld.X.(*ssa.IndexAddr); ok && R.V(ia.X) == "$0.readers" {
						idx = ia.Index
					}
				}
				found := false
				eachInstr(fn, func(in ssa.Instruction) {
					mu, ok := in.(*ssa.MapUpdate)
					if !ok {
						return
					}
					found = true
					lk, ok := lookupOf(mu.Key)
					if idx != nil && ok && R.V(lk.X) == "$0.readerIndex" && strip(lk.Index) == strip(idx) && sameValue(mu.Value, errOfCall(call)) {
						c.OK(rule, key, c.P.InstrPos(in), "retError.Errors[r.readerIndex[index]] = err with the index that selected r.readers[index]", true)
					} else {
						c.Bad(rule, key, c.P.InstrPos(in), "failed read is recorded under "+R.V(mu.Key)+", not under r.readerIndex[<index used for r.readers[index]>]", nil)
					}
				})
				if !found {
					c.Bad(rule, key, "", "failed reader is not recorded", nil)
				}
				// a recorded failure is always reported: success is returned only with no recorded error
				// (the collection is whatever map the failed read was stored in)
				emptyNeed := errorsEmpty(fn, "no reader failure recorded")
				var maps []string
				eachInstr(fn, func(in ssa.Instruction) {
					if mu, ok := in.(*ssa.MapUpdate); ok && sameValue(mu.Value, errOfCall(call)) {
						maps = append(maps, regexp.QuoteMeta(R.V(mu.Map)))
					}
				})
				if len(maps) == 1 {
					emptyNeed = atomMatching(fn, "no reader failure recorded", `^\+len\(`+maps[0]+`\) ==0$`)
				}
				c.Guard(rule, fn, nilErrorReturns(fn), "return n,nil", nil, emptyNeed)
				// read source + gate
				if idx != nil {
					c.Guard(rule, fn, calls, "reader.ReadAt", nil, atom("backendsAvailable", "$0.backendsAvailable"))
				} else {
					c.Bad(rule, FnName(fn)+" | read source", c.P.InstrPos(call), "read is not served from r.readers[index]: receiver is "+R.V(recv), nil)
				}
			}
		}
		c.Floor(rule, 5)
	}
}

// sameRangeIndex: both values index with the range index of the same loop.
func sameRangeIndex(a, b ssa.Value) bool {
	ia, ib := rangeIndexOf(a), rangeIndexOf(b)
	return ia != nil && ia == ib
}

func rangeIndexOf(v ssa.Value) ssa.Value {
	switch x := v.(type) {
	case *ssa.Lookup:
		if isRangeIndex(x.Index) {
			return rangePhi(x.Index)
		}
	case *ssa.UnOp:
		if ia, ok := x.X.(*ssa.IndexAddr); ok && isRangeIndex(ia.Index) {
			return rangePhi(ia.Index)
		}
	case *ssa.Index:
		if isRangeIndex(x.Index) {
			return rangePhi(x.Index)
		}
	}
	return nil
}

func rangePhi(v ssa.Value) ssa.Value {
	if b, ok := v.(*ssa.BinOp); ok {
		return b.X
	}
	return v
}

// lookupOf: v is a map lookup, in either form (`m[k]` or the value of `v, ok := m[k]`).
func lookupOf(v ssa.Value) (*ssa.Lookup, bool) {
	if ex, ok := v.(*ssa.Extract); ok && ex.Index == 0 {
		v = ex.Tuple
	}
	lk, ok := v.(*ssa.Lookup)
	return lk, ok
}
