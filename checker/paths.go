package main

import (
	"fmt"
	"go/token"
	"go/types"
	"sort"
	"strings"

	"golang.org/x/tools/go/ssa"
)

// ---------------------------------------------------------------------------
// Terminators (modelled externals): a path ends at these calls.
// ---------------------------------------------------------------------------

func isTerminatorCall(in ssa.Instruction) bool {
	if _, ok := in.(*ssa.Panic); ok {
		return true
	}
	c, ok := in.(ssa.CallInstruction)
	if !ok {
		return false
	}
	if _, isGo := in.(*ssa.Go); isGo {
		return false
	}
	if _, isDefer := in.(*ssa.Defer); isDefer {
		return false
	}
	f := c.Common().StaticCallee()
	if f == nil {
		return false
	}
	n := f.String()
	switch {
	case strings.HasPrefix(n, "github.com/sirupsen/logrus.Fatal"),
		strings.HasPrefix(n, "github.com/sirupsen/logrus.Panic"),
		strings.HasPrefix(n, "(*github.com/sirupsen/logrus.Logger).Fatal"),
		strings.HasPrefix(n, "(*github.com/sirupsen/logrus.Entry).Fatal"),
		strings.HasPrefix(n, "log.Fatal"), strings.HasPrefix(n, "log.Panic"),
		n == "os.Exit", n == "runtime.Goexit":
		return true
	}
	return false
}

// ---------------------------------------------------------------------------
// Path query: is there a path entry → site on which no Gen item occurred after
// the last Kill?  (CUT rule of DESIGN.md, as a product-graph reachability.)
// ---------------------------------------------------------------------------

type Query struct {
	Fn        *ssa.Function
	IsSite    func(ssa.Instruction) bool
	Gen       func(ssa.Instruction) bool
	GenEdge   func(b *ssa.BasicBlock, succ int) bool
	Kill      func(ssa.Instruction) bool
	KillEdge  func(b *ssa.BasicBlock, succ int) bool
	StartHeld bool
	// Start: optional alternative start point (instruction after which the walk begins)
	Start ssa.Instruction
	// SkipEdge: edges that are not followed at all (infeasible by rule)
	SkipEdge func(b *ssa.BasicBlock, succ int) bool
	// GenAtoms (with R): atoms that establish the fact; used in addition to GenEdge for blocks
	// that branch on one of their own phis: entered through a known predecessor edge, the branch
	// condition is that edge's value (`found := true / found := has(m,k)` merged, then `if !found`)
	GenAtoms []string
	R        *Renderer
}

// phiEdgeAtom: b branches on its own boolean phi (possibly negated); the atom that holds on
// successor k when b was entered through predecessor pred.
func phiEdgeAtom(R *Renderer, b *ssa.BasicBlock, pred, k int) (Atom, bool) {
	if pred < 0 || R == nil {
		return Atom{}, false
	}
	phi, kind := phiCondOf(b)
	if phi == nil || (kind != 1 && kind != 2) || pred >= len(phi.Edges) {
		return Atom{}, false
	}
	v := phi.Edges[pred]
	if _, isConst := v.(*ssa.Const); isConst {
		return Atom{}, false
	}
	a := R.CondAtom(v)
	if (kind == 2) != (k == 1) {
		a = a.Neg()
	}
	return a, true
}

type Witness struct {
	Site ssa.Instruction
	Path []*ssa.BasicBlock
}

type pstate struct {
	b    *ssa.BasicBlock
	held bool
	pred int // index of the predecessor edge taken into b when b branches on one of its own phis, else -1
	// facts: what the path has established about SSA values that the function compares with
	// constants more than once ("v3=\"RW\"", "v3!\"WO\""); edges that contradict it are not taken
	facts string
}

// constCmp: block b ends in `if v == c` / `if v != c` (c a constant, v not): returns v, the
// constant's rendering and whether the TRUE edge means equality.
type constCmpT struct {
	v    ssa.Value
	c    string
	eqOn bool
}

var constCmpMemo = map[*ssa.Function]map[*ssa.BasicBlock]*constCmpT{}

func constCmps(fn *ssa.Function) map[*ssa.BasicBlock]*constCmpT {
	if m, ok := constCmpMemo[fn]; ok {
		return m
	}
	m := map[*ssa.BasicBlock]*constCmpT{}
	count := map[ssa.Value]int{}
	for _, b := range fn.Blocks {
		if len(b.Instrs) == 0 {
			continue
		}
		iff, ok := b.Instrs[len(b.Instrs)-1].(*ssa.If)
		if !ok {
			continue
		}
		cond := iff.Cond
		neg := false
		for {
			if u, ok := cond.(*ssa.UnOp); ok && u.Op == token.NOT {
				cond, neg = u.X, !neg
				continue
			}
			break
		}
		bo, ok := cond.(*ssa.BinOp)
		if !ok || (bo.Op != token.EQL && bo.Op != token.NEQ) {
			continue
		}
		var v ssa.Value
		var c *ssa.Const
		if k, ok := bo.Y.(*ssa.Const); ok {
			v, c = bo.X, k
		} else if k, ok := bo.X.(*ssa.Const); ok {
			v, c = bo.Y, k
		}
		if v == nil || c == nil || c.Value == nil {
			continue // nil comparisons are handled by the nil-test machinery
		}
		if _, isC := v.(*ssa.Const); isC {
			continue
		}
		// look through conversions: string(mode) == "RW" and mode == types.RW compare one value
		for {
			if cv, ok := v.(*ssa.ChangeType); ok {
				v = cv.X
				continue
			}
			if cv, ok := v.(*ssa.Convert); ok {
				if bt, ok := cv.X.Type().Underlying().(*types.Basic); ok && bt.Info()&types.IsString != 0 {
					v = cv.X
					continue
				}
			}
			break
		}
		eq := bo.Op == token.EQL
		if neg {
			eq = !eq
		}
		m[b] = &constCmpT{v, constString(c), eq}
		count[v]++
	}
	for b, cc := range m {
		if count[cc.v] < 2 {
			delete(m, b)
		}
	}
	constCmpMemo[fn] = m
	return m
}

// stepFacts: the facts after taking successor k of b, or ok=false when the edge contradicts them.
func stepFacts(fn *ssa.Function, facts string, b *ssa.BasicBlock, k int) (string, bool) {
	cc := constCmps(fn)[b]
	if cc == nil || len(b.Succs) != 2 {
		return facts, true
	}
	id := fmt.Sprintf("%p", cc.v)
	isEq := (k == 0) == cc.eqOn
	var fs []string
	if facts != "" {
		fs = strings.Split(facts, "\x00")
	}
	eqKey, neKey := id+"="+cc.c, id+"!"+cc.c
	for _, f := range fs {
		if strings.HasPrefix(f, id+"=") {
			// value known
			if isEq && f != eqKey {
				return facts, false
			}
			if !isEq && f == eqKey {
				return facts, false
			}
			return facts, true // nothing new
		}
		if isEq && f == neKey {
			return facts, false
		}
		if !isEq && f == neKey {
			return facts, true
		}
	}
	if isEq {
		// replaces the inequalities of this value
		var out []string
		for _, f := range fs {
			if !strings.HasPrefix(f, id+"!") {
				out = append(out, f)
			}
		}
		fs = append(out, eqKey)
	} else {
		fs = append(fs, neKey)
	}
	sort.Strings(fs)
	if len(fs) > 12 {
		return facts, true // bound the state space: stop learning
	}
	return strings.Join(fs, "\x00"), true
}

// phiBranchBlock: b ends in an If whose condition is decided by a phi of b itself (a nil
// test of a merged error, a merged boolean): which way it goes then depends on the edge
// through which b was entered.
var phiBranchMemo = map[*ssa.BasicBlock]int8{}

func phiCondOf(b *ssa.BasicBlock) (phi *ssa.Phi, kind int) {
	if len(b.Instrs) == 0 {
		return nil, 0
	}
	iff, ok := b.Instrs[len(b.Instrs)-1].(*ssa.If)
	if !ok {
		return nil, 0
	}
	own := func(v ssa.Value) *ssa.Phi {
		for i := 0; i < 4; i++ {
			switch x := v.(type) {
			case *ssa.Phi:
				if x.Block() == b {
					return x
				}
				return nil
			case *ssa.ChangeInterface:
				v = x.X
			case *ssa.ChangeType:
				v = x.X
			default:
				return nil
			}
		}
		return nil
	}
	switch c := iff.Cond.(type) {
	case *ssa.Phi:
		if c.Block() == b {
			return c, 1 // boolean phi, true branch when the value is true
		}
	case *ssa.UnOp:
		if c.Op == token.NOT {
			if p := own(c.X); p != nil {
				return p, 2
			}
		}
	case *ssa.BinOp:
		if c.Op == token.NEQ || c.Op == token.EQL {
			var p *ssa.Phi
			if isNilConst(c.Y) {
				p = own(c.X)
			} else if isNilConst(c.X) {
				p = own(c.Y)
			}
			if p != nil {
				if c.Op == token.NEQ {
					return p, 3 // true branch when non-nil
				}
				return p, 4 // true branch when nil
			}
		}
	}
	return nil, 0
}

// infeasibleSucc: entering b through predecessor edge pred, successor k cannot be taken.
func infeasibleSucc(b *ssa.BasicBlock, pred, k int) bool {
	if pred < 0 {
		return false
	}
	phi, kind := phiCondOf(b)
	if phi == nil || pred >= len(phi.Edges) || len(b.Succs) != 2 {
		return false
	}
	v := phi.Edges[pred]
	var truth int // 1 condition true, -1 false, 0 unknown
	switch kind {
	case 1, 2:
		if c, ok := v.(*ssa.Const); ok && c.Value != nil {
			if constString(c) == "true" {
				truth = 1
			} else if constString(c) == "false" {
				truth = -1
			}
		}
		if kind == 2 {
			truth = -truth
		}
	case 3, 4:
		if isNilConst(v) {
			truth = -1
		} else if provablyNonNilError(v) {
			truth = 1
		} else if pred < len(b.Preds) {
			truth = nilnessIn(v, b.Preds[pred])
		}
		if kind == 4 {
			truth = -truth
		}
	}
	if truth == 1 && k == 1 {
		return true
	}
	if truth == -1 && k == 0 {
		return true
	}
	return false
}

// nilnessIn: value v is known non-nil (1) / nil (-1) throughout block blk because blk is only
// reached through a branch on a nil test of v (single-predecessor chain, at most 8 blocks up).
func nilnessIn(v ssa.Value, blk *ssa.BasicBlock) int {
	fn := blk.Parent()
	isNil, nonNil := nilTestEdges(fn, v)
	cur := blk
	for i := 0; i < 8 && len(cur.Preds) == 1; i++ {
		p := cur.Preds[0]
		for k, s := range p.Succs {
			if s == cur {
				// an edge that is both (p branches to cur twice) proves nothing
				if nonNil(p, k) && !isNil(p, k) {
					return 1
				}
				if isNil(p, k) && !nonNil(p, k) {
					return -1
				}
			}
		}
		cur = p
	}
	// `ok, err := g(x); if !ok { ... err ... }` where g says no only with an error
	if ex, isEx := v.(*ssa.Extract); isEx {
		if call, isCall := ex.Tuple.(*ssa.Call); isCall {
			if g := call.Call.StaticCallee(); g != nil && g.Signature.Results().Len() == 2 && ex.Index == 1 && falseImpliesErr(g) {
				cur = blk
				for i := 0; i < 8 && len(cur.Preds) == 1; i++ {
					p := cur.Preds[0]
					if len(p.Instrs) > 0 && len(p.Succs) == 2 && p.Succs[0] != p.Succs[1] {
						if iff, ok := p.Instrs[len(p.Instrs)-1].(*ssa.If); ok {
							isB0 := func(x ssa.Value) bool {
								e, ok := x.(*ssa.Extract)
								return ok && e.Tuple == ex.Tuple && e.Index == 0
							}
							falseSucc := -1
							if isB0(iff.Cond) {
								falseSucc = 1
							} else if u, ok := iff.Cond.(*ssa.UnOp); ok && u.Op == token.NOT && isB0(u.X) {
								falseSucc = 0
							}
							if falseSucc >= 0 && p.Succs[falseSucc] == cur {
								return 1
							}
						}
					}
					cur = p
				}
			}
		}
	}
	return 0
}

var falseImpliesErrMemo = map[*ssa.Function]bool{}

// falseImpliesErr: g returns (bool, error) and every return whose verdict is the constant false
// carries an error that is non-nil there; a computed verdict makes the answer no.
func falseImpliesErr(g *ssa.Function) bool {
	if v, ok := falseImpliesErrMemo[g]; ok {
		return v
	}
	falseImpliesErrMemo[g] = false
	if g.Blocks == nil || g.Signature.Results().Len() != 2 || g.Signature.Results().At(0).Type().String() != "bool" || g.Signature.Results().At(1).Type().String() != "error" {
		return false
	}
	n := 0
	for _, b := range g.Blocks {
		for _, in := range b.Instrs {
			r, ok := in.(*ssa.Return)
			if !ok {
				continue
			}
			if len(r.Results) != 2 {
				return false
			}
			c, ok := r.Results[0].(*ssa.Const)
			if !ok || c.Value == nil {
				return false
			}
			if constString(c) == "false" {
				if !nonNilAt(r.Results[1], b) {
					return false
				}
				n++
			}
		}
	}
	falseImpliesErrMemo[g] = n > 0
	return n > 0
}

// ---- facts about phis that are branched on in a LATER block -------------------------------
// (`res, done, err := <inlined helper>`: the helper's exits merge in one block, the caller tests
// err, then done, in the blocks that follow.)  Entering the merge block through edge i fixes the
// value of every such phi whose i-th operand is a constant / has a known nil-ness; the fact
// travels with the path and decides the later branch.

var branchedPhiMemo = map[*ssa.Function]map[*ssa.Phi]bool{}

// condPhi: the phi (of any block) that decides the If of block b, and how (kinds as in phiCondOf).
func condPhi(b *ssa.BasicBlock) (*ssa.Phi, int) {
	if len(b.Instrs) == 0 {
		return nil, 0
	}
	iff, ok := b.Instrs[len(b.Instrs)-1].(*ssa.If)
	if !ok {
		return nil, 0
	}
	asPhi := func(v ssa.Value) *ssa.Phi {
		for i := 0; i < 4; i++ {
			switch x := v.(type) {
			case *ssa.Phi:
				return x
			case *ssa.ChangeInterface:
				v = x.X
			case *ssa.ChangeType:
				v = x.X
			default:
				return nil
			}
		}
		return nil
	}
	switch c := iff.Cond.(type) {
	case *ssa.Phi:
		return c, 1
	case *ssa.UnOp:
		if c.Op == token.NOT {
			if p := asPhi(c.X); p != nil {
				return p, 2
			}
		}
	case *ssa.BinOp:
		if c.Op == token.NEQ || c.Op == token.EQL {
			var p *ssa.Phi
			if isNilConst(c.Y) {
				p = asPhi(c.X)
			} else if isNilConst(c.X) {
				p = asPhi(c.Y)
			}
			if p != nil {
				if c.Op == token.NEQ {
					return p, 3
				}
				return p, 4
			}
		}
	}
	return nil, 0
}

func branchedPhis(fn *ssa.Function) map[*ssa.Phi]bool {
	if m, ok := branchedPhiMemo[fn]; ok {
		return m
	}
	m := map[*ssa.Phi]bool{}
	for _, b := range fn.Blocks {
		if p, _ := condPhi(b); p != nil {
			m[p] = true
		}
	}
	branchedPhiMemo[fn] = m
	return m
}

// phiEntryFacts: the facts after entering `to` from `from`.
func phiEntryFacts(facts string, from, to *ssa.BasicBlock) string {
	bp := branchedPhis(to.Parent())
	if len(bp) == 0 {
		return facts
	}
	var mine []*ssa.Phi
	for _, in := range to.Instrs {
		p, ok := in.(*ssa.Phi)
		if !ok {
			break
		}
		if bp[p] {
			mine = append(mine, p)
		}
	}
	if len(mine) == 0 {
		return facts
	}
	idx := -1
	for i, q := range to.Preds {
		if q == from {
			if idx >= 0 {
				idx = -2
				break
			}
			idx = i
		}
	}
	var fs []string
	if facts != "" {
		fs = strings.Split(facts, "\x00")
	}
	for _, p := range mine {
		id := fmt.Sprintf("phi%p", p)
		if idx >= 0 && idx < len(p.Edges) && p.Edges[idx] == ssa.Value(p) {
			continue // loop-carried unchanged: what is known about it stays true
		}
		var out []string
		for _, f := range fs {
			if !strings.HasPrefix(f, id+":") {
				out = append(out, f)
			}
		}
		fs = out
		if idx < 0 || idx >= len(p.Edges) {
			continue
		}
		v := p.Edges[idx]
		val := ""
		if c, ok := v.(*ssa.Const); ok {
			switch {
			case c.Value == nil:
				val = "nil"
			case constString(c) == "true":
				val = "T"
			case constString(c) == "false":
				val = "F"
			}
		} else if _, isBool := p.Type().Underlying().(*types.Basic); !isBool {
			if provablyNonNilError(v) {
				val = "nonnil"
			} else if n := nilnessIn(v, from); n == 1 {
				val = "nonnil"
			} else if n == -1 {
				val = "nil"
			}
		}
		if val != "" && len(fs) < 12 {
			fs = append(fs, id+":"+val)
		}
	}
	sort.Strings(fs)
	return strings.Join(fs, "\x00")
}

// phiFactInfeasible: successor k of b contradicts what the path knows about the phi b branches on.
func phiFactInfeasible(facts string, b *ssa.BasicBlock, k int) bool {
	if facts == "" || len(b.Succs) != 2 {
		return false
	}
	p, kind := condPhi(b)
	if p == nil {
		return false
	}
	id := fmt.Sprintf("phi%p", p) + ":"
	val := ""
	for _, f := range strings.Split(facts, "\x00") {
		if strings.HasPrefix(f, id) {
			val = strings.TrimPrefix(f, id)
		}
	}
	truth := 0
	switch kind {
	case 1, 2:
		if val == "T" {
			truth = 1
		} else if val == "F" {
			truth = -1
		}
		if kind == 2 {
			truth = -truth
		}
	case 3, 4:
		if val == "nonnil" {
			truth = 1
		} else if val == "nil" {
			truth = -1
		}
		if kind == 4 {
			truth = -truth
		}
	}
	return (truth == 1 && k == 1) || (truth == -1 && k == 0)
}

// predIndex: the index of edge from->to among to.Preds when to branches on its own phi and
// the edge is unambiguous; -1 otherwise.
func predIndex(from, to *ssa.BasicBlock) int {
	if p, _ := phiCondOf(to); p == nil {
		return -1
	}
	idx := -1
	for i, q := range to.Preds {
		if q == from {
			if idx >= 0 {
				return -1
			}
			idx = i
		}
	}
	return idx
}

// Run returns the sites reachable in state "not held", each with one witness path.
func (q Query) Run() []Witness {
	var out []Witness
	seenSite := map[ssa.Instruction]bool{}
	prev := map[pstate]pstate{}
	visited := map[pstate]bool{}
	type work struct {
		s    pstate
		from int
	}
	var queue []work
	if q.Start != nil {
		queue = append(queue, work{pstate{q.Start.Block(), q.StartHeld, -1, ""}, instrIndex(q.Start) + 1})
	} else {
		if len(q.Fn.Blocks) == 0 {
			return nil
		}
		queue = append(queue, work{pstate{q.Fn.Blocks[0], q.StartHeld, -1, ""}, 0})
	}
	for len(queue) > 0 {
		w := queue[0]
		queue = queue[1:]
		s := w.s
		from := w.from
		if from == 0 {
			if visited[s] {
				continue
			}
			visited[s] = true
		}
		held := s.held
		stopped := false
		for i := from; i < len(s.b.Instrs); i++ {
			in := s.b.Instrs[i]
			if q.IsSite != nil && q.IsSite(in) && !held && !seenSite[in] {
				seenSite[in] = true
				out = append(out, Witness{Site: in, Path: tracePath(prev, s)})
			}
			if q.Gen != nil && q.Gen(in) {
				held = true
			}
			if q.Kill != nil && q.Kill(in) {
				held = false
			}
			if isTerminatorCall(in) {
				stopped = true
				break
			}
		}
		if stopped {
			continue
		}
		for k, succ := range s.b.Succs {
			if q.SkipEdge != nil && q.SkipEdge(s.b, k) {
				continue
			}
			if infeasibleSucc(s.b, s.pred, k) {
				continue
			}
			nf, feasible := stepFacts(s.b.Parent(), s.facts, s.b, k)
			if !feasible {
				continue
			}
			if phiFactInfeasible(nf, s.b, k) {
				continue
			}
			nf = phiEntryFacts(nf, s.b, succ)
			h := held
			if q.GenEdge != nil && q.GenEdge(s.b, k) {
				h = true
			}
			if !h && len(q.GenAtoms) > 0 {
				if a, ok := phiEdgeAtom(q.R, s.b, s.pred, k); ok {
					as := a.String()
					for _, w := range q.GenAtoms {
						if w == as {
							h = true
						}
					}
				}
			}
			if q.KillEdge != nil && q.KillEdge(s.b, k) {
				h = false
			}
			n := pstate{succ, h, predIndex(s.b, succ), nf}
			if !visited[n] {
				if _, ok := prev[n]; !ok {
					prev[n] = s
				}
				queue = append(queue, work{n, 0})
			}
		}
	}
	return out
}

func tracePath(prev map[pstate]pstate, s pstate) []*ssa.BasicBlock {
	var rev []*ssa.BasicBlock
	cur := s
	for n := 0; n < 10000; n++ {
		rev = append(rev, cur.b)
		p, ok := prev[cur]
		if !ok {
			break
		}
		cur = p
	}
	for i, j := 0, len(rev)-1; i < j; i, j = i+1, j-1 {
		rev[i], rev[j] = rev[j], rev[i]
	}
	return rev
}

// ---------------------------------------------------------------------------
// Finders over a function body.
// ---------------------------------------------------------------------------

func eachInstr(fn *ssa.Function, f func(ssa.Instruction)) {
	for _, b := range fn.Blocks {
		for _, in := range b.Instrs {
			f(in)
		}
	}
}

// callMatches: does instruction `in` call something whose resolved name matches `name`?
// name forms: exact FnName ("(*controller.replicator).WriteAt"),
// "invoke:Method" (any interface call of that method), "builtin:len".
func callMatches(in ssa.Instruction, name string) bool {
	c, ok := in.(ssa.CallInstruction)
	if !ok {
		return false
	}
	cc := c.Common()
	if strings.HasPrefix(name, "invoke:") {
		return cc.IsInvoke() && cc.Method.Name() == name[len("invoke:"):]
	}
	if cc.IsInvoke() && strings.HasPrefix(name, "(") && freshInterfaceCall(cc) && cc.Method.Name() == name[strings.LastIndex(name, ".")+1:] {
		return true
	}
	if strings.HasPrefix(name, "builtin:") {
		b, ok := cc.Value.(*ssa.Builtin)
		return ok && b.Name() == name[len("builtin:"):]
	}
	if g, _ := injectedCallee(cc); g != nil {
		return FnName(g) == name
	}
	f := cc.StaticCallee()
	if f == nil {
		if m, _ := devirtualise(cc); m != nil && FnName(m) == name {
			return true
		}
		return false
	}
	if FnName(f) == name {
		return true
	}
	// a direct call of what the baseline wrapper `name` forwards to, in the wrapper's shape
	if ws := baselineWrappers[short(f.String())]; len(ws) > 0 && in.Parent() != nil {
		if w, _, ok := asBaselineWrapper(NewRenderer(in.Parent()), cc); ok && w == name {
			return true
		}
	}
	return false
}

func isPlainCall(in ssa.Instruction) bool {
	_, ok := in.(*ssa.Call)
	return ok
}

// CallsTo lists plain (non-go, non-defer) call instructions to any of names.
func CallsTo(fn *ssa.Function, names ...string) []ssa.Instruction {
	var out []ssa.Instruction
	// the body of a new one-line forwarder (an injected dependency's production implementation) is
	// not a site of the call it forwards to: its callers are (devirt.go)
	if g := forwarder(fn); g != nil {
		for _, n := range names {
			if FnName(g) == n {
				return nil
			}
		}
	}
	eachInstr(fn, func(in ssa.Instruction) {
		if !isPlainCall(in) {
			return
		}
		for _, n := range names {
			if callMatches(in, n) {
				out = append(out, in)
				return
			}
		}
	})
	return out
}

// wrapperInner: call is a plain call to a same-module function h that is a *wrapper* of name:
// h contains exactly one plain call of name, and every success return of h (every return, when
// name has no error result) is cut off by that call's success edge (by the call).  Success of
// the wrapper therefore implies the wrapped call happened and succeeded.
func wrapperInner(call ssa.Instruction, name string) (*ssa.Function, ssa.Instruction) {
	cl, ok := call.(*ssa.Call)
	if !ok {
		return nil, nil
	}
	h := cl.Call.StaticCallee()
	if h == nil || h.Blocks == nil || !isJivaFn(h) || FnName(h) == name || h == call.Parent() {
		return nil, nil
	}
	inner := CallsTo(h, name)
	if len(inner) != 1 {
		return nil, nil
	}
	in := inner[0]
	var sites []ssa.Instruction
	q := Query{Fn: h}
	if ev := errOfCall(in); ev != nil && errResultIndex(h) >= 0 {
		ei := errResultIndex(h)
		for _, r := range successReturns(h) {
			// returning the wrapped call's own error value passes its verdict on
			if rr, ok := r.(*ssa.Return); ok && ei < len(rr.Results) && strip(rr.Results[ei]) == strip(ev) {
				continue
			}
			sites = append(sites, r)
		}
		if len(sites) == 0 {
			return h, in
		}
		q.GenEdge = successEdgesOfCall(h, in)
	} else {
		for _, r := range Returns(h) {
			sites = append(sites, r)
		}
		q.Gen = func(x ssa.Instruction) bool { return x == in }
	}
	if len(sites) == 0 {
		return nil, nil
	}
	q.IsSite = func(x ssa.Instruction) bool {
		for _, s := range sites {
			if s == x {
				return true
			}
		}
		return false
	}
	if len(q.Run()) > 0 {
		return nil, nil
	}
	return h, in
}

// successNotVia: witnesses of success returns of fn that neither return call's own error value
// nor are cut off by call's success edge.
func successNotVia(fn *ssa.Function, call ssa.Instruction) []Witness {
	ev := errOfCall(call)
	ei := errResultIndex(fn)
	var sites []ssa.Instruction
	for _, r := range successReturns(fn) {
		if rr, ok := r.(*ssa.Return); ok && ev != nil && ei >= 0 && ei < len(rr.Results) && strip(rr.Results[ei]) == strip(ev) {
			continue
		}
		sites = append(sites, r)
	}
	if len(sites) == 0 {
		return nil
	}
	return Query{Fn: fn, GenEdge: successEdgesOfCall(fn, call), IsSite: func(x ssa.Instruction) bool {
		for _, s := range sites {
			if s == x {
				return true
			}
		}
		return false
	}}.Run()
}

// CallsToW: plain calls of name in fn, directly or through a wrapper (wrapperInner).
func CallsToW(fn *ssa.Function, name string) []ssa.Instruction {
	var out []ssa.Instruction
	eachInstr(fn, func(in ssa.Instruction) {
		if !isPlainCall(in) {
			return
		}
		if callMatches(in, name) {
			out = append(out, in)
			return
		}
		if h, _ := wrapperInner(in, name); h != nil {
			out = append(out, in)
		}
	})
	return out
}

// renderVia: the call of name as seen from fn: the call itself, or the wrapped call with the
// wrapper's parameters replaced by the arguments of the wrapper call.
func renderVia(R *Renderer, call ssa.Instruction, name string) string {
	if callMatches(call, name) {
		return callRender(R, call)
	}
	if h, inner := wrapperInner(call, name); h != nil {
		return substParams(callRender(NewRenderer(h), inner), callArgs(R, call.(ssa.CallInstruction)))
	}
	return callRender(R, call)
}

// AnyCallsTo also includes go and defer statements.
func AnyCallsTo(fn *ssa.Function, names ...string) []ssa.Instruction {
	var out []ssa.Instruction
	if g := forwarder(fn); g != nil {
		for _, n := range names {
			if FnName(g) == n {
				return nil
			}
		}
	}
	eachInstr(fn, func(in ssa.Instruction) {
		for _, n := range names {
			if callMatches(in, n) {
				out = append(out, in)
				return
			}
		}
	})
	return out
}

// fieldAddrOf: if addr is &X.f returns (named struct type name, field name).
func fieldAddrOf(addr ssa.Value) (string, string, *ssa.FieldAddr) {
	fa, ok := addr.(*ssa.FieldAddr)
	if !ok {
		return "", "", nil
	}
	pt, ok := fa.X.Type().Underlying().(*types.Pointer)
	if !ok {
		return "", "", nil
	}
	st, ok := pt.Elem().Underlying().(*types.Struct)
	if !ok {
		return "", "", nil
	}
	tn := ""
	if n, ok := pt.Elem().(*types.Named); ok {
		tn = typName(n)
	}
	return tn, fldName(st.Field(fa.Field)), fa
}

// StoresTo lists Store instructions whose address is &(<typ>).<field>.
func StoresTo(fn *ssa.Function, typ, field string) []ssa.Instruction {
	var out []ssa.Instruction
	eachInstr(fn, func(in ssa.Instruction) {
		if s, ok := in.(*ssa.Store); ok {
			t, f, _ := fieldAddrOf(s.Addr)
			if t == typ && f == field {
				out = append(out, in)
			}
		}
	})
	return out
}

// Returns lists the return instructions.
func Returns(fn *ssa.Function) []*ssa.Return {
	var out []*ssa.Return
	eachInstr(fn, func(in ssa.Instruction) {
		if r, ok := in.(*ssa.Return); ok {
			out = append(out, r)
		}
	})
	return out
}

// errResultIndex: index of the last result if it is of type error, else -1.
func errResultIndex(fn *ssa.Function) int {
	res := fn.Signature.Results()
	if res.Len() == 0 {
		return -1
	}
	last := res.At(res.Len() - 1).Type()
	if types.Identical(last, types.Universe.Lookup("error").Type()) {
		return res.Len() - 1
	}
	return -1
}

func isNilConst(v ssa.Value) bool {
	c, ok := v.(*ssa.Const)
	return ok && c.Value == nil
}

// underlying strips conversions / interface wrapping.
func strip(v ssa.Value) ssa.Value {
	for {
		switch x := v.(type) {
		case *ssa.ChangeInterface:
			v = x.X
		case *ssa.ChangeType:
			v = x.X
		case *ssa.Convert:
			v = x.X
		case *ssa.UnOp:
			// load of a local variable (e.g. a named result in a function with defer):
			// resolve to the value it holds at that point
			if x.Op == token.MUL {
				if al, ok := x.X.(*ssa.Alloc); ok {
					if val := reachingStore(al, x); val != nil {
						v = val
						continue
					}
				}
			}
			return v
		default:
			return v
		}
	}
}

// provablyNonNilError: fresh error values.
var nonNilFnMemo = map[*ssa.Function]int{} // 0 unknown, 1 yes, 2 no / in progress

// alwaysNonNilError: every return of the same-module function hands out a provably non-nil error
// as its last result (`func (r *replicator) toBackendError(err error) error { ...; return &BackendError{...} }`).
func alwaysNonNilError(f *ssa.Function) bool {
	if f == nil || len(f.Blocks) == 0 || !isJivaFn(f) {
		return false
	}
	switch nonNilFnMemo[f] {
	case 1:
		return true
	case 2:
		return false
	}
	nonNilFnMemo[f] = 2
	ei := errResultIndex(f)
	if ei < 0 {
		return false
	}
	n := 0
	for _, r := range Returns(f) {
		n++
		if ei >= len(r.Results) || !provablyNonNilError(r.Results[ei]) {
			return false
		}
	}
	if n == 0 {
		return false
	}
	nonNilFnMemo[f] = 1
	return true
}

func provablyNonNilError(v ssa.Value) bool {
	v = strip(v)
	if cl, ok := v.(*ssa.Call); ok {
		if f := cl.Common().StaticCallee(); f != nil && f.Signature.Results().Len() == 1 && alwaysNonNilError(f) {
			return true
		}
	}
	switch x := v.(type) {
	case *ssa.MakeInterface:
		if _, ok := x.X.(*ssa.Alloc); ok {
			return true
		}
		if c, ok := x.X.(*ssa.Const); ok && c.Value == nil {
			return false
		}
		return true
	case *ssa.Call:
		if f := x.Common().StaticCallee(); f != nil {
			switch f.String() {
			case "fmt.Errorf", "errors.New":
				return true
			}
		}
	case *ssa.UnOp:
		if x.Op == token.MUL {
			if g, ok := x.X.(*ssa.Global); ok && strings.HasPrefix(g.Name(), "Err") {
				return true
			}
			// an unexported sentinel: every store of its package puts errors.New / fmt.Errorf there
			if g, ok := x.X.(*ssa.Global); ok && sentinelErrGlobal(g) {
				return true
			}
		}
	}
	return false
}

// nilTestEdges: edges on which value v (an error / pointer) is known nil / non-nil.
// Returns func(b,succ) for "v == nil" and for "v != nil".
func nilTestEdges(fn *ssa.Function, v ssa.Value) (isNil, nonNil func(*ssa.BasicBlock, int) bool) {
	type ek struct {
		b *ssa.BasicBlock
		k int
	}
	nilE, nonE := map[ek]bool{}, map[ek]bool{}
	same := func(a ssa.Value) bool { return sameValue(a, v) }
	for _, b := range fn.Blocks {
		if len(b.Instrs) == 0 {
			continue
		}
		iff, ok := b.Instrs[len(b.Instrs)-1].(*ssa.If)
		if !ok {
			continue
		}
		cond := iff.Cond
		neg := false
		for {
			if u, ok := cond.(*ssa.UnOp); ok && u.Op == token.NOT {
				cond = u.X
				neg = !neg
				continue
			}
			break
		}
		bo, ok := cond.(*ssa.BinOp)
		if !ok || (bo.Op != token.EQL && bo.Op != token.NEQ) {
			continue
		}
		var other ssa.Value
		if isNilConst(bo.Y) {
			other = bo.X
		} else if isNilConst(bo.X) {
			other = bo.Y
		} else {
			continue
		}
		if !same(other) {
			continue
		}
		eq := bo.Op == token.EQL
		if neg {
			eq = !eq
		}
		// succ 0 = cond true
		if eq {
			nilE[ek{b, 0}] = true
			nonE[ek{b, 1}] = true
		} else {
			nonE[ek{b, 0}] = true
			nilE[ek{b, 1}] = true
		}
	}
	return func(b *ssa.BasicBlock, k int) bool { return nilE[ek{b, k}] },
		func(b *ssa.BasicBlock, k int) bool { return nonE[ek{b, k}] }
}

// sameValue: a denotes the same run-time value as v (through loads of a local
// variable that was assigned v, and through conversions).
func sameValue(a, v ssa.Value) bool {
	a, v = strip(a), strip(v)
	if a == v {
		return true
	}
	if u, ok := a.(*ssa.UnOp); ok && u.Op == token.MUL {
		if al, ok := u.X.(*ssa.Alloc); ok {
			if val := reachingStore(al, u); val != nil && strip(val) == v {
				return true
			}
		}
	}
	return false
}

// errOfCall returns the SSA value carrying the error result of a call instruction
// (the call itself for single-result functions, the Extract otherwise), or nil.
func errOfCall(call ssa.Instruction) ssa.Value {
	c, ok := call.(*ssa.Call)
	if !ok {
		return nil
	}
	sig := c.Common().Signature()
	res := sig.Results()
	if res.Len() == 0 {
		return nil
	}
	errT := types.Universe.Lookup("error").Type()
	if res.Len() == 1 {
		if types.Identical(res.At(0).Type(), errT) {
			return c
		}
		return nil
	}
	li := res.Len() - 1
	if !types.Identical(res.At(li).Type(), errT) {
		return nil
	}
	for _, r := range *c.Referrers() {
		if e, ok := r.(*ssa.Extract); ok && e.Index == li {
			return e
		}
	}
	return nil
}

// extractOf returns the Extract #i of a tuple-valued call, or the call itself if i==0 and single result.
func extractOf(call ssa.Instruction, i int) ssa.Value {
	c, ok := call.(*ssa.Call)
	if !ok {
		return nil
	}
	if c.Common().Signature().Results().Len() == 1 && i == 0 {
		return c
	}
	for _, r := range *c.Referrers() {
		if e, ok := r.(*ssa.Extract); ok && e.Index == i {
			return e
		}
	}
	return nil
}

// phiClosure: all values that flow into v through phis (including v).
func phiInputs(v ssa.Value) []ssa.Value {
	seen := map[ssa.Value]bool{}
	var out []ssa.Value
	var walk func(x ssa.Value)
	walk = func(x ssa.Value) {
		x = strip(x)
		if seen[x] {
			return
		}
		seen[x] = true
		if p, ok := x.(*ssa.Phi); ok {
			for _, e := range p.Edges {
				walk(e)
			}
			return
		}
		out = append(out, x)
	}
	walk(v)
	return out
}

// successEdgesOfCall: edges on which the error returned by `call` is known to be nil.
// Handles `err := f(); if err != nil`, `if err := f(); err == nil`, and an error value that
// is first merged through a phi with other assignments of the same variable (the test
// must then be a nil-test of a phi one of whose inputs is this call's error).
func successEdgesOfCall(fn *ssa.Function, call ssa.Instruction) func(*ssa.BasicBlock, int) bool {
	ev := errOfCall(call)
	if ev == nil {
		return func(*ssa.BasicBlock, int) bool { return false }
	}
	var fs []func(*ssa.BasicBlock, int) bool
	isNil, _ := nilTestEdges(fn, ev)
	fs = append(fs, isNil)
	// via phi
	for _, b := range fn.Blocks {
		for _, in := range b.Instrs {
			if p, ok := in.(*ssa.Phi); ok {
				for _, x := range phiInputs(p) {
					if x == ev {
						n, _ := nilTestEdges(fn, p)
						fs = append(fs, n)
					}
				}
			}
		}
	}
	// via a local variable (Alloc) that holds it
	for _, r := range *ev.Referrers() {
		if st, ok := r.(*ssa.Store); ok && st.Val == ev {
			if al, ok := st.Addr.(*ssa.Alloc); ok {
				for _, rr := range *al.Referrers() {
					if ld, ok := rr.(*ssa.UnOp); ok && ld.Op == token.MUL {
						if val := reachingStore(al, ld); val == ev {
							n, _ := nilTestEdges(fn, ld)
							fs = append(fs, n)
						}
					}
				}
			}
		}
	}
	return func(b *ssa.BasicBlock, k int) bool {
		for _, f := range fs {
			if f(b, k) {
				return true
			}
		}
		return false
	}
}

// atomEdges: edges of fn on which an atom with one of the given canonical strings holds —
// directly, or because the edge is the true (false) edge of a same-module boolean helper (resp.
// the success edge of an error-returning helper) every positive (negative) return of which is
// dominated by one of the wanted atoms (one level of helper inlining, parameters substituted).
// The per-return formulation makes the false edge of `return a && !b` establish the
// disjunction {!a, b}.
func atomEdges(fn *ssa.Function, R *Renderer, want ...string) func(*ssa.BasicBlock, int) bool {
	direct := atomEdgesDirect(fn, R, want...)
	ws := map[string]bool{}
	for _, w := range want {
		ws[w] = true
	}
	type ek struct {
		b *ssa.BasicBlock
		k int
	}
	set := map[ek]bool{}
	var succ []func(*ssa.BasicBlock, int) bool
	if !inHelperFacts {
		for _, b := range fn.Blocks {
			for _, in := range b.Instrs {
				cl, ok := in.(*ssa.Call)
				if !ok {
					continue
				}
				h := cl.Call.StaticCallee()
				if h == nil || h.Blocks == nil || h == fn || !isJivaFn(h) {
					continue
				}
				pos, neg := helperSiteFacts(h)
				if len(pos) == 0 && len(neg) == 0 {
					continue
				}
				args := callArgs(R, cl)
				covers := func(sites [][]string) bool {
					if len(sites) == 0 {
						return false
					}
					for _, fs := range sites {
						hit := false
						for _, f := range fs {
							if ws[substParams(f, args)] {
								hit = true
								break
							}
						}
						if !hit {
							return false
						}
					}
					return true
				}
				posOK, negOK := covers(pos), covers(neg)
				if !posOK && !negOK {
					continue
				}
				if bi := boolResultIndex(h); bi >= 0 {
					// edges of branches on this call's (boolean) value
					for _, bb := range fn.Blocks {
						iff, ok := bb.Instrs[len(bb.Instrs)-1].(*ssa.If)
						if !ok {
							continue
						}
						cond, negd := iff.Cond, false
						for {
							if u, ok := cond.(*ssa.UnOp); ok && u.Op == token.NOT {
								cond, negd = u.X, !negd
								continue
							}
							break
						}
						if ex, ok := cond.(*ssa.Extract); ok && ex.Tuple == ssa.Value(cl) && ex.Index == bi {
							cond = cl
						} else if h.Signature.Results().Len() != 1 {
							continue
						}
						if cond == ssa.Value(cl) {
							tk, fk := 0, 1
							if negd {
								tk, fk = 1, 0
							}
							if posOK {
								set[ek{bb, tk}] = true
							}
							if negOK {
								set[ek{bb, fk}] = true
							}
						}
					}
				} else if errResultIndex(h) >= 0 && posOK {
					succ = append(succ, successEdgesOfCall(fn, cl))
				}
			}
		}
	}
	return func(b *ssa.BasicBlock, k int) bool {
		if direct(b, k) || set[ek{b, k}] {
			return true
		}
		for _, f := range succ {
			if f(b, k) {
				return true
			}
		}
		return false
	}
}

// boolResultIndex: index of the first boolean result of h, -1 if none.
func boolResultIndex(h *ssa.Function) int {
	res := h.Signature.Results()
	for i := 0; i < res.Len(); i++ {
		if isBoolType(res.At(i).Type()) {
			return i
		}
	}
	return -1
}

func isBoolType(t types.Type) bool {
	b, ok := t.Underlying().(*types.Basic)
	return ok && b.Info()&types.IsBoolean != 0
}

func isJivaFn(f *ssa.Function) bool {
	if f.Pkg != nil {
		return isJivaPkg(f.Pkg.Pkg)
	}
	if f.Parent() != nil {
		return isJivaFn(f.Parent())
	}
	return false
}

type siteFacts struct{ pos, neg [][]string }

var (
	helperFactsMemo = map[*ssa.Function]*siteFacts{}
	inHelperFacts   bool
)

// helperFacts: atoms (over h's parameters) that hold whenever h returns true (boolean helper)
// or a nil error (fallible helper).
func helperFacts(h *ssa.Function) []string {
	pos, _ := helperSiteFacts(h)
	var out []string
	for i, fs := range pos {
		if i == 0 {
			out = append(out, fs...)
			continue
		}
		m := map[string]bool{}
		for _, f := range fs {
			m[f] = true
		}
		var keep []string
		for _, a := range out {
			if m[a] {
				keep = append(keep, a)
			}
		}
		out = keep
	}
	sort.Strings(out)
	return out
}

// helperSiteFacts: for every positive return site of h (true / nil error) and every negative
// one (false; boolean helpers only), the atoms over h's parameters that dominate it.
func helperSiteFacts(h *ssa.Function) (pos, neg [][]string) {
	if f, ok := helperFactsMemo[h]; ok {
		if f == nil {
			return nil, nil
		}
		return f.pos, f.neg
	}
	helperFactsMemo[h] = nil
	if len(h.Blocks) == 0 || len(h.Blocks) > 40 {
		return nil, nil
	}
	bi := boolResultIndex(h)
	isBool := bi >= 0
	ei := errResultIndex(h)
	if !isBool && ei < 0 {
		return nil, nil
	}
	prev := inHelperFacts
	inHelperFacts = true
	defer func() { inHelperFacts = prev }()
	R := NewRenderer(h)
	cands := map[string]bool{}
	for _, ea := range allAtoms(h, R) {
		cands[ea.Atom.String()] = true
	}
	type site struct {
		at    ssa.Instruction
		extra []string
		neg   bool
	}
	var sites []site
	for _, r := range Returns(h) {
		idx := bi
		if !isBool {
			idx = ei
		}
		if idx >= len(r.Results) {
			continue
		}
		v := strip(r.Results[idx])
		addVal := func(val ssa.Value, at ssa.Instruction, extra []string) {
			if isBool {
				if c, ok := val.(*ssa.Const); ok {
					if c.Value != nil && c.Value.String() == "true" {
						sites = append(sites, site{at, extra, false})
					} else {
						sites = append(sites, site{at, extra, true})
					}
					return
				}
				a := R.CondAtom(val)
				sites = append(sites, site{at, append(append([]string{}, extra...), a.String()), false})
				sites = append(sites, site{at, append(append([]string{}, extra...), a.Neg().String()), true})
				return
			}
			if isNilConst(val) {
				sites = append(sites, site{at, extra, false})
				return
			}
			if provablyNonNilError(val) {
				return
			}
			sites = append(sites, site{at, append(append([]string{}, extra...), isNilAtom(R.V(val))), false})
		}
		if p, ok := v.(*ssa.Phi); ok {
			for _, e := range allPhiEdges(p) {
				var extra []string
				last := e.from.Instrs[len(e.from.Instrs)-1]
				if iff, ok := last.(*ssa.If); ok && e.to != nil {
					a := R.CondAtom(iff.Cond)
					if e.from.Succs[0] == e.to && e.from.Succs[1] != e.to {
						extra = append(extra, a.String())
					} else if e.from.Succs[1] == e.to && e.from.Succs[0] != e.to {
						extra = append(extra, a.Neg().String())
					}
				}
				addVal(strip(e.val), last, extra)
			}
		} else {
			addVal(v, r, nil)
		}
	}
	if len(sites) == 0 {
		return nil, nil
	}
	for _, s := range sites {
		fs := map[string]bool{}
		for _, e := range s.extra {
			fs[e] = true
		}
		for a := range cands {
			at := s.at
			ws := Query{Fn: h, IsSite: func(in ssa.Instruction) bool { return in == at }, GenEdge: atomEdgesDirect(h, R, a)}.Run()
			if len(ws) == 0 {
				fs[a] = true
			}
		}
		var l []string
		for a := range fs {
			l = append(l, a)
		}
		sort.Strings(l)
		if s.neg {
			neg = append(neg, l)
		} else {
			pos = append(pos, l)
		}
	}
	helperFactsMemo[h] = &siteFacts{pos, neg}
	return pos, neg
}

func atomEdgesDirect(fn *ssa.Function, R *Renderer, want ...string) func(*ssa.BasicBlock, int) bool {
	type ek struct {
		b *ssa.BasicBlock
		k int
	}
	set := map[ek]bool{}
	ws := map[string]bool{}
	for _, w := range want {
		ws[w] = true
	}
	for _, b := range fn.Blocks {
		if len(b.Instrs) == 0 {
			continue
		}
		iff, ok := b.Instrs[len(b.Instrs)-1].(*ssa.If)
		if !ok {
			continue
		}
		a := R.CondAtom(iff.Cond)
		if ws[a.String()] {
			set[ek{b, 0}] = true
		}
		if ws[a.Neg().String()] {
			set[ek{b, 1}] = true
		}
	}
	return func(b *ssa.BasicBlock, k int) bool { return set[ek{b, k}] }
}

// allAtoms lists (edge, atom string) of a function; used by -dump and by rules that search.
type EdgeAtom struct {
	B    *ssa.BasicBlock
	Succ int
	Atom Atom
}

func allAtoms(fn *ssa.Function, R *Renderer) []EdgeAtom {
	var out []EdgeAtom
	for _, b := range fn.Blocks {
		if len(b.Instrs) == 0 {
			continue
		}
		iff, ok := b.Instrs[len(b.Instrs)-1].(*ssa.If)
		if !ok {
			continue
		}
		a := R.CondAtom(iff.Cond)
		out = append(out, EdgeAtom{b, 0, a}, EdgeAtom{b, 1, a.Neg()})
	}
	return out
}

func orEdges(fs ...func(*ssa.BasicBlock, int) bool) func(*ssa.BasicBlock, int) bool {
	return func(b *ssa.BasicBlock, k int) bool {
		for _, f := range fs {
			if f != nil && f(b, k) {
				return true
			}
		}
		return false
	}
}

// flagEdgesImplying: branch edges on a boolean flag variable (a phi of constants true/false)
// whose polarity can only come from assignments made behind a base edge: for `found := false;
// for … { if c { found = true; break } }; if !found {…}` the edge !found implies the loop's
// exhaustion edge.  An incoming constant counts when the phi edge that carries it is a base
// edge itself or leaves a block that base cuts off from the entry.
func flagEdgesImplying(fn *ssa.Function, base func(*ssa.BasicBlock, int) bool) func(*ssa.BasicBlock, int) bool {
	type ek struct {
		b *ssa.BasicBlock
		k int
	}
	set := map[ek]bool{}
	for _, b := range fn.Blocks {
		iff, ok := b.Instrs[len(b.Instrs)-1].(*ssa.If)
		if !ok {
			continue
		}
		cond, neg := iff.Cond, false
		for {
			if u, ok := cond.(*ssa.UnOp); ok && u.Op == token.NOT {
				cond, neg = u.X, !neg
				continue
			}
			break
		}
		p, ok := cond.(*ssa.Phi)
		if !ok || !isBoolType(p.Type()) {
			continue
		}
		for _, pol := range []bool{true, false} {
			okAll, n := true, 0
			for _, e := range allPhiEdges(p) {
				cst, isC := strip(e.val).(*ssa.Const)
				if !isC || cst.Value == nil {
					okAll = false
					break
				}
				if (cst.Value.String() == "true") != pol {
					continue
				}
				n++
				covered := false
				for k, s := range e.from.Succs {
					if s == e.to && base(e.from, k) {
						covered = true
					}
				}
				if !covered {
					site := e.from.Instrs[len(e.from.Instrs)-1]
					if len(Query{Fn: fn, IsSite: func(in ssa.Instruction) bool { return in == site }, GenEdge: base}.Run()) == 0 {
						covered = true
					}
				}
				if !covered {
					okAll = false
				}
			}
			if okAll && n > 0 {
				k := 0
				if pol == neg {
					k = 1
				}
				set[ek{b, k}] = true
			}
		}
	}
	return func(b *ssa.BasicBlock, k int) bool { return set[ek{b, k}] }
}

var sentinelMemo = map[*ssa.Global]bool{}

// sentinelErrGlobal: a package-level variable of type error that is assigned only in its own
// package, at least once, and only with fresh errors (errors.New / fmt.Errorf).
func sentinelErrGlobal(g *ssa.Global) bool {
	if v, ok := sentinelMemo[g]; ok {
		return v
	}
	sentinelMemo[g] = false
	if g.Pkg == nil || g.Object() == nil || g.Object().Exported() {
		return false
	}
	n := 0
	ok := true
	for _, fn := range fnsOfProg[g.Pkg.Prog] {
		pk := fn.Pkg
		if pk == nil && fn.Parent() != nil {
			pk = fn.Parent().Pkg
		}
		if pk != g.Pkg {
			continue
		}
		for _, b := range fn.Blocks {
			for _, in := range b.Instrs {
				st, isSt := in.(*ssa.Store)
				if !isSt || st.Addr != ssa.Value(g) {
					continue
				}
				n++
				cl, isCall := strip(st.Val).(*ssa.Call)
				if !isCall || cl.Common().StaticCallee() == nil {
					ok = false
					continue
				}
				switch cl.Common().StaticCallee().String() {
				case "fmt.Errorf", "errors.New":
				default:
					ok = false
				}
			}
		}
	}
	sentinelMemo[g] = ok && n > 0
	return sentinelMemo[g]
}
