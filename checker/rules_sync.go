package main

import (
	"fmt"
	"go/token"
	"go/types"
	"strings"

	"golang.org/x/tools/go/ssa"
)

const (
	fTask = "(*sync.Task)."
	fRC   = "(*replica/client.ReplicaClient)."
	fCC   = "(*controller/client.ControllerClient)."
)

// okOf: success edges of the call(s) of `name` in fn whose rendering contains all of `subs`.
func okOf(fn *ssa.Function, R *Renderer, name string, subs ...string) Need {
	var fs []func(*ssa.BasicBlock, int) bool
	var used []ssa.Instruction
	n := 0
	for _, call := range CallsToW(fn, name) {
		s := renderVia(R, call, name)
		match := true
		for _, sub := range subs {
			if !strings.Contains(s, sub) {
				match = false
			}
		}
		if match {
			n++
			fs = append(fs, successEdgesOfCall(fn, call))
			used = append(used, call)
		}
	}
	d := "success of " + name
	if len(subs) > 0 {
		d += "(" + strings.Join(subs, ",") + ")"
	}
	if n == 0 {
		return Need{Desc: d + " [call not found]", Edge: func(*ssa.BasicBlock, int) bool { return false }}
	}
	return Need{Desc: d, Edge: orEdges(fs...), SuccessOf: used}
}

func callsMatching(fn *ssa.Function, R *Renderer, name string, subs ...string) []ssa.Instruction {
	var out []ssa.Instruction
	for _, call := range CallsToW(fn, name) {
		s := renderVia(R, call, name)
		match := true
		for _, sub := range subs {
			if !strings.Contains(s, sub) {
				match = false
			}
		}
		if match {
			out = append(out, call)
		}
	}
	return out
}

// ---------------------------------------------------------------------------
// C07-SYNC-ORDER
// ---------------------------------------------------------------------------

func ruleC07Sync(c *Ctx) {
	const rule = "C07-SYNC-ORDER"
	c.Doc(rule, "sync.(*Task).AddReplica: hole punching is switched off and the replica marked rebuilding before PrepareRebuild / syncFiles; reloadAndVerify runs only after the chains were found equal or syncFiles succeeded.  reloadAndVerify: ReloadReplica -> SyncDir -> UpdateLUNMap -> VerifyRebuildReplica -> SetRebuilding(false), each cut off by the success edge of its predecessor.  syncFiles copies <disk> and <disk>.meta for every element oldest first and refuses heads")
	if fn := c.Anchor(rule, fTask+"reloadAndVerify"); fn != nil {
		R := NewRenderer(fn)
		steps := []struct {
			name string
			subs []string
		}{
			{fRC + "ReloadReplica", nil}, {fRep + "SyncDir", nil}, {fSrv + "UpdateLUNMap", nil}, {fCC + "VerifyRebuildReplica", nil}, {fRC + "SetRebuilding", []string{",false)"}},
		}
		for i := 1; i < len(steps); i++ {
			sites := callsMatching(fn, R, steps[i].name, steps[i].subs...)
			if len(sites) != 1 {
				c.Bad(rule, FnName(fn)+" | step "+steps[i].name, "", fmt.Sprintf("expected exactly one call, found %d", len(sites)), nil)
				continue
			}
			var needs []Need
			for j := 0; j < i; j++ {
				needs = append(needs, okOf(fn, R, steps[j].name, steps[j].subs...))
			}
			c.Guard(rule, fn, sites, "step "+steps[i].name, nil, needs...)
		}
		c.Guard(rule, fn, nilErrorReturns(fn), "return nil", nil, okOf(fn, R, fRC+"SetRebuilding", ",false)"), okOf(fn, R, fCC+"VerifyRebuildReplica"))
		// reload without preload: the block map is rebuilt by UpdateLUNMap
		c.reloadWithoutPreload(rule, fn, R, "$1")
	}
	if fn := c.Anchor(rule, fTask+"AddReplica"); fn != nil {
		R := NewRenderer(fn)
		noPunch := Need{Desc: "types.ShouldPunchHoles = false", Instr: func(in ssa.Instruction) bool {
			s, ok := in.(*ssa.Store)
			return ok && R.V(s.Addr) == "global:types.ShouldPunchHoles" && R.V(s.Val) == "false"
		}}
		sites := append(CallsTo(fn, fCC+"PrepareRebuild"), CallsTo(fn, fTask+"syncFiles")...)
		c.Guard(rule, fn, sites, "copy phase", func(in ssa.Instruction) bool {
			s, ok := in.(*ssa.Store)
			return ok && R.V(s.Addr) == "global:types.ShouldPunchHoles" && R.V(s.Val) == "true"
		}, noPunch)
		c.Guard(rule, fn, sites, "copy phase", nil,
			okOf(fn, R, fRC+"SetRebuilding", ",true)"),
			okOf(fn, R, fCC+"CreateReplica"))
		c.Guard(rule, fn, CallsTo(fn, fTask+"syncFiles"), "syncFiles", nil, okOf(fn, R, fCC+"PrepareRebuild"), okOf(fn, R, fTask+"isRevisionCountAndChainSame"))
		rv := CallsTo(fn, fTask+"reloadAndVerify")
		c.Guard(rule, fn, rv, "reloadAndVerify", nil,
			Need{Desc: "chains already equal or files synced", Atoms: sameVerdictAtoms(fn, R), Edge: okOf(fn, R, fTask+"syncFiles").Edge})
		// the WO path returns nil only after reloadAndVerify succeeded; the start path only after Start succeeded
		c.Guard(rule, fn, nilErrorReturns(fn), "return nil", nil,
			Need{Desc: "volume started or rebuild verified", Edge: orEdges(okOf(fn, R, fCC+"Start").Edge, okOf(fn, R, fTask+"reloadAndVerify").Edge)})
		if len(rv) != 1 {
			c.Bad(rule, FnName(fn)+" | structure", "", "expected one reloadAndVerify call", nil)
		}
	}
	c.Floor(rule, 1)
}

// ruleC09Register: replica side of the bootstrap.
func ruleC09Register(c *Ctx) {
	const rule = "C09-REGISTER"
	c.Doc(rule, "sync.(*Task).AddReplica (replica side): while the volume has no replica, the replica registers before EVERY wait for an action (the controller forgets a registration after a failed start signal / liveness probe and relies on the replica registering again); the registration carries the replica's own revision count, UUID and previous state; on action start it calls Start with its own address")
	fn := c.Anchor(rule, fTask+"AddReplica")
	if fn == nil {
		return
	}
	R := NewRenderer(fn)
	reg := CallsTo(fn, fCC+"Register")
	var sels []ssa.Instruction
	eachInstr(fn, func(in ssa.Instruction) {
		if _, ok := in.(*ssa.Select); ok {
			sels = append(sels, in)
		}
	})
	if len(reg) != 1 || len(sels) != 1 {
		c.Bad(rule, FnName(fn)+" | structure", "", "expected one Register call and one select waiting for the action", nil)
		return
	}
	ws := Query{Fn: fn, IsSite: func(in ssa.Instruction) bool { return in == sels[0] },
		Gen: func(in ssa.Instruction) bool { return in == reg[0] }, Kill: func(in ssa.Instruction) bool { return in == sels[0] }}.Run()
	if len(ws) == 0 {
		c.OK(rule, FnName(fn)+" | registers before every wait", c.P.InstrPos(reg[0]), "each arrival at the select is preceded by a Register call of the same round", true)
	} else {
		c.Bad(rule, FnName(fn)+" | registers before every wait", c.P.InstrPos(sels[0]), "the wait for an action can be re-entered without registering again: a replica the controller has forgotten never comes back", c.witness(ws[0]))
	}
	got := callRender(R, reg[0])
	if strings.Contains(got, fRep+"GetRevisionCounter(replica.CreateTempReplica($2)#0)") && strings.Contains(got, ".UUID") && strings.Contains(got, "PrevStatus(") {
		c.OK(rule, FnName(fn)+" | registers its own revision count, UUID and previous state", c.P.InstrPos(reg[0]), "", false)
	} else {
		c.Bad(rule, FnName(fn)+" | registers its own revision count, UUID and previous state", c.P.InstrPos(reg[0]), "Register is called as "+got, nil)
	}
	c.Guard(rule, fn, reg, "register", nil, atom("volume has no replica yet", "+"+fCC+"GetVolume($0.client)#0.ReplicaCount ==0"))
	st := CallsTo(fn, fCC+"Start")
	ownAddr := false
	if len(st) == 1 {
		for _, in := range st[0].Block().Instrs {
			if x, ok := in.(*ssa.Store); ok && R.V(x.Addr) == "&&var(varargs)[+0]" && R.V(x.Val) == "$1" {
				ownAddr = true
			}
		}
	}
	if len(st) == 1 && ownAddr && callRender(R, st[0]) == fCC+"Start($0.client,&var(varargs)[:])" {
		c.Guard(rule, fn, st, "start volume", nil, atom("action is start", eqAtom(`"start"`, `phi{"" | select#3}`)))
	} else {
		c.Bad(rule, FnName(fn)+" | starts with its own address", "", "expected t.client.Start(replicaAddress)", nil)
	}
	c.Floor(rule, 4)
}

func ruleC07SyncFiles(c *Ctx) { ruleSyncFilesAs("C07-SYNC-ORDER", 20)(c) }

func ruleSyncFilesAs(rule string, floor int) ruleFn {
	return func(c *Ctx) { syncFilesRule(c, rule, floor) }
}

func syncFilesRule(c *Ctx, rule string, floor int) {
	if fn := c.Anchor(rule, fTask+"syncFiles"); fn != nil {
		R := NewRenderer(fn)
		sf := CallsTo(fn, fTask+"syncFile")
		var data, meta []ssa.Instruction
		for _, s := range sf {
			r := callRender(R, s)
			switch {
			case strings.Contains(r, `+ ".meta")`):
				meta = append(meta, s)
			default:
				data = append(data, s)
			}
		}
		if len(data) == 1 && len(meta) == 1 {
			d := callRender(R, data[0])
			if strings.Contains(d, "$3[-* +len($3) -1]") {
				c.OK(rule, FnName(fn)+" | oldest snapshot first", c.P.InstrPos(data[0]), "disk := disks[len(disks)-1-i]", false)
			} else {
				c.Bad(rule, FnName(fn)+" | oldest snapshot first", c.P.InstrPos(data[0]), "copy order changed: "+d, nil)
			}
			c.Guard(rule, fn, meta, "copy <disk>.meta", nil, Need{Desc: "data file copied first", Edge: successEdgesOfCall(fn, data[0])})
			c.Guard(rule, fn, data, "copy <disk>", nil, atom("not a head file", `!strings.Contains($3[-* +len($3) -1],"volume-head")`), okOf(fn, R, fTask+"initalizeSyncProgress"))
			c.Guard(rule, fn, nilErrorReturns(fn), "return nil", nil, atom("every disk visited", "+* -len($3) >=0"))
			// ... and copied: no iteration moves on to the next disk without both transfers having
			// succeeded (a `continue` for a disk that "looks the same on both sides" skips the copy)
			var header *ssa.BasicBlock
			for d := data[0].Block(); d != nil; d = d.Idom() {
				if !inLoop(d) || len(d.Instrs) == 0 {
					continue
				}
				if _, isIf := d.Instrs[len(d.Instrs)-1].(*ssa.If); !isIf {
					continue
				}
				if _, isPhi := d.Instrs[0].(*ssa.Phi); isPhi && d != data[0].Block() {
					header = d
					break
				}
			}
			if header == nil || len(header.Succs) != 2 || len(header.Succs[0].Instrs) == 0 {
				c.Undecided(rule, FnName(fn)+" | every disk copied", c.P.Pos(fn.Pos()), "header of the copy loop not found")
			} else {
				test := header.Instrs[len(header.Instrs)-1]
				okMeta := successEdgesOfCall(fn, meta[0])
				ws := Query{Fn: fn, Start: header.Succs[0].Instrs[0], GenEdge: okMeta,
					IsSite: func(in ssa.Instruction) bool { return in == test }}.Run()
				key := FnName(fn) + " | every disk copied before the next one"
				if len(ws) == 0 {
					c.OK(rule, key, c.P.InstrPos(meta[0]), "the loop test is reached again only through the success of the metadata copy", true)
				} else {
					c.Bad(rule, key, c.P.InstrPos(test), "an iteration can move on to the next disk without having copied this one (data and metadata)", c.witness(ws[0]))
				}
			}
		} else {
			c.Bad(rule, FnName(fn)+" | copies <disk> and <disk>.meta", "", fmt.Sprintf("found %d data and %d meta copies", len(data), len(meta)), nil)
		}
	}
	if fn := c.Anchor(rule, fTask+"syncFile"); fn != nil {
		R := NewRenderer(fn)
		c.Guard(rule, fn, CallsTo(fn, fRC+"SendFile"), "send", nil, okOf(fn, R, fRC+"LaunchReceiver"))
		// returns the send error
		ok := false
		for _, r := range Returns(fn) {
			for _, s := range CallsTo(fn, fRC+"SendFile") {
				if sameValue(r.Results[0], errOfCall(s)) || strings.Contains(R.V(r.Results[0]), "SendFile") {
					ok = true
				}
			}
		}
		if ok {
			c.OK(rule, FnName(fn)+" | transfer error returned", "", "the error of SendFile is the function's result", false)
		} else {
			c.Bad(rule, FnName(fn)+" | transfer error returned", "", "a failed file transfer is not reported", nil)
		}
	}
	c.Floor(rule, floor)
}

// ---------------------------------------------------------------------------
// C11-CANDIDATES / C11-CLEANER
// ---------------------------------------------------------------------------

func ruleC11Sync(c *Ctx) {
	const rule = "C11-CLEANER"
	c.Doc(rule, "GetDeleteCandidateChain: candidates are the slice [1:indx] of the base-first chain, indx being the position at which the checkpoint was found, cut off by checkpointFound, indx>1, len>3, checkpoint != \"\"; a name is emitted only if the disk is not (UserCreated && !Removed) and its parent is not (UserCreated && !Removed).  InternalSnapshotCleaner: PrepareRemoveDisk is called with candidate[0] only when the controller's checkpoint equals the replica's; within one round RemoveDiffDisk is reachable from Coalesce only through Coalesce's success edge")
	if fn := c.Anchor(rule, "sync.GetDeleteCandidateChain"); fn != nil {
		R := NewRenderer(fn)
		src := fRep + "Chain($0)#0"
		// (1) the base-first copy of the chain: built by appending chain[len-1..0], or allocated with
		// the chain's length and filled at len-1-i
		chain := "phi{append(…,&var(varargs)[:]) | nil}"
		rev := false
		eachInstr(fn, func(in ssa.Instruction) {
			switch x := in.(type) {
			case *ssa.Call:
				if callMatches(x, "builtin:append") {
					if el := appendedElem(R, x); el == src+"[-* +len("+src+") -1]" {
						rev = true
					}
				}
			case *ssa.Store:
				filled := "makeslice(len(" + src + "))"
				if R.V(x.Addr) == "&"+filled+"[-* +len("+src+") -1]" && R.V(x.Val) == src+"[*]" {
					// every element is placed: the filling loop must have run to its end before the copy is used
					chain, rev = filled, true
				}
			}
		})
		if rev {
			c.OK(rule, FnName(fn)+" | chain walked base first", "", "the base-first copy holds chain[len-1-i] at i", false)
		} else {
			c.Bad(rule, FnName(fn)+" | chain walked base first", "", "the base-first copy of the chain is built differently", nil)
		}
		// (2) the checkpoint's position: a search loop with a found flag, or the package's find()
		idx, viaFind := "phi{* | 0}", false
		eachInstr(fn, func(in ssa.Instruction) {
			if cl, ok := in.(*ssa.Call); ok && callRender(R, cl) == "sync.find("+chain+",$1)" {
				idx, viaFind = "sync.find("+chain+",$1)", true
			}
		})
		// (3) the candidates: range over chain[1:idx], or an index loop from 1 while pos < idx
		var slices []ssa.Instruction
		eachInstr(fn, func(in ssa.Instruction) {
			if s, ok := in.(*ssa.Slice); ok && R.V(s) == chain+"[+1:+"+idx+"]" {
				slices = append(slices, in)
			}
		})
		cand := chain + "[+1:+" + idx + "][*]"
		byIndex := false
		if len(slices) == 0 {
			cand, byIndex = chain+"[+*1]", true
		}
		var names []ssa.Instruction
		eachInstr(fn, func(in ssa.Instruction) {
			if s, ok := in.(*ssa.Store); ok && strings.HasSuffix(R.V(s.Addr), ".name") {
				names = append(names, in)
				if v := R.V(s.Val); v != cand {
					c.Bad(rule, FnName(fn)+" | emitted name is the examined disk", c.P.InstrPos(in), "emits "+v, nil)
				}
			}
		})
		if len(names) == 0 {
			c.Bad(rule, FnName(fn)+" | emits candidates", "", "no candidate name is stored", nil)
		}
		foundNeed := atom("checkpoint found in chain", "phi{false | true}")
		if viaFind {
			// find answers -1 when the item is absent: indx >= 2 implies "found"
			foundNeed = atom("checkpoint found in chain (find() >= 2)", "+"+idx+" -2 >=0")
		}
		rangeNeeds := []Need{foundNeed,
			atom("checkpoint not base nor the one above it", "+"+idx+" -2 >=0"),
			atom("chain longer than head+latest+base", "+len("+chain+") -4 >=0"),
			atom("checkpoint given", neAtom(`""`, "$1"))}
		if byIndex {
			rangeNeeds = append(rangeNeeds, atom("candidate below the checkpoint", "-*1 +"+idx+" -1 >=0"))
			if chain != "phi{append(…,&var(varargs)[:]) | nil}" {
				rangeNeeds = append(rangeNeeds, atom("base-first copy complete", "+* -len("+src+") >=0"))
			}
			c.Guard(rule, fn, names, "candidates = chain[1:indx]", nil, rangeNeeds...)
		} else if len(slices) == 0 {
			c.Bad(rule, FnName(fn)+" | candidate range is chain[1:indx]", "", "no slice of the chain from 1 up to (excluding) the checkpoint's index", nil)
		} else {
			if chain != "phi{append(…,&var(varargs)[:]) | nil}" {
				rangeNeeds = append(rangeNeeds, atom("base-first copy complete", "+* -len("+src+") >=0"))
			}
			c.Guard(rule, fn, slices[:1], "candidates = chain[1:indx]", nil, rangeNeeds...)
		}
		// the index is where the checkpoint was found
		found := false
		if viaFind {
			found = findIsFirstIndexOrMinusOne(c)
		}
		for _, ea := range allAtoms(fn, R) {
			if ea.Atom.String() == eqAtom("$1", chain+"[*]") {
				found = true
			}
		}
		if found {
			c.OK(rule, FnName(fn)+" | indx is the checkpoint's position", "", "search loop compares each chain element with the checkpoint and breaks", false)
		} else {
			c.Bad(rule, FnName(fn)+" | indx is the checkpoint's position", "", "the search for the checkpoint in the chain changed", nil)
		}
		D := fRep + "ListDisks($0)[" + cand + "]"
		Pp := fRep + "ListDisks($0)[" + D + ".Parent]"
		c.Guard(rule, fn, names, "emit candidate", nil,
			atom("disk is not a retained user snapshot", "!"+D+".UserCreated", D+".Removed"),
			atom("merge target (parent) is not a retained user snapshot", "!"+Pp+".UserCreated", Pp+".Removed"))
	}
	if fn := c.Anchor(rule, fTask+"InternalSnapshotCleaner"); fn != nil {
		R := NewRenderer(fn)
		ck := fCC + "GetCheckpoint($0.client)#0"
		srvR := c.P.callTerm(fSrv+"Replica", "$1")
		cands := "sync.GetDeleteCandidateChain(" + srvR + "," + ck + ")#0"
		pr := CallsTo(fn, fSrv+"PrepareRemoveDisk")
		if len(pr) == 1 && callRender(R, pr[0]) == fSrv+"PrepareRemoveDisk($1,"+cands+"[+0])" {
			c.OK(rule, FnName(fn)+" | removes candidate[0] computed for the controller's checkpoint", c.P.InstrPos(pr[0]), "", false)
		} else {
			c.Bad(rule, FnName(fn)+" | removes candidate[0] computed for the controller's checkpoint", "", "PrepareRemoveDisk is not called with GetDeleteCandidateChain(replica, controllerCheckpoint)[0]", nil)
		}
		c.Guard(rule, fn, pr, "PrepareRemoveDisk", nil,
			atom("controller checkpoint fetched", isNilAtom(fCC+"GetCheckpoint($0.client)#1")),
			atom("controller checkpoint set", neAtom(`""`, ck)),
			atom("controller and replica agree on the checkpoint", eqAtom(ck, c.P.callTerm(fRep+"Info", srvR)+".Checkpoint")),
			atom("retention count reached", "+len("+cands+") -sync.SnapshotRetentionCount >=0"))
		// the prepared actions are executed in the cleaner itself or in a helper it hands them to
		exec, ER := fn, R
		var via ssa.Instruction
		var viaArgs []string
		if len(CallsTo(fn, fRC+"Coalesce")) == 0 {
			eachInstr(fn, func(in ssa.Instruction) {
				cl, ok := in.(*ssa.Call)
				if !ok || via != nil {
					return
				}
				h := cl.Call.StaticCallee()
				if h == nil || h.Blocks == nil || !isJivaFn(h) || h == fn {
					return
				}
				if len(CallsTo(h, fRC+"Coalesce")) == 1 && len(CallsTo(h, fSrv+"RemoveDiffDisk")) == 1 {
					via, exec, ER, viaArgs = in, h, NewRenderer(h), callArgs(R, cl)
				}
			})
		}
		inFn := func(s string) string {
			if via != nil {
				return substParams(s, viaArgs)
			}
			return s
		}
		co := CallsTo(exec, fRC+"Coalesce")
		rm := CallsTo(exec, fSrv+"RemoveDiffDisk")
		if len(co) == 1 && len(rm) == 1 {
			ops := fSrv + "PrepareRemoveDisk($1," + cands + "[+0])#0[*]"
			if inFn(callRender(ER, co[0])) == fRC+"Coalesce($2,"+ops+".Source,"+ops+".Target)" && inFn(callRender(ER, rm[0])) == fSrv+"RemoveDiffDisk($1,"+ops+".Source)" {
				c.OK(rule, FnName(fn)+" | executes the prepared actions on their own operands", c.P.InstrPos(co[0]), "Coalesce(op.Source, op.Target); RemoveDiffDisk(op.Source)", false)
			} else {
				c.Bad(rule, FnName(fn)+" | executes the prepared actions on their own operands", c.P.InstrPos(co[0]), "operands differ from the prepared action's Source/Target: "+inFn(callRender(ER, co[0]))+" ; "+inFn(callRender(ER, rm[0])), nil)
			}
			ws := Query{Fn: exec, Start: co[0], IsSite: func(in ssa.Instruction) bool { return in == rm[0] },
				GenEdge: successEdgesOfCall(exec, co[0]), Gen: func(in ssa.Instruction) bool { return via == nil && in == pr[0] }}.Run()
			if len(ws) == 0 {
				c.OK(rule, FnName(fn)+" | no unlink after a failed merge", c.P.InstrPos(rm[0]), "RemoveDiffDisk is reachable from Coalesce only through its success edge (or a new round)", true)
			} else {
				c.Bad(rule, FnName(fn)+" | no unlink after a failed merge", c.P.InstrPos(rm[0]), "after Coalesce failed the loop can still reach RemoveDiffDisk in the same round: the snapshot is unlinked without having been merged", c.witness(ws[0]))
			}
			if via != nil {
				c.Guard(rule, fn, []ssa.Instruction{via}, "execute actions", nil, okOf(fn, R, fSrv+"PrepareRemoveDisk"))
				c.OK(rule, FnName(fn)+" | actions executed by "+FnName(exec), c.P.InstrPos(via), "helper receives the prepared actions", false)
			} else {
				c.Guard(rule, fn, append(co, rm...), "execute action", nil, okOf(fn, R, fSrv+"PrepareRemoveDisk"))
			}
		} else {
			c.Bad(rule, FnName(fn)+" | structure", "", "expected one Coalesce and one RemoveDiffDisk", nil)
		}
	}
	c.Floor(rule, 14)
}

// findIsFirstIndexOrMinusOne: sync.find(list, item) returns a range index of list only on the
// edge list[i] == item, and the constant -1 otherwise.
func findIsFirstIndexOrMinusOne(c *Ctx) bool {
	fn := c.P.Fn("sync.find")
	if fn == nil || len(fn.Blocks) == 0 {
		return false
	}
	R := NewRenderer(fn)
	okAll, hit := true, false
	for _, r := range Returns(fn) {
		if len(r.Results) != 1 {
			return false
		}
		if cst, ok := strip(r.Results[0]).(*ssa.Const); ok {
			if cst.Value == nil || cst.Value.ExactString() != "-1" {
				okAll = false
			}
			continue
		}
		if R.V(r.Results[0]) != "*" {
			okAll = false
			continue
		}
		ws := Query{Fn: fn, IsSite: func(in ssa.Instruction) bool { return in == ssa.Instruction(r) },
			GenEdge: atomEdgesDirect(fn, R, eqAtom("$0[*]", "$1"), eqAtom("$1", "$0[*]"))}.Run()
		if len(ws) > 0 {
			okAll = false
		}
		hit = true
	}
	return okAll && hit
}

// ---------------------------------------------------------------------------
// C19 (sync + app)
// ---------------------------------------------------------------------------

func ruleC19Clone(c *Ctx) {
	const rule = "C19-CLONE-ORDER"
	c.Doc(rule, "sync.(*Task).CloneReplica: success is returned only after, in this order, SetRebuilding(true), syncFiles(chain from S), UpdateCloneInfo(S, revision recorded for S), ReloadReplica, UpdateLUNMap, SetRebuilding(false) each succeeded; the chain copied is the suffix starting at volume-snap-<S>.img and a missing S is an error.  app: clone status becomes \"completed\" only if it already was or the clone succeeded, \"inProgress\" is stored before the copy, a failed clone stores \"error\"")
	if fn := c.Anchor(rule, fTask+"CloneReplica"); fn != nil {
		R := NewRenderer(fn)
		steps := []struct {
			name string
			subs []string
		}{
			{fRC + "SetRebuilding", []string{",true)"}}, {fTask + "syncFiles", nil}, {fRC + "UpdateCloneInfo", nil}, {fRC + "ReloadReplica", nil}, {fSrv + "UpdateLUNMap", nil}, {fRC + "SetRebuilding", []string{",false)"}},
		}
		for i := 1; i < len(steps); i++ {
			sites := callsMatching(fn, R, steps[i].name, steps[i].subs...)
			if len(sites) != 1 {
				c.Bad(rule, FnName(fn)+" | step "+steps[i].name, "", fmt.Sprintf("expected exactly one call, found %d", len(sites)), nil)
				continue
			}
			var needs []Need
			for j := 0; j < i; j++ {
				needs = append(needs, okOf(fn, R, steps[j].name, steps[j].subs...))
			}
			c.Guard(rule, fn, sites, "step "+steps[i].name, nil, needs...)
		}
		var needs []Need
		for _, s := range steps {
			needs = append(needs, okOf(fn, R, s.name, s.subs...))
		}
		c.Guard(rule, fn, successReturns(fn), "return success", nil, needs...)
		// every attempt of the copy enters the rebuilding state itself: a second attempt (after the
		// pause that follows a failed copy) finds the replica rebuilding already, is refused and the
		// clone ends in status "error" - it never copies again with the source, the chain and the
		// "snapshot found" flag the first attempt looked up
		perAttempt := okOf(fn, R, fRC+"SetRebuilding", ",true)")
		perAttempt.Kill = func(in ssa.Instruction) bool { return isPlainCall(in) && CalleeName(in) == "time.Sleep" }
		c.Guard(rule, fn, callsMatching(fn, R, fTask+"syncFiles"), "copy (per attempt)", nil, perAttempt)
		// snapshot must be found
		snap := `(("volume-snap-" + $5) + ".img")`
		c.Guard(rule, fn, CallsTo(fn, fTask+"syncFiles"), "copy", nil, Need{Desc: "snapshot S found in the source chain (snapFound)", Edge: func(b *ssa.BasicBlock, k int) bool {
			iff, ok := b.Instrs[len(b.Instrs)-1].(*ssa.If)
			if !ok {
				return false
			}
			at := R.CondAtom(iff.Cond)
			if k == 1 {
				at = at.Neg()
			}
			s := at.String()
			return strings.HasPrefix(s, "phi{") && strings.Contains(s, "true") && !strings.HasPrefix(s, "!")
		}})
		// snapFound is set only where the chain element equals volume-snap-<S>.img
		fnd := false
		for _, ea := range allAtoms(fn, R) {
			if strings.HasPrefix(ea.Atom.String(), "+"+snap+" -") && strings.HasSuffix(ea.Atom.String(), ".Chain[*] ==0") {
				fnd = true
			}
		}
		if fnd {
			c.OK(rule, FnName(fn)+" | S is searched by its disk name", "", "chain element == volume-snap-<S>.img", false)
		} else {
			c.Bad(rule, FnName(fn)+" | S is searched by its disk name", "", "the search for S in the source chain changed", nil)
		}
		for _, s := range CallsTo(fn, fRC+"UpdateCloneInfo") {
			got := callRender(R, s)
			if strings.Contains(got, "UpdateCloneInfo(") && strings.Contains(got, ",$5,strconv.FormatInt(") && strings.Contains(got, ".Disks["+snap+"].RevisionCounter,10)") {
				c.OK(rule, FnName(fn)+" | revision counter recorded for S", c.P.InstrPos(s), "UpdateCloneInfo(S, source.Disks[volume-snap-S.img].RevisionCounter)", false)
			} else {
				c.Bad(rule, FnName(fn)+" | revision counter recorded for S", c.P.InstrPos(s), "UpdateCloneInfo is called with "+got, nil)
			}
		}
		for _, s := range CallsTo(fn, fTask+"syncFiles") {
			got := callRender(R, s)
			if strings.Contains(got, ".Chain[*:]") || strings.Contains(got, "Chain[+*:]") {
				c.OK(rule, FnName(fn)+" | copies the chain from S downwards", c.P.InstrPos(s), "chain = chain[i:] at the position of S", false)
			} else {
				c.Bad(rule, FnName(fn)+" | copies the chain from S downwards", c.P.InstrPos(s), "syncFiles receives "+got, nil)
			}
		}
	}
	if fn := c.Anchor(rule, "app.CloneReplica"); fn != nil {
		R := NewRenderer(fn)
		c.Guard(rule, fn, callsMatching(fn, R, fRep+"SetCloneStatus", `"completed"`), "status = completed", nil, okOf(fn, R, fTask+"CloneReplica"))
		c.Guard(rule, fn, nilErrorReturns(fn), "return nil", nil, okOf(fn, R, fTask+"CloneReplica"))
		c.Guard(rule, fn, successReturns(fn), "return success", nil, okOf(fn, R, fTask+"CloneReplica"))
	}
	if fn := c.Anchor(rule, "app.startReplica"); fn != nil {
		R := NewRenderer(fn)
		st := c.P.callTerm(fRep+"GetCloneStatus", c.P.callTerm(fSrv+"Replica", "replica.NewServer("))
		if i := strings.Index(st, "replica.NewServer("); i >= 0 {
			st = st[:i+len("replica.NewServer(")]
		}
		var already string
		for _, ea := range allAtoms(fn, R) {
			s := ea.Atom.String()
			if strings.HasPrefix(s, `+"completed" -`+st) && strings.HasSuffix(s, "==0") {
				already = s
			}
		}
		comp := callsMatching(fn, R, fRep+"SetCloneStatus", `"completed"`)
		if already == "" || len(comp) == 0 {
			c.Bad(rule, FnName(fn)+" | structure", "", "startReplica must test GetCloneStatus()==completed and store completed", nil)
		} else {
			c.Guard(rule, fn, comp, "status = completed", nil,
				Need{Desc: "already completed, or the clone succeeded", Atoms: []string{already}, Edge: okOf(fn, R, "app.CloneReplica").Edge})
		}
		cl := CallsTo(fn, "app.CloneReplica")
		c.Guard(rule, fn, cl, "start copy", nil, okOf(fn, R, fRep+"SetCloneStatus", `"inProgress"`))
		if len(cl) == 1 {
			_, nonNil := nilTestEdges(fn, errOfCall(cl[0]))
			// through phi / variable
			ws := afterEdge(fn, func(b *ssa.BasicBlock, k int) bool {
				// failure edges: complement of success edges at the same branch
				// failure edges of the branch that immediately follows the call
				if b != cl[0].Block() {
					return false
				}
				if successEdgesOfCall(fn, cl[0])(b, 1-k) && len(b.Succs) == 2 {
					return true
				}
				return nonNil(b, k)
			}, func(in ssa.Instruction) bool {
				return strings.Contains(callRender(R, in), "SetCloneStatus(") && strings.Contains(callRender(R, in), `"error")`)
			}, nil, func(in ssa.Instruction) bool { _, ok := in.(*ssa.Return); return ok })
			if len(ws) == 0 {
				c.OK(rule, FnName(fn)+" | failed clone stores status error", c.P.InstrPos(cl[0]), "every return after a failed CloneReplica passes SetCloneStatus(\"error\")", true)
			} else {
				c.Bad(rule, FnName(fn)+" | failed clone stores status error", c.P.InstrPos(cl[0]), "a failed clone can return without recording status \"error\"", c.witness(ws[0]))
			}
		}
	}
	// SetCloneStatus persists
	if fn := c.Anchor(rule, fRep+"SetCloneStatus"); fn != nil {
		R := NewRenderer(fn)
		enc := CallsTo(fn, fRep+"encodeToFile")
		if len(enc) == 1 && callRender(R, enc[0]) == fRep+`encodeToFile($0,&$0.info,"volume.meta")` {
			c.Guard(rule, fn, enc, "persist", nil, Need{Desc: "info.CloneStatus stored", Instr: func(in ssa.Instruction) bool {
				s, ok := in.(*ssa.Store)
				return ok && R.V(s.Addr) == "&$0.info.CloneStatus" && R.V(s.Val) == "$1"
			}})
		} else {
			c.Bad(rule, FnName(fn)+" | persisted in volume.meta", "", "SetCloneStatus must write volume.meta", nil)
		}
	}
	// GetCloneStatus reads the persisted value
	if fn := c.Anchor(rule, fRep+"GetCloneStatus"); fn != nil {
		if len(CallsTo(fn, fRep+"unmarshalFile")) == 1 {
			c.OK(rule, FnName(fn)+" | reads the persisted status", "", "unmarshalFile(volume.meta)", false)
		} else {
			c.Bad(rule, FnName(fn)+" | reads the persisted status", "", "GetCloneStatus no longer reads volume.meta", nil)
		}
	}
	c.Floor(rule, 24)
}

// ---------------------------------------------------------------------------
// C11-RESTGUARD
// ---------------------------------------------------------------------------

func ruleC11Rest(c *Ctx) {
	const rule = "C11-RESTGUARD"
	c.Doc(rule, "controller REST DeleteSnapshot: Controller.DeleteSnapshot is called only under the controller write lock, with all RF replicas RW, a checkpoint set and a snapshot name that is not (part of) the checkpoint; Controller.DeleteSnapshot only asks every replica to prepare (mark) the removal")
	fn := c.Anchor(rule, "(*controller/rest.Server).DeleteSnapshot")
	if fn != nil {
		R := NewRenderer(fn)
		sites := CallsTo(fn, fCtl+"DeleteSnapshot")
		lr := c.P.callTerm(fCtl+"ListReplicas", "$0.c")
		c.Guard(rule, fn, sites, "delete snapshot", lockOrUnlock,
			needWLock("controller write lock taken"),
			atom("request body parsed", isNilAtom("(*github.com/rancher/go-rancher/api.ApiContext).Read(github.com/rancher/go-rancher/api.GetApiContext($2),&var(controller/rest.SnapshotInput))")),
			atom("all RF replicas are RW", eqAtom("$0.c.ReplicationFactor", `count{+"RW" -`+lr+`[*].Mode ==0}`)),
			atom("checkpoint set", neAtom(`""`, "$0.c.Checkpoint")),
			atom("snapshot is not the checkpoint", "!strings.Contains($0.c.Checkpoint,var(controller/rest.SnapshotInput).Name)"))
		for _, s := range sites {
			if callRender(R, s) == fCtl+"DeleteSnapshot($0.c,var(controller/rest.SnapshotInput).Name,"+lr+")" {
				c.OK(rule, FnName(fn)+" | deletes the requested name on the listed replicas", c.P.InstrPos(s), "", false)
			} else {
				c.Bad(rule, FnName(fn)+" | deletes the requested name on the listed replicas", c.P.InstrPos(s), "called as "+callRender(R, s), nil)
			}
		}
		if len(sites) != 1 {
			c.Bad(rule, FnName(fn)+" | structure", "", "expected one Controller.DeleteSnapshot call", nil)
		}
	}
	if fn := c.Anchor(rule, fCtl+"DeleteSnapshot"); fn != nil {
		// only prepareRemoveSnapshot per replica; an error stops the loop
		for _, f := range []string{fCtl + "rmDisk", fCtl + "replaceDisk", fCtl + "processRemoveSnapshot"} {
			for _, in := range CallsTo(fn, f) {
				c.Bad(rule, FnName(fn)+" | only marks", c.P.InstrPos(in), "Controller.DeleteSnapshot must only mark the snapshot removed (the cleaner merges and unlinks below the checkpoint)", nil)
			}
		}
		pr := CallsTo(fn, fCtl+"prepareRemoveSnapshot")
		if len(pr) == 1 {
			c.Guard(rule, fn, nilErrorReturns(fn), "return nil", nil, atom("every replica visited", "+* -len($2) >=0"))
			c.OK(rule, FnName(fn)+" | marks on every replica", c.P.InstrPos(pr[0]), "prepareRemoveSnapshot per replica", false)
		} else {
			c.Bad(rule, FnName(fn)+" | marks on every replica", "", "expected one prepareRemoveSnapshot call in a loop over the replicas", nil)
		}
	}
	c.Floor(rule, 8)
}

// reloadWithoutPreload: ReloadReplica is called only after SetPreload(<server>, false) — in fn
// itself, or in the wrapper of ReloadReplica that fn calls with the server as an argument.
func (c *Ctx) reloadWithoutPreload(rule string, fn *ssa.Function, R *Renderer, server string) {
	for _, call := range CallsToW(fn, fRC+"ReloadReplica") {
		h, inner := wrapperInner(call, fRC+"ReloadReplica")
		if h == nil {
			c.Guard(rule, fn, []ssa.Instruction{call}, "reload", nil, Need{Desc: "SetPreload(false) first", Instr: func(in ssa.Instruction) bool {
				return callRender(R, in) == fSrv+"SetPreload("+server+",false)"
			}})
			continue
		}
		// which parameter of the wrapper receives the server
		want := ""
		for i, a := range callArgs(R, call.(ssa.CallInstruction)) {
			if a == server {
				want = fmt.Sprintf("$%d", i)
			}
		}
		HR := NewRenderer(h)
		c.Guard(rule, h, []ssa.Instruction{inner}, "reload", nil, Need{Desc: "SetPreload(false) first", Instr: func(in ssa.Instruction) bool {
			return want != "" && callRender(HR, in) == fSrv+"SetPreload("+want+",false)"
		}})
	}
}

// ruleC07Copy: the copy machinery of a rebuild — the decision to skip the copy and the port
// allocation of the receivers.
func ruleC07Copy(rule string) ruleFn {
	return func(c *Ctx) {
		c.Doc(rule, "isRevisionCountAndChainSame answers true (the file copy may be skipped) only on the edges revision counters equal and reflect.DeepEqual(chains) true; sync agent nextPort returns a port only on the edge on which that very value was found free in processesByPort")
		if fn := c.Anchor(rule, fTask+"isRevisionCountAndChainSame"); fn != nil {
			R := NewRenderer(fn)
			var tr []ssa.Instruction
			for _, r := range Returns(fn) {
				for _, x := range phiInputs(strip(r.Results[0])) {
					if cst, ok := x.(*ssa.Const); ok && constString(cst) == "true" {
						tr = append(tr, r)
					}
				}
			}
			var eq, deep string
			for _, ea := range allAtoms(fn, R) {
				s := ea.Atom.String()
				if strings.HasSuffix(s, "==0") && strings.Count(s, ".RevisionCounter") == 2 && !strings.Contains(s, "strconv.") {
					eq = s
				}
				if strings.HasPrefix(s, "reflect.DeepEqual(") && strings.Count(s, ".Chain[+1:]") == 2 {
					deep = s
				}
			}
			if len(tr) == 0 || eq == "" || deep == "" {
				c.Bad(rule, FnName(fn)+" | structure", "", "the skip verdict must rest on equality of the two revision counters and DeepEqual of the two chains", nil)
			} else {
				c.Guard(rule, fn, tr, "skip the copy", nil, atom("revision counters equal", eq), atom("chains equal", deep))
			}
		}
		if fn := c.Anchor(rule, "(*sync/agent.Server).nextPort"); fn != nil {
			for i, r := range nilErrorReturns(fn) {
				rr := r.(*ssa.Return)
				v := strip(rr.Results[0])
				key := fmt.Sprintf("%s | return[%d] | the port returned was found free", FnName(fn), i)
				// edges on which a lookup of *that value* in processesByPort missed
				R := NewRenderer(fn)
				free := func(b *ssa.BasicBlock, k int) bool {
					iff, ok := b.Instrs[len(b.Instrs)-1].(*ssa.If)
					if !ok {
						return false
					}
					cond, neg := iff.Cond, false
					if u, ok := cond.(*ssa.UnOp); ok && u.Op == token.NOT {
						cond, neg = u.X, true
					}
					ex, ok := cond.(*ssa.Extract)
					if !ok || ex.Index != 1 {
						return false
					}
					lk, ok := ex.Tuple.(*ssa.Lookup)
					if !ok || !strings.HasSuffix(R.V(lk.X), ".processesByPort") || strip(lk.Index) != v {
						return false
					}
					return (k == 1) != neg
				}
				if len(Query{Fn: fn, IsSite: func(in ssa.Instruction) bool { return in == r }, GenEdge: free}.Run()) == 0 {
					c.OK(rule, key, c.P.InstrPos(r), "the returned value is the key of the lookup that missed", true)
				} else {
					c.Bad(rule, key, c.P.InstrPos(r), "the in-use test looks up a different value than the port that is handed out: a port with a live receiver can be allocated again", nil)
				}
			}
		}
		c.Floor(rule, 3)
	}
}

// sameVerdictAtoms: the atoms "isRevisionCountAndChainSame(from, to) answered true" for the calls
// in fn that hand it the two transfer clients in that order (with or without a receiver).
func sameVerdictAtoms(fn *ssa.Function, R *Renderer) []string {
	var out []string
	for _, call := range CallsTo(fn, fTask+"isRevisionCountAndChainSame") {
		s := callRender(R, call)
		if strings.HasSuffix(s, "((*sync.Task).getTransferClients($0,$1)#0,(*sync.Task).getTransferClients($0,$1)#1)") ||
			strings.HasSuffix(s, "($0,(*sync.Task).getTransferClients($0,$1)#0,(*sync.Task).getTransferClients($0,$1)#1)") {
			out = append(out, s+"#0")
		}
	}
	if len(out) == 0 {
		out = []string{fTask + "isRevisionCountAndChainSame(<from>,<to>)#0 [call not found]"}
	}
	return out
}

// C09-REGWIRE: a registration crosses two hand-written conversions (replica side: arguments ->
// wire struct; controller side: wire struct -> types.RegReplica).  Every field the election
// reads (Address, RevCount, RepType, RepState, UpTime, UUID) must be carried over by both,
// each from its own source.
func ruleC09RegWire(c *Ctx) { regWireRule(c, "C09-REGWIRE") }

func ruleRegWire(rule string) ruleFn { return func(c *Ctx) { regWireRule(c, rule) } }

func regWireRule(c *Ctx, rule string) {
	c.Doc(rule, "controller/client Register fills every field of the wire RegReplica from its own parameter (RevCount as a decimal string); the REST handler RegisterReplica copies every field of types.RegReplica from the same-named field of the request it read (RevCount parsed base 10, 64 bit) and hands that value to Controller.RegisterReplica")
	want := []string{"Address", "UUID", "UpTime", "RevCount", "RepType", "RepState"}
	// controller side
	if fn := c.Anchor(rule, "(*controller/rest.Server).RegisterReplica"); fn != nil {
		R := NewRenderer(fn)
		calls := CallsTo(fn, fCtl+"RegisterReplica")
		if len(calls) != 1 {
			c.Bad(rule, FnName(fn)+" | structure", "", fmt.Sprintf("expected one call of Controller.RegisterReplica, found %d", len(calls)), nil)
		} else {
			arg := R.V(calls[0].(*ssa.Call).Call.Args[1])
			got := map[string]string{}
			eachInstr(fn, func(in ssa.Instruction) {
				if s, ok := in.(*ssa.Store); ok {
					a := R.V(s.Addr)
					if strings.HasPrefix(a, "&"+arg+".") {
						got[strings.TrimPrefix(a, "&"+arg+".")] = R.V(s.Val)
					}
				}
			})
			// the request that was read
			req := ""
			for _, rd := range CallsTo(fn, "(*github.com/rancher/go-rancher/api.ApiContext).Read") {
				req = strings.TrimPrefix(R.V(rd.(*ssa.Call).Call.Args[1]), "&")
			}
			for _, f := range want {
				key := FnName(fn) + " | " + f + " carried over"
				exp := req + "." + f
				if f == "RevCount" {
					exp = "strconv.ParseInt(" + req + ".RevCount,10,64)#0"
				}
				if req != "" && got[f] == exp {
					c.OK(rule, key, c.P.Pos(fn.Pos()), f+" = "+exp, false)
				} else {
					c.Bad(rule, key, c.P.Pos(fn.Pos()), fmt.Sprintf("types.RegReplica.%s handed to the controller is %q, expected %s of the request read (a field that is not carried over is the zero value for the election: state \"\" is not \"rebuilding\", RevCount 0 never wins)", f, got[f], exp), nil)
				}
			}
			if n := structFieldCount(c.P, "types", "RegReplica"); n != len(want) {
				c.Undecided(rule, "types.RegReplica fields", "", fmt.Sprintf("types.RegReplica has %d fields, the rule knows %d: re-confirm", n, len(want)))
			}
		}
	}
	// replica side
	if fn := c.Anchor(rule, "(*controller/client.ControllerClient).Register"); fn != nil {
		R := NewRenderer(fn)
		got := map[string]string{}
		var lit string
		for _, p := range CallsTo(fn, "(*controller/client.ControllerClient).post") {
			if strings.Contains(callRender(R, p), `"/register"`) {
				lit = strings.TrimPrefix(R.V(p.(*ssa.Call).Call.Args[2]), "&")
			}
		}
		eachInstr(fn, func(in ssa.Instruction) {
			if s, ok := in.(*ssa.Store); ok && lit != "" {
				a := R.V(s.Addr)
				if strings.HasPrefix(a, "&"+lit+".") {
					got[strings.TrimPrefix(a, "&"+lit+".")] = R.V(s.Val)
				}
			}
		})
		exp := map[string]string{"Address": "$1", "UUID": "$2", "RevCount": "strconv.FormatInt($3,10)", "RepType": "$4", "UpTime": "$5", "RepState": "$6"}
		for _, f := range want {
			key := FnName(fn) + " | " + f + " sent"
			if lit != "" && got[f] == exp[f] {
				c.OK(rule, key, c.P.Pos(fn.Pos()), f+" = "+exp[f], false)
			} else {
				c.Bad(rule, key, c.P.Pos(fn.Pos()), fmt.Sprintf("the registration request carries %s = %q, expected %s", f, got[f], exp[f]), nil)
			}
		}
	}
	c.Floor(rule, 12)
}

func structFieldCount(P *Prog, pkgShort, name string) int {
	for _, p := range P.SSA.AllPackages() {
		if p.Pkg == nil || short(p.Pkg.Path()) != pkgShort {
			continue
		}
		if tn, ok := p.Pkg.Scope().Lookup(name).(*types.TypeName); ok {
			if st, ok := tn.Type().Underlying().(*types.Struct); ok {
				return st.NumFields()
			}
		}
	}
	return -1
}

// SendFile (replica client): the transfer of one chain file counts as done only after the
// sync agent reported exit code 0 on two consecutive polls (a restart of the sending side makes a
// single 0 appear although the file is incomplete).
func ruleSendFile(rule string) ruleFn {
	return func(c *Ctx) {
		c.Doc(rule, "replica/client SendFile: a nil return is cut off by the success of the launch request, the success of the poll, ExitCode == 0, and the second consecutive observation of it; any other exit code but -2 (still running) is an error; the sync agent answers a launch request only after it marked the process still running (-2) in the handler itself")
		fn := c.Anchor(rule, "(*replica/client.ReplicaClient).SendFile")
		if fn == nil {
			return
		}
		R := NewRenderer(fn)
		exit := ""
		for _, ea := range allAtoms(fn, R) {
			s := ea.Atom.String()
			if strings.HasSuffix(s, ".ExitCode ==0") && strings.HasPrefix(s, "+") && !strings.Contains(s, "count{") {
				exit = strings.TrimSuffix(strings.TrimPrefix(s, "+"), " ==0")
			}
		}
		if exit == "" {
			c.Bad(rule, FnName(fn)+" | exit code tested", "", "SendFile no longer tests ExitCode == 0", nil)
			return
		}
		ok := successReturns(fn)
		c.Guard(rule, fn, ok, "return nil", nil,
			okcall("(*replica/client.ReplicaClient).post"),
			okcall("(*replica/client.ReplicaClient).get"),
			atom("exit code 0", "+"+exit+" ==0"),
			atom("exit code 0 seen twice", "+count{+"+exit+" ==0} -1 ==0"))
		if len(ok) == 0 {
			c.Bad(rule, FnName(fn)+" | success return", "", "no success return", nil)
		}
		// fileOperation (coalesce / hard-link helpers of the sync agent): done means the process
		// reported exit code 0 on a successful poll; running out of patience is not success
		if fo := c.Anchor(rule, "(*replica/client.ReplicaClient).fileOperation"); fo != nil {
			R2 := NewRenderer(fo)
			ex := ""
			for _, ea := range allAtoms(fo, R2) {
				s := ea.Atom.String()
				if strings.HasSuffix(s, ".ExitCode ==0") && strings.HasPrefix(s, "+") && !strings.Contains(s, "count{") {
					ex = strings.TrimSuffix(strings.TrimPrefix(s, "+"), " ==0")
				}
			}
			if ex == "" {
				c.Bad(rule, FnName(fo)+" | exit code tested", "", "fileOperation no longer tests ExitCode == 0", nil)
			} else {
				c.Guard(rule, fo, successReturns(fo), "return nil", nil,
					okcall("(*replica/client.ReplicaClient).post"),
					okcall("(*replica/client.ReplicaClient).get"),
					atom("exit code 0", "+"+ex+" ==0"))
			}
		}
		// what the polls read: exit code 0 is recorded only after the helper ran to its end without an
		// error (cmd.Wait / cmd.Run returned nil); every other recorded value is a non-zero constant
		// or the child's own exit status - a helper that could not even be started never reads "done"
		for _, lf := range []string{"launchFold", "launchSync"} {
			fn := c.Anchor(rule, "(*sync/agent.Server)."+lf)
			if fn == nil {
				continue
			}
			RL := NewRenderer(fn)
			nst := 0
			eachInstr(fn, func(in ssa.Instruction) {
				st, ok := in.(*ssa.Store)
				if !ok || !strings.HasSuffix(RL.V(st.Addr), ".ExitCode") {
					return
				}
				nst++
				key := FnName(fn) + " | exit code recorded"
				if k, isC := intConst(st.Val); isC {
					if k != 0 {
						c.OK(rule, key+" | failure", c.P.InstrPos(in), fmt.Sprintf("constant %d", k), false)
						return
					}
					c.Guard(rule, fn, []ssa.Instruction{in}, "record exit code 0", nil, okcall("(*os/exec.Cmd).Wait", "(*os/exec.Cmd).Run"))
					return
				}
				v := RL.V(st.Val)
				if cl, isCall := strip(st.Val).(*ssa.Call); isCall && strings.HasSuffix(CalleeName(cl), ".ExitStatus") {
					c.OK(rule, key+" | child's status", c.P.InstrPos(in), "the child's own exit status", false)
				} else {
					c.Bad(rule, key, c.P.InstrPos(in), "records "+v+": a computed code that may be 0 although the helper did not run to a clean end", nil)
				}
			})
			if nst == 0 {
				c.Undecided(rule, FnName(fn)+" | exit code recorded", c.P.Pos(fn.Pos()), "no store to ExitCode found")
			}
		}
		// the other end of that protocol: the sync agent answers the launch request (after which the
		// client starts polling) only once the new process carries the "still running" code -2, set
		// in the handler itself - in the launcher goroutine it may come after the first poll, which
		// then reads 0 = finished
		if cp := c.Anchor(rule, "(*sync/agent.Server).CreateProcess"); cp != nil {
			RC := NewRenderer(cp)
			var writes []ssa.Instruction
			for _, in := range AnyCallsTo(cp, "(*github.com/rancher/go-rancher/api.ApiContext).Write") {
				writes = append(writes, in)
			}
			if len(writes) == 0 {
				c.Undecided(rule, FnName(cp)+" | answers the launch request", c.P.Pos(cp.Pos()), "no apiContext.Write found")
			}
			c.Guard(rule, cp, writes, "answer the launch request", nil, Need{Desc: "the process is marked still running (ExitCode = -2)", Instr: func(x ssa.Instruction) bool {
				st, ok := x.(*ssa.Store)
				if !ok || !strings.HasSuffix(RC.V(st.Addr), ".ExitCode") {
					return false
				}
				k, isC := intConst(st.Val)
				return isC && k == -2
			}})
		}
	}
}

// C19-STATUSWIRE: the clone status the controller waits on travels replica -> REST model ->
// remote backend -> replicator unchanged.  A hop that substitutes a value (e.g. "NA" for an
// empty status) makes the controller promote a clone before the copy has run.
func ruleCloneStatusWire(rule string) ruleFn {
	return func(c *Ctx) {
		c.Doc(rule, "every hop that reports the clone status forwards the value it received: rest.NewReplica publishes Replica.GetCloneStatus(), remote.GetCloneStatus returns the CloneStatus field of the REST answer on its only success return, replicator.GetCloneStatus returns the backend's value")
		chk := func(name string, okVal func(string) bool, desc string) {
			fn := c.Anchor(rule, name)
			if fn == nil {
				return
			}
			R := NewRenderer(fn)
			rets := successReturns(fn)
			bad := ""
			for _, r := range rets {
				v := R.V(r.(*ssa.Return).Results[0])
				if !okVal(v) {
					bad = v
				}
			}
			if len(rets) > 0 && bad == "" {
				c.OK(rule, name+" | forwards the status", c.P.Pos(fn.Pos()), desc, false)
			} else {
				c.Bad(rule, name+" | forwards the status", c.P.Pos(fn.Pos()), "a success return hands out "+bad+" instead of "+desc, nil)
			}
		}
		chk("(*backend/remote.Remote).GetCloneStatus", func(v string) bool {
			return strings.HasSuffix(v, ".CloneStatus") && !strings.Contains(v, "phi{")
		}, "the CloneStatus field of the replica's REST answer")
		chk(fRepl+"GetCloneStatus", func(v string) bool {
			return strings.HasPrefix(v, "invoke.GetCloneStatus(") && strings.HasSuffix(v, "#0")
		}, "the backend's GetCloneStatus result")
		if fn := c.Anchor(rule, "replica/rest.NewReplica"); fn != nil {
			R := NewRenderer(fn)
			n := 0
			eachInstr(fn, func(in ssa.Instruction) {
				if s, ok := in.(*ssa.Store); ok && strings.HasSuffix(R.V(s.Addr), ".CloneStatus") {
					n++
					if v := R.V(s.Val); v != c.P.callTerm(fRep+"GetCloneStatus", "$3") && v != fRep+"GetCloneStatus($3)" {
						c.Bad(rule, FnName(fn)+" | publishes the replica's status", c.P.InstrPos(in), "CloneStatus published is "+v, nil)
					} else {
						c.OK(rule, FnName(fn)+" | publishes the replica's status", c.P.InstrPos(in), v, false)
					}
				}
			})
			if n == 0 {
				c.Bad(rule, FnName(fn)+" | publishes the replica's status", "", "the REST model no longer carries CloneStatus", nil)
			}
		}
		c.Floor(rule, 3)
	}
}
