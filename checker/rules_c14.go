package main

import (
	"fmt"
	"sort"
	"strings"

	"golang.org/x/tools/go/ssa"
)

func prodFns(P *Prog) []*ssa.Function {
	var out []*ssa.Function
	for _, f := range P.AllFns {
		n := FnName(f)
		if strings.Contains(n, "tests/") {
			continue
		}
		out = append(out, f)
	}
	return out
}

var lockInfoCache = map[*Prog]*LockInfo{}

func lockInfo(P *Prog) *LockInfo {
	if li, ok := lockInfoCache[P]; ok {
		return li
	}
	li := buildLockInfo(P)
	lockInfoCache[P] = li
	return li
}

func ruleC14Lock(c *Ctx) {
	const rule = "C14-LOCK"
	c.Doc(rule, "lock typestate over every production function (path-sensitive, set-of-states): no release of a mutex that is not held on that path (incl. deferred releases: fatal 'Unlock of unlocked RWMutex'), no acquisition of a mutex already held on that path (directly or by a callee whose summary acquires the same access path), no return with a mutex held and no deferred release")
	L := lockInfo(c.P)
	orders := map[string]string{}
	for _, fn := range prodFns(c.P) {
		hasLock := false
		R := NewRenderer(fn)
		eachInstr(fn, func(in ssa.Instruction) {
			if _, ok := lockOpOf(R, in); ok {
				hasLock = true
			}
		})
		if !hasLock {
			continue
		}
		res := L.analyzeLocks(fn)
		for k, v := range res.Orders {
			if _, ok := orders[k]; !ok {
				orders[k] = v
			}
		}
		if len(res.Issues) == 0 {
			c.OK(rule, FnName(fn), c.P.Pos(fn.Pos()), fmt.Sprintf("%d (block,lockstate) pairs explored, all lock/unlock events consistent", res.States), true)
			continue
		}
		for _, is := range res.Issues {
			callee := ""
			if is.Kind == "callee-deadlock" {
				callee = " via " + CalleeName(is.At)
			}
			key := fmt.Sprintf("%s | %s %s%s", FnName(fn), is.Kind, is.Path, callee)
			c.Bad(rule, key, c.P.InstrPos(is.At), is.Detail, c.witness(Witness{Path: is.Witness}))
		}
	}
	c.Floor(rule, 60)
	// lock order
	const orule = "C14-ORDER"
	c.Doc(orule, "the graph 'mutex class held -> mutex class acquired' (classes = struct type + field of the mutex) collected from all lock regions, including acquisitions inside callees, has no cycle between distinct classes")
	adj := map[string][]string{}
	for k := range orders {
		p := strings.SplitN(k, " -> ", 2)
		if p[0] != p[1] && p[0] != "" {
			adj[p[0]] = append(adj[p[0]], p[1])
		}
	}
	var keys []string
	for k := range orders {
		keys = append(keys, k)
	}
	sort.Strings(keys)
	cyc := findCycle(adj)
	if cyc == nil {
		c.OK(orule, "lock-order graph acyclic", "", fmt.Sprintf("%d ordered pairs: %s", len(keys), strings.Join(keys, "; ")), true)
	} else {
		c.Bad(orule, "lock-order cycle "+strings.Join(cyc, " -> "), "", "mutex classes are acquired in both orders: potential deadlock between two requests", nil)
	}
	for _, k := range keys {
		p := strings.SplitN(k, " -> ", 2)
		if p[0] == p[1] {
			continue
		}
		c.OK(orule, "order "+k, orders[k], "observed nesting", false)
	}
}

func findCycle(adj map[string][]string) []string {
	color := map[string]int{}
	var stack []string
	var res []string
	var dfs func(u string) bool
	dfs = func(u string) bool {
		color[u] = 1
		stack = append(stack, u)
		for _, v := range adj[u] {
			if color[v] == 1 {
				for i, x := range stack {
					if x == v {
						res = append(append([]string{}, stack[i:]...), v)
						return true
					}
				}
			}
			if color[v] == 0 && dfs(v) {
				return true
			}
		}
		stack = stack[:len(stack)-1]
		color[u] = 2
		return false
	}
	var ks []string
	for k := range adj {
		ks = append(ks, k)
	}
	sort.Strings(ks)
	for _, k := range ks {
		if color[k] == 0 && dfs(k) {
			return res
		}
	}
	return nil
}
