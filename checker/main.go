package main

import (
	"encoding/json"
	"flag"
	"fmt"
	"os"
	"path/filepath"
	"runtime/debug"
	"sort"
	"strconv"
	"strings"
	"time"

	"golang.org/x/tools/go/ssa"
	"golang.org/x/tools/go/ssa/ssautil"
)

type ruleFn func(c *Ctx)

type propSpec struct {
	Rules       []ruleFn
	Explanation string
	NotDecided  string
}

var registry = map[string]*propSpec{}

var commonAssumptions = []string{
	"static analysis only: nothing in /repo is executed; verdicts are computed from the type-checked syntax, go/ssa form and the VTA call graph of /repo's current working tree (default build configuration linux/amd64, no build tags)",
	"the structural clauses decided here are necessary conditions of the property, not the behavioural statement itself (see coverage.explanation / DESIGN.md section 4 for what is not decided)",
	"no unsafe / cgo / go:linkname / reflection-based calls inside jiva packages; interface dispatch is resolved by VTA over CHA",
	"third-party dependencies (gotgt, go-rancher, gorilla/mux, sparse-tools, logrus) are modelled by a frozen table of externals, their bodies are not analysed",
}

func main() {
	prop := flag.String("property", "", "property id (C01..C19)")
	tier := flag.String("tier", os.Getenv("VERIF_TIER"), "quick|thorough")
	repo := flag.String("repo", "/repo", "repository root")
	dump := flag.String("dump", "", "dump atoms/calls of the named function (substring match)")
	explain := flag.String("explain", "", "print a violation replay file and re-evaluate")
	verifDir := flag.String("verif", "", "verif dir (default: parent of the executable's dir)")
	tags := flag.String("tags", "", "build tags")
	list := flag.Bool("list", false, "list functions")
	obls := flag.Bool("obls", false, "print every obligation (rule | key | status)")
	gstats := flag.String("guardstats", "-", "print lock classes held at the accesses of fields matching the substring (discovery aid)")
	dumpView := flag.String("dumpview", "", "write the files of the inlined view into this directory and exit (debugging aid)")
	writeBase := flag.Bool("write-baseline", false, "write <verif>/baseline_symbols.json from the current tree and exit")
	flag.Parse()
	if *tier == "" {
		*tier = "quick"
	}
	if *verifDir == "" {
		exe, _ := os.Executable()
		*verifDir = filepath.Dir(filepath.Dir(exe))
	}
	seed := 0
	if s := os.Getenv("VERIF_SEED"); s != "" {
		seed, _ = strconv.Atoi(s)
	}
	start := time.Now()

	if *explain != "" {
		b, err := os.ReadFile(*explain)
		if err != nil {
			fmt.Println(err)
			os.Exit(2)
		}
		fmt.Printf("%s\n-- re-evaluating on the current tree --\n", b)
		var rep struct {
			Property string `json:"property"`
		}
		json.Unmarshal(b, &rep)
		if *prop == "" {
			*prop = rep.Property
		}
	}

	if !*writeBase {
		baselinePath = filepath.Join(*verifDir, "baseline_symbols.json")
	}
	P, err := loadProg(*repo, *tags, nil)
	if err != nil {
		fmt.Printf("VIOLATION property=%s replay=%s\n  checker cannot see the program: %v\n", *prop, "none", err)
		os.Exit(1)
	}
	if *writeBase {
		if err := writeBaseline(P.SSA, ssautil.AllFunctions(P.SSA), filepath.Join(*verifDir, "baseline_symbols.json")); err != nil {
			fmt.Println(err)
			os.Exit(2)
		}
		fmt.Println("baseline written")
		return
	}
	for _, n := range P.Renames {
		fmt.Println("renamed symbol: " + n)
	}
	if os.Getenv("JIVACHECK_INVIEW") != "" {
		if Q, _ := inlinedView(P); Q != nil {
			P = Q
		}
	}
	if *list {
		for _, f := range P.AllFns {
			fmt.Println(FnName(f))
		}
		return
	}
	if *dump != "" {
		dumpFns(P, *dump)
		return
	}
	if *dumpView != "" {
		Q, notes := inlinedView(P)
		for _, n := range notes {
			fmt.Println(n)
		}
		if Q != nil {
			os.MkdirAll(*dumpView, 0o755)
			for f, b := range Q.Overlay {
				os.WriteFile(filepath.Join(*dumpView, strings.ReplaceAll(strings.TrimPrefix(f, *repo+"/"), "/", "__")), b, 0o644)
			}
		}
		return
	}
	if *gstats != "-" {
		guardStats(P, *gstats)
		return
	}
	spec, ok := registry[*prop]
	if !ok {
		fmt.Fprintf(os.Stderr, "unknown property %q\n", *prop)
		os.Exit(2)
	}
	findings, err := loadFindings(filepath.Join(*verifDir, "known_findings.json"))
	if err != nil {
		fmt.Printf("VIOLATION property=%s replay=none\n  cannot read known_findings.json: %v\n", *prop, err)
		os.Exit(1)
	}
	c, viewInfo := evaluate(P, *prop, *tier, spec, findings)
	if *obls {
		for _, o := range c.Obls {
			fmt.Printf("OBL %s | %s | %s\n", o.Rule, o.Key, o.Status)
		}
	}
	expl := spec.Explanation + " NOT DECIDED: " + spec.NotDecided
	extra := map[string]interface{}{}
	if len(P.Renames) > 0 {
		extra["renamed_symbols"] = P.Renames
	}
	if viewInfo != nil {
		extra["inlined_view"] = viewInfo
	}
	if *tier == "thorough" {
		// (a) fault-injection build configuration
		clearCaches()
		PD, err := loadProg(*repo, "debug", nil)
		if err != nil {
			c.Undecided("CONFIG-debug", "load -tags debug", "", "the fault-injection build configuration does not load: "+firstLines(err.Error(), 3))
		} else {
			cd, _ := evaluate(PD, *prop, *tier, spec, findings)
			n, bad := 0, 0
			for _, o := range cd.Obls {
				if debugInsensitive(o.Rule) {
					n++
					if o.Status == "violated" || o.Status == "undecided" {
						bad++
						o.Rule = o.Rule + "[tags=debug]"
						c.add(o)
					}
				}
			}
			extra["debug_config"] = map[string]interface{}{"tags": "debug", "obligations_rechecked": n, "violations": bad, "functions": len(PD.AllFns),
				"skipped_rules": "C14-FATAL, C14-BLOCK, C14-ASSERT, C08-DUR: the fault-injection build may panic / sleep / block by design"}
		}
		clearCaches()
		// (b) seeded self-test (evidence only)
		st := runSelfTest(*repo, *verifDir, *prop, spec, findings)
		extra["selftest"] = st
		fmt.Printf("self-test: %d seeded changes applied, %d detected, %d missed, %d skipped\n", st.Applied, st.Detected, len(st.Missed), len(st.Skipped))
		for _, d := range st.Details {
			fmt.Println("  " + d)
		}
		for _, d := range st.Missed {
			fmt.Println("  MISSED (evidence only): " + d)
		}
	}
	os.Exit(c.finish(*verifDir, seed, start, expl, commonAssumptions, extra))
}

// debugInsensitive: rules whose verdict does not depend on fault injection being inert.
func debugInsensitive(rule string) bool {
	switch {
	case strings.HasPrefix(rule, "C14-FATAL"), strings.HasPrefix(rule, "C14-BLOCK"), strings.HasPrefix(rule, "C14-ASSERT"), strings.HasPrefix(rule, "C08-DUR"):
		return false
	}
	return true
}

func runRule(c *Ctx, r ruleFn) {
	defer func() {
		if e := recover(); e != nil {
			c.Undecided("INTERNAL", fmt.Sprintf("panic in rule: %v", e), "", "checker rule panicked (treated as failure): "+firstLines(string(debug.Stack()), 12))
		}
	}()
	r(c)
}

func firstLines(s string, n int) string {
	l := strings.Split(s, "\n")
	if len(l) > n {
		l = l[:n]
	}
	return strings.Join(l, " | ")
}

func dumpFns(P *Prog, sub string) {
	for _, f := range P.AllFns {
		if !strings.Contains(FnName(f), sub) {
			continue
		}
		R := NewRenderer(f)
		fmt.Printf("=== %s  (%s)\n", FnName(f), P.Pos(f.Pos()))
		for _, ea := range allAtoms(f, R) {
			fmt.Printf("  edge b%d->b%d  %s\n", ea.B.Index, ea.B.Succs[ea.Succ].Index, ea.Atom.String())
		}
		for _, b := range f.Blocks {
			for _, in := range b.Instrs {
				switch x := in.(type) {
				case *ssa.Call:
					fmt.Printf("  b%d call  %s   @%s\n", b.Index, R.V(x), P.InstrPos(in))
				case *ssa.Go:
					fmt.Printf("  b%d go    %s   @%s\n", b.Index, CalleeName(in), P.InstrPos(in))
				case *ssa.Defer:
					fmt.Printf("  b%d defer %s   @%s\n", b.Index, CalleeName(in), P.InstrPos(in))
				case *ssa.Store:
					fmt.Printf("  b%d store %s = %s   @%s\n", b.Index, R.V(x.Addr), R.V(x.Val), P.InstrPos(in))
				case *ssa.MapUpdate:
					fmt.Printf("  b%d mapupd %s[%s] = %s   @%s\n", b.Index, R.V(x.Map), R.V(x.Key), R.V(x.Value), P.InstrPos(in))
				case *ssa.Send:
					fmt.Printf("  b%d send  %s <- %s   @%s\n", b.Index, R.V(x.Chan), R.V(x.X), P.InstrPos(in))
				case *ssa.Return:
					var rs []string
					for _, r := range x.Results {
						rs = append(rs, R.V(r))
					}
					fmt.Printf("  b%d return %s   @%s\n", b.Index, strings.Join(rs, ", "), P.InstrPos(in))
				}
			}
		}
	}
}

func sortedKeys(m map[string]bool) []string {
	var ks []string
	for k := range m {
		ks = append(ks, k)
	}
	sort.Strings(ks)
	return ks
}
