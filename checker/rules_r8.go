package main

import (
	"fmt"
	"go/token"
	"go/types"
	"regexp"
	"strings"

	"golang.org/x/tools/go/ssa"
)

// Rules written after the repeated round 7 and round 8.

// ---------------------------------------------------------------------------
// *-LEFTOVER: the head file an interrupted snapshot / revert left behind
// ---------------------------------------------------------------------------

// ruleLeftoverHead: createNewHead tolerates the leftover of an interrupted attempt.  The file
// that carries the next head's name was already truncate(2)d to the volume size by the
// interrupted call, so only its ALLOCATED size tells "empty leftover" from "holds data".
func ruleLeftoverHead(rule string) ruleFn {
	return func(c *Ctx) {
		c.Doc(rule, "createNewHead: an existing file with the next head's name is removed when - and refused only when - its allocated size (getDiskSize = util.GetFileActualSize = st_blocks*512) is positive: the leftover of an interrupted snapshot or revert was already truncated to the volume size, so its apparent size says nothing; GetFileActualSize reports blocks, not st_size")
		fn := c.Anchor(rule, fRep+"createNewHead")
		if fn == nil {
			return
		}
		R := NewRenderer(fn)
		sized := regexp.MustCompile(`^-\(\*replica\.Replica\)\.getDiskSize\(\$0,(.*)\) >=0$`)
		rm := CallsTo(fn, fRep+"rmDisk")
		if len(rm) == 0 {
			c.Bad(rule, FnName(fn)+" | removes the empty leftover", c.P.Pos(fn.Pos()), "no rmDisk call: an empty leftover head is not cleaned up, every later snapshot / revert needs that name", nil)
		}
		for _, in := range rm {
			name := R.V(in.(*ssa.Call).Call.Args[1])
			type ek struct {
				b *ssa.BasicBlock
				k int
			}
			hit := map[ek]bool{}
			for _, ea := range allAtoms(fn, R) {
				if m := sized.FindStringSubmatch(ea.Atom.String()); m != nil && m[1] == name {
					hit[ek{ea.B, ea.Succ}] = true
				}
			}
			c.Guard(rule, fn, []ssa.Instruction{in}, "remove the leftover "+name, nil,
				Need{Desc: "allocated size of that file is not positive", Edge: func(b *ssa.BasicBlock, k int) bool { return hit[ek{b, k}] }})
			// ... and nothing else refuses it: between the Stat that found the file and the removal the
			// only error return is the one on the allocated-size edge
			pos := regexp.MustCompile(`^\+\(\*replica\.Replica\)\.getDiskSize\(\$0,` + regexp.QuoteMeta(name) + `\) -1 >=0$`)
			posHit := map[ek]bool{}
			for _, ea := range allAtoms(fn, R) {
				if pos.MatchString(ea.Atom.String()) {
					posHit[ek{ea.B, ea.Succ}] = true
				}
			}
			stat := CallsTo(fn, "os.Stat")
			if len(stat) == 0 {
				c.Undecided(rule, FnName(fn)+" | existence probe", c.P.Pos(fn.Pos()), "no os.Stat of the next head's name found")
				continue
			}
			// the Stat that found the file: its err == nil edge opens the leftover region
			notFound := func(b *ssa.BasicBlock, k int) bool { return false }
			if se := successEdgesOfCall(fn, stat[0]); se != nil {
				// leaving the Stat's branch on the other edge: no such file, nothing to tolerate
				notFound = func(b *ssa.BasicBlock, k int) bool {
					return len(b.Succs) == 2 && (se(b, 0) || se(b, 1)) && !se(b, k)
				}
			}
			ws := Query{Fn: fn, Start: stat[0],
				IsSite: func(x ssa.Instruction) bool { _, ok := x.(*ssa.Return); return ok },
				Gen: func(x ssa.Instruction) bool {
					return x == in || len(CallsTo(fn, fRep+"openFile")) > 0 && x == CallsTo(fn, fRep+"openFile")[0]
				},
				GenEdge: func(b *ssa.BasicBlock, k int) bool { return posHit[ek{b, k}] || notFound(b, k) },
			}.Run()
			key := FnName(fn) + " | refuses a leftover only for its allocated size"
			if len(ws) > 0 {
				c.Bad(rule, key, c.P.InstrPos(ws[0].Site), "a return is reachable after the file was found, before it is removed, on a path that did not find its allocated size positive", c.witness(ws[0]))
			} else {
				c.OK(rule, key, c.P.InstrPos(stat[0]), "only the allocated-size edge returns inside the leftover region", true)
			}
		}
		// the probe measures blocks
		if g := c.Anchor(rule, "util.GetFileActualSize"); g != nil {
			RG := NewRenderer(g)
			okRet := 0
			eachInstr(g, func(x ssa.Instruction) {
				if r, ok := x.(*ssa.Return); ok && len(r.Results) == 1 {
					s := RG.V(r.Results[0])
					if strings.Contains(s, ".Blocks") {
						okRet++
					} else if strings.Contains(s, ".Size") {
						c.Bad(rule, FnName(g)+" | reports allocated bytes", c.P.InstrPos(x), "returns "+s+": the apparent size of a sparse file", nil)
					}
				}
			})
			if okRet == 0 {
				c.Bad(rule, FnName(g)+" | reports allocated bytes", c.P.Pos(g.Pos()), "no return derived from st_blocks", nil)
			} else {
				c.OK(rule, FnName(g)+" | reports allocated bytes", c.P.Pos(g.Pos()), fmt.Sprintf("%d return(s) from st_blocks", okRet), false)
			}
		}
		if w := c.Anchor(rule, fRep+"getDiskSize"); w != nil {
			if len(CallsTo(w, "util.GetFileActualSize")) != 1 {
				c.Bad(rule, FnName(w)+" | is the allocated size", c.P.Pos(w.Pos()), "getDiskSize no longer forwards to util.GetFileActualSize", nil)
			} else {
				c.OK(rule, FnName(w)+" | is the allocated size", c.P.Pos(w.Pos()), "forwards to util.GetFileActualSize", false)
			}
		}
		c.Floor(rule, 3)
	}
}

// ---------------------------------------------------------------------------
// C15-TIMEOUTCFG: the configured deadlines reach the operations they are named for
// ---------------------------------------------------------------------------

// envNamesRead: the names of the environment variables fn reads: os.Getenv with a constant, or
// a call of a function of this module that reads os.Getenv(<its i-th parameter>) with a constant
// i-th argument.  "?" stands for a name that is not a constant.
func envNamesRead(P *Prog, fn *ssa.Function, depth int) []string {
	var out []string
	eachInstr(fn, func(in ssa.Instruction) {
		cl, ok := in.(*ssa.Call)
		if !ok {
			return
		}
		if CalleeName(cl) == "os.Getenv" {
			if k, ok := strip(cl.Call.Args[0]).(*ssa.Const); ok && k.Value != nil {
				out = append(out, constString(k))
			} else {
				out = append(out, "?")
			}
			return
		}
		h := cl.Call.StaticCallee()
		if h == nil || h.Blocks == nil || depth >= 2 || !strings.HasPrefix(h.Pkg.Pkg.Path(), modPrefix) {
			return
		}
		eachInstr(h, func(hin ssa.Instruction) {
			hc, ok := hin.(*ssa.Call)
			if !ok || CalleeName(hc) != "os.Getenv" {
				return
			}
			if p, ok := strip(hc.Call.Args[0]).(*ssa.Parameter); ok {
				for i, hp := range h.Params {
					if hp == p && i < len(cl.Call.Args) {
						if k, ok := strip(cl.Call.Args[i]).(*ssa.Const); ok && k.Value != nil {
							out = append(out, constString(k))
						} else {
							out = append(out, "?")
						}
					}
				}
			} else if k, ok := strip(hc.Call.Args[0]).(*ssa.Const); ok && k.Value != nil {
				out = append(out, constString(k))
			} else {
				out = append(out, "?")
			}
		})
	})
	return out
}

func ruleTimeoutConfig(rule string) ruleFn {
	return func(c *Ctx) {
		c.Doc(rule, "the deadline an operator configures is the deadline the operation runs under: util.GetReadTimeout reads RPC_READ_TIMEOUT and util.GetWriteTimeout RPC_WRITE_TIMEOUT (and nothing else); types.RPCReadTimeout / RPCWriteTimeout are assigned from their own getter; rpc.SetRPCTimeout copies each into its own variable; rpc.Client.operation arms time.After(opReadTimeout) on the TypeRead edge, opWriteTimeout on TypeWrite, opSyncTimeout on TypeSync, opUnmapTimeout on TypeUnmap and opPingTimeout otherwise")
		for _, e := range []struct{ fn, env string }{{"util.GetReadTimeout", `"RPC_READ_TIMEOUT"`}, {"util.GetWriteTimeout", `"RPC_WRITE_TIMEOUT"`}} {
			fn := c.Anchor(rule, e.fn)
			if fn == nil {
				continue
			}
			names := envNamesRead(c.P, fn, 0)
			key := e.fn + " | reads " + e.env
			if len(names) == 1 && names[0] == e.env {
				c.OK(rule, key, c.P.Pos(fn.Pos()), "one os.Getenv, of "+e.env, false)
			} else {
				c.Bad(rule, key, c.P.Pos(fn.Pos()), fmt.Sprintf("reads %v", names), nil)
			}
		}
		// stores to the globals
		want := map[string]string{
			"global:types.RPCReadTimeout":  "util.GetReadTimeout()",
			"global:types.RPCWriteTimeout": "util.GetWriteTimeout()",
			"global:rpc.opReadTimeout":     "types.RPCReadTimeout",
			"global:rpc.opWriteTimeout":    "types.RPCWriteTimeout",
		}
		seen := map[string]int{}
		for _, fn := range prodFns(c.P) {
			if strings.HasPrefix(FnName(fn), "tests/") || strings.HasSuffix(FnName(fn), ".init") {
				continue
			}
			R := NewRenderer(fn)
			eachInstr(fn, func(in ssa.Instruction) {
				st, ok := in.(*ssa.Store)
				if !ok {
					return
				}
				g, ok := st.Addr.(*ssa.Global)
				if !ok {
					return
				}
				gn := "global:" + short(g.String())
				w, ok := want[gn]
				if !ok {
					return
				}
				seen[gn]++
				key := FnName(fn) + " | " + strings.TrimPrefix(gn, "global:") + " is set from its own source"
				if v := R.V(st.Val); v == w {
					c.OK(rule, key, c.P.InstrPos(in), v, false)
				} else {
					c.Bad(rule, key, c.P.InstrPos(in), "assigned "+v+", expected "+w, nil)
				}
			})
		}
		for gn := range want {
			if seen[gn] == 0 {
				c.Bad(rule, strings.TrimPrefix(gn, "global:")+" | configured", "", "the variable is never assigned: the configured value does not reach the client", nil)
			}
		}
		// the deadline chosen per operation type: every read of one of the deadline variables in
		// operation, its literals, or a new function they call sits on the edge of its operation type
		if op := c.Anchor(rule, fCli+"operation"); op != nil {
			fns := append([]*ssa.Function{op}, Closures(op)...)
			seenFn := map[*ssa.Function]bool{}
			for _, f := range fns {
				seenFn[f] = true
			}
			for i := 0; i < len(fns); i++ {
				eachInstr(fns[i], func(in ssa.Instruction) {
					if cl, ok := in.(ssa.CallInstruction); ok {
						if h := cl.Common().StaticCallee(); h != nil && h.Blocks != nil && isFreshFn(h) && !seenFn[h] {
							seenFn[h] = true
							fns = append(fns, h)
						}
					}
				})
			}
			n := 0
			for _, f := range fns {
				R := NewRenderer(f)
				eachInstr(f, func(in ssa.Instruction) {
					ld, ok := in.(*ssa.UnOp)
					if !ok || ld.Op != token.MUL {
						return
					}
					g, ok := ld.X.(*ssa.Global)
					if !ok || g.Pkg == nil || short(g.Pkg.Pkg.Path()) != "rpc" || !strings.HasPrefix(g.Name(), "op") || !strings.HasSuffix(g.Name(), "Timeout") {
						return
					}
					arg := "rpc." + g.Name()
					n++
					var typ string
					switch arg {
					case "rpc.opReadTimeout":
						typ = "TypeRead"
					case "rpc.opWriteTimeout":
						typ = "TypeWrite"
					case "rpc.opSyncTimeout":
						typ = "TypeSync"
					case "rpc.opUnmapTimeout":
						typ = "TypeUnmap"
					case "rpc.opPingTimeout":
						c.OK(rule, FnName(op)+" | deadline of the remaining operations", c.P.InstrPos(in), arg, false)
						return
					default:
						c.Bad(rule, FnName(op)+" | deadline "+arg, c.P.InstrPos(in), "unknown deadline variable", nil)
						return
					}
					tv, ok := c.P.pkgIntConst("rpc", typ)
					if !ok {
						c.Undecided(rule, FnName(op)+" | "+typ, "", "constant not found")
						return
					}
					var atoms []string
					for _, t := range []string{"$0", "$1", "var(rpc.Message).Type"} {
						if tv == 0 {
							atoms = append(atoms, "+"+t+" ==0")
						} else {
							atoms = append(atoms, fmt.Sprintf("+%s -%d ==0", t, tv))
						}
					}
					c.Guard(rule, f, []ssa.Instruction{in}, "choose "+arg, nil, atom("operation type is "+typ, atoms...))
					_ = R
				})
			}
			if n < 5 {
				c.Bad(rule, FnName(op)+" | one deadline per operation type", c.P.Pos(op.Pos()), fmt.Sprintf("only %d reads of a deadline variable found", n), nil)
			}
		}
		c.Floor(rule, 10)
	}
}

// ---------------------------------------------------------------------------
// *-ALIASWRITE: a container handed out by a getter is not modified in place
// ---------------------------------------------------------------------------

// ruleAliasWrite: `func (c *Controller) ListReplicas() []types.Replica { return c.replicas }` hands
// out the controller's own backing array.  Filtering it with the `kept := xs[:0]; kept = append(kept,
// x)` idiom, sorting it, or storing into its elements rewrites the shared array behind the owner's
// back (the owner's length stays, entries vanish or appear twice) - also from a read-only request.
func ruleAliasWrite(rule string) ruleFn {
	return func(c *Ctx) {
		c.Doc(rule, "module-wide: the slice or map a getter hands out from a lock-protected field (Controller.ListReplicas / ListQuorumReplicas, …) is read-only for everybody but the owner: it never flows - through re-slicing, phis, or parameters of the functions it is passed to - into the destination of append, copy, an element store, a map update / delete or a sort")
		nSrc := 0
		type item struct {
			v     ssa.Value
			fn    *ssa.Function
			depth int
			src   string
		}
		var work []item
		for _, fn := range prodFns(c.P) {
			fn := fn
			eachInstr(fn, func(in ssa.Instruction) {
				cl, ok := in.(*ssa.Call)
				if !ok {
					return
				}
				if fa, ok := guardedLoadField(cl); ok {
					nSrc++
					work = append(work, item{cl, fn, 0, CalleeName(cl) + " (hands out " + fieldKeyOf(fa) + ")"})
				}
			})
		}
		seen := map[ssa.Value]bool{}
		nChecked := 0
		for len(work) > 0 {
			it := work[0]
			work = work[1:]
			if seen[it.v] {
				continue
			}
			seen[it.v] = true
			refs := it.v.Referrers()
			if refs == nil {
				continue
			}
			for _, r := range *refs {
				nChecked++
				key := FnName(it.fn) + " | container from " + it.src + " is not written"
				bad := func(what string) {
					c.Bad(rule, key, c.P.InstrPos(r), what+": the owner's backing array / map is rewritten behind its back", nil)
				}
				switch x := r.(type) {
				case *ssa.Slice:
					if x.X == it.v {
						work = append(work, item{x, it.fn, it.depth, it.src})
					}
				case *ssa.Phi:
					work = append(work, item{x, it.fn, it.depth, it.src})
				case *ssa.ChangeType:
					work = append(work, item{x, it.fn, it.depth, it.src})
				case *ssa.MakeInterface:
					work = append(work, item{x, it.fn, it.depth, it.src})
				case *ssa.IndexAddr:
					if x.X != it.v {
						continue
					}
					// a store through the element address (directly or to a field of the element)
					var chase func(a ssa.Value, d int)
					chase = func(a ssa.Value, d int) {
						if d > 3 || a.Referrers() == nil {
							return
						}
						for _, u := range *a.Referrers() {
							switch y := u.(type) {
							case *ssa.Store:
								if y.Addr == a {
									bad("an element is assigned")
								}
							case *ssa.FieldAddr:
								chase(y, d+1)
							case *ssa.IndexAddr:
								if y.X == a {
									chase(y, d+1)
								}
							}
						}
					}
					chase(x, 0)
				case *ssa.MapUpdate:
					if x.Map == it.v {
						bad("a map entry is assigned")
					}
				case *ssa.Store:
					// stored into a local / field: follow loads of a local
					if al, ok := x.Addr.(*ssa.Alloc); ok && x.Val == it.v && al.Referrers() != nil {
						for _, u := range *al.Referrers() {
							if ld, ok := u.(*ssa.UnOp); ok {
								work = append(work, item{ld, it.fn, it.depth, it.src})
							}
						}
					}
				case ssa.CallInstruction:
					cc := x.Common()
					if b, ok := cc.Value.(*ssa.Builtin); ok {
						switch b.Name() {
						case "append":
							if len(cc.Args) > 0 && cc.Args[0] == it.v {
								bad("append writes into it")
							}
						case "copy":
							if len(cc.Args) > 0 && cc.Args[0] == it.v {
								bad("copy writes into it")
							}
						case "delete":
							if len(cc.Args) > 0 && cc.Args[0] == it.v {
								bad("delete removes an entry")
							}
						}
						continue
					}
					n := CalleeName(x)
					if strings.HasPrefix(n, "sort.") || strings.HasPrefix(n, "slices.Sort") || n == "slices.Reverse" {
						bad(n + " reorders it")
						continue
					}
					h := cc.StaticCallee()
					if h == nil || h.Blocks == nil || !isJivaFn(h) || it.depth >= 3 || cc.IsInvoke() {
						continue
					}
					for i, a := range cc.Args {
						if a == it.v && i < len(h.Params) {
							work = append(work, item{h.Params[i], h, it.depth + 1, it.src})
						}
					}
				}
			}
		}
		if nSrc < 4 {
			c.Undecided(rule, "vacuity-floor", "", fmt.Sprintf("only %d calls of container getters found", nSrc))
		} else {
			c.OK(rule, "module | getter results followed", "", fmt.Sprintf("%d getter calls, %d uses inspected", nSrc, nChecked), true)
		}
	}
}

// ---------------------------------------------------------------------------
// *-TRYLOCK: nobody answers from a remembered copy because a lock was busy
// ---------------------------------------------------------------------------

func ruleNoTryLock(rule string) ruleFn {
	return func(c *Ctx) {
		c.Doc(rule, "module-wide: jiva takes its locks unconditionally; a TryLock / TryRLock with a fall-back branch answers a request from state that was not read under the lock (a remembered checkpoint after the controller withdrew it, a remembered replica state while a state-changing operation holds the server lock and the request then runs in the new state)")
		n := 0
		for _, fn := range prodFns(c.P) {
			n++
			eachInstr(fn, func(in ssa.Instruction) {
				if _, ok := in.(ssa.CallInstruction); !ok {
					return
				}
				switch CalleeName(in) {
				case "(*sync.RWMutex).TryRLock", "(*sync.RWMutex).TryLock", "(*sync.Mutex).TryLock":
					c.Bad(rule, FnName(fn)+" | "+CalleeName(in), c.P.InstrPos(in), "conditional acquisition: on the busy branch the function works without the lock", nil)
				}
			})
		}
		if n < 400 {
			c.Undecided(rule, "vacuity-floor", "", fmt.Sprintf("only %d functions scanned", n))
		} else {
			c.OK(rule, "module | no conditional lock acquisition", "", fmt.Sprintf("%d functions scanned", n), false)
		}
	}
}

// ---------------------------------------------------------------------------
// C17-CLOSEDNIL: a closed Replica never stays installed in the server
// ---------------------------------------------------------------------------

// ruleClosedNil: state "closed" is `s.r == nil`.  Every gate of the server (Status, ping, the
// nil tests of the operations, SetReplicaMode) reads it that way, so once the installed instance
// was closed successfully no exit of the function may leave it installed - whatever happens to
// the steps that follow the close (a failed unlink in Delete / DeleteAll).
func ruleClosedNil(rule string) ruleFn {
	return func(c *Ctx) {
		c.Doc(rule, "replica.Server: after the installed Replica (the current value of s.r) was closed successfully - by s.r.Close() or by the success of CheckPreDeleteConditions, which closes it - every return of the method is preceded by a store to s.r (nil, or a new instance): a closed instance left in s.r reports state open / dirty, answers ping, passes the nil gates and can be switched back to RW")
		n := 0
		isSRStore := func(in ssa.Instruction) bool {
			st, ok := in.(*ssa.Store)
			if !ok {
				return false
			}
			t, f, _ := fieldAddrOf(st.Addr)
			return t == "Server" && f == "r"
		}
		pd := c.P.Fn(fSrv + "CheckPreDeleteConditions")
		// the helper closes s.r on every success return
		if pd != nil {
			c.Guard(rule, pd, nilErrorReturns(pd), "return nil", nil, okcall(fRep+"Close"))
			n++
		} else {
			c.Anchor(rule, fSrv+"CheckPreDeleteConditions")
		}
		for _, fn := range c.P.methodsOf("replica", "Server") {
			if fn == pd || fn.Blocks == nil {
				continue
			}
			var closes []ssa.Instruction
			for _, in := range CallsTo(fn, fRep+"Close") {
				cl, ok := in.(*ssa.Call)
				if !ok || len(cl.Call.Args) == 0 {
					continue
				}
				ld, ok := strip(cl.Call.Args[0]).(*ssa.UnOp)
				if !ok {
					continue
				}
				if t, f, _ := fieldAddrOf(ld.X); t != "Server" || f != "r" {
					continue
				}
				// the value closed is still the installed one: no store to s.r between the load and the call
				if len(Query{Fn: fn, Start: ld, IsSite: func(x ssa.Instruction) bool { return x == in }, Gen: isSRStore}.Run()) > 0 {
					closes = append(closes, in)
				}
			}
			if pd != nil {
				closes = append(closes, CallsTo(fn, fSrv+"CheckPreDeleteConditions")...)
			}
			for i, cl := range closes {
				n++
				key := fmt.Sprintf("%s | after closing the installed replica[%d] s.r is replaced before return", FnName(fn), i)
				ws := afterEdge(fn, successEdgesOfCall(fn, cl), isSRStore, nil, func(in ssa.Instruction) bool { _, ok := in.(*ssa.Return); return ok })
				if len(ws) == 0 {
					c.OK(rule, key, c.P.InstrPos(cl), "every exit after the close passes a store to s.r", true)
				} else {
					c.Bad(rule, key, c.P.InstrPos(ws[0].Site), "a return is reachable after the installed replica was closed with s.r still pointing at it", c.witness(ws[0]))
				}
			}
		}
		if n < 4 {
			c.Undecided(rule, "vacuity-floor", "", fmt.Sprintf("only %d close sites of the installed replica found", n))
		}
	}
}

// ---------------------------------------------------------------------------
// C14-WGCOUNT: the count a WaitGroup is armed with is the number of goroutines started
// ---------------------------------------------------------------------------

// loopCollection: the collection the innermost loop around b iterates over: the operand of a
// range (map / string: Next of a Range), or X of the bound `i < len(X)` of an index loop (the
// lowering of a slice range).
func loopCollection(b *ssa.BasicBlock) ssa.Value {
	for d := b; d != nil; d = d.Idom() {
		if !inLoop(d) || len(d.Instrs) == 0 {
			continue
		}
		for _, in := range d.Instrs {
			if nx, ok := in.(*ssa.Next); ok {
				if rg, ok := nx.Iter.(*ssa.Range); ok {
					return rg.X
				}
			}
		}
		if iff, ok := d.Instrs[len(d.Instrs)-1].(*ssa.If); ok {
			if bo, ok := iff.Cond.(*ssa.BinOp); ok && bo.Op == token.LSS {
				if cl, ok := bo.Y.(*ssa.Call); ok {
					if bi, ok := cl.Call.Value.(*ssa.Builtin); ok && bi.Name() == "len" {
						return cl.Call.Args[0]
					}
				}
			}
		}
	}
	return nil
}

var paramRef = regexp.MustCompile(`\$(\d+)`)

func ruleWgCount(rule string) ruleFn {
	return func(c *Ctx) {
		c.Doc(rule, "module-wide: goroutines started in a loop that signal a WaitGroup are counted one by one (Add(1) in the loop) or the group is armed with len(X) of the very collection X the loop ranges over - in the function itself or, when the group is a parameter, in every caller; a count taken from another collection panics with 'negative WaitGroup counter' (more goroutines) or waits for ever (fewer)")
		n := 0
		for _, fn := range prodFns(c.P) {
			fn := fn
			R := NewRenderer(fn)
			eachInstr(fn, func(in ssa.Instruction) {
				g, ok := in.(*ssa.Go)
				if !ok || !inLoop(g.Block()) {
					return
				}
				var tf *ssa.Function
				mc, isLit := g.Call.Value.(*ssa.MakeClosure)
				if isLit {
					tf, _ = mc.Fn.(*ssa.Function)
				} else {
					tf = g.Call.StaticCallee()
				}
				if tf == nil || tf.Blocks == nil {
					return
				}
				// the group the goroutine signals, as a value of fn
				var W ssa.Value
				eachInstr(tf, func(x ssa.Instruction) {
					ci, ok := x.(ssa.CallInstruction)
					if !ok || CalleeName(x) != "(*sync.WaitGroup).Done" || len(ci.Common().Args) == 0 {
						return
					}
					recv := strip(ci.Common().Args[0])
					if ld, ok := recv.(*ssa.UnOp); ok && ld.Op == token.MUL {
						// a captured pointer variable: the binding is the cell that holds the pointer
						if fv, ok := ld.X.(*ssa.FreeVar); ok && isLit {
							for i, f := range tf.FreeVars {
								if f == fv && i < len(mc.Bindings) {
									if al, ok := mc.Bindings[i].(*ssa.Alloc); ok && al.Referrers() != nil {
										var stored []ssa.Value
										for _, u := range *al.Referrers() {
											if st, ok := u.(*ssa.Store); ok && st.Addr == al {
												stored = append(stored, st.Val)
											}
										}
										if len(stored) == 1 {
											W = stored[0]
										}
									}
								}
							}
						}
						return
					}
					switch rv := recv.(type) {
					case *ssa.FreeVar:
						for i, fv := range tf.FreeVars {
							if fv == rv && isLit && i < len(mc.Bindings) {
								W = mc.Bindings[i]
							}
						}
					case *ssa.Parameter:
						for i, p := range tf.Params {
							if p == rv && i < len(g.Call.Args) {
								W = g.Call.Args[i]
							}
						}
					}
				})
				if W == nil {
					return
				}
				n++
				key := FnName(fn) + " | goroutines of the loop are all counted"
				coll := loopCollection(g.Block())
				collTerm := ""
				if coll != nil {
					collTerm = R.V(coll)
				}
				wTerm := R.V(W)
				verdict := func(RA *Renderer, add ssa.Instruction, want string, inSameLoop bool) (bool, string) {
					a := add.(ssa.CallInstruction).Common().Args[1]
					if k, ok := intConst(a); ok && k == 1 && inSameLoop {
						return true, "Add(1) per goroutine"
					}
					got := RA.V(a)
					if want != "" && got == "len("+want+")" {
						return true, "armed with " + got
					}
					return false, "armed with " + got + ", the loop starts one goroutine per element of " + want
				}
				found := false
				var mine []ssa.Instruction
				for _, add := range AnyCallsTo(fn, "(*sync.WaitGroup).Add") {
					if R.V(add.(ssa.CallInstruction).Common().Args[0]) == wTerm {
						mine = append(mine, add)
					}
				}
				// counted one by one in this very loop?
				for _, add := range mine {
					if inLoop(add.Block()) && loopCollection(add.Block()) == coll {
						found = true
						if ok, why := verdict(R, add, collTerm, true); ok {
							c.OK(rule, key, c.P.InstrPos(in), why, true)
						} else {
							c.Bad(rule, key, c.P.InstrPos(add), why, nil)
						}
					}
				}
				if !found {
					// armed before the loop (an Add inside another loop counts that loop's goroutines)
					for _, add := range mine {
						if inLoop(add.Block()) {
							continue
						}
						found = true
						if ok, why := verdict(R, add, collTerm, false); ok {
							c.OK(rule, key, c.P.InstrPos(in), why, true)
						} else {
							c.Bad(rule, key, c.P.InstrPos(add), why, nil)
						}
					}
				}
				if found {
					return
				}
				// the group comes in as a parameter: the callers arm it
				pi := -1
				for i, p := range fn.Params {
					if p == strip(W) {
						pi = i
					}
				}
				node := c.P.CG.Nodes[fn]
				if pi < 0 || node == nil || len(node.In) == 0 {
					c.Undecided(rule, key, c.P.InstrPos(in), "no Add for "+wTerm+" found")
					return
				}
				for _, e := range node.In {
					cf := e.Caller.Func
					site, ok := e.Site.(*ssa.Call)
					if cf == nil || !ok || pi >= len(site.Call.Args) {
						continue
					}
					RC := NewRenderer(cf)
					wArg := RC.V(site.Call.Args[pi])
					want := paramRef.ReplaceAllStringFunc(collTerm, func(m string) string {
						var k int
						fmt.Sscanf(m, "$%d", &k)
						if k < len(site.Call.Args) {
							return RC.V(site.Call.Args[k])
						}
						return m
					})
					armed := false
					for _, add := range AnyCallsTo(cf, "(*sync.WaitGroup).Add") {
						if RC.V(add.(ssa.CallInstruction).Common().Args[0]) != wArg {
							continue
						}
						armed = true
						k2 := key + " | armed in " + FnName(cf)
						if ok, why := verdict(RC, add, want, false); ok {
							c.OK(rule, k2, c.P.InstrPos(add), why, true)
						} else {
							c.Bad(rule, k2, c.P.InstrPos(add), why, nil)
						}
					}
					if !armed {
						c.Undecided(rule, key+" | armed in "+FnName(cf), c.P.InstrPos(site), "the caller passes "+wArg+" without arming it")
					}
				}
			})
		}
		if n < 8 {
			c.Undecided(rule, "vacuity-floor", "", fmt.Sprintf("only %d counted goroutine loops found", n))
		}
	}
}

// ---------------------------------------------------------------------------
// *-HTTPCLIENT: a time-out is switched off only on a client nobody else uses
// ---------------------------------------------------------------------------

// httpTimeoutSetters: methods that may change the time-out of the client their object keeps,
// because the object lives for one management call (rest handlers build a ReplicaClient per
// request); the premise - every ReplicaClient gets an http.Client of its own - is an obligation.
var httpTimeoutSetters = map[string]string{
	"(*replica/client.ReplicaClient).SetTimeout": "explicit setter on a per-call client",
	"(*replica/client.ReplicaClient).Revert":     "a revert reloads and preloads the whole chain: no deadline, on a per-call client",
}

func ruleHTTPClientPrivate(rule string) ruleFn {
	return func(c *Ctx) {
		c.Doc(rule, "module-wide: (http.Client).Timeout is assigned only on a client that is private to the assignment - a fresh allocation or copy made in the same function - or by the two setters of replica/client.ReplicaClient, whose client is allocated per ReplicaClient (every store to ReplicaClient.httpClient is a fresh &http.Client{} of the storing function): a backend that clears the time-out of the client it keeps (doAction for the slow 'open') issues every later request - made under the controller lock - without any deadline")
		n := 0
		isHTTPClientPtr := func(t types.Type) bool {
			p, ok := t.Underlying().(*types.Pointer)
			if !ok {
				return false
			}
			nm, ok := p.Elem().(*types.Named)
			return ok && nm.Obj().Pkg() != nil && nm.Obj().Pkg().Path() == "net/http" && nm.Obj().Name() == "Client"
		}
		for _, fn := range prodFns(c.P) {
			fn := fn
			R := NewRenderer(fn)
			eachInstr(fn, func(in ssa.Instruction) {
				st, ok := in.(*ssa.Store)
				if !ok {
					return
				}
				fa, ok := st.Addr.(*ssa.FieldAddr)
				if !ok {
					return
				}
				// (1) stores to Timeout of an http.Client
				if isHTTPClientPtr(fa.X.Type()) {
					sty := fa.X.Type().Underlying().(*types.Pointer).Elem().Underlying().(*types.Struct)
					if sty.Field(fa.Field).Name() != "Timeout" {
						return
					}
					n++
					key := FnName(fn) + " | time-out assigned on a private client | " + R.V(fa.X)
					switch {
					case isFreshBase(fa.X):
						c.OK(rule, key, c.P.InstrPos(in), "client allocated (or copied) in this function", false)
					case httpTimeoutSetters[FnName(fn)] != "" && strings.HasSuffix(R.V(fa.X), ".httpClient"):
						c.OK(rule, key, c.P.InstrPos(in), httpTimeoutSetters[FnName(fn)], false)
					default:
						c.Bad(rule, key, c.P.InstrPos(in), "the time-out of a client that outlives this call is changed: every later request through it runs with the new value (0 = none)", nil)
					}
					return
				}
				// (2) the premise of the setters: a ReplicaClient's client is its own
				if t, f, _ := fieldAddrOf(fa); t == "ReplicaClient" && f == "httpClient" {
					n++
					key := FnName(fn) + " | ReplicaClient gets an http.Client of its own"
					if isFreshBase(st.Val) {
						c.OK(rule, key, c.P.InstrPos(in), "fresh allocation", false)
					} else {
						c.Bad(rule, key, c.P.InstrPos(in), "ReplicaClient.httpClient is set to "+R.V(st.Val)+", a client other ReplicaClients share: SetTimeout / Revert change it for all of them", nil)
					}
				}
			})
		}
		// ... and a ReplicaClient of its own: the constructor hands out a fresh object on every call
		// (a cache keyed by address makes SetTimeout / Revert's "no deadline" outlive the request
		// that asked for it)
		if nc := c.Anchor(rule, "replica/client.NewReplicaClient"); nc != nil {
			RN := NewRenderer(nc)
			for _, r := range Returns(nc) {
				if len(r.Results) == 0 || isNilConst(strip(r.Results[0])) {
					continue
				}
				n++
				key := FnName(nc) + " | a client of its own per call"
				if isFreshBase(r.Results[0]) {
					c.OK(rule, key, c.P.InstrPos(r), "fresh allocation", false)
				} else {
					c.Bad(rule, key, c.P.InstrPos(r), "returns "+RN.V(r.Results[0])+", an object that earlier callers hold as well", nil)
				}
			}
		}
		if n < 5 {
			c.Undecided(rule, "vacuity-floor", "", fmt.Sprintf("only %d sites found", n))
		}
	}
}

// ---------------------------------------------------------------------------
// C16-FRONTSIZE: a frontend that remembers the volume size keeps it current
// ---------------------------------------------------------------------------

func ruleFrontendSize(rule string) ruleFn {
	return func(c *Ctx) {
		c.Doc(rule, "every frontend (a type with Startup(..., size, sectorSize, ...) and Resize(size)): a field that Startup fills from its size parameter is either re-assigned by Resize from Resize's parameter, or it is never read outside Startup - a bound or a published size taken from it is stale after a successful grow (the added range is refused by the frontend although the controller and the replicas have it)")
		n := 0
		for _, st := range prodFns(c.P) {
			if st.Name() != "Startup" || st.Signature.Recv() == nil || st.Blocks == nil {
				continue
			}
			recvT := st.Signature.Recv().Type()
			var rz *ssa.Function
			for _, f := range prodFns(c.P) {
				if f.Name() == "Resize" && f.Signature.Recv() != nil && types.Identical(f.Signature.Recv().Type(), recvT) {
					rz = f
				}
			}
			if rz == nil {
				continue
			}
			// the size parameter of Startup: the first int64 / uint64 parameter named size, else the first integer parameter
			var sizeP *ssa.Parameter
			for _, p := range st.Params[1:] {
				if p.Name() == "size" {
					sizeP = p
				}
			}
			if sizeP == nil {
				continue
			}
			n++
			// fields of the receiver that Startup fills from it
			type fld struct{ typ, name string }
			var sized []fld
			eachInstr(st, func(in ssa.Instruction) {
				s, ok := in.(*ssa.Store)
				if !ok {
					return
				}
				if stripConv(strip(s.Val)) != ssa.Value(sizeP) {
					return
				}
				if t, f, _ := fieldAddrOf(s.Addr); t != "" {
					sized = append(sized, fld{t, f})
				}
			})
			for _, sf := range sized {
				key := FnName(rz) + " | keeps " + sf.typ + "." + sf.name + " current"
				kept := false
				for _, s := range StoresTo(rz, sf.typ, sf.name) {
					v := stripConv(strip(s.(*ssa.Store).Val))
					if len(rz.Params) > 1 && v == ssa.Value(rz.Params[1]) {
						kept = true
					}
				}
				if kept {
					c.OK(rule, key, c.P.Pos(rz.Pos()), "Resize stores its parameter into the field", false)
					continue
				}
				// not maintained: then nobody may read it
				var reads []string
				for _, f := range prodFns(c.P) {
					if f == st {
						continue
					}
					eachInstr(f, func(in ssa.Instruction) {
						u, ok := in.(*ssa.UnOp)
						if !ok || u.Op != token.MUL {
							return
						}
						if t, fn2, _ := fieldAddrOf(u.X); t == sf.typ && fn2 == sf.name {
							reads = append(reads, FnName(f)+" @"+c.P.InstrPos(in))
						}
					})
				}
				if len(reads) == 0 {
					c.OK(rule, key, c.P.Pos(rz.Pos()), "the field is written by Startup only and never read", false)
				} else {
					c.Bad(rule, key, c.P.Pos(rz.Pos()), "Resize does not update the field, yet it is read by "+strings.Join(reads, ", ")+": stale after a grow", nil)
				}
			}
		}
		if n < 1 {
			c.Undecided(rule, "vacuity-floor", "", "no frontend with Startup / Resize found")
		}
	}
}

// ---------------------------------------------------------------------------
// *-JOINREGION: join snapshot and attach are one lock region
// ---------------------------------------------------------------------------

// ruleJoinRegion: a replica joins behind a snapshot that is taken on all members (so that only
// closed files have to be copied) and is attached to the write fan-out in the same critical
// section: a write acknowledged between the two lands in the members' new heads and never
// reaches the newcomer, which is later promoted without it.  Typestate over package controller,
// interprocedural: idle -join snapshot-> snap -controller lock released-> stale -AddBackend-> BAD.
func ruleJoinRegion(rule string) ruleFn {
	return func(c *Ctx) {
		c.Doc(rule, "typestate over package controller (interprocedural summaries, deferred calls applied at return): after the join snapshot of the members (replicator.Snapshot with userCreated == false) no release of a controller lock (Unlock / RUnlock, plain or deferred) happens before the replica is attached (replicator.AddBackend) - snapshot and attach are one critical section, whichever functions they are written in")
		T := newTS(c.P)
		T.Follow = func(g *ssa.Function) bool {
			n := FnName(g)
			return strings.Contains(n, "controller.") && !strings.Contains(n, "controller/")
		}
		nSnap, nAdd := 0, 0
		T.Prim = func(fn *ssa.Function, R *Renderer, in ssa.Instruction, st string) (string, bool) {
			if st == "BAD" {
				return st, false
			}
			ci, ok := in.(ssa.CallInstruction)
			if !ok {
				return st, false
			}
			switch CalleeName(in) {
			case fRepl + "Snapshot":
				a := ci.Common().Args
				if len(a) >= 3 {
					if k, ok := strip(a[2]).(*ssa.Const); ok && k.Value != nil && k.Value.String() == "false" {
						return "snap", true
					}
					if _, isConst := strip(a[2]).(*ssa.Const); !isConst {
						return "snap", true // not known to be a user snapshot
					}
				}
			case "(*sync.RWMutex).Unlock", "(*sync.RWMutex).RUnlock":
				if st == "snap" {
					return "stale", true
				}
			case fRepl + "AddBackend":
				if st == "stale" {
					return "BAD", true
				}
				return "idle", true
			}
			return st, false
		}
		for _, fn := range prodFns(c.P) {
			nSnap += len(AnyCallsTo(fn, fRepl+"Snapshot"))
			nAdd += len(AnyCallsTo(fn, fRepl+"AddBackend"))
		}
		n := 0
		for _, fn := range c.P.methodsOf("controller", "Controller") {
			if fn.Blocks == nil {
				continue
			}
			n++
			bad := false
			for _, e := range T.Summary(fn, "idle") {
				if e.Out == "BAD" {
					bad = true
					c.Bad(rule, FnName(fn)+" | join snapshot and attach in one lock region", c.P.Pos(fn.Pos()), "a path takes the join snapshot on the members, releases the controller lock, and attaches the replica afterwards: writes acknowledged in between are in no file the rebuild copies", c.witness(Witness{Path: T.WitnessFor(fn, e.Kind, e.Out)}))
					break
				}
			}
			if !bad && (len(AnyCallsTo(fn, fRepl+"Snapshot")) > 0 || len(AnyCallsTo(fn, fRepl+"AddBackend")) > 0 || strings.HasSuffix(FnName(fn), ".addReplica") || strings.HasSuffix(FnName(fn), ".AddReplica")) {
				c.OK(rule, FnName(fn)+" | join snapshot and attach in one lock region", c.P.Pos(fn.Pos()), "no exit in state BAD", true)
			}
		}
		if n < 40 || nSnap < 2 || nAdd < 1 {
			c.Undecided(rule, "vacuity-floor", "", fmt.Sprintf("%d controller methods, %d Snapshot fan-outs, %d AddBackend calls", n, nSnap, nAdd))
		}
	}
}

// ---------------------------------------------------------------------------
// *-LISTDISKS: the listing the cleaner's filters read is the current chain state
// ---------------------------------------------------------------------------

func ruleListDisks(rule string) ruleFn {
	return func(c *Ctx) {
		c.Doc(rule, "Replica.ListDisks (the input of the snapshot cleaner's filters and of the controller's deletion checks) publishes, for every disk of diskData, a DiskInfo built in that very iteration whose Name / Parent / Removed / UserCreated / Created / RevisionCounter are the fields of that disk: no entry comes out of a cache or another container (an entry that outlives its disk turns a later snapshot of the same name into a deletion candidate)")
		fn := c.Anchor(rule, fRep+"ListDisks")
		if fn == nil {
			return
		}
		R := NewRenderer(fn)
		n := 0
		eachInstr(fn, func(in ssa.Instruction) {
			mu, ok := in.(*ssa.MapUpdate)
			if !ok {
				return
			}
			if _, isMk := strip(mu.Map).(*ssa.MakeMap); !isMk {
				if R.V(mu.Map) != "makemap" {
					return
				}
			}
			n++
			key := FnName(fn) + " | entry built from the disk it describes"
			ld, ok := strip(mu.Value).(*ssa.UnOp)
			var al *ssa.Alloc
			if ok && ld.Op == token.MUL {
				al, _ = ld.X.(*ssa.Alloc)
			}
			if al == nil {
				c.Bad(rule, key, c.P.InstrPos(in), "the published entry is "+R.V(mu.Value)+", not a DiskInfo assembled in this iteration", nil)
				return
			}
			kterm := R.V(mu.Key)
			base := strings.TrimSuffix(kterm, ".Name")
			if !strings.HasSuffix(kterm, ".Name") || !strings.HasPrefix(base, "$0.diskData[") {
				c.Bad(rule, key, c.P.InstrPos(in), "entry is published under "+kterm+", expected the name of the ranged disk", nil)
				return
			}
			got := map[string]string{}
			if al.Referrers() != nil {
				for _, u := range *al.Referrers() {
					if ws, ok := u.(*ssa.Store); ok && ws.Addr == ssa.Value(al) {
						if k, isConst := ws.Val.(*ssa.Const); !isConst || k.Value != nil {
							got["Name"] = "whole value " + R.V(ws.Val)
							got["Removed"] = got["Name"]
						}
						continue
					}
					fa, ok := u.(*ssa.FieldAddr)
					if !ok || fa.Referrers() == nil {
						continue
					}
					st := al.Type().Underlying().(*types.Pointer).Elem().Underlying().(*types.Struct)
					for _, w := range *fa.Referrers() {
						if s, ok := w.(*ssa.Store); ok && s.Addr == fa {
							got[st.Field(fa.Field).Name()] = R.V(s.Val)
						}
					}
				}
			}
			bad := ""
			if al.Referrers() != nil {
				for _, u := range *al.Referrers() {
					if ws, ok := u.(*ssa.Store); ok && ws.Addr == ssa.Value(al) {
						if k, isConst := ws.Val.(*ssa.Const); !isConst || k.Value != nil {
							bad += " (the whole entry is also assigned " + R.V(ws.Val) + ")"
						}
					}
				}
			}
			for _, f := range []string{"Name", "Parent", "Removed", "UserCreated", "Created", "RevisionCounter"} {
				if got[f] != base+"."+f {
					bad += fmt.Sprintf(" %s=%q", f, got[f])
				}
			}
			if bad == "" {
				c.OK(rule, key, c.P.InstrPos(in), "six attributes copied from "+base, true)
			} else {
				c.Bad(rule, key, c.P.InstrPos(in), "attributes not taken from the disk:"+bad, nil)
			}
		})
		if n != 1 {
			c.Bad(rule, FnName(fn)+" | one entry per disk", c.P.Pos(fn.Pos()), fmt.Sprintf("%d map updates of the result found, expected one", n), nil)
		}
	}
}

// ---------------------------------------------------------------------------
// C09-ACTIONQ: a repeated start signal is queued, not refused
// ---------------------------------------------------------------------------

func ruleActionQueue(rule string) ruleFn {
	return func(c *Ctx) {
		c.Doc(rule, "replica.ActionChannel, the queue between the replica's REST 'start' action and its registration loop, is created with a constant capacity of at least 2: the controller signals the elected replica again whenever that replica registers while its first signal is still pending (ticker and signal race in the loop's select); Server.Start answers 'busy' (HTTP 500) when the queue is full, the controller takes that for a failed signal and drops the healthy, most up-to-date leader")
		n := 0
		for _, fn := range pkgFuncs(c.P, "replica") {
			R := NewRenderer(fn)
			eachInstr(fn, func(in ssa.Instruction) {
				st, ok := in.(*ssa.Store)
				if !ok {
					return
				}
				g, ok := st.Addr.(*ssa.Global)
				if !ok || g.Name() != "ActionChannel" {
					return
				}
				n++
				key := FnName(fn) + " | capacity of ActionChannel"
				mk, ok := strip(st.Val).(*ssa.MakeChan)
				if !ok {
					c.Bad(rule, key, c.P.InstrPos(in), "ActionChannel is assigned "+R.V(st.Val)+", not a channel made here", nil)
					return
				}
				if k, ok := intConst(mk.Size); ok && k >= 2 {
					c.OK(rule, key, c.P.InstrPos(in), fmt.Sprintf("capacity %d", k), false)
				} else {
					c.Bad(rule, key, c.P.InstrPos(in), "capacity "+R.V(mk.Size)+": a start signal repeated while the first is pending is refused as 'busy'", nil)
				}
			})
		}
		if n == 0 {
			c.Undecided(rule, "replica.ActionChannel | created", "", "no assignment of ActionChannel found")
		}
	}
}

// ---------------------------------------------------------------------------
// *-REVERTRESTORE: volume.meta is not put back once the old head is gone
// ---------------------------------------------------------------------------

func ruleRevertRestore(rule string) ruleFn {
	return func(c *Ctx) {
		c.Doc(rule, "revert path (Server.Revert -> Replica.Revert -> revertDisk), typestate with interprocedural summaries: once revertDisk has unlinked the old head (rmDisk), no write of volume.meta from the instance's old r.info is reachable - a roll-back of the commit is possible only while the head it names still exists; after that point a failure (the reload) must leave the committed new chain on disk")
		T := newTS(c.P)
		T.Follow = func(g *ssa.Function) bool {
			n := FnName(g)
			return strings.Contains(n, "replica.") && !strings.Contains(n, "replica/")
		}
		nRm, nEnc := 0, 0
		T.Prim = func(fn *ssa.Function, R *Renderer, in ssa.Instruction, st string) (string, bool) {
			ci, ok := in.(ssa.CallInstruction)
			if !ok || st == "BAD" {
				return st, false
			}
			switch CalleeName(in) {
			case fRep + "rmDisk":
				if FnName(fn) == fRep+"revertDisk" || (isFreshFn(fn) && st == "reverting") {
					return "unlinked", true
				}
			case fRep + "createNewHead":
				if FnName(fn) == fRep+"revertDisk" && st == "idle" {
					return "reverting", true
				}
			case fRep + "encodeToFile":
				a := ci.Common().Args
				if len(a) >= 3 && st == "unlinked" && R.V(a[1]) == "&$0.info" {
					return "BAD", true
				}
			}
			return st, false
		}
		if rd := c.Anchor(rule, fRep+"revertDisk"); rd != nil {
			nRm = len(AnyCallsTo(rd, fRep+"rmDisk"))
			nEnc = len(AnyCallsTo(rd, fRep+"encodeToFile"))
		}
		n := 0
		for _, name := range []string{fRep + "Revert", fSrv + "Revert", fRep + "revertDisk"} {
			fn := c.Anchor(rule, name)
			if fn == nil {
				continue
			}
			n++
			bad := false
			for _, e := range T.Summary(fn, "idle") {
				if e.Out == "BAD" {
					bad = true
					c.Bad(rule, name+" | no roll-back of volume.meta after the old head was unlinked", c.P.Pos(fn.Pos()), "a path unlinks the old head and afterwards writes volume.meta from the old r.info: the file then names a head that no longer exists and the replica cannot be opened", c.witness(Witness{Path: T.WitnessFor(fn, e.Kind, e.Out)}))
					break
				}
			}
			if !bad {
				c.OK(rule, name+" | no roll-back of volume.meta after the old head was unlinked", c.P.Pos(fn.Pos()), "no exit in state BAD", true)
			}
		}
		if n < 3 || nRm < 1 || nEnc < 1 {
			c.Undecided(rule, "vacuity-floor", "", fmt.Sprintf("%d functions, %d rmDisk, %d encodeToFile in revertDisk", n, nRm, nEnc))
		}
	}
}

// ---------------------------------------------------------------------------
// C16-STOREDSIZE: the persisted size wins over the size a caller brings along
// ---------------------------------------------------------------------------

func ruleStoredSize(rule string) ruleFn {
	return func(c *Ctx) {
		c.Doc(rule, "replica.construct seeds info.Size / info.SectorSize from its parameters only before readMetadata: once volume.meta was read, what it says stays (the replica process is started with the size the volume was provisioned with, which is stale after a grow); replica.Server.Create builds a replica only in state 'initial' - an existing volume is never loaded with the start-up size")
		if fn := c.Anchor(rule, "replica.construct"); fn != nil {
			rm := CallsTo(fn, fRep+"readMetadata")
			if len(rm) != 1 {
				c.Undecided(rule, FnName(fn)+" | reads volume.meta once", c.P.Pos(fn.Pos()), fmt.Sprintf("%d readMetadata calls", len(rm)))
			} else {
				n := 0
				for _, f := range []string{"Size", "SectorSize"} {
					for _, st := range StoresTo(fn, "Info", f) {
						n++
						key := fmt.Sprintf("%s | info.%s from the parameters only before volume.meta is read", FnName(fn), f)
						if len(Query{Fn: fn, Start: rm[0], IsSite: func(in ssa.Instruction) bool { return in == st }}.Run()) > 0 {
							c.Bad(rule, key, c.P.InstrPos(st), "info."+f+" is assigned after readMetadata: the caller's value overrides the persisted one", nil)
						} else {
							c.OK(rule, key, c.P.InstrPos(st), "store precedes readMetadata", true)
						}
					}
				}
				if n == 0 {
					c.Undecided(rule, FnName(fn)+" | seeds the geometry", c.P.Pos(fn.Pos()), "no store to info.Size found")
				}
			}
		}
		if fn := c.Anchor(rule, fSrv+"Create"); fn != nil {
			c.Guard(rule, fn, CallsTo(fn, "replica.New"), "build a replica with the start-up size", nil,
				atom("no volume yet (state initial)", `+"initial" -`+fSrv+`Status($0)#0 ==0`))
		}
		c.Floor(rule, 3)
	}
}

// ---------------------------------------------------------------------------
// *-COUNTFWD: the fan-out's count is the replicator's count
// ---------------------------------------------------------------------------

func ruleCountForward(rule string) ruleFn {
	return func(c *Ctx) {
		c.Doc(rule, "replicator.WriteAt / Sync / Unmap return, on every path after the fan-out, the count the fan-out returned (len(p) / 0 with a majority, 0 / -1 without): Controller.WriteAt / Sync / Unmap tell 'failed replicas isolated, operation good' from 'majority lost' by that count alone - a constant in its place turns a failing minority into an I/O error or a lost majority into success")
		n := 0
		for _, m := range []string{"WriteAt", "Sync", "Unmap"} {
			fn := c.Anchor(rule, fRepl+m)
			if fn == nil {
				continue
			}
			R := NewRenderer(fn)
			var call ssa.Instruction
			eachInstr(fn, func(in ssa.Instruction) {
				cl, ok := in.(*ssa.Call)
				if !ok {
					return
				}
				nm := CalleeName(cl)
				if (cl.Call.IsInvoke() && cl.Call.Method.Name() == m) || strings.HasSuffix(nm, ")."+m) {
					if strings.Contains(callRender(R, in), "$0.writer") {
						call = in
					}
				}
			})
			if call == nil {
				c.Undecided(rule, FnName(fn)+" | fan-out call", c.P.Pos(fn.Pos()), "call of r.writer."+m+" not found")
				continue
			}
			want := callRender(R, call) + "#0"
			for _, w := range reachableFrom(call, func(in ssa.Instruction) bool { _, ok := in.(*ssa.Return); return ok }) {
				ret := w.Site.(*ssa.Return)
				n++
				key := fmt.Sprintf("%s | count of the fan-out handed up", FnName(fn))
				if got := R.V(ret.Results[0]); got == want {
					c.OK(rule, key, c.P.InstrPos(ret), got, false)
				} else {
					c.Bad(rule, key, c.P.InstrPos(ret), "returns "+got+" as the count, not the fan-out's "+want, nil)
				}
			}
		}
		if n < 6 {
			c.Undecided(rule, "vacuity-floor", "", fmt.Sprintf("only %d returns after a fan-out found", n))
		}
	}
}

// ---------------------------------------------------------------------------
// C09-VOLCOUNT: the replica count replicas bootstrap on counts data replicas
// ---------------------------------------------------------------------------

func ruleVolumeCount(rule string) ruleFn {
	return func(c *Ctx) {
		c.Doc(rule, "the volume resource of the controller's REST API publishes len(Controller.ListReplicas()) - the data replicas - as its replica count: a replica process takes `ReplicaCount == 0` as its only cue to register for the bootstrap election (and the 'start' action is offered only then), while the controller itself decides bootstrap mode by its data replicas; a count that includes quorum replicas leaves a volume that lost all data replicas without any registrant")
		n := 0
		for _, fn := range pkgFuncs(c.P, "controller/rest") {
			R := NewRenderer(fn)
			for _, in := range CallsTo(fn, "controller/rest.NewVolume") {
				cl := in.(*ssa.Call)
				if len(cl.Call.Args) < 4 {
					continue
				}
				n++
				key := FnName(fn) + " | replica count published"
				got := R.V(cl.Call.Args[3])
				if got == "len($0.c.replicas)" || got == "len("+fCtl+"ListReplicas($0.c))" {
					c.OK(rule, key, c.P.InstrPos(in), got, false)
				} else {
					c.Bad(rule, key, c.P.InstrPos(in), "publishes "+got+" as the replica count, expected the number of data replicas", nil)
				}
			}
		}
		if n < 1 {
			c.Undecided(rule, "vacuity-floor", "", "no NewVolume call found")
		}
	}
}

// ---------------------------------------------------------------------------
// C18-QUORUMADMIT: a quorum replica is admitted by the common admission check
// ---------------------------------------------------------------------------

func ruleQuorumAdmit(rule string) ruleFn {
	return func(c *Ctx) {
		c.Doc(rule, "addQuorumReplicaNoLock lists the quorum replica and hands it to the replicator only after canAdd(address) held in this lock region - the check that scans BOTH lists: an address already attached as a data replica must not become a quorum replica as well (two backends for one address, the data one closed alone on removal, a Fatalf in setReplicaModeNoLock)")
		fn := c.Anchor(rule, fCtl+"addQuorumReplicaNoLock")
		if fn == nil {
			return
		}
		R := NewRenderer(fn)
		var sites []ssa.Instruction
		sites = append(sites, StoresTo(fn, "Controller", "quorumReplicas")...)
		sites = append(sites, CallsTo(fn, fRepl+"AddQuorumBackend")...)
		if len(sites) == 0 {
			c.Undecided(rule, FnName(fn)+" | admission sites", c.P.Pos(fn.Pos()), "no append to quorumReplicas / AddQuorumBackend found (moved?)")
			return
		}
		addr := "$2"
		for _, in := range CallsTo(fn, fRepl+"AddQuorumBackend") {
			if cl, ok := in.(*ssa.Call); ok && len(cl.Call.Args) >= 2 {
				addr = R.V(cl.Call.Args[1])
			}
		}
		c.Guard(rule, fn, sites, "admit the quorum replica", lockOrUnlock, c.admitted(fn, "canAdd(address)", addr))
	}
}

// ---------------------------------------------------------------------------
// *-RELOADMODE: a reloaded instance continues in the mode of the one it replaces
// ---------------------------------------------------------------------------

func ruleReloadMode(rule string) ruleFn {
	return func(c *Ctx) {
		c.Doc(rule, "Replica.Reload hands the old instance's mode and Dirty flag to the new one (newReplica.mode = r.mode): revert and the end of a rebuild / clone reload a replica the controller keeps in its mode without sending it again - an RW replica reloaded into another mode applies writes without counting them")
		fn := c.Anchor(rule, fRep+"Reload")
		if fn == nil {
			return
		}
		R := NewRenderer(fn)
		n := 0
		for _, f := range []struct{ field, want string }{{"mode", "$0.mode"}} {
			for _, st := range StoresTo(fn, "Replica", f.field) {
				n++
				key := FnName(fn) + " | new instance takes over " + f.field
				if v := R.V(st.(*ssa.Store).Val); v == f.want || v == c.P.callTerm(fRep+"currentMode", "$0") {
					c.OK(rule, key, c.P.InstrPos(st), v, false)
				} else {
					c.Bad(rule, key, c.P.InstrPos(st), "the new instance's "+f.field+" is set to "+v+", not to the old instance's", nil)
				}
			}
		}
		if n == 0 {
			c.Bad(rule, FnName(fn)+" | new instance takes over mode", c.P.Pos(fn.Pos()), "Reload no longer sets the mode of the new instance (it starts in INIT)", nil)
		}
		// who may write a replica's mode at all: Reload (the old mode), SetReplicaMode (RW / WO,
		// checked by SRV-GUARD), Close (CLOSED), and composite literals (INIT by default)
		allowed := map[string]bool{fRep + "Reload": true, fRep + "SetReplicaMode": true, fRep + "Close": true}
		for _, f := range pkgFuncs(c.P, "replica") {
			root := f
			for root.Parent() != nil {
				root = root.Parent()
			}
			for _, st := range StoresTo(f, "Replica", "mode") {
				key := FnName(f) + " | writes a replica's mode"
				if allowed[FnName(root)] {
					c.OK(rule, key, c.P.InstrPos(st), "allow-listed writer", false)
					continue
				}
				v := NewRenderer(f).V(st.(*ssa.Store).Val)
				if FnName(root) != fRep+"Reload" && (v == "$0.mode" || v == `"INIT"`) {
					c.OK(rule, key, c.P.InstrPos(st), "hands on the old mode / initial mode", false)
					continue
				}
				c.Bad(rule, key, c.P.InstrPos(st), "new writer of Replica.mode (value "+v+"): a reload / revert that does not carry the old mode over opens the gate of a WO or INIT replica", nil)
			}
		}
	}
}

// ---------------------------------------------------------------------------
// *-CTLRESTFWD: a controller REST action is answered after the controller did it
// ---------------------------------------------------------------------------

var ctlRestOps = []struct{ handler, op string }{
	{"ResizeVolume", "Resize"}, {"SnapshotVolume", "Snapshot"}, {"RevertVolume", "Revert"}, {"StartVolume", "Start"},
	{"ShutdownVolume", "Shutdown"}, {"DeleteSnapshot", "DeleteSnapshot"}, {"CreateReplica", "AddReplica"},
	{"CreateQuorumReplica", "AddQuorumReplica"}, {"DeleteReplica", "RemoveReplica"}, {"UpdateReplica", "SetReplicaMode"},
	{"PrepareRebuildReplica", "PrepareRebuildReplica"}, {"VerifyRebuildReplica", "VerifyRebuildReplica"}, {"RegisterReplica", "RegisterReplica"},
}

func ruleCtlRestForward(rule string) ruleFn {
	return func(c *Ctx) {
		c.Doc(rule, "every action handler of the controller's REST API reports success (returns nil) only after it called the Controller operation it stands for, or after it answered 404 for an id it does not know: no handler decides by itself that a request 'is already satisfied' (a grow compared with a size that still holds the start-up sentinel, a shrink answered 200)")
		n := 0
		for _, e := range ctlRestOps {
			fn := c.P.Fn("(*controller/rest.Server)." + e.handler)
			if fn == nil {
				continue
			}
			n++
			op := fCtl + e.op
			c.Guard(rule, fn, successReturns(fn), "answer success", nil, Need{Desc: "the controller operation " + e.op + " was called (or the id is unknown: 404)", Calls: []string{op}, Instr: func(in ssa.Instruction) bool {
				cl, ok := in.(*ssa.Call)
				return ok && cl.Call.IsInvoke() && cl.Call.Method.Name() == "WriteHeader"
			}})
		}
		if n < 10 {
			c.Undecided(rule, "vacuity-floor", "", fmt.Sprintf("only %d action handlers found", n))
		}
	}
}

// ---------------------------------------------------------------------------
// C14-WRITENIL: a resource that may not exist is not written as an answer
// ---------------------------------------------------------------------------

func ruleWriteNil(rule string) ruleFn {
	return func(c *Ctx) {
		c.Doc(rule, "REST handlers: a value handed to ApiContext.Write that comes from a look-up of this module which can return nil (getReplica, getQuorumReplica, getVolume: `return nil` for an id that is not a member) is written only on a path on which it was found non-nil - go-rancher's Write panics on a typed nil ('Passed type is not a struct'), the handler dies and the client gets no answer")
		n := 0
		for _, pkg := range []string{"controller/rest", "replica/rest"} {
			for _, fn := range pkgFuncs(c.P, pkg) {
				for _, in := range AnyCallsTo(fn, "(*github.com/rancher/go-rancher/api.ApiContext).Write") {
					ci := in.(ssa.CallInstruction)
					if len(ci.Common().Args) < 2 {
						continue
					}
					v := ci.Common().Args[1]
					if mi, ok := v.(*ssa.MakeInterface); ok {
						v = mi.X
					}
					cl, ok := v.(*ssa.Call)
					if !ok {
						continue
					}
					g := cl.Call.StaticCallee()
					if g == nil || !isJivaFn(g) || g.Blocks == nil {
						continue
					}
					if _, isPtr := g.Signature.Results().At(0).Type().Underlying().(*types.Pointer); g.Signature.Results().Len() != 1 || !isPtr {
						continue
					}
					mayNil := false
					for _, r := range Returns(g) {
						if len(r.Results) == 1 && isNilConst(strip(r.Results[0])) {
							mayNil = true
						}
					}
					if !mayNil {
						continue
					}
					n++
					_, nonNil := nilTestEdges(fn, cl)
					c.Guard(rule, fn, []ssa.Instruction{in}, "write "+FnName(g)+"(…) as the answer", nil, Need{Desc: "the looked-up resource was found (non-nil)", Edge: nonNil})
				}
			}
		}
		if n < 3 {
			c.Undecided(rule, "vacuity-floor", "", fmt.Sprintf("only %d answers from nil-able look-ups found", n))
		}
	}
}

// ---------------------------------------------------------------------------
// *-DECODE: a reply that could not be decoded is not a reply
// ---------------------------------------------------------------------------

func ruleDecodeChecked(rule string) ruleFn {
	return func(c *Ctx) {
		c.Doc(rule, "REST clients of this module (replica/client, controller/client, backend/remote): when the JSON document of a reply cannot be decoded - any error of (*json.Decoder).Decode / json.Unmarshal, a type mismatch of one field included - the request fails; no success return is reachable from the failure edge of the decode (a field that is skipped keeps its zero value: revision counter 0, empty chain, state \"\")")
		n := 0
		for _, pkg := range []string{"replica/client", "controller/client", "backend/remote"} {
			for _, fn := range pkgFuncs(c.P, pkg) {
				if errResultIndex(fn) < 0 {
					continue
				}
				for _, in := range CallsTo(fn, "(*encoding/json.Decoder).Decode", "encoding/json.Unmarshal") {
					cl, ok := in.(*ssa.Call)
					if !ok {
						continue
					}
					ev := errOfCall(cl)
					if ev == nil {
						continue
					}
					n++
					key := FnName(fn) + " | undecodable reply fails the request"
					// an error that is never nil-tested has to be what every later return hands back
					isNil, _ := nilTestEdges(fn, ev)
					tested := false
					for _, b := range fn.Blocks {
						for k := range b.Succs {
							if isNil(b, k) {
								tested = true
							}
						}
					}
					if !tested {
						bad := false
						ei := errResultIndex(fn)
						for _, w := range reachableFrom(in, func(x ssa.Instruction) bool { _, ok := x.(*ssa.Return); return ok }) {
							r := w.Site.(*ssa.Return)
							if ei < len(r.Results) && strip(r.Results[ei]) != strip(ev) {
								bad = true
								c.Bad(rule, key, c.P.InstrPos(r), "the decode error is neither tested for nil nor returned here: "+NewRenderer(fn).V(r.Results[ei])+" is returned instead", nil)
							}
						}
						if !bad {
							c.OK(rule, key, c.P.InstrPos(in), "decode error is returned as it is", true)
						}
						continue
					}
					if ws := failureReachesSuccess(fn, cl, ev); len(ws) > 0 {
						c.Bad(rule, key, c.P.InstrPos(in), "a success return is reachable although the reply could not be decoded", c.witness(ws[0]))
					} else {
						c.OK(rule, key, c.P.InstrPos(in), "decode error is returned", true)
					}
				}
			}
		}
		if n < 4 {
			c.Undecided(rule, "vacuity-floor", "", fmt.Sprintf("only %d decode sites found", n))
		}
	}
}

// ---------------------------------------------------------------------------
// C14-POLLFAIL: a failed request of the replica client is not repeated for ever
// ---------------------------------------------------------------------------

func rulePollFail(rule string) ruleFn {
	return func(c *Ctx) {
		c.Doc(rule, "replica/client: from the failure edge of a get / post there is no path back to the same request without a return: a failed status poll of the sync agent ends the wait with an error (SendFile and the coalesce run inside controller operations that hold the controller lock - an agent that died would be polled for ever)")
		n := 0
		for _, fn := range pkgFuncs(c.P, "replica/client") {
			for _, in := range CallsTo(fn, "(*replica/client.ReplicaClient).get", "(*replica/client.ReplicaClient).post") {
				cl, ok := in.(*ssa.Call)
				if !ok || !inLoop(cl.Block()) {
					continue
				}
				ev := errOfCall(cl)
				if ev == nil {
					continue
				}
				n++
				isNil, _ := nilTestEdges(fn, ev)
				// the request is issued again only after its error was found nil
				ws := Query{Fn: fn, Start: in, GenEdge: isNil, IsSite: func(x ssa.Instruction) bool { return x == in }}.Run()
				key := FnName(fn) + " | a failed request is not repeated"
				if len(ws) == 0 {
					c.OK(rule, key, c.P.InstrPos(in), "the failure edge leads to a return", true)
				} else {
					c.Bad(rule, key, c.P.InstrPos(in), "after a failure the same request is issued again without any bound", c.witness(ws[0]))
				}
			}
		}
		if n < 2 {
			c.Undecided(rule, "vacuity-floor", "", fmt.Sprintf("only %d polling loops found", n))
		}
	}
}
