package main

import (
	"fmt"
	"regexp"
	"strings"

	"golang.org/x/tools/go/ssa"
)

// Rules written after the repeated round 7 and round 8.

// ---------------------------------------------------------------------------
// *-LEFTOVER: the head file an interrupted snapshot / revert left behind
// ---------------------------------------------------------------------------

// ruleLeftoverHead: createNewHead tolerates the leftover of an interrupted attempt.  The file
// that carries the next head's name was already truncate(2)d to the volume size by the
// interrupted call, so only its ALLOCATED size tells "empty leftover" from "holds data".
func ruleLeftoverHead(rule string) ruleFn {
	return func(c *Ctx) {
		c.Doc(rule, "createNewHead: an existing file with the next head's name is removed when - and refused only when - its allocated size (getDiskSize = util.GetFileActualSize = st_blocks*512) is positive: the leftover of an interrupted snapshot or revert was already truncated to the volume size, so its apparent size says nothing; GetFileActualSize reports blocks, not st_size")
		fn := c.Anchor(rule, fRep+"createNewHead")
		if fn == nil {
			return
		}
		R := NewRenderer(fn)
		sized := regexp.MustCompile(`^-\(\*replica\.Replica\)\.getDiskSize\(\$0,(.*)\) >=0$`)
		rm := CallsTo(fn, fRep+"rmDisk")
		if len(rm) == 0 {
			c.Bad(rule, FnName(fn)+" | removes the empty leftover", c.P.Pos(fn.Pos()), "no rmDisk call: an empty leftover head is not cleaned up, every later snapshot / revert needs that name", nil)
		}
		for _, in := range rm {
			name := R.V(in.(*ssa.Call).Call.Args[1])
			type ek struct {
				b *ssa.BasicBlock
				k int
			}
			hit := map[ek]bool{}
			for _, ea := range allAtoms(fn, R) {
				if m := sized.FindStringSubmatch(ea.Atom.String()); m != nil && m[1] == name {
					hit[ek{ea.B, ea.Succ}] = true
				}
			}
			c.Guard(rule, fn, []ssa.Instruction{in}, "remove the leftover "+name, nil,
				Need{Desc: "allocated size of that file is not positive", Edge: func(b *ssa.BasicBlock, k int) bool { return hit[ek{b, k}] }})
			// ... and nothing else refuses it: between the Stat that found the file and the removal the
			// only error return is the one on the allocated-size edge
			pos := regexp.MustCompile(`^\+\(\*replica\.Replica\)\.getDiskSize\(\$0,` + regexp.QuoteMeta(name) + `\) -1 >=0$`)
			posHit := map[ek]bool{}
			for _, ea := range allAtoms(fn, R) {
				if pos.MatchString(ea.Atom.String()) {
					posHit[ek{ea.B, ea.Succ}] = true
				}
			}
			stat := CallsTo(fn, "os.Stat")
			if len(stat) == 0 {
				c.Undecided(rule, FnName(fn)+" | existence probe", c.P.Pos(fn.Pos()), "no os.Stat of the next head's name found")
				continue
			}
			// the Stat that found the file: its err == nil edge opens the leftover region
			notFound := func(b *ssa.BasicBlock, k int) bool { return false }
			if se := successEdgesOfCall(fn, stat[0]); se != nil {
				// leaving the Stat's branch on the other edge: no such file, nothing to tolerate
				notFound = func(b *ssa.BasicBlock, k int) bool {
					return len(b.Succs) == 2 && (se(b, 0) || se(b, 1)) && !se(b, k)
				}
			}
			ws := Query{Fn: fn, Start: stat[0],
				IsSite: func(x ssa.Instruction) bool { _, ok := x.(*ssa.Return); return ok },
				Gen: func(x ssa.Instruction) bool {
					return x == in || len(CallsTo(fn, fRep+"openFile")) > 0 && x == CallsTo(fn, fRep+"openFile")[0]
				},
				GenEdge: func(b *ssa.BasicBlock, k int) bool { return posHit[ek{b, k}] || notFound(b, k) },
			}.Run()
			key := FnName(fn) + " | refuses a leftover only for its allocated size"
			if len(ws) > 0 {
				c.Bad(rule, key, c.P.InstrPos(ws[0].Site), "a return is reachable after the file was found, before it is removed, on a path that did not find its allocated size positive", c.witness(ws[0]))
			} else {
				c.OK(rule, key, c.P.InstrPos(stat[0]), "only the allocated-size edge returns inside the leftover region", true)
			}
		}
		// the probe measures blocks
		if g := c.Anchor(rule, "util.GetFileActualSize"); g != nil {
			RG := NewRenderer(g)
			okRet := 0
			eachInstr(g, func(x ssa.Instruction) {
				if r, ok := x.(*ssa.Return); ok && len(r.Results) == 1 {
					s := RG.V(r.Results[0])
					if strings.Contains(s, ".Blocks") {
						okRet++
					} else if strings.Contains(s, ".Size") {
						c.Bad(rule, FnName(g)+" | reports allocated bytes", c.P.InstrPos(x), "returns "+s+": the apparent size of a sparse file", nil)
					}
				}
			})
			if okRet == 0 {
				c.Bad(rule, FnName(g)+" | reports allocated bytes", c.P.Pos(g.Pos()), "no return derived from st_blocks", nil)
			} else {
				c.OK(rule, FnName(g)+" | reports allocated bytes", c.P.Pos(g.Pos()), fmt.Sprintf("%d return(s) from st_blocks", okRet), false)
			}
		}
		if w := c.Anchor(rule, fRep+"getDiskSize"); w != nil {
			if len(CallsTo(w, "util.GetFileActualSize")) != 1 {
				c.Bad(rule, FnName(w)+" | is the allocated size", c.P.Pos(w.Pos()), "getDiskSize no longer forwards to util.GetFileActualSize", nil)
			} else {
				c.OK(rule, FnName(w)+" | is the allocated size", c.P.Pos(w.Pos()), "forwards to util.GetFileActualSize", false)
			}
		}
		c.Floor(rule, 3)
	}
}

// ---------------------------------------------------------------------------
// C15-TIMEOUTCFG: the configured deadlines reach the operations they are named for
// ---------------------------------------------------------------------------

// envNamesRead: the names of the environment variables fn reads: os.Getenv with a constant, or
// a call of a function of this module that reads os.Getenv(<its i-th parameter>) with a constant
// i-th argument.  "?" stands for a name that is not a constant.
func envNamesRead(P *Prog, fn *ssa.Function, depth int) []string {
	var out []string
	eachInstr(fn, func(in ssa.Instruction) {
		cl, ok := in.(*ssa.Call)
		if !ok {
			return
		}
		if CalleeName(cl) == "os.Getenv" {
			if k, ok := strip(cl.Call.Args[0]).(*ssa.Const); ok && k.Value != nil {
				out = append(out, constString(k))
			} else {
				out = append(out, "?")
			}
			return
		}
		h := cl.Call.StaticCallee()
		if h == nil || h.Blocks == nil || depth >= 2 || !strings.HasPrefix(h.Pkg.Pkg.Path(), modPrefix) {
			return
		}
		eachInstr(h, func(hin ssa.Instruction) {
			hc, ok := hin.(*ssa.Call)
			if !ok || CalleeName(hc) != "os.Getenv" {
				return
			}
			if p, ok := strip(hc.Call.Args[0]).(*ssa.Parameter); ok {
				for i, hp := range h.Params {
					if hp == p && i < len(cl.Call.Args) {
						if k, ok := strip(cl.Call.Args[i]).(*ssa.Const); ok && k.Value != nil {
							out = append(out, constString(k))
						} else {
							out = append(out, "?")
						}
					}
				}
			} else if k, ok := strip(hc.Call.Args[0]).(*ssa.Const); ok && k.Value != nil {
				out = append(out, constString(k))
			} else {
				out = append(out, "?")
			}
		})
	})
	return out
}

func ruleTimeoutConfig(rule string) ruleFn {
	return func(c *Ctx) {
		c.Doc(rule, "the deadline an operator configures is the deadline the operation runs under: util.GetReadTimeout reads RPC_READ_TIMEOUT and util.GetWriteTimeout RPC_WRITE_TIMEOUT (and nothing else); types.RPCReadTimeout / RPCWriteTimeout are assigned from their own getter; rpc.SetRPCTimeout copies each into its own variable; rpc.Client.operation arms time.After(opReadTimeout) on the TypeRead edge, opWriteTimeout on TypeWrite, opSyncTimeout on TypeSync, opUnmapTimeout on TypeUnmap and opPingTimeout otherwise")
		for _, e := range []struct{ fn, env string }{{"util.GetReadTimeout", `"RPC_READ_TIMEOUT"`}, {"util.GetWriteTimeout", `"RPC_WRITE_TIMEOUT"`}} {
			fn := c.Anchor(rule, e.fn)
			if fn == nil {
				continue
			}
			names := envNamesRead(c.P, fn, 0)
			key := e.fn + " | reads " + e.env
			if len(names) == 1 && names[0] == e.env {
				c.OK(rule, key, c.P.Pos(fn.Pos()), "one os.Getenv, of "+e.env, false)
			} else {
				c.Bad(rule, key, c.P.Pos(fn.Pos()), fmt.Sprintf("reads %v", names), nil)
			}
		}
		// stores to the globals
		want := map[string]string{
			"global:types.RPCReadTimeout":  "util.GetReadTimeout()",
			"global:types.RPCWriteTimeout": "util.GetWriteTimeout()",
			"global:rpc.opReadTimeout":     "types.RPCReadTimeout",
			"global:rpc.opWriteTimeout":    "types.RPCWriteTimeout",
		}
		seen := map[string]int{}
		for _, fn := range prodFns(c.P) {
			if strings.HasPrefix(FnName(fn), "tests/") || strings.HasSuffix(FnName(fn), ".init") {
				continue
			}
			R := NewRenderer(fn)
			eachInstr(fn, func(in ssa.Instruction) {
				st, ok := in.(*ssa.Store)
				if !ok {
					return
				}
				g, ok := st.Addr.(*ssa.Global)
				if !ok {
					return
				}
				gn := "global:" + short(g.String())
				w, ok := want[gn]
				if !ok {
					return
				}
				seen[gn]++
				key := FnName(fn) + " | " + strings.TrimPrefix(gn, "global:") + " is set from its own source"
				if v := R.V(st.Val); v == w {
					c.OK(rule, key, c.P.InstrPos(in), v, false)
				} else {
					c.Bad(rule, key, c.P.InstrPos(in), "assigned "+v+", expected "+w, nil)
				}
			})
		}
		for gn := range want {
			if seen[gn] == 0 {
				c.Bad(rule, strings.TrimPrefix(gn, "global:")+" | configured", "", "the variable is never assigned: the configured value does not reach the client", nil)
			}
		}
		// the deadline armed per operation type
		if op := c.Anchor(rule, fCli+"operation"); op != nil {
			fns := append([]*ssa.Function{op}, Closures(op)...)
			n := 0
			for _, f := range fns {
				R := NewRenderer(f)
				for _, in := range CallsTo(f, "time.After") {
					cl := in.(*ssa.Call)
					arg := R.V(cl.Call.Args[0])
					if !strings.HasPrefix(arg, "rpc.op") {
						continue
					}
					n++
					var typ string
					switch arg {
					case "rpc.opReadTimeout":
						typ = "TypeRead"
					case "rpc.opWriteTimeout":
						typ = "TypeWrite"
					case "rpc.opSyncTimeout":
						typ = "TypeSync"
					case "rpc.opUnmapTimeout":
						typ = "TypeUnmap"
					case "rpc.opPingTimeout":
						c.OK(rule, FnName(op)+" | deadline of the remaining operations", c.P.InstrPos(in), arg, false)
						continue
					default:
						c.Bad(rule, FnName(op)+" | deadline "+arg, c.P.InstrPos(in), "unknown deadline variable", nil)
						continue
					}
					tv, ok := c.P.pkgIntConst("rpc", typ)
					if !ok {
						c.Undecided(rule, FnName(op)+" | "+typ, "", "constant not found")
						continue
					}
					// the operation type is the closure's parameter or the function's
					var atoms []string
					for _, t := range []string{"$0", "$1", "var(rpc.Message).Type"} {
						if tv == 0 {
							atoms = append(atoms, "+"+t+" ==0")
						} else {
							atoms = append(atoms, fmt.Sprintf("+%s -%d ==0", t, tv))
						}
					}
					c.Guard(rule, f, []ssa.Instruction{in}, "arm "+arg, nil, atom("operation type is "+typ, atoms...))
				}
			}
			if n < 5 {
				c.Bad(rule, FnName(op)+" | one deadline per operation type", c.P.Pos(op.Pos()), fmt.Sprintf("only %d time.After(op…Timeout) calls found", n), nil)
			}
		}
		c.Floor(rule, 10)
	}
}
