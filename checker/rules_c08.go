package main

import (
	"fmt"
	"go/constant"
	"go/token"
	"go/types"
	"os"
	"strings"

	"golang.org/x/tools/go/ssa"
)

const (
	oSYNC   = 0x101000
	oCREATE = 0x40
	oTRUNC  = 0x200
	oEXCL   = 0x80
	oAPPEND = 0x400
)

func intConst(v ssa.Value) (int64, bool) {
	c, ok := strip(v).(*ssa.Const)
	if !ok || c.Value == nil || c.Value.Kind() != constant.Int {
		return 0, false
	}
	n, ok := constant.Int64Val(c.Value)
	return n, ok
}

func ruleC08Atomic(c *Ctx) {
	const rule = "C08-ATOMIC"
	c.Doc(rule, "encodeToFile: the target is never opened for writing; data goes to <name>.tmp opened O_CREATE|O_TRUNC|O_SYNC (no O_EXCL: leftovers of a crash must be tolerated); order Encode -> Close -> Rename(tmp -> name) -> SyncDir, each step cut off by the success edge of the previous one; success is returned only after the rename (or for a read-only replica)")
	fn := c.Anchor(rule, fRep+"encodeToFile")
	if fn == nil {
		return
	}
	R := NewRenderer(fn)
	tmp := fRep + `diskPath($0,($2 + ".tmp"))`
	fin := fRep + "diskPath($0,$2)"
	opens := CallsTo(fn, "os.OpenFile", "os.Create")
	if len(opens) != 1 || !callMatches(opens[0], "os.OpenFile") {
		c.Bad(rule, FnName(fn)+" | single open of the tmp file", "", fmt.Sprintf("expected exactly one os.OpenFile, found %d open/create calls", len(opens)), nil)
		return
	}
	oc := opens[0].(*ssa.Call)
	if p := R.V(oc.Call.Args[0]); p != tmp {
		c.Bad(rule, FnName(fn)+" | writes go to <name>.tmp", c.P.InstrPos(oc), "file opened for writing is "+p+", expected "+tmp, nil)
	} else {
		c.OK(rule, FnName(fn)+" | writes go to <name>.tmp", c.P.InstrPos(oc), "only "+tmp+" is opened for writing", false)
	}
	if fl, ok := intConst(oc.Call.Args[1]); ok {
		for _, chk := range []struct {
			name string
			bit  int64
			want bool
		}{{"O_SYNC", oSYNC, true}, {"O_CREATE", oCREATE, true}, {"O_TRUNC", oTRUNC, true}, {"O_EXCL", oEXCL, false}, {"O_APPEND", oAPPEND, false}} {
			has := fl&chk.bit == chk.bit
			key := FnName(fn) + " | open flag " + chk.name
			if has == chk.want {
				c.OK(rule, key, c.P.InstrPos(oc), fmt.Sprintf("%s present=%v", chk.name, has), false)
			} else if chk.want {
				c.Bad(rule, key, c.P.InstrPos(oc), "tmp file opened without "+chk.name+fmt.Sprintf(" (flags=%#x)", fl), nil)
			} else {
				c.Bad(rule, key, c.P.InstrPos(oc), "tmp file opened with "+chk.name+fmt.Sprintf(" (flags=%#x): a leftover tmp file of an interrupted attempt makes every later metadata update fail", fl), nil)
			}
		}
	} else {
		c.Undecided(rule, FnName(fn)+" | open flags", c.P.InstrPos(oc), "open flags are not a compile-time constant")
	}
	enc := CallsTo(fn, "(*encoding/json.Encoder).Encode")
	ren := CallsTo(fn, "os.Rename")
	if len(enc) != 1 || len(ren) != 1 {
		c.Bad(rule, FnName(fn)+" | structure", "", "expected one Encode and one os.Rename", nil)
		return
	}
	if got := callRender(R, ren[0]); got != "os.Rename("+tmp+","+fin+")" {
		c.Bad(rule, FnName(fn)+" | rename tmp over target", c.P.InstrPos(ren[0]), "rename is "+got, nil)
	} else {
		c.OK(rule, FnName(fn)+" | rename tmp over target", c.P.InstrPos(ren[0]), "os.Rename(tmp, target)", false)
	}
	c.Guard(rule, fn, ren, "rename", nil,
		Need{Desc: "open succeeded", Edge: successEdgesOfCall(fn, oc)},
		Need{Desc: "encode succeeded", Edge: successEdgesOfCall(fn, enc[0])},
		okcall("(*os.File).Close"))
	c.Guard(rule, fn, CallsTo(fn, fRep+"SyncDir"), "SyncDir", nil, okcall("os.Rename"))
	c.Guard(rule, fn, successReturns(fn), "return success", nil,
		Need{Desc: "read-only replica or renamed", Atoms: []string{"$0.readOnly"}, OkCalls: []string{"os.Rename"}},
		Need{Desc: "read-only replica or directory synced", Atoms: []string{"$0.readOnly"}, Calls: []string{fRep + "SyncDir"}})
	// SyncDir really fsyncs the directory
	if sd := c.Anchor(rule, "util.SyncDir"); sd != nil {
		if len(CallsTo(sd, "(*os.File).Sync")) > 0 {
			c.Guard(rule, sd, nilErrorReturns(sd), "return nil", nil, okcall("(*os.File).Sync"))
			c.Guard(rule, sd, successReturns(sd), "return success", nil, called("(*os.File).Sync"))
		} else {
			c.Bad(rule, "util.SyncDir | fsync of the directory", "", "util.SyncDir no longer calls (*os.File).Sync on the directory", nil)
		}
	}
	if sd := c.Anchor(rule, fRep+"SyncDir"); sd != nil {
		R2 := NewRenderer(sd)
		cs := CallsTo(sd, "util.SyncDir")
		if len(cs) == 1 && callRender(R2, cs[0]) == "util.SyncDir($0.dir)" {
			c.OK(rule, fRep+"SyncDir | syncs the replica directory", c.P.InstrPos(cs[0]), "util.SyncDir(r.dir)", false)
		} else {
			c.Bad(rule, fRep+"SyncDir | syncs the replica directory", "", "Replica.SyncDir must call util.SyncDir(r.dir)", nil)
		}
	}
	c.Floor(rule, 14)
}

// ---------------------------------------------------------------------------
// C08-ERR: error discipline on the metadata / directory primitives
// ---------------------------------------------------------------------------

var mustCheck = []string{
	"(*encoding/json.Encoder).Encode", "os.Rename", "os.Link", "os.Remove", "os.RemoveAll", "syscall.Truncate",
	"util.SyncDir", fRep + "SyncDir", fRep + "encodeToFile", fRep + "writeRevisionCounter", fRep + "writeVolumeMetaData",
	fRep + "rmDisk", fRep + "linkDisk", fRep + "hardlinkDisk", fRep + "removeDiskNode", fRep + "updateParentDisk",
	fRep + "updateParentRevisionCounter", fRep + "markDiskAsRemoved", fRep + "createNewHead", fRep + "closeAndSyncDir",
	fRep + "createDisk", fRep + "revertDisk", fRep + "openLiveChain", fRep + "readMetadata", fRep + "initRevisionCounter",
	fRep + "increaseRevisionCounter", fRep + "SetRevisionCounterCloneReplica",
}

// errExceptions: (enclosing function | callee) -> reason.  One named symbol each.
var errExceptions = map[string]string{
	fRep + "revertDisk | " + fRep + "encodeToFile":          "rollback attempt on a path that already returns the original error",
	fSrv + "initUUID | " + fRep + "writeVolumeMetaData":     "failure leaves the previous volume.meta intact (tmp+rename); the UUID is regenerated on the next Create (DESIGN.md F13)",
	fSrv + "initUUID | " + fRep + "encodeToFile":            "the same write of volume.meta with the helper written out in place (see the entry above)",
	fSrv + "isExtentSupported$1 | os.Remove":                "removal of the scratch probe file tmpFile.tmp (not part of the replica's state)",
	fSrv + "Reload | " + fRep + "Close":                     "old in-memory instance, superseded by the reloaded one",
	"(*replica.Server).Create | (*replica.Server).initUUID": "deferred; see initUUID",
	fRep + "createDisk | " + fRep + "rmDisk":                "cleanup of the not yet referenced new head on a path that already returns createNewHead's error",
}

func ruleC08Err(c *Ctx) {
	const rule = "C08-ERR"
	c.Doc(rule, "every call of a metadata/directory primitive (json Encode, os.Rename/Link/Remove/RemoveAll, syscall.Truncate, SyncDir, encodeToFile, writeRevisionCounter, writeVolumeMetaData, rmDisk, linkDisk, hardlinkDisk, removeDiskNode, updateParent*, markDiskAsRemoved, createNewHead, ...) in packages replica/util has its error result nil-tested, or returned unconditionally; a result whose only use is a return guarded by the nil-test of a different value is reported as checked through the wrong variable; exceptions are one named (function | callee) each")
	n := 0
	for _, pk := range []string{"replica", "util", "replica/rest", "replica/rpc"} {
		for _, fn := range pkgFuncs(c.P, pk) {
			for _, in := range AnyCallsTo(fn, mustCheck...) {
				n++
				callee := CalleeName(in)
				key := FnName(fn) + " | " + callee
				where := c.P.InstrPos(in)
				why, excepted := errExceptions[key]
				call, isCall := in.(*ssa.Call)
				if !isCall {
					// go / defer of a fallible primitive: result is dropped
					if excepted {
						c.OK(rule, key+" (deferred)", where, "exception: "+why, false)
					} else {
						c.Bad(rule, key+" (deferred)", where, "error of a deferred/spawned "+callee+" is dropped", nil)
					}
					continue
				}
				ev := errOfCall(call)
				if ev == nil {
					if excepted {
						c.OK(rule, key, where, "exception: "+why, false)
					} else if call.Common().Signature().Results().Len() == 0 {
						continue
					} else {
						c.Bad(rule, key, where, "error result of "+callee+" is discarded", nil)
					}
					continue
				}
				verdict, detail := errDiscipline(fn, call, ev)
				if verdict == "ok" && errResultIndex(fn) >= 0 && fn.Parent() == nil {
					// tested is not enough: on the failure edge the function must not go on to report success
					if w := failureReachesSuccess(fn, call, ev); w != nil {
						verdict, detail = "bad", "the error of "+callee+" is tested but only logged: on the failure edge the function can still return success (the failure is swallowed)"
						_ = w
					}
				}
				switch {
				case verdict == "ok":
					c.OK(rule, key, where, detail, true)
				case excepted:
					c.OK(rule, key, where, "exception: "+why+" ("+detail+")", false)
				default:
					c.Bad(rule, key, where, detail, nil)
				}
			}
		}
	}
	if n < 60 {
		c.Undecided(rule, "vacuity-floor", "", fmt.Sprintf("only %d must-check call sites found (expected >= 60)", n))
	}
}

// failureReachesSuccess: from the err != nil edge of ev, a return that is not provably an error
// return is reachable (and it does not return ev itself).
func failureReachesSuccess(fn *ssa.Function, call *ssa.Call, ev ssa.Value) []Witness {
	_, nonNil := nilTestEdges(fn, ev)
	// only the branch that tests ev directly (not through a phi with other errors)
	has := false
	for _, b := range fn.Blocks {
		for k := range b.Succs {
			if nonNil(b, k) {
				has = true
			}
		}
	}
	if !has {
		return nil
	}
	ei := errResultIndex(fn)
	// an error classified as harmless (os.IsNotExist / os.IsExist on that very error) is handled
	RR := NewRenderer(fn)
	evs := RR.V(ev)
	handled := atomEdges(fn, RR, "os.IsNotExist("+evs+")", "os.IsExist("+evs+")", eqAtom(evs, "io.EOF"))
	ws := afterEdge(fn, nonNil, nil, handled, func(in ssa.Instruction) bool {
		r, ok := in.(*ssa.Return)
		if !ok || ei >= len(r.Results) {
			return false
		}
		v := r.Results[ei]
		if provablyNonNilError(v) || sameValue(v, ev) {
			return false
		}
		// a variable that collects errors (lastErr = err) carries this error to the return
		for _, x := range phiInputs(strip(v)) {
			if x == strip(ev) || sameValue(x, ev) {
				return false
			}
		}
		if isNilConst(strip(v)) {
			return true
		}
		// the same getter asked again (`if g.Err() != nil { return g.Err() }`): the error itself
		if c2, ok := strip(v).(*ssa.Call); ok && c2.Call.StaticCallee() != nil && c2.Call.StaticCallee() == call.Call.StaticCallee() && RR.V(c2) == RR.V(call) {
			return false
		}
		// another error value: success unless this return is dominated by its own non-nil test
		_, nn := nilTestEdges(fn, strip(v))
		q := Query{Fn: fn, IsSite: func(x ssa.Instruction) bool { return x == in }, GenEdge: nn}
		return len(q.Run()) > 0
	})
	if len(ws) == 0 {
		return nil
	}
	return ws
}

// errDiscipline classifies how the error value ev of `call` is consumed.
func errDiscipline(fn *ssa.Function, call *ssa.Call, ev ssa.Value) (string, string) {
	// all values carrying ev: ev itself, phis containing it, loads of locals holding it
	carriers := map[ssa.Value]bool{ev: true}
	for changed := true; changed; {
		changed = false
		for v := range carriers {
			refs := v.Referrers()
			if refs == nil {
				continue
			}
			for _, r := range *refs {
				switch x := r.(type) {
				case *ssa.Phi:
					if !carriers[x] {
						carriers[x] = true
						changed = true
					}
				case *ssa.Store:
					if x.Val == v {
						if al, ok := x.Addr.(*ssa.Alloc); ok {
							for _, rr := range *al.Referrers() {
								if ld, ok := rr.(*ssa.UnOp); ok && ld.Op.String() == "*" && !carriers[ld] {
									if val := reachingStore(al, ld); val == nil || val == v {
										carriers[ld] = true
										changed = true
									}
								}
							}
						}
					}
				case *ssa.MakeInterface:
					if !carriers[x] {
						carriers[x] = true
						changed = true
					}
				case *ssa.ChangeInterface:
					if !carriers[x] {
						carriers[x] = true
						changed = true
					}
				}
			}
		}
	}
	tested := false
	var rets []*ssa.Return
	used := false
	for v := range carriers {
		refs := v.Referrers()
		if refs == nil {
			continue
		}
		for _, r := range *refs {
			switch x := r.(type) {
			case *ssa.BinOp:
				if isNilConst(x.X) || isNilConst(x.Y) {
					tested = true
				}
				used = true
			case *ssa.Return:
				rets = append(rets, x)
				used = true
			case *ssa.Call:
				used = true
				_ = x
			case *ssa.Phi, *ssa.Store, *ssa.MakeInterface, *ssa.ChangeInterface, *ssa.DebugRef:
			default:
				used = true
			}
		}
	}
	// named-result functions: `return f()` stores into the result variable, then loads it at the return
	if tested {
		return "ok", "error is nil-tested"
	}
	if len(rets) > 0 {
		// unconditional: every path from the call reaches one of these returns without first reaching another return
		isMine := func(in ssa.Instruction) bool {
			for _, r := range rets {
				if in == ssa.Instruction(r) {
					return true
				}
			}
			return false
		}
		ws := Query{Fn: fn, Start: call, IsSite: func(in ssa.Instruction) bool {
			_, ok := in.(*ssa.Return)
			return ok && !isMine(in)
		}}.Run()
		if len(ws) == 0 {
			return "ok", "error is returned unconditionally"
		}
		return "bad", "error of " + CalleeName(call) + " is returned only on a branch decided by a different value and is not nil-tested itself: checked through the wrong variable (a failure is ignored on the other branch)"
	}
	if !used {
		return "bad", "error result of " + CalleeName(call) + " is dropped"
	}
	return "bad", "error result of " + CalleeName(call) + " is neither nil-tested nor returned (only logged/passed on)"
}

// ---------------------------------------------------------------------------
// C08-COMMIT: ordering of commit points
// ---------------------------------------------------------------------------

func ruleC08Commit(c *Ctx) {
	const rule = "C08-COMMIT"
	c.Doc(rule, "createDisk: createNewHead ok -> linkDisk ok -> snapshot meta ok -> volume.meta ok -> (done=true, r.info=info); the deferred cleanup removes the old head only under done and the new head/snapshot only under !done.  RemoveDiffDisk: removeDiskNode ok before rmDisk; ReplaceDisk: hardlinkDisk ok before removeDiskNode ok before rmDisk (the merged file carries the target's name before the chain forgets the source); removeDiskNode: child re-parented on disk (updateParentDisk) before the parent's revision is updated, before the in-memory delete and RemoveIndex.  revertDisk: see C06-SNAPSTEP")
	fn := c.Anchor(rule, fRep+"createDisk")
	if fn != nil {
		R := NewRenderer(fn)
		// the snapshot's name: whatever createNewHead is given as the new head's parent
		snap := "var(string#1)"
		if nhc := CallsTo(fn, fRep+"createNewHead"); len(nhc) == 1 {
			snap = R.V(nhc[0].(*ssa.Call).Call.Args[2])
		}
		nh := "+" + fRep + "createNewHead($0,$0.info.Head," + snap + ",$3)#2 -nil ==0"
		lk := "+" + fRep + "linkDisk($0,$0.info.Head," + snap + ") -nil ==0"
		sm := "+" + fRep + `encodeToFile($0,$0.diskData[` + snap + `],(` + snap + ` + ".meta")) -nil ==0`
		vm := "+" + fRep + `encodeToFile($0,&var(replica.Info),"volume.meta") -nil ==0`
		noSnap := `+"" -` + snap + ` ==0`
		c.Guard(rule, fn, CallsTo(fn, fRep+"linkDisk"), "linkDisk", nil, atom("new head created", nh))
		var encSnap, encVol []ssa.Instruction
		for _, e := range CallsTo(fn, fRep+"encodeToFile") {
			if strings.Contains(callRender(R, e), `"volume.meta"`) {
				encVol = append(encVol, e)
			} else {
				encSnap = append(encSnap, e)
			}
		}
		c.Guard(rule, fn, encSnap, "write snapshot meta", nil, atom("new head created", nh), atom("old head hard-linked as the snapshot", lk))
		c.Guard(rule, fn, encVol, "commit volume.meta", nil, atom("new head created", nh), atom("old head hard-linked as the snapshot", lk), atom("snapshot meta written (or first head)", sm, noSnap))
		if len(encVol) != 1 || len(encSnap) != 1 {
			c.Bad(rule, FnName(fn)+" | structure", "", "expected one snapshot-meta write and one volume.meta commit", nil)
		}
		var doneT []ssa.Instruction
		eachInstr(fn, func(in ssa.Instruction) {
			if s, ok := in.(*ssa.Store); ok && R.V(s.Addr) == "&var(bool)" && R.V(s.Val) == "true" {
				doneT = append(doneT, in)
			}
		})
		c.Guard(rule, fn, doneT, "done = true", nil, atom("volume.meta committed", vm))
		c.Guard(rule, fn, StoresTo(fn, "Replica", "info"), "publish r.info", nil, atom("volume.meta committed", vm))
		c.Guard(rule, fn, nilErrorReturns(fn), "return nil", nil, Need{Desc: "done = true", Instr: func(in ssa.Instruction) bool {
			for _, d := range doneT {
				if d == in {
					return true
				}
			}
			return false
		}})
		if len(doneT) == 0 {
			c.Bad(rule, FnName(fn)+" | done flag", "", "createDisk must set done = true after the commit", nil)
		}
		// directory synced first (so that the snapshot's data file entry is durable)
		c.Guard(rule, fn, CallsTo(fn, fRep+"createNewHead"), "createNewHead", nil, okcall(fRep+"SyncDir"))
		// deferred cleanup
		for _, cl := range Closures(fn) {
			CR := NewRenderer(cl)
			for _, rm := range CallsTo(cl, fRep+"rmDisk") {
				switch {
				case capturedHolds(fn, cl, rm.(*ssa.Call).Call.Args[1], "$0.info.Head") || strings.HasSuffix(CR.V(rm.(*ssa.Call).Call.Args[1]), "$0.info.Head"):
					c.Guard(rule, cl, []ssa.Instruction{rm}, "cleanup removes old head", nil, atom("only after the commit (done)", "^var(bool)"))
				default:
					c.Guard(rule, cl, []ssa.Instruction{rm}, "cleanup removes new files", nil, atom("only when the commit did not happen (!done)", "!^var(bool)"))
				}
			}
		}
	}
	// revertDisk: once volume.meta names the new head, nothing may remove the new head any more.
	// A deferred cleanup that removes files must be switched off by a flag that is set
	// immediately after the commit (before any step that can still fail).
	if fn := c.Anchor(rule, fRep+"revertDisk"); fn != nil {
		R := NewRenderer(fn)
		var commit ssa.Instruction
		for _, e := range CallsTo(fn, fRep+"encodeToFile") {
			// the commit writes the new description (a local copy), not r.info (the roll-back)
			if r := callRender(R, e); strings.Contains(r, `"volume.meta"`) && !strings.Contains(r, "&$0.info,") {
				commit = e
			}
		}
		ncl := 0
		for _, cl := range Closures(fn) {
			deferred := false
			eachInstr(fn, func(in ssa.Instruction) {
				if d, ok := in.(*ssa.Defer); ok {
					if mc, ok := d.Call.Value.(*ssa.MakeClosure); ok && mc.Fn == ssa.Value(cl) {
						deferred = true
					}
				}
			})
			rms := CallsTo(cl, fRep+"rmDisk")
			if !deferred || len(rms) == 0 {
				continue
			}
			ncl++
			CR := NewRenderer(cl)
			for i, rm := range rms {
				key := fmt.Sprintf("%s | deferred cleanup rmDisk[%d]", FnName(fn), i)
				// guarding flag: a captured bool tested false on the way
				var flag *ssa.Alloc
				for _, b := range cl.Blocks {
					iff, ok := b.Instrs[len(b.Instrs)-1].(*ssa.If)
					if !ok {
						continue
					}
					cond := iff.Cond
					if u, ok := cond.(*ssa.UnOp); ok && u.Op == token.NOT {
						cond = u.X
					}
					if ld, ok := cond.(*ssa.UnOp); ok && ld.Op == token.MUL {
						if fv, ok := ld.X.(*ssa.FreeVar); ok && isBoolType(ld.Type()) {
							flag = freeVarAlloc(cl, fv)
						}
					}
				}
				if flag == nil || commit == nil {
					c.Bad(rule, key, c.P.InstrPos(rm), "a deferred cleanup removes "+callRender(CR, rm)+" without a commit flag", nil)
					continue
				}
				var sets []ssa.Instruction
				eachInstr(fn, func(in ssa.Instruction) {
					if s, ok := in.(*ssa.Store); ok && s.Addr == ssa.Value(flag) {
						if cst, ok := s.Val.(*ssa.Const); ok && cst.Value != nil && cst.Value.String() == "true" {
							sets = append(sets, in)
						}
					}
				})
				ws := afterEdge(fn, successEdgesOfCall(fn, commit), func(in ssa.Instruction) bool {
					for _, s := range sets {
						if s == in {
							return true
						}
					}
					return false
				}, nil, func(in ssa.Instruction) bool {
					if _, ok := in.(*ssa.Return); ok {
						return true
					}
					return isPlainCall(in) && in != commit && errOfCall(in) != nil
				})
				if len(ws) == 0 {
					c.OK(rule, key, c.P.InstrPos(rm), "the cleanup is switched off right after the volume.meta commit", true)
				} else {
					c.Bad(rule, key, c.P.InstrPos(rm), "after volume.meta was committed a step that can fail (or a return) is reachable while the deferred cleanup is still armed: a late failure deletes the head that volume.meta already names", c.witness(ws[0]))
				}
			}
		}
		if ncl == 0 {
			c.OK(rule, FnName(fn)+" | no deferred removal", c.P.Pos(fn.Pos()), "revertDisk has no deferred cleanup that removes chain files", false)
		}
	}
	if fn := c.Anchor(rule, fRep+"RemoveDiffDisk"); fn != nil {
		c.Guard(rule, fn, CallsTo(fn, fRep+"rmDisk"), "unlink files", nil, okcall(fRep+"removeDiskNode"))
	}
	if fn := c.Anchor(rule, fRep+"ReplaceDisk"); fn != nil {
		// the merged data is in place under the target's name before the chain forgets the source,
		// and the source's files go only after the chain forgot it
		c.Guard(rule, fn, CallsTo(fn, fRep+"removeDiskNode"), "take the source out of the chain", nil, okcall(fRep+"hardlinkDisk"))
		c.Guard(rule, fn, CallsTo(fn, fRep+"rmDisk"), "unlink the source's files", nil, okcall(fRep+"removeDiskNode"))
	}
	if fn := c.Anchor(rule, fRep+"removeDiskNode"); fn != nil {
		R := NewRenderer(fn)
		upd := CallsTo(fn, fRep+"updateParentDisk")
		rev := CallsTo(fn, fRep+"updateParentRevisionCounter")
		c.Guard(rule, fn, rev, "updateParentRevisionCounter", nil, okcall(fRep+"updateParentDisk"))
		var dels []ssa.Instruction
		eachInstr(fn, func(in ssa.Instruction) {
			if cl, ok := in.(*ssa.Call); ok && callMatches(cl, "builtin:delete") && R.V(cl.Call.Args[0]) == "$0.diskData" {
				// only the delete on the one-child path
				if len(Query{Fn: fn, IsSite: func(x ssa.Instruction) bool { return x == in }, Gen: func(x ssa.Instruction) bool { return len(upd) > 0 && x == upd[0] }}.Run()) == 0 {
					dels = append(dels, in)
				}
			}
		})
		c.Guard(rule, fn, append(dels, CallsTo(fn, fDD+"RemoveIndex")...), "forget the removed disk in memory", nil,
			okcall(fRep+"updateParentDisk"), okcall(fRep+"updateParentRevisionCounter"))
		if len(upd) != 1 || len(rev) != 1 {
			c.Bad(rule, FnName(fn)+" | structure", "", "expected updateParentDisk and updateParentRevisionCounter", nil)
		}
	}
	if fn := c.Anchor(rule, fRep+"updateParentDisk"); fn != nil {
		c.Guard(rule, fn, successReturns(fn), "return success", nil, called(fRep+"encodeToFile"))
	}
	c.Floor(rule, 16)
}

// ---------------------------------------------------------------------------
// C08-DUR: directory is clean at every success return of an operation
// ---------------------------------------------------------------------------

func dirMutation(R *Renderer, in ssa.Instruction) (string, bool) {
	cl, ok := in.(ssa.CallInstruction)
	if !ok {
		return "", false
	}
	n := CalleeName(in)
	switch n {
	case "os.Rename", "os.Link", "os.Remove", "os.RemoveAll", "os.Mkdir", "os.Create", "os.Symlink":
		return n, true
	case "os.OpenFile":
		if fl, ok := intConst(cl.Common().Args[1]); ok && fl&oCREATE != 0 {
			return n + "(O_CREATE)", true
		}
	case "github.com/openebs/sparse-tools/sparse.NewDirectFileIoProcessor":
		a := cl.Common().Args
		if len(a) == 4 {
			if cst, ok := strip(a[3]).(*ssa.Const); ok && cst.Value != nil && cst.Value.String() == "false" {
				return "", false
			}
			// first creation of revision.counter (initial value 1): re-created identically by the next
			// open if lost; made durable by construct's trailing writeVolumeMetaData — wherever the
			// open is written (openRevisionFile or its caller)
			if strings.Contains(R.V(a[0]), `"revision.counter"`) {
				return "", false
			}
		}
		return "NewDirectFileIoProcessor(create)", true
	}
	return "", false
}

// durScratch: functions whose directory-entry changes are not part of the replica's promised state.
var durScratch = map[string]string{
	fSrv + "isExtentSupported":   "scratch probe file tmpFile.tmp, created and removed to test FIEMAP support",
	fSrv + "isExtentSupported$1": "scratch probe file tmpFile.tmp",
	fSrv + "createTempFile":      "scratch probe file tmpFile.tmp",
	fRep + "openRevisionFile":    "first creation of revision.counter with its initial value 1: re-created identically by the next open if lost; made durable by construct's trailing writeVolumeMetaData",
}

var durExceptions = map[string]string{
	fRep + "DeleteAll": "the replica directory itself is destroyed",
	fSrv + "DeleteAll": "the replica directory itself is destroyed",
}

func ruleC08Dur(c *Ctx) {
	const rule = "C08-DUR"
	c.Doc(rule, "typestate {clean,dirty} over package replica: a directory-entry mutation (os.Rename/Link/Remove/Mkdir/Create, OpenFile with O_CREATE, creating NewDirectFileIoProcessor) makes the replica directory dirty, SyncDir makes it clean; interprocedural summaries per (function, state at entry), split by the nil-ness of the returned error, deferred calls applied at return.  At every success return of an exported operation of *replica.Server / *replica.Replica entered clean, the directory is clean")
	T := newTS(c.P)
	T.FaultFree = true
	T.PruneEdge = func(a string) bool { return a == "$0.readOnly" } // read-only replicas (NewReadOnly) change nothing on disk: out of scope
	T.Follow = func(g *ssa.Function) bool {
		n := FnName(g)
		return strings.Contains(n, "replica.") && !strings.Contains(n, "replica/")
	}
	T.Prim = func(fn *ssa.Function, R *Renderer, in ssa.Instruction, st string) (string, bool) {
		if why, ok := durScratch[FnName(fn)]; ok {
			_ = why
			if _, isMut := dirMutation(R, in); isMut {
				return st, true
			}
		}
		if isPlainCall(in) && callMatches(in, fRep+"openFile") {
			// openFile(name, flag): the repo's creation idiom is flag O_TRUNC (createNewHead);
			// openFile(name, 0) re-opens a chain member known from the metadata walk
			if fl, ok := intConst(in.(*ssa.Call).Call.Args[2]); ok && fl&oTRUNC == 0 {
				return st, true
			}
			return "dirty", true
		}
		if _, ok := dirMutation(R, in); ok {
			return "dirty", true
		}
		if isPlainCall(in) || isDeferOrGo(in) {
			switch CalleeName(in) {
			case "util.SyncDir", fRep + "SyncDir":
				return "clean", true
			}
		}
		return st, false
	}
	if os.Getenv("JC_DEBUG_DUR") != "" {
		for _, h := range strings.Split(os.Getenv("JC_DEBUG_DUR"), ",") {
			if f := c.P.Fn(h); f != nil {
				fmt.Printf("DUR %s clean-> %v ; dirty-> %v\n", h, T.Summary(f, "clean"), T.Summary(f, "dirty"))
			}
		}
	}
	n := 0
	for _, typ := range []string{"Server", "Replica"} {
		for _, fn := range c.P.methodsOf("replica", typ) {
			if !fn.Object().Exported() {
				continue
			}
			n++
			exits := T.Summary(fn, "clean")
			bad := false
			for _, e := range exits {
				if e.Kind != 'e' && e.Out == "dirty" {
					bad = true
					key := FnName(fn) + " | clean at success return"
					if why, ok := durExceptions[FnName(fn)]; ok {
						c.OK(rule, key, c.P.Pos(fn.Pos()), "exception: "+why, false)
					} else {
						c.Bad(rule, key, c.P.Pos(fn.Pos()), "a success return is reachable with a directory-entry change that was not followed by SyncDir (the operation reports success before its effect is durable)", c.witness(Witness{Path: T.WitnessFor(fn, e.Kind, e.Out)}))
					}
					break
				}
			}
			if !bad {
				c.OK(rule, FnName(fn)+" | clean at success return", c.P.Pos(fn.Pos()), fmt.Sprintf("exits: %v", exits), true)
			}
		}
	}
	// helpers that must be self-cleaning
	for _, h := range []string{"rmDisk", "linkDisk", "hardlinkDisk", "encodeToFile"} {
		if fn := c.Anchor(rule, fRep+h); fn != nil {
			ok := true
			for _, e := range T.Summary(fn, "clean") {
				if e.Kind != 'e' && e.Out == "dirty" {
					ok = false
				}
			}
			if ok {
				c.OK(rule, fRep+h+" | self-cleaning helper", c.P.Pos(fn.Pos()), "every success return is clean", true)
			} else {
				c.Bad(rule, fRep+h+" | self-cleaning helper", c.P.Pos(fn.Pos()), h+" can return success with an unsynced directory change", c.witness(Witness{Path: T.WitnessFor(fn, 'u', "dirty")}))
			}
		}
	}
	if n < 40 {
		c.Undecided(rule, "vacuity-floor", "", fmt.Sprintf("only %d exported operations analysed", n))
	}
}

// ruleC08CloseWho: Replica.Close persists the instance's r.info (Dirty=false) into volume.meta; it may
// only be applied to the instance that is current (or to a superseded instance whose info equals
// the current one's).
func ruleC08CloseWho(c *Ctx) {
	const rule = "C08-CLOSEWHO"
	c.Doc(rule, "(*Replica).Close rewrites volume.meta from the instance's in-memory info; it is called only from the allow-listed sites (Server.Close, Server.Create on the instance it just built, Server.Reload on the superseded instance whose head is unchanged, CheckPreDeleteConditions, read-only/backup helpers): closing a stale instance after a head-changing operation would overwrite the committed volume.meta")
	allowed := map[string]string{
		fSrv + "Close":                    "the current instance",
		fSrv + "Create":                   "the instance it just constructed",
		fSrv + "Reload":                   "superseded instance; Reload does not change the head, so its info names the same chain",
		fSrv + "CheckPreDeleteConditions": "before the directory content is deleted",
	}
	n := 0
	for _, fn := range prodFns(c.P) {
		for _, in := range AnyCallsTo(fn, fRep+"Close") {
			n++
			key := FnName(fn) + " | (*Replica).Close"
			if _, isGo := in.(*ssa.Go); isGo {
				c.Bad(rule, key+" | synchronous", c.P.InstrPos(in), "(*Replica).Close is started as a goroutine: its rewrite of volume.meta (from the closed instance's in-memory info) can land after a later operation on the new instance has committed, and names a head that no longer exists", nil)
				continue
			}
			if why, ok := allowed[FnName(fn)]; ok {
				c.OK(rule, key, c.P.InstrPos(in), "allow-listed: "+why, false)
			} else if strings.Contains(FnName(fn), "tests/") || strings.HasPrefix(FnName(fn), "app.") || strings.HasPrefix(FnName(fn), "sync.") || strings.HasPrefix(FnName(fn), "(*sync.") {
				c.OK(rule, key, c.P.InstrPos(in), "process-level shutdown / temporary instance", false)
			} else {
				c.Bad(rule, key, c.P.InstrPos(in), "new call of (*Replica).Close: closing an instance whose in-memory info is stale (e.g. the pre-revert instance) rewrites volume.meta with the old head", nil)
			}
		}
	}
	c.Floor(rule, 3)
}

func isDeferOrGo(in ssa.Instruction) bool {
	switch in.(type) {
	case *ssa.Defer, *ssa.Go:
		return true
	}
	return false
}

// ruleErrFlow: generic error-flow discipline over the whole module.  In a function that itself
// reports errors, a call whose error is nil-tested must not lead, from its failure edge, to a
// success return — the "tested, logged, forgotten" slip (shadowed variable, wrong variable in
// the test, lost return).  The instances that exist on the confirmed tree are frozen below, one
// reason each; any other instance is a violation.
var errFlowAllowed = map[string]string{
	"(*controller.Controller).ReadAt | (*controller.replicator).ReadAt":                                               "a read error of a failed reader is suppressed when a RW replica remains (C04-ERRSUPPRESS / C05-DETACH decide when)",
	"(*controller.Controller).WriteAt | (*controller.replicator).WriteAt":                                             "majority decoding: n == len(b) and handleErrorNoLock == nil (C02-DECODE)",
	"(*controller.Controller).Sync | (*controller.replicator).Sync":                                                   "majority decoding: n != -1 (C02-DECODE)",
	"(*controller.Controller).Unmap | (*controller.replicator).Unmap":                                                 "majority decoding: n != -1 (C02-DECODE)",
	"(*controller.Controller).Revert | (*replica/client.ReplicaClient).Revert":                                        "per-replica failure marks the replica ERR; the request fails only if no replica reverted",
	"(*controller.Controller).Shutdown | (*controller.Controller).shutdownFrontend":                                   "best-effort shutdown: both halves are attempted, errors logged",
	"(*controller.Controller).Shutdown | (*controller.Controller).shutdownBackend":                                    "best-effort shutdown: both halves are attempted, errors logged",
	"(*controller.replicator).ReadAt | invoke:io.ReaderAt.ReadAt":                                                     "fail-over: the failed reader is recorded and the next reader tried (C04-READSRC)",
	"(*controller.replicator).RemainSnapshots | invoke:types.Backend.RemainSnapshots":                                 "minimum over the backends that answer; error only if none did",
	"(*replica.Replica).readRevisionCounter | (*github.com/openebs/sparse-tools/sparse.DirectFileIoProcessor).ReadAt": "io.EOF of a short counter file is not an error (second conjunct of the test)",
	"(*sync.Task).AddReplica | (*controller/client.ControllerClient).Register":                                        "registration is retried on the ticker until the controller answers",
	"(*sync.Task).CloneReplica | (*controller/client.ControllerClient).ListReplicas":                                  "retry loop (2 s)",
	"(*sync.Task).CloneReplica | (*sync.Task).syncFiles":                                                              "retry loop (2 s); success needs a later successful copy (C19-CLONE-ORDER)",
	"app.lsReplica | app.getChain":                                                                                    "CLI listing: a replica whose chain cannot be fetched is printed without it",
}

// errFlowConvention: callee-wide conventions (any caller).
var errFlowConvention = map[string]string{
	"controller/rest.DencodeID": "REST handlers answer an undecodable id with 404 and return nil",
}

func ruleErrFlow(rule string) ruleFn {
	return func(c *Ctx) {
		c.Doc(rule, "module-wide error flow: in every function with an error result, from the err != nil edge of a nil-tested call no success return is reachable (returning that error, a fresh error, or a value dominated by its own non-nil test are error returns; os.IsNotExist/IsExist classifications are handled); the log-and-continue sites of the confirmed tree are an explicit table")
		n := 0
		for _, fn := range prodFns(c.P) {
			if errResultIndex(fn) < 0 {
				continue
			}
			R := NewRenderer(fn)
			eachInstr(fn, func(in ssa.Instruction) {
				cl, ok := in.(*ssa.Call)
				if !ok {
					return
				}
				ev := errOfCall(in)
				if ev == nil {
					return
				}
				// callees of this module (functions, methods, methods of its interfaces): the error
				// vocabulary the properties talk about; library primitives are the business of C08-ERR
				if g, fwd := injectedCallee(&cl.Call); g != nil && fwd && !isJivaFn(g) {
					return // a library primitive reached through an injected dependency's forwarder
				}
				if cc := cl.Call; cc.IsInvoke() {
					if n, ok := cc.Value.Type().(*types.Named); !ok || n.Obj().Pkg() == nil || !isJivaPkg(n.Obj().Pkg()) {
						if !(cc.Method.Name() == "ReadAt" && strings.HasPrefix(FnName(fn), fRepl)) {
							return
						}
					}
				} else if h := cc.StaticCallee(); h == nil || !isJivaFn(h) {
					return
				}
				ws := failureReachesSuccess(fn, cl, ev)
				_, nonNil := nilTestEdges(fn, ev)
				tested := false
				for _, b := range fn.Blocks {
					for k := range b.Succs {
						if nonNil(b, k) {
							tested = true
						}
					}
				}
				if !tested {
					return
				}
				n++
				key := FnName(fn) + " | " + CalleeName(in)
				_ = R
				if len(ws) == 0 {
					c.OK(rule, key, c.P.InstrPos(in), "failure edge reaches error returns only", true)
					return
				}
				if why, ok := errFlowConvention[CalleeName(in)]; ok {
					c.OK(rule, key+" | convention", c.P.InstrPos(in), why, false)
					return
				}
				if why, ok := errFlowAllowed[key]; ok {
					c.OK(rule, key+" | tolerated", c.P.InstrPos(in), "frozen exception: "+why, false)
					return
				}
				// the same call made through a small interface of the caller's own (invoke) is the same
				// exception: function and method name agree
				cn := CalleeName(in)
				mn := cn[strings.LastIndex(cn, ".")+1:]
				for k, why := range errFlowAllowed {
					if strings.HasPrefix(k, FnName(fn)+" | ") && strings.HasSuffix(k, "."+mn) && strings.HasPrefix(cn, "invoke:") {
						c.OK(rule, key+" | tolerated", c.P.InstrPos(in), "frozen exception: "+why, false)
						return
					}
				}
				c.Bad(rule, key, c.P.InstrPos(in), "the error of this call is tested, but from its failure edge the function can still report success (error logged and lost / tested through a shadowed or wrong variable / missing return)", c.witness(ws[0]))
			})
		}
		if n < 100 {
			c.Undecided(rule, "vacuity-floor", "", fmt.Sprintf("only %d nil-tested fallible calls found", n))
		}
	}
}

// ruleC08Order: small ordering obligations of individual storage functions.
func ruleC08Order(rule string) ruleFn {
	return func(c *Ctx) {
		c.Doc(rule, "hardlinkDisk removes an existing target only after the source was found; initRevisionCounter writes the initial counter only on the path on which the counter file did not exist; initUUID rewrites volume.meta only after ReadInfo succeeded; os.Rename is used only to install a fully written temporary file (encodeToFile, util); linkDisk publishes the snapshot names with os.Link, leaving the head's names in place until the commit")
		if fn := c.Anchor(rule, fRep+"hardlinkDisk"); fn != nil {
			R := NewRenderer(fn)
			rm := CallsTo(fn, "os.Remove")
			src := "os.Stat(" + fRep + "diskPath($0,$2))#1"
			c.Guard(rule, fn, rm, "remove existing target", nil, atom("source exists", isNilAtom(src)))
			c.Guard(rule, fn, CallsTo(fn, "os.Link"), "link", nil, atom("source exists", isNilAtom(src)))
			_ = R
		}
		if fn := c.Anchor(rule, fRep+"initRevisionCounter"); fn != nil {
			R := NewRenderer(fn)
			st := "os.Stat(" + fRep + `diskPath($0,"revision.counter"))#1`
			c.Guard(rule, fn, CallsTo(fn, fRep+"writeRevisionCounter"), "initialise counter", nil,
				atom("counter file does not exist", "os.IsNotExist("+st+")"))
			// the cache receives what was read; a failed read is an error
			for _, s := range StoresTo(fn, "Replica", "revisionCache") {
				if v := R.V(s.(*ssa.Store).Val); v != fRep+"readRevisionCounter($0)#0" {
					c.Bad(rule, FnName(fn)+" | cache = value read", c.P.InstrPos(s), "cache receives "+v, nil)
				} else {
					c.Guard(rule, fn, []ssa.Instruction{s}, "cache = value read", nil, okcall(fRep+"readRevisionCounter"))
				}
			}
			c.Guard(rule, fn, successReturns(fn), "return success", nil, okcall(fRep+"readRevisionCounter"))
		}
		if fn := c.Anchor(rule, fSrv+"initUUID"); fn != nil {
			c.Guard(rule, fn, CallsTo(fn, fRep+"writeVolumeMetaData", fRep+"encodeToFile"), "rewrite volume.meta", nil, okcall("replica.ReadInfo"))
		}
		for _, fn := range prodFns(c.P) {
			for _, in := range AnyCallsTo(fn, "os.Rename") {
				switch FnName(fn) {
				case fRep + "encodeToFile", "util.DuplicateDevice", "util.removeAsync":
					c.OK(rule, FnName(fn)+" | os.Rename", c.P.InstrPos(in), "installs a completely written temporary file / allow-listed", false)
				default:
					if strings.HasPrefix(FnName(fn), "util.") {
						c.OK(rule, FnName(fn)+" | os.Rename", c.P.InstrPos(in), "util helper", false)
					} else {
						c.Bad(rule, FnName(fn)+" | os.Rename", c.P.InstrPos(in), "a chain file is moved instead of linked: between the move and the volume.meta commit the name that volume.meta refers to does not exist", nil)
					}
				}
			}
		}
		if fn := c.Anchor(rule, fRep+"linkDisk"); fn != nil {
			if n := len(CallsTo(fn, "os.Link")); n == 2 {
				c.OK(rule, FnName(fn)+" | data and metadata linked", c.P.Pos(fn.Pos()), "two os.Link calls", false)
			} else {
				c.Bad(rule, FnName(fn)+" | data and metadata linked", c.P.Pos(fn.Pos()), fmt.Sprintf("expected os.Link for the data file and for its metadata, found %d", n), nil)
			}
		}
		c.Floor(rule, 8)
	}
}

// capturedHolds: v (inside closure cl of parent) is a load of a captured variable all of whose
// assignments in the parent store the given term.
func capturedHolds(parent, cl *ssa.Function, v ssa.Value, term string) bool {
	u, ok := v.(*ssa.UnOp)
	if !ok {
		return false
	}
	fv, ok := u.X.(*ssa.FreeVar)
	if !ok {
		return false
	}
	al := freeVarAlloc(cl, fv)
	if al == nil {
		return false
	}
	R := NewRenderer(parent)
	n, all := 0, true
	eachInstr(parent, func(in ssa.Instruction) {
		if s, ok := in.(*ssa.Store); ok && s.Addr == ssa.Value(al) {
			n++
			if R.V(s.Val) != term {
				all = false
			}
		}
	})
	return n > 0 && all
}
