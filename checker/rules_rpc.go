package main

import (
	"fmt"
	"go/types"
	"regexp"
	"sort"
	"strings"

	"golang.org/x/tools/go/ssa"
)

const (
	fWire = "(*rpc.Wire)."
	fCli  = "(*rpc.Client)."
	fRSrv = "(*rpc.Server)."
	fRem  = "(*backend/remote.Remote)."
)

type codecItem struct {
	what string // field or expression (message-relative)
	typ  string
	ord  string
	at   ssa.Instruction
	done string // table mode: atom of the loop-exhausted edge
}

// domOrder sorts instructions by dominance (a chain of success edges).
func domOrder(ins []ssa.Instruction) {
	sort.SliceStable(ins, func(i, j int) bool {
		a, b := ins[i], ins[j]
		if a.Block() == b.Block() {
			return instrIndex(a) < instrIndex(b)
		}
		return a.Block().Dominates(b.Block())
	})
}

func ruleC15Codec(c *Ctx) {
	const rule = "C15-CODEC"
	c.Doc(rule, "Wire.Write and Wire.Read agree: the same sequence of (field, fixed-width type, byte order) — MagicVersion u16, Seq u32, Type u32, Offset i64, Size i64, payload length u32 — each step cut off by the success edge of the previous one; the payload written is msg.Data prefixed by uint32(len(msg.Data)), the payload read is a freshly allocated make([]byte, length) filled by io.ReadFull; the magic is compared on read; Write flushes before reporting success")
	wfn, rfn := c.Anchor(rule, fWire+"Write"), c.Anchor(rule, fWire+"Read")
	if wfn == nil || rfn == nil {
		return
	}
	WR, RR := NewRenderer(wfn), NewRenderer(rfn)
	var wcalls, rcalls []ssa.Instruction
	wcalls = append(wcalls, CallsTo(wfn, "encoding/binary.Write")...)
	rcalls = append(rcalls, CallsTo(rfn, "encoding/binary.Read")...)
	domOrder(wcalls)
	domOrder(rcalls)
	var wseq, rseq []codecItem
	// an item per call; a call that sits in a loop over a literal table yields the table's items
	tableMode := false
	for _, in := range wcalls {
		if items := codecTable(wfn, WR, in); len(items) > 0 {
			wseq, tableMode = append(wseq, items...), true
			continue
		}
		cl := in.(*ssa.Call)
		v := cl.Call.Args[2]
		t := "?"
		if mi, ok := v.(*ssa.MakeInterface); ok {
			t = types.TypeString(mi.X.Type(), nil)
		}
		wseq = append(wseq, codecItem{what: strings.TrimPrefix(WR.V(v), "$1."), typ: t, ord: WR.V(cl.Call.Args[1]), at: in})
	}
	for _, in := range rcalls {
		if items := codecTable(rfn, RR, in); len(items) > 0 {
			rseq, tableMode = append(rseq, items...), true
			continue
		}
		cl := in.(*ssa.Call)
		v := cl.Call.Args[2]
		t := "?"
		if mi, ok := v.(*ssa.MakeInterface); ok {
			if pt, ok := mi.X.Type().Underlying().(*types.Pointer); ok {
				t = types.TypeString(pt.Elem(), nil)
			}
		}
		w := RR.V(v)
		w = strings.TrimPrefix(w, "&var(rpc.Message).")
		rseq = append(rseq, codecItem{what: w, typ: t, ord: RR.V(cl.Call.Args[1]), at: in})
	}
	want := []struct{ f, t string }{{"MagicVersion", "uint16"}, {"Seq", "uint32"}, {"Type", "uint32"}, {"Offset", "int64"}, {"Size", "int64"}}
	if len(wseq) != 6 || len(rseq) != 6 {
		c.Bad(rule, "frame | six fixed-width header items on both sides", "", fmt.Sprintf("Write emits %d items, Read consumes %d (expected 6 and 6)", len(wseq), len(rseq)), nil)
		return
	}
	for i := 0; i < 6; i++ {
		w, r := wseq[i], rseq[i]
		key := fmt.Sprintf("frame item %d", i)
		okItem := w.typ == r.typ && w.ord == r.ord && w.ord == "encoding/binary.LittleEndian"
		if i < 5 {
			okItem = okItem && w.what == want[i].f && r.what == want[i].f && w.typ == want[i].t
		} else {
			okItem = okItem && w.what == "len($1.Data)" && w.typ == "uint32" && (strings.HasPrefix(r.what, "&var(uint32)") || strings.HasPrefix(r.what, "var(uint32)"))
		}
		if okItem {
			c.OK(rule, key, c.P.InstrPos(w.at), fmt.Sprintf("write %s:%s == read %s:%s, %s", w.what, w.typ, r.what, r.typ, w.ord), true)
		} else {
			c.Bad(rule, key, c.P.InstrPos(r.at), fmt.Sprintf("encoder writes (%s %s %s) but decoder reads (%s %s %s)", w.what, w.typ, w.ord, r.what, r.typ, r.ord), nil)
		}
		// the magic/version word is validated before anything else of the frame is interpreted
		if i == 1 {
			c.Guard(rule, rfn, []ssa.Instruction{r.at}, "read item 1", nil, atom("magic/version matches", "+var(rpc.Message).MagicVersion -6915 ==0"))
		}
		// each step after success of the previous
		if i > 0 {
			for _, side := range []struct {
				fn   *ssa.Function
				seq  []codecItem
				verb string
			}{{wfn, wseq, "write"}, {rfn, rseq, "read"}} {
				cur, prev := side.seq[i], side.seq[i-1]
				switch {
				case cur.at == prev.at:
					// two items of one table: the loop goes on to the next item only through the
					// success edge of the transfer (checked once per table)
					if i == 1 || side.seq[i-2].at != cur.at {
						call := cur.at
						ws := Query{Fn: side.fn, Start: call, IsSite: func(in ssa.Instruction) bool { return in == call }, GenEdge: successEdgesOfCall(side.fn, call)}.Run()
						key := side.verb + " items in table order, each after the previous succeeded"
						if side.verb == "read" || i > 1 {
							key = fmt.Sprintf("%s items in table order from item %d, each after the previous succeeded", side.verb, i-1)
						}
						if len(ws) == 0 {
							c.OK(rule, key, c.P.InstrPos(call), "range over the literal table; the next iteration is reached only through the success edge", true)
						} else {
							c.Bad(rule, key, c.P.InstrPos(call), "the loop continues after a failed header transfer", c.witness(ws[0]))
						}
					}
				case prev.done != "":
					c.Guard(rule, side.fn, []ssa.Instruction{cur.at}, fmt.Sprintf("%s item %d", side.verb, i), nil, Need{Desc: "previous table transferred completely", Atoms: []string{prev.done}})
				default:
					c.Guard(rule, side.fn, []ssa.Instruction{cur.at}, fmt.Sprintf("%s item %d", side.verb, i), nil, Need{Desc: "previous item transferred", Edge: successEdgesOfCall(side.fn, prev.at)})
				}
			}
		}
	}
	// payload
	pw := CallsTo(wfn, "(*bufio.Writer).Write")
	if len(pw) == 1 && callRender(WR, pw[0]) == "(*bufio.Writer).Write($0.writer,$1.Data)" {
		prefix := Need{Desc: "length prefix written", Edge: successEdgesOfCall(wfn, wseq[5].at)}
		if wseq[5].done != "" {
			prefix = Need{Desc: "whole header table written", Atoms: []string{wseq[5].done}}
		}
		_ = tableMode
		c.Guard(rule, wfn, pw, "write payload", nil, prefix, atom("payload non-empty", "+len($1.Data) -1 >=0"))
	} else {
		c.Bad(rule, "frame payload | written after the prefix", "", "Wire.Write must write msg.Data after its length prefix", nil)
	}
	fl := CallsTo(wfn, "(*bufio.Writer).Flush")
	if len(fl) == 1 {
		c.Guard(rule, wfn, successReturns(wfn), "return success", nil, called("(*bufio.Writer).Flush"))
		c.Guard(rule, wfn, fl, "flush", nil, Need{Desc: "payload written or empty", Atoms: []string{"-len($1.Data) >=0"}, OkCalls: []string{"(*bufio.Writer).Write"}})
	} else {
		c.Bad(rule, "frame | flushed", "", "Wire.Write must Flush the buffered writer", nil)
	}
	rf := CallsTo(rfn, "io.ReadFull")
	var dataStores []ssa.Instruction
	eachInstr(rfn, func(in ssa.Instruction) {
		if s, ok := in.(*ssa.Store); ok && RR.V(s.Addr) == "&var(rpc.Message).Data" {
			dataStores = append(dataStores, in)
		}
	})
	if len(rf) == 1 && len(dataStores) == 1 {
		st := dataStores[0].(*ssa.Store)
		ms, isMake := strip(st.Val).(*ssa.MakeSlice)
		if isMake && RR.V(ms.Len) == "var(uint32)" {
			c.OK(rule, "frame payload | fresh buffer of the announced length", c.P.InstrPos(st), "msg.Data = make([]byte, length): every decoded frame owns its payload", true)
		} else {
			c.Bad(rule, "frame payload | fresh buffer of the announced length", c.P.InstrPos(st), "msg.Data is "+RR.V(st.Val)+": the payload buffer must be a fresh make([]byte, length) (a shared buffer is overwritten by the next frame while the previous reply is still being consumed)", nil)
		}
		if callRender(RR, rf[0]) == "io.ReadFull($0.reader,var(rpc.Message).Data)" || strings.HasPrefix(callRender(RR, rf[0]), "io.ReadFull($0.reader,makeslice(") {
			c.OK(rule, "frame payload | read in full", c.P.InstrPos(rf[0]), "io.ReadFull(w.reader, msg.Data)", false)
		} else {
			c.Bad(rule, "frame payload | read in full", c.P.InstrPos(rf[0]), "payload read is "+callRender(RR, rf[0]), nil)
		}
		c.Guard(rule, rfn, rf, "read payload", nil, func() Need {
			if rseq[5].done != "" {
				return Need{Desc: "length read (whole table)", Atoms: []string{rseq[5].done}}
			}
			return Need{Desc: "length read", Edge: successEdgesOfCall(rfn, rseq[5].at)}
		}(), atom("length > 0", "+var(uint32) !=0", "+var(uint32) -1 >=0"))
		c.Guard(rule, rfn, nilErrorReturns(rfn), "return frame", nil,
			Need{Desc: "payload read or empty", Atoms: []string{"+var(uint32) ==0", "-var(uint32) >=0"}, Edge: successEdgesOfCall(rfn, rf[0])},
			atom("magic/version matches", "+var(rpc.Message).MagicVersion -6915 ==0"))
	} else {
		c.Bad(rule, "frame payload | read", "", "Wire.Read must allocate and ReadFull the payload", nil)
	}
	// every frame Write produces is accepted: the only frame Read refuses by its content is one with
	// a foreign magic; all other error returns forward the error of the read that failed (a "sanity
	// check" on Size / Type / length is a condition Write does not establish - an error reply
	// carries a text longer than its Size)
	if ei := errResultIndex(rfn); ei >= 0 {
		R := NewRenderer(rfn)
		for _, r := range Returns(rfn) {
			if ei >= len(r.Results) || !provablyNonNilError(r.Results[ei]) {
				continue
			}
			if cl, ok := strip(r.Results[ei]).(*ssa.Call); ok {
				if n := CalleeName(cl); n == "encoding/binary.Read" || n == "io.ReadFull" {
					continue
				}
			}
			// ... or wrap it: the return sits behind the failure edge of one of the reads
			var failed []func(*ssa.BasicBlock, int) bool
			for _, rd := range AnyCallsTo(rfn, "encoding/binary.Read", "io.ReadFull") {
				if ev := errOfCall(rd); ev != nil {
					_, nonNil := nilTestEdges(rfn, ev)
					failed = append(failed, nonNil)
				}
			}
			c.Guard(rule, rfn, []ssa.Instruction{r}, "refuse a frame ("+R.V(r.Results[ei])+")", nil,
				Need{Desc: "foreign magic/version, or a read of the frame failed", Atoms: []string{"+var(rpc.Message).MagicVersion -6915 !=0"}, Edge: orEdges(failed...)})
		}
	}
	// locks
	L := lockInfo(c.P)
	for _, x := range []struct {
		fn   *ssa.Function
		ins  []ssa.Instruction
		lock string
	}{{wfn, wcalls, "WriteLock"}, {rfn, rcalls, "ReadLock"}} {
		okl := true
		for _, in := range x.ins {
			if !mustHoldAt(L, x.fn, in, "."+x.lock, 'W') {
				okl = false
			}
		}
		if okl {
			c.OK(rule, FnName(x.fn)+" | frame assembled under "+x.lock, "", "all items of one frame are written/read with the wire lock held", true)
		} else {
			c.Bad(rule, FnName(x.fn)+" | frame assembled under "+x.lock, "", "frame items are not all transferred under "+x.lock+" (frames of concurrent callers can interleave)", nil)
		}
	}
	c.Floor(rule, 20)
}

func ruleC15Client(c *Ctx) {
	const rule = "C15-CLIENT"
	// at most once: a request whose deadline passed is not sent again (it is usually slow, not
	// lost: the replica would apply it twice and count two revisions for one write)
	{
		vals, stores := []string{}, 0
		for _, fn := range c.P.AllFns {
			R := NewRenderer(fn)
			eachInstr(fn, func(in ssa.Instruction) {
				if s, ok := in.(*ssa.Store); ok {
					if g, ok := s.Addr.(*ssa.Global); ok && short(g.String()) == "rpc.opRetries" {
						stores++
						vals = append(vals, R.V(s.Val))
					}
				}
			})
		}
		okv := true
		for _, v := range vals {
			if v != "0" {
				okv = false
			}
		}
		if k, isConst := c.P.pkgIntConst("rpc", "opRetries"); isConst && k != 0 {
			okv = false
			vals = append(vals, fmt.Sprint(k))
		}
		if okv {
			c.OK(rule, "rpc.opRetries | a timed-out request is never re-sent", "", fmt.Sprintf("opRetries is 0 (%d initialising store)", stores), false)
		} else {
			c.Bad(rule, "rpc.opRetries | a timed-out request is never re-sent", "", "opRetries can be "+strings.Join(vals, ", ")+": a request that timed out is sent again although the replica may still apply the first copy (two revisions counted for one write; the reply of the first copy completes the wrong wait)", nil)
		}
	}
	c.Doc(rule, "rpc.Client: the pending map and the sequence counter are touched only by handleRequest/handleResponse/replyError/nextSeq, which are reachable only from the single loop goroutine started once in NewClient; a request gets a fresh pre-incremented Seq, is inserted in the map before it is queued for sending; a reply is matched by Seq, removed from the map and completed exactly once on a buffered channel; every operation waits with a deadline and refuses early when the client is poisoned; on time-out / transport error the client is poisoned and every pending request is failed")
	owners := map[string]bool{fCli + "handleRequest": true, fCli + "handleResponse": true, fCli + "replyError": true, fCli + "nextSeq": true}
	for _, fn := range prodFns(c.P) {
		R := NewRenderer(fn)
		touched := map[string]ssa.Instruction{}
		eachInstr(fn, func(in ssa.Instruction) {
			if fa, ok := in.(*ssa.FieldAddr); ok {
				tn, f, _ := fieldAddrOf(fa)
				if tn == "Client" && (f == "messages" || f == "seq") && strings.HasPrefix(FnName(fn), "(*rpc.") || (tn == "Client" && (f == "messages" || f == "seq") && strings.Contains(types.TypeString(fa.X.Type(), nil), "rpc.Client")) {
					touched[f] = in
				}
			}
		})
		_ = R
		for f, in := range touched {
			key := FnName(fn) + " | touches Client." + f
			switch {
			case owners[FnName(fn)]:
				c.OK(rule, key, c.P.InstrPos(in), "owner function (runs on the loop goroutine)", false)
			case FnName(fn) == "rpc.NewClient":
				c.OK(rule, key, c.P.InstrPos(in), "initialisation before the goroutines are started", false)
			default:
				c.Bad(rule, key, c.P.InstrPos(in), "pending map / sequence counter accessed outside the loop goroutine's functions (unsynchronised access from another goroutine)", nil)
			}
		}
	}
	// callers of owner functions
	for name := range owners {
		if name == fCli+"nextSeq" && c.P.Fn(name) == nil {
			continue // written out in handleRequest
		}
		fn := c.Anchor(rule, name)
		if fn == nil {
			continue
		}
		n := c.P.CG.Nodes[fn]
		okc := true
		var bad string
		if n != nil {
			for _, e := range n.In {
				caller := FnName(e.Caller.Func)
				if !owners[caller] && caller != fCli+"loop" {
					okc = false
					bad = caller
				}
				if _, isGo := e.Site.(*ssa.Go); isGo {
					okc = false
					bad = caller + " (go)"
				}
			}
		}
		if okc {
			c.OK(rule, name+" | called only from the loop goroutine", c.P.Pos(fn.Pos()), "all callers are loop or other owner functions, none via go", true)
		} else {
			c.Bad(rule, name+" | called only from the loop goroutine", c.P.Pos(fn.Pos()), "called from "+bad, nil)
		}
	}
	// loop started once
	starts := 0
	for _, fn := range prodFns(c.P) {
		eachInstr(fn, func(in ssa.Instruction) {
			if g, ok := in.(*ssa.Go); ok && callMatches(g, fCli+"loop") {
				starts++
				if FnName(fn) != "rpc.NewClient" {
					c.Bad(rule, FnName(fn)+" | starts loop", c.P.InstrPos(in), "a second loop goroutine would race on the pending map", nil)
				}
			}
		})
	}
	if starts == 1 {
		c.OK(rule, "rpc.NewClient | loop goroutine started exactly once", "", "", false)
	} else {
		c.Bad(rule, "rpc.NewClient | loop goroutine started exactly once", "", fmt.Sprintf("%d go c.loop() statements", starts), nil)
	}
	// handleRequest
	if fn := c.Anchor(rule, fCli+"handleRequest"); fn != nil {
		R := NewRenderer(fn)
		var sends, ins, seqSt []ssa.Instruction
		eachInstr(fn, func(in ssa.Instruction) {
			switch x := in.(type) {
			case *ssa.Send:
				if R.V(x.Chan) == "$0.send" {
					sends = append(sends, in)
				}
			case *ssa.MapUpdate:
				if R.V(x.Map) == "$0.messages" && R.V(x.Key) == "$1.Seq" && R.V(x.Value) == "$1" {
					ins = append(ins, in)
				}
			case *ssa.Store:
				if R.V(x.Addr) == "&$1.Seq" {
					seqSt = append(seqSt, in)
				}
			}
		})
		if len(sends) == 1 && len(ins) == 1 && len(seqSt) == 1 {
			if v := R.V(seqSt[0].(*ssa.Store).Val); v == fCli+"nextSeq($0)" {
				c.OK(rule, FnName(fn)+" | fresh sequence number", c.P.InstrPos(seqSt[0]), "req.Seq = c.nextSeq()", false)
			} else if incs := StoresTo(fn, "Client", "seq"); v == "$0.seq" && len(incs) == 1 && R.V(incs[0].(*ssa.Store).Val) == "(+$0.seq +1)" {
				// the helper written out: c.seq++; req.Seq = c.seq
				c.Guard(rule, fn, seqSt, "fresh sequence number", nil, Need{Desc: "c.seq incremented first", Instr: func(in ssa.Instruction) bool { return in == incs[0] }})
			} else {
				c.Bad(rule, FnName(fn)+" | fresh sequence number", c.P.InstrPos(seqSt[0]), "req.Seq = "+v, nil)
			}
			c.Guard(rule, fn, sends, "queue for sending", nil,
				Need{Desc: "sequence number assigned", Instr: func(in ssa.Instruction) bool { return in == seqSt[0] }},
				Need{Desc: "inserted in the pending map", Instr: func(in ssa.Instruction) bool { return in == ins[0] }},
				atom("client not poisoned", isNilAtom("$0.err")))
			c.Guard(rule, fn, ins, "insert pending", nil, Need{Desc: "sequence number assigned", Instr: func(in ssa.Instruction) bool { return in == seqSt[0] }})
			// poisoned => replyError
			ws := afterEdge(fn, atomEdges(fn, R, notNilAtom("$0.err")), func(in ssa.Instruction) bool { return callRender(R, in) == fCli+"replyError($0,$1)" }, nil,
				func(in ssa.Instruction) bool { _, ok := in.(*ssa.Return); return ok })
			if len(ws) == 0 {
				c.OK(rule, FnName(fn)+" | poisoned client fails the request at once", "", "c.err != nil => replyError(req)", true)
			} else {
				c.Bad(rule, FnName(fn)+" | poisoned client fails the request at once", "", "a request on a poisoned client is neither sent nor failed (caller hangs until its deadline)", c.witness(ws[0]))
			}
		} else {
			c.Bad(rule, FnName(fn)+" | structure", "", "handleRequest must assign Seq, insert into messages and queue the request", nil)
		}
	}
	if fn := c.P.Fn(fCli + "nextSeq"); fn != nil { // optional: may be written out in handleRequest
		R := NewRenderer(fn)
		st := StoresTo(fn, "Client", "seq")
		okn := len(st) == 1 && R.V(st[0].(*ssa.Store).Val) == "(+$0.seq +1)"
		if okn {
			for _, r := range Returns(fn) {
				ws := Query{Fn: fn, IsSite: func(in ssa.Instruction) bool { return in == ssa.Instruction(r) }, Gen: func(in ssa.Instruction) bool { return in == st[0] }}.Run()
				if len(ws) > 0 || R.V(r.Results[0]) != "$0.seq" {
					okn = false
				}
			}
		}
		if okn {
			c.OK(rule, FnName(fn)+" | pre-increment", "", "c.seq++; return c.seq", false)
		} else {
			c.Bad(rule, FnName(fn)+" | pre-increment", "", "sequence numbers are no longer unique per request", nil)
		}
	}
	// handleResponse: lookup/delete/complete under the same key
	if fn := c.Anchor(rule, fCli+"handleResponse"); fn != nil {
		R := NewRenderer(fn)
		var comp, dels []ssa.Instruction
		eachInstr(fn, func(in ssa.Instruction) {
			switch x := in.(type) {
			case *ssa.Send:
				if R.V(x.Chan) == "$0.messages[$1.Seq].Complete" {
					comp = append(comp, in)
				}
			case *ssa.Call:
				if callMatches(x, "builtin:delete") && R.V(x.Call.Args[0]) == "$0.messages" && R.V(x.Call.Args[1]) == "$1.Seq" {
					dels = append(dels, in)
				}
			}
		})
		if len(comp) == 1 && len(dels) == 1 {
			c.Guard(rule, fn, comp, "complete request", nil,
				atom("request found under the reply's Seq", "has($0.messages,$1.Seq)"),
				Need{Desc: "removed from the pending map", Instr: func(in ssa.Instruction) bool { return in == dels[0] }},
				atom("not a transport error", isNilAtom("$1.transportErr")))
			// reply fields copied
			n := 0
			eachInstr(fn, func(in ssa.Instruction) {
				if s, ok := in.(*ssa.Store); ok {
					a, v := R.V(s.Addr), R.V(s.Val)
					if (a == "&$0.messages[$1.Seq].Type" && v == "$1.Type") || (a == "&$0.messages[$1.Seq].Size" && v == "$1.Size") || (a == "&$0.messages[$1.Seq].Data" && v == "$1.Data") {
						n++
					}
				}
			})
			if n == 3 {
				c.OK(rule, FnName(fn)+" | reply copied into its request", "", "Type, Size, Data", false)
			} else {
				c.Bad(rule, FnName(fn)+" | reply copied into its request", "", fmt.Sprintf("only %d of Type/Size/Data copied from the reply", n), nil)
			}
		} else {
			c.Bad(rule, FnName(fn)+" | structure", "", "handleResponse must delete messages[resp.Seq] and complete that request", nil)
		}
		// transport error: poison + fail all in flight
		te := atomEdges(fn, R, notNilAtom("$1.transportErr"))
		isRet := func(in ssa.Instruction) bool { _, ok := in.(*ssa.Return); return ok }
		poison := func(in ssa.Instruction) bool {
			s, ok := in.(*ssa.Store)
			return ok && R.V(s.Addr) == "&$0.err" && R.V(s.Val) == "$1.transportErr"
		}
		ws := afterEdge(fn, te, poison, nil, isRet)
		if len(ws) == 0 {
			c.OK(rule, FnName(fn)+" | transport error poisons the client", "", "c.err = resp.transportErr", true)
		} else {
			c.Bad(rule, FnName(fn)+" | transport error poisons the client", "", "a transport error does not set c.err", c.witness(ws[0]))
		}
		// loop over messages with replyError directly in the body
		found := false
		for _, in := range CallsTo(fn, fCli+"replyError") {
			if callRender(R, in) == fCli+"replyError($0,$0.messages[*])" {
				body := in.Block()
				if len(body.Preds) == 1 && atomEdges(fn, R, "more($0.messages)")(body.Preds[0], succIndex(body.Preds[0], body)) {
					found = true
					ws := afterEdge(fn, te, nil, atomEdges(fn, R, "!more($0.messages)"), isRet)
					if len(ws) == 0 {
						c.OK(rule, FnName(fn)+" | every in-flight request is failed", c.P.InstrPos(in), "for _, msg := range c.messages { c.replyError(msg) } on the transport-error branch", true)
					} else {
						c.Bad(rule, FnName(fn)+" | every in-flight request is failed", c.P.InstrPos(in), "the transport-error branch can return without failing the pending requests", c.witness(ws[0]))
					}
				}
			}
		}
		if !found {
			// collect-then-fail: `for _, m := range c.messages { l = append(l, m) }; for i := range l { c.replyError(l[i]) }`
			// (replyError deletes from the map it would otherwise be ranging over)
			collected := false
			eachInstr(fn, func(in ssa.Instruction) {
				if cl, ok := in.(*ssa.Call); ok && callMatches(cl, "builtin:append") && appendedElem(R, cl) == "$0.messages[*]" {
					body := cl.Block()
					if len(body.Preds) == 1 && atomEdges(fn, R, "more($0.messages)")(body.Preds[0], succIndex(body.Preds[0], body)) {
						collected = true
					}
				}
			})
			for _, in := range CallsTo(fn, fCli+"replyError") {
				r := callRender(R, in)
				if !collected || !strings.HasPrefix(r, fCli+"replyError($0,") || !strings.HasSuffix(r, "[*])") {
					continue
				}
				list := strings.TrimSuffix(strings.TrimPrefix(r, fCli+"replyError($0,"), "[*])")
				if !strings.Contains(list, "append(") {
					continue
				}
				body := in.Block()
				if len(body.Preds) != 1 {
					continue
				}
				found = true
				ws1 := afterEdge(fn, te, nil, atomEdges(fn, R, "!more($0.messages)"), isRet)
				ws2 := afterEdge(fn, te, nil, atomEdges(fn, R, "+* -len("+list+") >=0", "!more("+list+")"), isRet)
				if len(ws1) == 0 && len(ws2) == 0 {
					c.OK(rule, FnName(fn)+" | every in-flight request is failed", c.P.InstrPos(in), "the pending requests are collected from c.messages and every collected one is failed on the transport-error branch", true)
				} else {
					c.Bad(rule, FnName(fn)+" | every in-flight request is failed", c.P.InstrPos(in), "the transport-error branch can return without failing the pending requests", c.witnessOr(append(ws1, ws2...)))
				}
			}
		}
		if !found {
			c.Bad(rule, FnName(fn)+" | every in-flight request is failed", "", "no unconditional replyError over all pending messages", nil)
		}
		// notifies the monitor
		ws = afterEdge(fn, te, func(in ssa.Instruction) bool { s, ok := in.(*ssa.Send); return ok && R.V(s.Chan) == "$0.closeChan" }, nil, isRet)
		if len(ws) == 0 {
			c.OK(rule, FnName(fn)+" | failure reported on closeChan", "", "c.closeChan <- struct{}{}", true)
		} else {
			c.Bad(rule, FnName(fn)+" | failure reported on closeChan", "", "the transport error is not reported to the backend's monitor", c.witness(ws[0]))
		}
	}
	if fn := c.Anchor(rule, fCli+"replyError"); fn != nil {
		R := NewRenderer(fn)
		var comp []ssa.Instruction
		eachInstr(fn, func(in ssa.Instruction) {
			if s, ok := in.(*ssa.Send); ok && R.V(s.Chan) == "$1.Complete" {
				comp = append(comp, in)
			}
		})
		var rets []ssa.Instruction
		for _, r := range Returns(fn) {
			rets = append(rets, r)
		}
		if len(comp) == 1 {
			c.Guard(rule, fn, rets, "return", nil, Need{Desc: "request completed", Instr: func(in ssa.Instruction) bool { return in == comp[0] }})
			okT := false
			eachInstr(fn, func(in ssa.Instruction) {
				if s, ok := in.(*ssa.Store); ok && R.V(s.Addr) == "&$1.Type" && R.V(s.Val) == "3" {
					okT = true
				}
			})
			if okT {
				c.OK(rule, FnName(fn)+" | marks the request TypeError", "", "", false)
			} else {
				c.Bad(rule, FnName(fn)+" | marks the request TypeError", "", "failed request is not marked TypeError (caller would treat it as success)", nil)
			}
		} else {
			c.Bad(rule, FnName(fn)+" | completes the request", "", "replyError must send on req.Complete exactly once", nil)
		}
	}
	// operation: deadline + early refusal + poison on time-out
	if fn := c.Anchor(rule, fCli+"operation"); fn != nil {
		R := NewRenderer(fn)
		var sends, sels, mk []ssa.Instruction
		eachInstr(fn, func(in ssa.Instruction) {
			switch x := in.(type) {
			case *ssa.Send:
				if R.V(x.Chan) == "$0.requests" {
					sends = append(sends, in)
				}
			case *ssa.Select:
				sels = append(sels, in)
			case *ssa.MakeChan:
				mk = append(mk, in)
			}
		})
		c.Guard(rule, fn, sends, "enqueue request", nil, atom("client not poisoned", isNilAtom("$0.err")))
		// an error reply (and a request terminated by replyError, which turns it into one) is a failure:
		// success is reported only when the type of the *reply* is not TypeError
		if te, ok := c.P.pkgIntConst("rpc", "TypeError"); ok {
			c.Guard(rule, fn, nilErrorReturns(fn), "report success", nil, atom("reply is not an error reply", fmt.Sprintf("+var(rpc.Message).Type -%d !=0", te)))
		} else {
			c.Undecided(rule, FnName(fn)+" | TypeError", "", "constant rpc.TypeError not found")
		}
		// a TypeEOF reply is a short read: it is handed up as io.EOF, never as a clean success
		// (replicator.ReadAt takes err == nil for "buffer fully served" and ignores the count)
		if te, ok := c.P.pkgIntConst("rpc", "TypeEOF"); ok {
			c.Guard(rule, fn, nilErrorReturns(fn), "report success", nil, atom("reply is not an EOF reply", fmt.Sprintf("+var(rpc.Message).Type -%d !=0", te)))
		}
		if len(sels) == 1 {
			sel := sels[0].(*ssa.Select)
			hasDeadline, hasComplete := false, false
			for _, st := range sel.States {
				s := R.V(st.Chan)
				if st.Dir == types.RecvOnly && isDeadlineChan(st.Chan, 0) {
					hasDeadline = true
				}
				if s == "var(rpc.Message).Complete" {
					hasComplete = true
				}
			}
			if sel.Blocking && hasDeadline && hasComplete && len(sel.States) == 2 {
				c.OK(rule, FnName(fn)+" | waits on completion or deadline", c.P.InstrPos(sel), "select { case <-msg.Complete; case <-timeout }", true)
			} else {
				c.Bad(rule, FnName(fn)+" | waits on completion or deadline", c.P.InstrPos(sel), "the wait for the reply has no deadline branch for every operation type", nil)
			}
			// time-out branch: SetError before return (within the same round)
			to := atomEdges(fn, R, "+select#0 -1 ==0")
			ws := Query{Fn: fn, StartHeld: true, KillEdge: to, Gen: func(in ssa.Instruction) bool {
				if len(mk) == 1 && in == mk[0] {
					return true // a retry starts a new round (new message, new deadline)
				}
				return strings.HasPrefix(callRender(R, in), fCli+"SetError($0,") || in == sels[0]
			}, IsSite: func(in ssa.Instruction) bool { _, ok := in.(*ssa.Return); return ok }}.Run()
			if len(ws) == 0 {
				c.OK(rule, FnName(fn)+" | deadline expiry poisons the client", "", "time-out branch returns only after c.SetError(err)", true)
			} else {
				c.Bad(rule, FnName(fn)+" | deadline expiry poisons the client", "", "the time-out branch can return without c.SetError: later requests and the pending one are not failed and the replica is not detached", c.witness(ws[0]))
			}
			// the deadline is final for the request it was armed for: after it fired the same wait is
			// not entered again (re-arming it while the peer answers pings on the connection keeps a
			// lost reply pending for ever); only a new round - new message, new deadline - waits again
			ws = Query{Fn: fn, StartHeld: true, KillEdge: to, Gen: func(in ssa.Instruction) bool {
				return len(mk) == 1 && in == mk[0]
			}, IsSite: func(in ssa.Instruction) bool { return in == sels[0] }}.Run()
			if len(ws) == 0 {
				c.OK(rule, FnName(fn)+" | an expired deadline is final", c.P.InstrPos(sel), "no path from the time-out branch back to the wait of the same request", true)
			} else {
				c.Bad(rule, FnName(fn)+" | an expired deadline is final", c.P.InstrPos(sel), "after the deadline fired the wait for the same request is entered again: a reply that never comes keeps the request, and the controller lock its caller holds, pending", c.witness(ws[0]))
			}
		} else {
			c.Bad(rule, FnName(fn)+" | waits on completion or deadline", "", "expected one select", nil)
		}
		if len(mk) == 1 {
			if n, ok := intConst(mk[0].(*ssa.MakeChan).Size); ok && n >= 1 {
				c.OK(rule, FnName(fn)+" | completion channel is buffered", c.P.InstrPos(mk[0]), "make(chan struct{}, 1): the loop goroutine never blocks completing an abandoned request", false)
			} else {
				c.Bad(rule, FnName(fn)+" | completion channel is buffered", c.P.InstrPos(mk[0]), "unbuffered completion channel: completing a request whose caller timed out blocks the loop goroutine forever", nil)
			}
		}
	}
	// the public operations hand operation()'s verdict up unchanged: an error (io.EOF of a short
	// read included - it is also what a closed connection reports for every later request) is never
	// turned into success on the way out
	for _, m := range []string{"ReadAt", "WriteAt", "Sync", "Unmap", "Ping"} {
		fn := c.P.Fn(fCli + m)
		if fn == nil {
			continue
		}
		R := NewRenderer(fn)
		ops := CallsTo(fn, fCli+"operation")
		if len(ops) != 1 {
			c.Bad(rule, FnName(fn)+" | one operation per call", c.P.Pos(fn.Pos()), fmt.Sprintf("%d calls of operation", len(ops)), nil)
			continue
		}
		want := callRender(R, ops[0]) + "#1"
		ei := errResultIndex(fn)
		for _, r := range Returns(fn) {
			key := FnName(fn) + " | returns operation's own error"
			if ei >= 0 && ei < len(r.Results) && R.V(r.Results[ei]) == want {
				c.OK(rule, key, c.P.InstrPos(r), want, false)
			} else if ei >= 0 && ei < len(r.Results) {
				c.Bad(rule, key, c.P.InstrPos(r), "returns "+R.V(r.Results[ei])+" as its error, not "+want, nil)
			}
		}
	}
	// a request is completed only with a verdict: the waiter in operation() decides by the
	// message's Type, so every send on a message's Complete channel is preceded, in the same
	// function, by a store of that message's Type (TypeError, or the reply's type)
	nComplete := 0
	for _, fn := range pkgFuncs(c.P, "rpc") {
		R := NewRenderer(fn)
		eachInstr(fn, func(in ssa.Instruction) {
			sd, ok := in.(*ssa.Send)
			if !ok {
				return
			}
			ch := R.V(sd.Chan)
			if !strings.HasSuffix(ch, ".Complete") {
				return
			}
			nComplete++
			msg := strings.TrimSuffix(ch, ".Complete")
			c.Guard(rule, fn, []ssa.Instruction{in}, "complete "+msg, nil, Need{Desc: "the message's Type was set", Instr: func(x ssa.Instruction) bool {
				st, ok := x.(*ssa.Store)
				return ok && R.V(st.Addr) == "&"+msg+".Type"
			}})
		})
	}
	if nComplete < 2 {
		c.Undecided(rule, "rpc | completion sites", "", fmt.Sprintf("only %d sends on a Complete channel found", nComplete))
	}
	// the reader goroutine never ends silently: every exit passes c.SetError (any read error, EOF included)
	if fn := c.Anchor(rule, fCli+"read"); fn != nil {
		var rets []ssa.Instruction
		for _, r := range Returns(fn) {
			rets = append(rets, r)
		}
		R := NewRenderer(fn)
		c.Guard(rule, fn, rets, "reader exit", nil, Need{Desc: "c.SetError(err)", Instr: func(in ssa.Instruction) bool {
			return strings.HasPrefix(callRender(R, in), fCli+"SetError($0,"+fWire+"Read($0.wire)#1")
		}})
	}
	// read/write loops report transport errors
	for _, x := range []struct{ fn, call string }{{fCli + "read", fWire + "Read"}, {fCli + "write", fWire + "Write"}} {
		fn := c.Anchor(rule, x.fn)
		if fn == nil {
			continue
		}
		R := NewRenderer(fn)
		calls := CallsTo(fn, x.call)
		if len(calls) != 1 {
			c.Bad(rule, x.fn+" | structure", "", "expected one "+x.call, nil)
			continue
		}
		ev := errOfCall(calls[0])
		_, nonNil := nilTestEdges(fn, ev)
		ws := afterEdge(fn, nonNil, func(in ssa.Instruction) bool { return strings.HasPrefix(callRender(R, in), fCli+"SetError($0,") }, nil,
			func(in ssa.Instruction) bool { _, ok := in.(*ssa.Return); return ok })
		if len(ws) == 0 {
			c.OK(rule, x.fn+" | wire error poisons the client", c.P.InstrPos(calls[0]), "err != nil => c.SetError(err) before the goroutine exits", true)
		} else {
			c.Bad(rule, x.fn+" | wire error poisons the client", c.P.InstrPos(calls[0]), "the goroutine can exit on a wire error without c.SetError", c.witness(ws[0]))
		}
	}
	// server never rewrites Seq
	for _, fn := range prodFns(c.P) {
		if !strings.HasPrefix(FnName(fn), fRSrv) {
			continue
		}
		for _, s := range StoresTo(fn, "Message", "Seq") {
			c.Bad(rule, FnName(fn)+" | reply keeps the request's Seq", c.P.InstrPos(s), "the replica-side server rewrites Message.Seq: the reply can no longer be matched", nil)
		}
	}
	if fn := c.Anchor(rule, fRSrv+"readWrite"); fn != nil {
		R := NewRenderer(fn)
		w := CallsToW(fn, fWire+"Write")
		if len(w) == 1 && renderVia(R, w[0], fWire+"Write") == fWire+"Write($0.wire,"+fWire+"Read($0.wire)#0)" {
			c.OK(rule, FnName(fn)+" | replies with the request message itself", c.P.InstrPos(w[0]), "the message read (carrying Seq) is the message written back", false)
		} else {
			c.Bad(rule, FnName(fn)+" | replies with the request message itself", "", "the reply is not the received message", nil)
		}
	}
	c.Floor(rule, 28)
}

func ruleC05Ping(rule string) ruleFn {
	return func(c *Ctx) {
		c.Doc(rule, "Remote.monitorPing: a failed Ping poisons the rpc client and sends the error on the monitor channel before returning; a close request sends nil on the monitor channel; Factory.Create starts monitorPing for every backend it returns")
		fn := c.Anchor(rule, fRem+"monitorPing")
		if fn != nil {
			R := NewRenderer(fn)
			// the client may be held through a small interface of its own (invoke) or as *rpc.Client
			pings := CallsTo(fn, fCli+"Ping", "invoke:Ping")
			if len(pings) != 1 {
				c.Bad(rule, FnName(fn)+" | structure", "", "expected one client.Ping()", nil)
			} else {
				_, nonNil := nilTestEdges(fn, errOfCall(pings[0]))
				isRet := func(in ssa.Instruction) bool { _, ok := in.(*ssa.Return); return ok }
				for _, st := range []struct {
					d string
					g func(ssa.Instruction) bool
				}{
					{"client.SetError(err)", func(in ssa.Instruction) bool {
						cl, ok := in.(*ssa.Call)
						if !ok || !(callMatches(in, fCli+"SetError") || callMatches(in, "invoke:SetError")) {
							return false
						}
						// on the client that was pinged, with the ping's own error
						pe := errOfCall(pings[0])
						okArg := false
						for _, a := range cl.Call.Args {
							if sameValue(a, pe) || R.V(a) == R.V(pe) {
								okArg = true
							}
						}
						pc, cc := pings[0].(*ssa.Call).Call, cl.Call
						recvP, recvC := "", ""
						if pc.IsInvoke() {
							recvP = R.V(pc.Value)
						} else if len(pc.Args) > 0 {
							recvP = R.V(pc.Args[0])
						}
						if cc.IsInvoke() {
							recvC = R.V(cc.Value)
						} else if len(cc.Args) > 0 {
							recvC = R.V(cc.Args[0])
						}
						return okArg && recvP == recvC
					}},
					{"r.monitorChan <- err", func(in ssa.Instruction) bool {
						s, ok := in.(*ssa.Send)
						pe := errOfCall(pings[0])
						return ok && R.V(s.Chan) == "$0.monitorChan" && (sameValue(s.X, pe) || R.V(s.X) == R.V(pe))
					}},
				} {
					ws := afterEdge(fn, nonNil, st.g, nil, isRet)
					if len(ws) == 0 {
						c.OK(rule, FnName(fn)+" | ping failure | "+st.d, c.P.InstrPos(pings[0]), "failed ping passes "+st.d+" before return", true)
					} else {
						c.Bad(rule, FnName(fn)+" | ping failure | "+st.d, c.P.InstrPos(pings[0]), "a failed ping can end the monitor without "+st.d, c.witness(ws[0]))
					}
				}
				// a failed ping ends the monitor (returns), it does not keep going silently
				ws := afterEdge(fn, nonNil, nil, nil, func(in ssa.Instruction) bool { return in == pings[0] })
				if len(ws) == 0 {
					c.OK(rule, FnName(fn)+" | ping failure ends monitoring", "", "no further ping after a failure", true)
				} else {
					c.OK(rule, FnName(fn)+" | ping failure ends monitoring", "", "monitor continues after a failure (allowed: each failure is reported)", false)
				}
			}
			// every return sends on monitorChan
			var rets []ssa.Instruction
			for _, r := range Returns(fn) {
				rets = append(rets, r)
			}
			c.Guard(rule, fn, rets, "monitor exit", nil, Need{Desc: "something sent on monitorChan", Instr: func(in ssa.Instruction) bool {
				s, ok := in.(*ssa.Send)
				return ok && R.V(s.Chan) == "$0.monitorChan"
			}})
		}
		if fn := c.Anchor(rule, "(*backend/remote.Factory).Create"); fn != nil {
			c.Guard(rule, fn, nilErrorReturns(fn), "return backend", nil, Need{Desc: "go r.monitorPing(client)", Instr: func(in ssa.Instruction) bool {
				g, ok := in.(*ssa.Go)
				return ok && callMatches(g, fRem+"monitorPing")
			}})
		}
		if fn := c.Anchor(rule, fRem+"StopMonitoring"); fn != nil {
			R := NewRenderer(fn)
			okS := false
			eachInstr(fn, func(in ssa.Instruction) {
				if s, ok := in.(*ssa.Send); ok && R.V(s.Chan) == "$0.closeChan" {
					okS = true
				}
			})
			if okS {
				c.OK(rule, FnName(fn)+" | signals closeChan", "", "", false)
			} else {
				c.Bad(rule, FnName(fn)+" | signals closeChan", "", "StopMonitoring no longer signals the monitor goroutine", nil)
			}
		}
		c.Floor(rule, 6)
	}
}

func ruleC17Attach(c *Ctx) {
	const rule = "C17-ATTACH"
	c.Doc(rule, "Factory.Create dials the data connection and opens the replica only on the edge state == \"closed\" of the replica's reported state; Server.Open refuses under the server lock when a replica instance is already open")
	if fn := c.Anchor(rule, "(*backend/remote.Factory).Create"); fn != nil {
		sites := append(CallsTo(fn, "net.Dial"), CallsTo(fn, fRem+"open")...)
		c.Guard(rule, fn, sites, "attach", nil,
			atom("replica reports state closed", eqAtom(`"closed"`, "var(replica/rest.Replica).ReplicaInfo.State")),
			atom("state fetched", isNilAtom(fRem+"info(&var(complit))#1")))
		if len(sites) < 2 {
			c.Bad(rule, FnName(fn)+" | structure", "", "expected net.Dial and r.open()", nil)
		}
		c.Guard(rule, fn, nilErrorReturns(fn), "return backend", nil, okcall(fRem+"open"), okcall("net.Dial"))
	}
	if fn := c.Anchor(rule, fSrv+"Open"); fn != nil {
		c.Guard(rule, fn, CallsTo(fn, "replica.New"), "open replica", lockOrUnlock,
			needWLock("server write lock taken"),
			atom("no replica instance open", isNilAtom("$0.r")))
		c.Guard(rule, fn, StoresTo(fn, "Server", "r"), "publish instance", nil, okcall("replica.New"))
	}
	c.Floor(rule, 6)
}

// isDeadlineChan: the value is the result of time.After, directly or as the result of a
// same-module function (literal or named) every return of which is such a value.
func isDeadlineChan(v ssa.Value, depth int) bool {
	if depth > 3 {
		return false
	}
	cl, ok := strip(v).(*ssa.Call)
	if !ok {
		if p, ok := strip(v).(*ssa.Phi); ok {
			for _, e := range allPhiEdges(p) {
				if !isDeadlineChan(e.val, depth+1) {
					return false
				}
			}
			return true
		}
		return false
	}
	var h *ssa.Function
	if mc, ok := cl.Call.Value.(*ssa.MakeClosure); ok {
		h = mc.Fn.(*ssa.Function)
	} else {
		h = calleeOf(&cl.Call)
	}
	if h == nil {
		return false
	}
	if FnName(h) == "time.After" {
		return true
	}
	if h.Blocks == nil || !isJivaFn(h) {
		return false
	}
	rets := Returns(h)
	if len(rets) == 0 {
		return false
	}
	for _, r := range rets {
		if len(r.Results) != 1 || !isDeadlineChan(r.Results[0], depth+1) {
			return false
		}
	}
	return true
}

// codecTable: `for _, f := range []struct{...; value interface{}}{{..., v0}, {..., v1}, ...} { binary.Write(w, order, f.value) }`
// yields the items v0, v1, ... in table order (all attributed to the single call).
func codecTable(fn *ssa.Function, R *Renderer, call ssa.Instruction) []codecItem {
	cl := call.(*ssa.Call)
	data := R.V(cl.Call.Args[2])
	m := codecTableRe.FindStringSubmatch(data)
	if m == nil {
		return nil
	}
	tab, field := m[1], m[3]
	// two tables of one function render alike: entries are told apart by the array they live in
	baseAlloc := func(v ssa.Value) *ssa.Alloc {
		for i := 0; i < 8 && v != nil; i++ {
			switch x := v.(type) {
			case *ssa.Alloc:
				return x
			case *ssa.MakeInterface:
				v = x.X
			case *ssa.UnOp:
				v = x.X
			case *ssa.FieldAddr:
				v = x.X
			case *ssa.IndexAddr:
				v = x.X
			case *ssa.Slice:
				v = x.X
			default:
				return nil
			}
		}
		return nil
	}
	mine := baseAlloc(cl.Call.Args[2])
	type ent struct {
		k    int
		item codecItem
	}
	var ents []ent
	eachInstr(fn, func(in ssa.Instruction) {
		st, ok := in.(*ssa.Store)
		if !ok {
			return
		}
		a := R.V(st.Addr)
		if !strings.HasPrefix(a, "&&"+tab+"[+") || !strings.HasSuffix(a, "]."+field) {
			return
		}
		if mine != nil && baseAlloc(st.Addr) != mine {
			return
		}
		var k int
		if _, err := fmt.Sscanf(strings.TrimPrefix(a, "&&"+tab), "[+%d]", &k); err != nil {
			return
		}
		t := "?"
		what := R.V(st.Val)
		if mi, ok := st.Val.(*ssa.MakeInterface); ok {
			t = types.TypeString(mi.X.Type(), nil)
			// a table of pointers to the fields: the item is the field
			if pt, ok := mi.X.Type().Underlying().(*types.Pointer); ok && strings.HasPrefix(what, "&") {
				t = types.TypeString(pt.Elem(), nil)
				what = strings.TrimPrefix(what, "&")
			}
		}
		what = strings.TrimPrefix(strings.TrimPrefix(what, "$1."), "var(rpc.Message).")
		ents = append(ents, ent{k, codecItem{what: what, typ: t, ord: R.V(cl.Call.Args[1]), at: call, done: "+* -len(&" + tab + "[:]) >=0"}})
	})
	sort.Slice(ents, func(i, j int) bool { return ents[i].k < ents[j].k })
	var out []codecItem
	for i, e := range ents {
		if e.k != i {
			return nil
		}
		out = append(out, e.item)
	}
	return out
}

var codecTableRe = regexp.MustCompile(`^&(var\(slicelit(#\d+)?\))\[:\]\[\*\]\.(\w+)$`)

// ---------------------------------------------------------------------------
// C15-SERVER: the replica side of the data connection.  Every request type the client issues is
// dispatched to the handler that performs exactly that operation on the data server with the
// fields of the request; the handler hands the operation's own result and error to
// createResponse; createResponse turns an error into a TypeError reply that carries the error
// text; and exactly one reply is written per request before the next one is read.
// ---------------------------------------------------------------------------

func paramOfType(fn *ssa.Function, typ string) string {
	for i, p := range fn.Params {
		if short(types.TypeString(p.Type(), nil)) == typ {
			if pl := paramAlias[fn]; pl != nil && i < len(pl.terms) {
				return pl.terms[i]
			}
			return fmt.Sprintf("$%d", i)
		}
	}
	return ""
}

func ruleC15Server(c *Ctx) { ruleRPCServer("C15-SERVER")(c) }

func ruleRPCServer(rule string) ruleFn {
	return func(c *Ctx) { rpcServerRule(c, rule) }
}

func rpcServerRule(c *Ctx, rule string) {
	c.Doc(rule, "rpc.Server: readWrite dispatches TypeRead/Write/Ping/Sync/Unmap on the equality edge of the request's type to handleRead/Write/Ping/Sync/Unmap and writes one reply for the message it read before it reads the next; each handler calls the matching DataProcessor method with the request's Data / Offset / Size (read: into a fresh buffer of Size bytes) and passes that call's count and error to createResponse; createResponse marks the reply TypeResponse, TypeEOF on io.EOF, and TypeError with the error text as payload whenever the error is non-nil")
	rw := c.Anchor(rule, fRSrv+"readWrite")
	if rw != nil {
		R := NewRenderer(rw)
		var rd []ssa.Instruction
		rd = CallsTo(rw, "(*rpc.Wire).Read")
		wr := CallsToW(rw, "(*rpc.Wire).Write")
		if len(rd) != 1 || len(wr) != 1 {
			c.Bad(rule, FnName(rw)+" | structure", "", fmt.Sprintf("expected one Wire.Read and one reply write per round, found %d / %d", len(rd), len(wr)), nil)
		} else {
			// whatever is done with a request that was read, the next one is read only after a reply
			// was written (a request refused before the dispatch included)
			if ws := (Query{Fn: rw, Start: rd[0], IsSite: func(in ssa.Instruction) bool { return in == rd[0] }, Gen: func(in ssa.Instruction) bool { return in == wr[0] }}).Run(); len(ws) > 0 {
				c.Bad(rule, FnName(rw)+" | every request read is answered", c.P.InstrPos(rd[0]), "a path reads the next request without having written a reply to the one before (its caller waits until the deadline, which then poisons the connection)", c.witness(ws[0]))
			} else {
				c.OK(rule, FnName(rw)+" | every request read is answered", c.P.InstrPos(rd[0]), "Wire.Read is reached again only through the reply write", true)
			}
			msg := R.V(rd[0].(*ssa.Call)) + "#0"
			table := []struct{ typ, handler string }{{"TypeRead", "handleRead"}, {"TypeWrite", "handleWrite"}, {"TypePing", "handlePing"}, {"TypeSync", "handleSync"}, {"TypeUnmap", "handleUnmap"}}
			for _, e := range table {
				k, ok := c.P.pkgIntConst("rpc", e.typ)
				if !ok {
					c.Undecided(rule, "constant rpc."+e.typ, "", "constant not found")
					continue
				}
				var sites []ssa.Instruction
				eachInstr(rw, func(in ssa.Instruction) {
					cl, ok := in.(*ssa.Call)
					if !ok {
						return
					}
					s := R.V(cl)
					if strings.Contains(s, fRSrv+e.handler+"$bound") || strings.HasPrefix(s, fRSrv+e.handler+"(") {
						sites = append(sites, in)
					}
				})
				key := FnName(rw) + " | " + e.typ + " -> " + e.handler
				if len(sites) != 1 {
					c.Bad(rule, key, "", fmt.Sprintf("expected one dispatch of %s, found %d", e.handler, len(sites)), nil)
					continue
				}
				want := "+" + msg + ".Type ==0"
				if k != 0 {
					want = fmt.Sprintf("+%s.Type -%d ==0", msg, k)
				}
				c.Guard(rule, rw, sites, "dispatch "+e.handler, nil, atom("request type is "+e.typ, want))
				if !strings.Contains(R.V(sites[0].(*ssa.Call)), msg) {
					c.Bad(rule, key+" | message", c.P.InstrPos(sites[0]), "the handler is not given the message that was read", nil)
				}
				// the reply is written before the next request is read
				ws := Query{Fn: rw, Start: sites[0], IsSite: func(in ssa.Instruction) bool { return in == rd[0] }, Gen: func(in ssa.Instruction) bool { return in == wr[0] }}.Run()
				if len(ws) > 0 {
					c.Bad(rule, key+" | reply written", c.P.InstrPos(sites[0]), "the next request can be read without a reply to this one having been written (the client waits for it until its deadline)", c.witness(ws[0]))
				} else {
					c.OK(rule, key+" | reply written", c.P.InstrPos(sites[0]), "every path from the dispatch to the next Wire.Read passes the reply write", true)
				}
			}
			if got := renderVia(R, wr[0], "(*rpc.Wire).Write"); !strings.Contains(got, msg) {
				c.Bad(rule, FnName(rw)+" | reply is the request message", c.P.InstrPos(wr[0]), "the reply written is "+got, nil)
			}
		}
	}
	// handlers
	type hspec struct {
		name, call string
		count      bool
	}
	for _, h := range []hspec{
		{"handleRead", "invoke.ReadAt(%s.data,%s.Data,%s.Offset)", true},
		{"handleWrite", "invoke.WriteAt(%s.data,%s.Data,%s.Offset)", true},
		{"handleSync", "invoke.Sync(%s.data)", false},
		{"handleUnmap", "invoke.Unmap(%s.data,%s.Offset,%s.Size)", false},
		{"handlePing", "invoke.PingResponse(%s.data)", false},
	} {
		fn := c.Anchor(rule, fRSrv+h.name)
		if fn == nil {
			continue
		}
		R := NewRenderer(fn)
		srv, msg := paramOfType(fn, "*rpc.Server"), paramOfType(fn, "*rpc.Message")
		want := h.call
		switch strings.Count(want, "%s") {
		case 1:
			want = fmt.Sprintf(want, srv)
		case 3:
			want = fmt.Sprintf(want, srv, msg, msg)
		}
		var op ssa.Instruction
		eachInstr(fn, func(in ssa.Instruction) {
			if cl, ok := in.(*ssa.Call); ok && R.V(cl) == want {
				op = in
			}
		})
		key := FnName(fn) + " | performs " + want
		if op == nil {
			c.Bad(rule, key, c.P.Pos(fn.Pos()), "the handler does not call the matching data operation with the request's fields", nil)
			continue
		}
		c.OK(rule, key, c.P.InstrPos(op), "", false)
		// createResponse(count, msg, err) of that very call
		crs := CallsTo(fn, fRSrv+"createResponse")
		if len(crs) != 1 {
			c.Bad(rule, FnName(fn)+" | one response", "", fmt.Sprintf("expected one createResponse call, found %d", len(crs)), nil)
			continue
		}
		got := callRender(R, crs[0])
		errT, cntT := want+"#1", "0"
		if h.name == "handlePing" {
			errT = want
		}
		if h.count {
			cntT = want + "#0"
		}
		if strings.HasSuffix(got, "("+srv+","+cntT+","+msg+","+errT+")") || strings.HasSuffix(got, "("+cntT+","+msg+","+errT+")") {
			c.OK(rule, FnName(fn)+" | response carries the operation's count and error", c.P.InstrPos(crs[0]), got, false)
		} else {
			c.Bad(rule, FnName(fn)+" | response carries the operation's count and error", c.P.InstrPos(crs[0]), "createResponse is called as "+got+", expected count "+cntT+" and error "+errT, nil)
		}
		c.Guard(rule, fn, crs, "createResponse", nil, Need{Desc: "after the data operation", Instr: func(in ssa.Instruction) bool { return in == op }})
		if h.name == "handleRead" {
			var buf []ssa.Instruction
			eachInstr(fn, func(in ssa.Instruction) {
				if s, ok := in.(*ssa.Store); ok && R.V(s.Addr) == "&"+msg+".Data" {
					buf = append(buf, in)
				}
			})
			if len(buf) == 1 && R.V(buf[0].(*ssa.Store).Val) == "makeslice("+msg+".Size)" {
				c.Guard(rule, fn, []ssa.Instruction{op}, "ReadAt", nil, Need{Desc: "into a fresh buffer of Size bytes", Instr: func(in ssa.Instruction) bool { return in == buf[0] }})
			} else {
				c.Bad(rule, FnName(fn)+" | read buffer", "", "the read buffer is not a fresh slice of msg.Size bytes", nil)
			}
		}
	}
	// createResponse
	if fn := c.Anchor(rule, fRSrv+"createResponse"); fn != nil {
		R := NewRenderer(fn)
		msg, errP := paramOfType(fn, "*rpc.Message"), paramOfType(fn, "error")
		kResp, _ := c.P.pkgIntConst("rpc", "TypeResponse")
		kErr, _ := c.P.pkgIntConst("rpc", "TypeError")
		kEOF, _ := c.P.pkgIntConst("rpc", "TypeEOF")
		var stErr, stResp, stEOF, dataErr []ssa.Instruction
		eachInstr(fn, func(in ssa.Instruction) {
			s, ok := in.(*ssa.Store)
			if !ok {
				return
			}
			switch R.V(s.Addr) {
			case "&" + msg + ".Type":
				switch R.V(s.Val) {
				case fmt.Sprint(kErr):
					stErr = append(stErr, in)
				case fmt.Sprint(kResp):
					stResp = append(stResp, in)
				case fmt.Sprint(kEOF):
					stEOF = append(stEOF, in)
				default:
					c.Bad(rule, FnName(fn)+" | reply type", c.P.InstrPos(in), "reply type set to "+R.V(s.Val), nil)
				}
			case "&" + msg + ".Data":
				if R.V(s.Val) == "invoke.Error("+errP+")" {
					dataErr = append(dataErr, in)
				}
			}
		})
		if len(stErr) == 1 && len(stResp) >= 1 && len(dataErr) == 1 {
			// every exit reached with a non-nil, non-EOF error has passed the TypeError store, after
			// any store of another type
			isNil := atomEdges(fn, R, eqAtom(errP, "nil"))
			isEOF := atomEdges(fn, R, eqAtom(errP, "io.EOF"))
			ws := Query{Fn: fn,
				IsSite: func(in ssa.Instruction) bool { _, ok := in.(*ssa.Return); return ok },
				Gen:    func(in ssa.Instruction) bool { return in == stErr[0] },
				Kill: func(in ssa.Instruction) bool {
					return in != stErr[0] && (containsInstr(stResp, in) || containsInstr(stEOF, in))
				},
				SkipEdge: orEdges(isNil, isEOF)}.Run()
			if len(ws) == 0 {
				c.OK(rule, FnName(fn)+" | an error is answered with TypeError", c.P.InstrPos(stErr[0]), "every exit with err != nil (not EOF) leaves Type = TypeError", true)
			} else {
				c.Bad(rule, FnName(fn)+" | an error is answered with TypeError", c.P.InstrPos(ws[0].Site), "a failed operation can be answered with a reply that is not TypeError: the client reports success", c.witness(ws[0]))
			}
			c.Guard(rule, fn, stErr, "Type = TypeError", nil, atom("error is non-nil", neAtom(errP, "nil")))
			c.Guard(rule, fn, stEOF, "Type = TypeEOF", nil, atom("error is io.EOF", eqAtom(errP, "io.EOF")))
			// the error text travels as payload, in the TypeError branch
			if dataErr[0].Block() == stErr[0].Block() {
				c.OK(rule, FnName(fn)+" | error text is the payload", c.P.InstrPos(dataErr[0]), "Data = err.Error() next to Type = TypeError", false)
			} else {
				c.Bad(rule, FnName(fn)+" | error text is the payload", c.P.InstrPos(dataErr[0]), "Data = err.Error() is not set where Type = TypeError is", nil)
			}
		} else {
			c.Bad(rule, FnName(fn)+" | reply types", "", fmt.Sprintf("expected stores of TypeResponse, one TypeError and Data = err.Error(); found %d/%d/%d", len(stResp), len(stErr), len(dataErr)), nil)
		}
	}
	c.Floor(rule, 25)
}

func containsInstr(xs []ssa.Instruction, in ssa.Instruction) bool {
	for _, x := range xs {
		if x == in {
			return true
		}
	}
	return false
}
