package main

import (
	"fmt"
	"go/types"
	"regexp"
	"strings"

	"golang.org/x/tools/go/ssa"
)

// Need is one fact that must be established on every path to a site.
// It is established by ANY of: an edge carrying one of Atoms; a plain call to one
// of Calls; the success (err == nil) edge of a call to one of OkCalls; a custom
// instruction / edge predicate.
type Need struct {
	Desc    string
	Atoms   []string
	Calls   []string
	OkCalls []string
	Instr   func(ssa.Instruction) bool
	Edge    func(*ssa.BasicBlock, int) bool
	// Kill overrides the Guard's common kill predicate for this need
	Kill func(ssa.Instruction) bool
	// SuccessOf: the calls whose success edges Edge was built from (okOf); lets a `return f(x)`
	// that forwards such a call's error count as "after success of f"
	SuccessOf []ssa.Instruction
}

// lockOrUnlock: any acquisition or release of a sync mutex.  Used as the kill predicate for
// facts about lock-protected fields: a value read before the lock was taken, or in an earlier
// lock region, says nothing about the current region.
func lockOrUnlock(in ssa.Instruction) bool { return isUnlockCall(in) || isLockCall(in) }

// needWLock: the write lock was taken and not released since.
func needWLock(desc string) Need {
	return Need{Desc: desc, Instr: isWLockCall, Kill: isUnlockCall}
}

func atom(desc string, atoms ...string) Need { return Need{Desc: desc, Atoms: atoms} }

// atomMatching: an edge whose atom matches the pattern (for facts about an object whose local
// name depends on how the function allocates it: `len(<the BackendError of this call>.Errors) == 0`).
func atomMatching(fn *ssa.Function, desc, pattern string) Need {
	re := regexp.MustCompile(pattern)
	R := NewRenderer(fn)
	type ek struct {
		b *ssa.BasicBlock
		k int
	}
	hit := map[ek]bool{}
	for _, ea := range allAtoms(fn, R) {
		if re.MatchString(ea.Atom.String()) {
			hit[ek{ea.B, ea.Succ}] = true
		}
	}
	return Need{Desc: desc, Edge: func(b *ssa.BasicBlock, k int) bool { return hit[ek{b, k}] }}
}

// errorsEmpty: no per-replica error was recorded in the BackendError this function built (a
// composite literal of its own, directly or inside a collector object).
func errorsEmpty(fn *ssa.Function, desc string) Need {
	return atomMatching(fn, desc, `^\+len\(.*complit.*\.Errors\) ==0$`)
}
func called(names ...string) Need {
	return Need{Desc: "after call " + strings.Join(names, "|"), Calls: names}
}
func okcall(names ...string) Need {
	return Need{Desc: "after success of " + strings.Join(names, "|"), OkCalls: names}
}

// isUnlockCall: a non-deferred Unlock/RUnlock on a sync mutex.
func isUnlockCall(in ssa.Instruction) bool {
	if !isPlainCall(in) {
		return false
	}
	n := CalleeName(in)
	return n == "(*sync.RWMutex).Unlock" || n == "(*sync.RWMutex).RUnlock" || n == "(*sync.Mutex).Unlock"
}

func isLockCall(in ssa.Instruction) bool {
	if !isPlainCall(in) {
		return false
	}
	n := CalleeName(in)
	return n == "(*sync.RWMutex).Lock" || n == "(*sync.RWMutex).RLock" || n == "(*sync.Mutex).Lock"
}

func isWLockCall(in ssa.Instruction) bool {
	if !isPlainCall(in) {
		return false
	}
	n := CalleeName(in)
	return n == "(*sync.RWMutex).Lock" || n == "(*sync.Mutex).Lock"
}

// Guard checks that every site is cut off from the function entry by each need.
// kill (optional) invalidates established facts (e.g. a lock release).
func (c *Ctx) Guard(rule string, fn *ssa.Function, sites []ssa.Instruction, siteDesc string, kill func(ssa.Instruction) bool, needs ...Need) {
	if fn == nil {
		return
	}
	R := NewRenderer(fn)
	for si, site := range sites {
		sd := siteDesc
		if len(sites) > 1 {
			sd = fmt.Sprintf("%s[%d]", siteDesc, si)
		}
		for _, nd := range needs {
			nd := nd
			key := fmt.Sprintf("%s | %s | %s", FnName(fn), sd, nd.Desc)
			var edgeFns []func(*ssa.BasicBlock, int) bool
			if len(nd.Atoms) > 0 {
				edgeFns = append(edgeFns, atomEdges(fn, R, nd.Atoms...))
			}
			if nd.Edge != nil {
				edgeFns = append(edgeFns, nd.Edge)
			}
			nEstablishers := 0
			for _, ok := range nd.OkCalls {
				for _, call := range CallsTo(fn, ok) {
					edgeFns = append(edgeFns, successEdgesOfCall(fn, call))
					nEstablishers++
				}
			}
			q := Query{
				Fn:      fn,
				IsSite:  func(in ssa.Instruction) bool { return in == site },
				GenEdge: orEdges(edgeFns...),
				Gen: func(in ssa.Instruction) bool {
					if nd.Instr != nil && nd.Instr(in) {
						return true
					}
					if isPlainCall(in) {
						for _, n := range nd.Calls {
							if callMatches(in, n) {
								return true
							}
						}
					}
					// "X is called before the function exits": a deferred call registered on the
					// path runs at the return
					if _, isRet := site.(*ssa.Return); isRet {
						if _, isDefer := in.(*ssa.Defer); isDefer {
							for _, n := range nd.Calls {
								if callMatches(in, n) {
									return true
								}
							}
						}
					}
					return false
				},
				Kill:     kill,
				GenAtoms: nd.Atoms,
				R:        R,
			}
			// the common kill predicate invalidates facts about (lock-protected) state, i.e.
			// atom needs; "X happened" needs are only killed when they say so themselves
			if nd.Kill != nil {
				q.Kill = nd.Kill
			} else if len(nd.Atoms) == 0 {
				q.Kill = nil
			}
			ws := q.Run()
			where := c.P.InstrPos(site)
			// a return that hands back the very error of a call reports success exactly when that
			// call succeeded: `return f(x)` satisfies "after success of f" / "f(x) err == nil"
			if len(ws) > 0 {
				if rr, ok := site.(*ssa.Return); ok {
					if ei := errResultIndex(fn); ei >= 0 && ei < len(rr.Results) {
						ev := strip(rr.Results[ei])
						var call ssa.Instruction
						switch x := ev.(type) {
						case *ssa.Extract:
							if cl, ok := x.Tuple.(*ssa.Call); ok && errOfCall(cl) == ssa.Value(x) {
								call = cl
							}
						case *ssa.Call:
							if errOfCall(x) == ssa.Value(x) {
								call = x
							}
						}
						if call != nil {
							pass := false
							want := isNilAtom(R.V(ev))
							for _, a := range nd.Atoms {
								if a == want {
									pass = true
								}
							}
							for _, n := range nd.OkCalls {
								if callMatches(call, n) {
									pass = true
								}
							}
							for _, sc := range nd.SuccessOf {
								if sc == call {
									pass = true
								}
							}
							if pass {
								ws = nil
							}
						}
					}
				}
			}
			if len(ws) == 0 {
				c.OK(rule, key, where, "site is cut off from entry by: "+nd.describe(), true)
			} else {
				c.Bad(rule, key, where, fmt.Sprintf("site reachable without establishing [%s] (required: %s)", nd.Desc, nd.describe()), c.witness(ws[0]))
			}
		}
	}
}

func (n Need) describe() string {
	var parts []string
	if len(n.Atoms) > 0 {
		parts = append(parts, "edge with fact {"+strings.Join(n.Atoms, " || ")+"}")
	}
	if len(n.Calls) > 0 {
		parts = append(parts, "call to "+strings.Join(n.Calls, "|"))
	}
	if len(n.OkCalls) > 0 {
		parts = append(parts, "success edge of "+strings.Join(n.OkCalls, "|"))
	}
	if n.Instr != nil || n.Edge != nil {
		parts = append(parts, n.Desc)
	}
	return strings.Join(parts, " or ")
}

// returnsWithNilError: returns whose error result is not provably non-nil.
func successReturns(fn *ssa.Function) []ssa.Instruction {
	ei := errResultIndex(fn)
	var out []ssa.Instruction
	for _, r := range Returns(fn) {
		if ei < 0 {
			out = append(out, r)
			continue
		}
		v := r.Results[ei]
		if provablyNonNilError(v) {
			continue
		}
		if !isNilConst(strip(v)) {
			// value: success unless this return is dominated by a "v != nil" edge
			_, nonNil := nilTestEdges(fn, v)
			q := Query{Fn: fn, IsSite: func(in ssa.Instruction) bool { return in == ssa.Instruction(r) }, GenEdge: nonNil}
			if len(q.Run()) == 0 {
				continue // every path to this return knows v != nil
			}
		}
		out = append(out, r)
	}
	return out
}

// nilErrorReturns: returns whose error result is the constant nil.
func nilErrorReturns(fn *ssa.Function) []ssa.Instruction {
	ei := errResultIndex(fn)
	var out []ssa.Instruction
	for _, r := range Returns(fn) {
		if ei >= 0 && isNilConst(strip(r.Results[ei])) {
			out = append(out, r)
		}
	}
	return out
}

// methodsOf lists the methods (ssa functions with bodies) whose receiver is *pkg.Type or pkg.Type.
func (P *Prog) methodsOf(pkgShort, typ string) []*ssa.Function {
	var out []*ssa.Function
	for _, f := range P.AllFns {
		if f.Signature.Recv() == nil || f.Parent() != nil {
			continue
		}
		t := f.Signature.Recv().Type()
		if p, ok := t.(*types.Pointer); ok {
			t = p.Elem()
		}
		n, ok := t.(*types.Named)
		if !ok || n.Obj().Pkg() == nil {
			continue
		}
		if typName(n) == typ && short(n.Obj().Pkg().Path()) == pkgShort {
			out = append(out, f)
		}
	}
	return out
}

// withClosures returns fn followed by all its nested anonymous functions.
func withClosures(fn *ssa.Function) []*ssa.Function {
	return append([]*ssa.Function{fn}, Closures(fn)...)
}

// needLock: some lock (read or write) was taken and not released since.
func needLock(desc string) Need {
	return Need{Desc: desc, Instr: isLockCall, Kill: isUnlockCall}
}
