package main

import (
	"fmt"
	"go/constant"
	"go/token"
	"go/types"
	"os"
	"sort"
	"strings"

	"golang.org/x/tools/go/callgraph"
	"golang.org/x/tools/go/callgraph/cha"
	"golang.org/x/tools/go/callgraph/vta"
	"golang.org/x/tools/go/packages"
	"golang.org/x/tools/go/ssa"
	"golang.org/x/tools/go/ssa/ssautil"
)

const modPrefix = "github.com/openebs/jiva/"

// Prog is the resolved program: type-checked packages, SSA, call graph.
type Prog struct {
	Pkgs    []*packages.Package
	Fset    *token.FileSet
	SSA     *ssa.Program
	CG      *callgraph.Graph
	byName  map[string]*ssa.Function
	AllFns  []*ssa.Function // functions (incl. closures) of jiva packages
	NumPkgs int
	Tags    string
	RepoDir string
	Renames []string // baseline names resolved to renamed symbols (symbols.go)
	Overlay map[string][]byte
}

func short(s string) string {
	s = strings.ReplaceAll(s, modPrefix, "")
	if len(typeAliases) > 0 {
		s = applyTypeAliases(s)
	}
	return s
}

// FnName is the key under which a function is addressed by the rules:
// "(*controller.Controller).WriteAt", "controller.getReplicaChain",
// closures "(*controller.MultiWriterAt).WriteAt$1".
func FnName(f *ssa.Function) string {
	if f == nil {
		return "<nil>"
	}
	return aliasedFnName(f)
}

func isJivaPkg(p *types.Package) bool {
	return p != nil && (strings.HasPrefix(p.Path(), modPrefix) || p.Path() == strings.TrimSuffix(modPrefix, "/"))
}

func loadProg(repo string, tags string, overlay map[string][]byte) (*Prog, error) {
	os.Unsetenv("GOWORK")
	env := append(os.Environ(), "GOFLAGS=-mod=mod", "GOPROXY=off", "GOSUMDB=off", "GOTOOLCHAIN=local", "GOWORK=off")
	cfg := &packages.Config{
		Mode:    packages.LoadSyntax,
		Dir:     repo,
		Env:     env,
		Overlay: overlay,
		Tests:   false,
	}
	if tags != "" {
		cfg.BuildFlags = []string{"-tags=" + tags}
	}
	pkgs, err := packages.Load(cfg, "./...")
	if err != nil {
		return nil, fmt.Errorf("load: %v", err)
	}
	if len(pkgs) < 20 {
		return nil, fmt.Errorf("load: only %d packages loaded from %s (expected >= 20)", len(pkgs), repo)
	}
	var errs []string
	packages.Visit(pkgs, nil, func(p *packages.Package) {
		if !strings.HasPrefix(p.PkgPath, strings.TrimSuffix(modPrefix, "/")) {
			return
		}
		for _, e := range p.Errors {
			errs = append(errs, e.Error())
		}
	})
	if len(errs) > 0 {
		sort.Strings(errs)
		if len(errs) > 10 {
			errs = errs[:10]
		}
		return nil, fmt.Errorf("type/load errors in jiva packages:\n  %s", strings.Join(errs, "\n  "))
	}
	prog, _ := ssautil.Packages(pkgs, ssa.InstantiateGenerics)
	prog.Build()
	all := ssautil.AllFunctions(prog)
	cg := vta.CallGraph(all, cha.CallGraph(prog))
	renames := applyBaseline(prog, all)
	P := &Prog{Overlay: overlay, Renames: renames, Pkgs: pkgs, Fset: prog.Fset, SSA: prog, CG: cg, byName: map[string]*ssa.Function{}, NumPkgs: len(pkgs), Tags: tags, RepoDir: repo}
	for f := range all {
		if f.Pkg == nil && f.Parent() == nil && f.Synthetic == "" {
			continue
		}
		pk := f.Pkg
		if pk == nil && f.Parent() != nil {
			pk = f.Parent().Pkg
		}
		if pk == nil || !isJivaPkg(pk.Pkg) {
			continue
		}
		if f.Synthetic != "" && f.Parent() == nil {
			// wrappers, bound methods, init: skip (bodies synthesised)
			if !strings.HasPrefix(f.Synthetic, "package initializer") {
				continue
			}
		}
		if f.Blocks == nil {
			continue
		}
		name := FnName(f)
		if _, dup := P.byName[name]; !dup {
			P.byName[name] = f
		}
		P.AllFns = append(P.AllFns, f)
	}
	sort.Slice(P.AllFns, func(i, j int) bool { return FnName(P.AllFns[i]) < FnName(P.AllFns[j]) })
	curFieldFacts = computeFieldFacts(prog, P.AllFns)
	fnsOfProg[prog] = P.AllFns
	return P, nil
}

// Fn resolves a nominal anchor; nil if absent (callers report "unresolved anchor").
func (P *Prog) Fn(name string) *ssa.Function { return P.byName[name] }

func (P *Prog) Pos(p token.Pos) string {
	if !p.IsValid() {
		return "?"
	}
	ps := P.Fset.Position(p)
	f := ps.Filename
	if strings.HasPrefix(f, P.RepoDir+"/") {
		f = f[len(P.RepoDir)+1:]
	}
	return fmt.Sprintf("%s:%d", f, ps.Line)
}

// InstrPos gives a best-effort position for an instruction.
func (P *Prog) InstrPos(in ssa.Instruction) string {
	if in == nil {
		return "?"
	}
	if p := in.Pos(); p.IsValid() {
		return P.Pos(p)
	}
	// search operands / neighbours in block
	b := in.Block()
	idx := -1
	for i, x := range b.Instrs {
		if x == in {
			idx = i
			break
		}
	}
	for d := 1; d < len(b.Instrs); d++ {
		for _, j := range []int{idx - d, idx + d} {
			if j >= 0 && j < len(b.Instrs) {
				if p := b.Instrs[j].Pos(); p.IsValid() {
					return P.Pos(p) + "~"
				}
			}
		}
	}
	return P.Pos(b.Parent().Pos()) + "~"
}

// StaticCallee returns the statically resolved callee of a call instruction, or nil.
func StaticCallee(in ssa.Instruction) *ssa.Function {
	c, ok := in.(ssa.CallInstruction)
	if !ok {
		return nil
	}
	return c.Common().StaticCallee()
}

// CalleeName: resolved name for static calls, "invoke:<iface>.<Method>" for interface calls,
// "builtin:<name>" for builtins, "dyn" otherwise.
func CalleeName(in ssa.Instruction) string {
	c, ok := in.(ssa.CallInstruction)
	if !ok {
		return ""
	}
	cc := c.Common()
	if g, _ := injectedCallee(cc); g != nil {
		return FnName(g)
	}
	if cc.IsInvoke() {
		if m, _ := devirtualise(cc); m != nil {
			return FnName(m)
		}
		return "invoke:" + short(types.TypeString(cc.Value.Type(), nil)) + "." + cc.Method.Name()
	}
	if f := cc.StaticCallee(); f != nil {
		if ws := baselineWrappers[short(f.String())]; len(ws) > 0 && in.Parent() != nil {
			if w, _, ok := asBaselineWrapper(NewRenderer(in.Parent()), cc); ok {
				return w
			}
		}
		return FnName(f)
	}
	if b, ok := cc.Value.(*ssa.Builtin); ok {
		return "builtin:" + b.Name()
	}
	return "dyn"
}

// Callees resolves all possible callees of a call through the VTA call graph.
func (P *Prog) Callees(in ssa.CallInstruction) []*ssa.Function {
	if f := in.Common().StaticCallee(); f != nil {
		return []*ssa.Function{f}
	}
	n := P.CG.Nodes[in.Parent()]
	if n == nil {
		return nil
	}
	var out []*ssa.Function
	for _, e := range n.Out {
		if e.Site == in && e.Callee != nil && e.Callee.Func != nil {
			out = append(out, e.Callee.Func)
		}
	}
	return out
}

// Closures returns anonymous functions defined (transitively) in f.
func Closures(f *ssa.Function) []*ssa.Function {
	var out []*ssa.Function
	for _, a := range f.AnonFuncs {
		out = append(out, a)
		out = append(out, Closures(a)...)
	}
	return out
}

// pkgIntConst: value of an integer constant of a jiva package (by short package path).
func (P *Prog) pkgIntConst(pkgShort, name string) (int64, bool) {
	for _, p := range P.SSA.AllPackages() {
		if p.Pkg == nil || short(p.Pkg.Path()) != pkgShort {
			continue
		}
		if c, ok := p.Pkg.Scope().Lookup(name).(*types.Const); ok {
			if v, ok := constant.Int64Val(constant.ToInt(c.Val())); ok {
				return v, true
			}
		}
	}
	return 0, false
}

// fnsOfProg: the analysed functions of each loaded view, for whole-package scans keyed by a value's program
var fnsOfProg = map[*ssa.Program][]*ssa.Function{}
