package main

import (
	"encoding/json"
	"fmt"
	"go/token"
	"go/types"
	"os"
	"regexp"
	"sort"
	"strings"

	"golang.org/x/tools/go/ssa"
)

// Baseline of symbols (functions and struct fields of the jiva packages) as they were named on
// the tree on which the rule instances were confirmed (/verif/baseline_symbols.json, written by
// `jivacheck -write-baseline`, committed).  Rules address mechanisms by these names.  When a
// name of the baseline is missing from the current tree and exactly one *new* symbol of the
// same package / receiver / signature (same struct / field type) resembles it, the new symbol
// is addressed under the baseline name: renaming an unexported function or field is a
// behaviour-preserving edit and must not fail a check.  Every such resolution is printed and
// recorded in the evidence; an ambiguous or missing match leaves the anchor unresolved, which
// fails the rule that needs it (as before).

type baseFn struct {
	Bool     string   `json:"bool_atom,omitempty"`  // what a pure boolean helper stands for
	Value    string   `json:"value_term,omitempty"` // what a pure value helper returns
	WrapOf   string   `json:"wraps,omitempty"`      // trivial wrapper: the one function it forwards to
	WrapArgs []string `json:"wrap_args,omitempty"`  // ... with these argument terms over its own parameters
	NParams  int      `json:"nparams,omitempty"`
	Name     string   `json:"name"`
	Pkg      string   `json:"pkg"`
	Recv     string   `json:"recv,omitempty"`
	Sig      string   `json:"sig"`
	Features []string `json:"features"`
}

type baseField struct {
	Name string `json:"name"`
	Type string `json:"type"`
}

type baseStruct struct {
	Name   string      `json:"name"`
	Fields []baseField `json:"fields"`
}

type baseType struct {
	Name       string `json:"name"`
	Underlying string `json:"underlying"`
}

type baseline struct {
	Note    string       `json:"note"`
	Funcs   []baseFn     `json:"funcs"`
	Structs []baseStruct `json:"structs"`
	Types   []baseType   `json:"types"`
}

type typeAliasT struct {
	re  *regexp.Regexp
	old string
}

// typeAliases: renamed named types, applied by short() to every rendered type / function name.
var typeAliases []typeAliasT

func applyTypeAliases(s string) string {
	for _, a := range typeAliases {
		s = a.re.ReplaceAllString(s, "${1}"+a.old+"${2}")
	}
	return s
}

func namedTypes(prog *ssa.Program) map[string]types.Type {
	out := map[string]types.Type{}
	for _, p := range prog.AllPackages() {
		if !isJivaPkg(p.Pkg) {
			continue
		}
		sc := p.Pkg.Scope()
		for _, n := range sc.Names() {
			if tn, ok := sc.Lookup(n).(*types.TypeName); ok && !tn.IsAlias() {
				out[strings.TrimPrefix(p.Pkg.Path(), modPrefix)+"."+n] = tn.Type()
			}
		}
	}
	return out
}

func rawQual(p *types.Package) string { return strings.TrimPrefix(p.Path(), modPrefix) }

var (
	baselineFns       map[string]bool     // nil: no baseline loaded
	baselineFeatures  map[string][]string // baseline function -> feature set (callees, fields)
	baselineTemplates = map[string]baseFn{}
	baselinePath      string
	fnAlias           = map[*ssa.Function]string{}
	fieldAlias        = map[*types.Var]string{}
)

func qual(p *types.Package) string { return short(p.Path()) }

func describeFn(f *ssa.Function) baseFn {
	b := baseFn{Name: short(f.String())}
	if f.Pkg != nil {
		b.Pkg = short(f.Pkg.Pkg.Path())
	}
	sig := f.Signature
	if sig.Recv() != nil {
		b.Recv = types.TypeString(sig.Recv().Type(), qual)
	}
	b.Sig = types.TypeString(types.NewSignatureType(nil, nil, nil, sig.Params(), sig.Results(), sig.Variadic()), qual)
	feat := map[string]bool{}
	var visit func(g *ssa.Function)
	visit = func(g *ssa.Function) {
		for _, blk := range g.Blocks {
			for _, in := range blk.Instrs {
				switch x := in.(type) {
				case ssa.CallInstruction:
					cc := x.Common()
					if cc.IsInvoke() {
						feat["invoke:"+cc.Method.Name()] = true
					} else if c := cc.StaticCallee(); c != nil && c.Parent() == nil {
						feat["call:"+aliasedFnName(c)] = true
					} else if bi, ok := cc.Value.(*ssa.Builtin); ok {
						feat["builtin:"+bi.Name()] = true
					}
				case *ssa.FieldAddr:
					if pt, ok := x.X.Type().Underlying().(*types.Pointer); ok {
						if st, ok := pt.Elem().Underlying().(*types.Struct); ok {
							feat["field:"+fldName(st.Field(x.Field))] = true
						}
					}
				case *ssa.MakeClosure:
					if cl, ok := x.Fn.(*ssa.Function); ok {
						visit(cl)
					}
				}
			}
		}
	}
	visit(f)
	for k := range feat {
		b.Features = append(b.Features, k)
	}
	sort.Strings(b.Features)
	return b
}

// topLevelFns: source functions and methods (no closures, no synthetic wrappers) of jiva packages.
func topLevelFns(all map[*ssa.Function]bool) []*ssa.Function {
	var out []*ssa.Function
	for f := range all {
		if f.Parent() != nil || f.Pkg == nil || !isJivaPkg(f.Pkg.Pkg) || f.Blocks == nil || f.Synthetic != "" {
			continue
		}
		out = append(out, f)
	}
	sort.Slice(out, func(i, j int) bool { return out[i].String() < out[j].String() })
	return out
}

func namedStructs(prog *ssa.Program) map[string]*types.Struct {
	out := map[string]*types.Struct{}
	for _, p := range prog.AllPackages() {
		if !isJivaPkg(p.Pkg) {
			continue
		}
		sc := p.Pkg.Scope()
		for _, n := range sc.Names() {
			tn, ok := sc.Lookup(n).(*types.TypeName)
			if !ok {
				continue
			}
			if st, ok := tn.Type().Underlying().(*types.Struct); ok {
				out[short(p.Pkg.Path())+"."+n] = st
			}
		}
	}
	return out
}

func writeBaseline(prog *ssa.Program, all map[*ssa.Function]bool, path string) error {
	bl := baseline{Note: "symbols of the tree on which the rule instances were confirmed; written by jivacheck -write-baseline; see checker/symbols.go"}
	for _, f := range topLevelFns(all) {
		d := describeFn(f)
		if a, ok := pureBoolTemplate(f); ok {
			d.Bool = a.String()
		} else if s, ok := exactBoolString(f); ok {
			d.Bool = s
		}
		if v, ok := pureValue(f); ok {
			d.Value = v
		}
		if inner, args, ok := trivialWrapper(f); ok {
			d.WrapOf, d.WrapArgs, d.NParams = inner, args, len(f.Params)
		}
		bl.Funcs = append(bl.Funcs, d)
	}
	sts := namedStructs(prog)
	var names []string
	for n := range sts {
		names = append(names, n)
	}
	sort.Strings(names)
	for _, n := range names {
		bs := baseStruct{Name: n}
		st := sts[n]
		for i := 0; i < st.NumFields(); i++ {
			bs.Fields = append(bs.Fields, baseField{st.Field(i).Name(), types.TypeString(st.Field(i).Type(), qual)})
		}
		bl.Structs = append(bl.Structs, bs)
	}
	nts := namedTypes(prog)
	var tnames []string
	for n := range nts {
		tnames = append(tnames, n)
	}
	sort.Strings(tnames)
	for _, n := range tnames {
		bl.Types = append(bl.Types, baseType{n, types.TypeString(nts[n].Underlying(), rawQual)})
	}
	b, _ := json.MarshalIndent(bl, "", " ")
	return os.WriteFile(path, b, 0o644)
}

func jaccard(a, b []string) float64 {
	if len(a) == 0 && len(b) == 0 {
		return 1
	}
	m := map[string]bool{}
	for _, x := range a {
		m[x] = true
	}
	inter := 0
	for _, x := range b {
		if m[x] {
			inter++
		}
	}
	return float64(inter) / float64(len(a)+len(b)-inter)
}

// applyBaseline computes fnAlias / fieldAlias for this program; returns the resolutions made.
func applyBaseline(prog *ssa.Program, all map[*ssa.Function]bool) []string {
	if baselinePath == "" {
		return nil
	}
	raw, err := os.ReadFile(baselinePath)
	if err != nil {
		return nil
	}
	var bl baseline
	if json.Unmarshal(raw, &bl) != nil {
		return nil
	}
	baselineFns = map[string]bool{}
	baselineFeatures = map[string][]string{}
	baselineStructNames = map[string]bool{}
	for _, st := range bl.Structs {
		baselineStructNames[st.Name] = true
	}
	baselineTypeNames = map[string]bool{}
	for _, t := range bl.Types {
		baselineTypeNames[t.Name] = true
	}
	baselineWrappers = map[string][]baseFn{}
	for _, b := range bl.Funcs {
		baselineFns[b.Name] = true
		baselineFeatures[b.Name] = b.Features
		baselineSigs[b.Name] = b.Sig
		if b.Bool != "" || b.Value != "" {
			baselineTemplates[b.Name] = b
		}
		if b.WrapOf != "" {
			baselineWrappers[b.WrapOf] = append(baselineWrappers[b.WrapOf], b)
		}
	}
	var notes []string
	// named types first: their names are part of method names and of every rendered type
	typeAliases = nil
	nts := namedTypes(prog)
	wasT := map[string]bool{}
	for _, t := range bl.Types {
		wasT[t.Name] = true
	}
	usedT := map[string]bool{}
	for _, t := range bl.Types {
		if nts[t.Name] != nil {
			continue
		}
		pkg := t.Name[:strings.LastIndex(t.Name, ".")]
		var match []string
		for n, ty := range nts {
			if wasT[n] || usedT[n] || n[:strings.LastIndex(n, ".")] != pkg {
				continue
			}
			if types.TypeString(ty.Underlying(), rawQual) == t.Underlying {
				match = append(match, n)
			}
		}
		if len(match) == 1 {
			usedT[match[0]] = true
			typeAliases = append(typeAliases, typeAliasT{regexp.MustCompile(`(^|[^A-Za-z0-9_/])` + regexp.QuoteMeta(match[0]) + `($|[^A-Za-z0-9_])`), t.Name})
			notes = append(notes, fmt.Sprintf("type %s is addressed as %s (renamed; same package and underlying type)", match[0], t.Name))
		}
	}
	// struct fields
	sts := namedStructs(prog)
	for _, bs := range bl.Structs {
		st := sts[bs.Name]
		if st == nil {
			continue
		}
		have := map[string]bool{}
		for i := 0; i < st.NumFields(); i++ {
			have[st.Field(i).Name()] = true
		}
		was := map[string]bool{}
		for _, f := range bs.Fields {
			was[f.Name] = true
		}
		var missing []baseField
		for _, f := range bs.Fields {
			if !have[f.Name] {
				missing = append(missing, f)
			}
		}
		var added []*types.Var
		for i := 0; i < st.NumFields(); i++ {
			if !was[st.Field(i).Name()] {
				added = append(added, st.Field(i))
			}
		}
		// per type: the k-th missing field of that type is the k-th added field of that type
		// (declaration order), provided the counts agree
		byTypeM := map[string][]baseField{}
		for _, m := range missing {
			byTypeM[m.Type] = append(byTypeM[m.Type], m)
		}
		byTypeA := map[string][]*types.Var{}
		for _, v := range added {
			t := types.TypeString(v.Type(), qual)
			byTypeA[t] = append(byTypeA[t], v)
		}
		for t, ms := range byTypeM {
			as := byTypeA[t]
			if len(as) != len(ms) {
				continue
			}
			for k, m := range ms {
				fieldAlias[as[k]] = m.Name
				notes = append(notes, fmt.Sprintf("field %s.%s is addressed as %s (renamed; same struct, type and declaration order)", bs.Name, as[k].Name(), m.Name))
			}
		}
	}
	// functions
	cur := map[string]*ssa.Function{}
	for _, f := range topLevelFns(all) {
		cur[short(f.String())] = f
	}
	known := map[string]bool{}
	for _, b := range bl.Funcs {
		known[b.Name] = true
	}
	var fresh []*ssa.Function
	for n, f := range cur {
		if !known[n] {
			fresh = append(fresh, f)
		}
	}
	sort.Slice(fresh, func(i, j int) bool { return fresh[i].String() < fresh[j].String() })
	used := map[*ssa.Function]bool{}
	resolved := map[string]bool{}
	for pass := 0; pass < 3; pass++ {
		progress := false
		for _, b := range bl.Funcs {
			if cur[b.Name] != nil || resolved[b.Name] {
				continue
			}
			type cand struct {
				f *ssa.Function
				s float64
			}
			var cs []cand
			for _, f := range fresh {
				if used[f] {
					continue
				}
				d := describeFn(f)
				if d.Pkg != b.Pkg || d.Recv != b.Recv || d.Sig != b.Sig {
					continue
				}
				cs = append(cs, cand{f, jaccard(b.Features, d.Features)})
			}
			sort.Slice(cs, func(i, j int) bool { return cs[i].s > cs[j].s })
			if len(cs) == 0 {
				// same identifier, same package, different shape (method <-> function, a parameter
				// added or dropped): still the same mechanism when the body resembles
				var same []*ssa.Function
				for _, f := range fresh {
					if !used[f] && f.Pkg != nil && short(f.Pkg.Pkg.Path()) == b.Pkg && f.Name() == baseIdent(b.Name) {
						same = append(same, f)
					}
				}
				if len(same) == 1 {
					if s := jaccard(b.Features, describeFn(same[0]).Features); s >= 0.6 || (b.Recv != "" && same[0].Signature.Recv() == nil && liftParams(prog, same[0], b, all) && s >= 0.4) {
						fnAlias[same[0]] = b.Name
						used[same[0]] = true
						if b.Recv != "" && same[0].Signature.Recv() == nil {
							liftParams(prog, same[0], b, all)
						}
						notes = append(notes, fmt.Sprintf("function %s is addressed as %s (same name, receiver / parameters changed; body similarity %.2f)", short(same[0].String()), b.Name, s))
						resolved[b.Name] = true
						progress = true
					}
				}
				if len(same) == 0 && b.Recv != "" {
					// renamed AND turned into a function that is handed fields of the former receiver
					var lifted []cand
					for _, f := range fresh {
						if used[f] || f.Pkg == nil || short(f.Pkg.Pkg.Path()) != b.Pkg || f.Signature.Recv() != nil {
							continue
						}
						// compare modulo new helpers (error constructors, ...) and modulo the receiver
						// fields that became parameters
						feats := map[string]bool{}
						for _, k := range describeFn(f).Features {
							feats[k] = true
						}
						for _, h := range fresh {
							if feats["call:"+aliasedFnName(h)] && h != f {
								delete(feats, "call:"+aliasedFnName(h))
								for _, k := range describeFn(h).Features {
									feats[k] = true
								}
							}
						}
						var fs, bs []string
						for k := range feats {
							fs = append(fs, k)
						}
						recvFields := map[string]bool{}
						if rt := namedStructs(prog)[strings.TrimPrefix(b.Recv, "*")]; rt != nil {
							for i := 0; i < rt.NumFields(); i++ {
								recvFields["field:"+fldName(rt.Field(i))] = true
							}
						}
						bset := map[string]bool{}
						for _, k := range b.Features {
							bset[k] = true
						}
						// tiny receiver-bound helpers of the baseline (r.diskPath, r.SyncDir) are what
						// the function over fields spells out itself
						for _, hb := range bl.Funcs {
							if hb.Recv == b.Recv && len(hb.Features) <= 2 && bset["call:"+hb.Name] {
								delete(bset, "call:"+hb.Name)
								for _, k := range hb.Features {
									bset[k] = true
								}
							}
						}
						for k := range bset {
							if !recvFields[k] {
								bs = append(bs, k)
							}
						}
						if s := jaccard(bs, fs); s >= 0.6 {
							lifted = append(lifted, cand{f, s})
						}
					}
					if len(lifted) > 1 {
						// several look alike (sibling helpers moved together): the one whose name still
						// contains the old identifier, or the clear best
						var named []cand
						for _, l := range lifted {
							ln, bn := strings.ToLower(l.f.Name()), strings.ToLower(baseIdent(b.Name))
							if strings.Contains(ln, bn) || strings.Contains(bn, ln) {
								named = append(named, l)
							}
						}
						sort.Slice(lifted, func(i, j int) bool { return lifted[i].s > lifted[j].s })
						if len(named) == 1 {
							lifted = named
						} else if lifted[1].s <= lifted[0].s-0.25 {
							lifted = lifted[:1]
						}
					}
					if len(lifted) == 1 && liftParams(prog, lifted[0].f, b, all) {
						fnAlias[lifted[0].f] = b.Name
						used[lifted[0].f] = true
						notes = append(notes, fmt.Sprintf("function %s is addressed as %s (renamed, method turned into a function over fields of the receiver; body similarity %.2f)", short(lifted[0].f.String()), b.Name, lifted[0].s))
						resolved[b.Name] = true
						progress = true
					}
				}
				continue
			}
			if cs[0].s >= 0.6 && (len(cs) == 1 || cs[1].s <= cs[0].s-0.25) {
				fnAlias[cs[0].f] = b.Name
				used[cs[0].f] = true
				notes = append(notes, fmt.Sprintf("function %s is addressed as %s (renamed; same receiver and signature, body similarity %.2f)", short(cs[0].f.String()), b.Name, cs[0].s))
				resolved[b.Name] = true
				progress = true
			}
		}
		if !progress {
			break
		}
	}
	// a baseline function that became a thin wrapper of a new variant of itself
	// (`func (c *C) Verify(a string) error { return c.VerifyWithContext(context.Background(), a) }`):
	// the mechanism lives in the variant now; the rules address the variant under the old name and
	// see the wrapper as a new helper
	shimFns = map[*ssa.Function]bool{}
	for pass := 0; pass < 4; pass++ {
		progress := false
		for _, b := range bl.Funcs {
			F := cur[b.Name]
			if F == nil || shimFns[F] {
				continue
			}
			G := shimTarget(F)
			if G == nil || used[G] || known[short(G.String())] || G == F {
				continue
			}
			if _, has := fnAlias[G]; has {
				continue
			}
			if len(b.Features) < 3 {
				continue // the baseline function was itself a one-line wrapper: nothing moved
			}
			sc := jaccard(b.Features, describeFn(G).Features)
			if sc < 0.6 {
				continue
			}
			fnAlias[G] = b.Name
			fnAlias[F] = b.Name + "~shim"
			used[G] = true
			shimFns[F] = true
			notes = append(notes, fmt.Sprintf("function %s is addressed as %s (%s became a wrapper that only forwards to it; body similarity %.2f)", short(G.String()), b.Name, b.Name, sc))
			progress = true
		}
		if !progress {
			break
		}
	}
	resultAlias = map[*ssa.Function][]int{}
	notes = append(notes, computeResultAliases(&bl, all)...)
	return notes
}

// fldName: the name under which rules address a struct field.
func fldName(v *types.Var) string {
	if a, ok := fieldAlias[v]; ok {
		return a
	}
	return v.Name()
}

func aliasedFnName(f *ssa.Function) string {
	root := f
	for root.Parent() != nil {
		root = root.Parent()
	}
	if a, ok := fnAlias[root]; ok {
		full, rs := short(f.String()), short(root.String())
		if strings.HasPrefix(full, rs) {
			return a + full[len(rs):]
		}
		return a
	}
	return short(f.String())
}

// typName: the (unqualified) name under which rules address a named type.
func typName(n *types.Named) string {
	if n.Obj().Pkg() == nil || len(typeAliases) == 0 {
		return n.Obj().Name()
	}
	q := short(n.Obj().Pkg().Path() + "." + n.Obj().Name())
	return q[strings.LastIndex(q, ".")+1:]
}

// isFreshFn: a top-level function that is not in the baseline (and is not a renamed baseline
// function): a helper introduced after the rule instances were confirmed.
func isFreshFn(h *ssa.Function) bool {
	if baselineFns == nil || h.Parent() != nil {
		return false
	}
	return !baselineFns[FnName(h)]
}

// baseIdent: the bare identifier of a rendered function name ("(*p.T).m" -> "m", "p.f" -> "f").
func baseIdent(name string) string {
	if i := strings.LastIndex(name, "."); i >= 0 {
		return name[i+1:]
	}
	return name
}

// ---------------------------------------------------------------------------
// Method turned into a function that is handed fields of the former receiver
// (`c.hasReplica(a)` -> `hasReplica(c.replicas, c.quorumReplicas, a)`): the parameters of the
// new function are rendered in the parameter space of the baseline method ($0 = receiver),
// and calls of it are rendered in the baseline shape.  Established from the call sites: a
// parameter is receiver-derived when EVERY call passes `<X>.<same path>` for it with X of the
// baseline receiver type; the others are the baseline's own parameters, in order.
// ---------------------------------------------------------------------------

type paramLift struct {
	terms []string // per new parameter: term in baseline parameter space
	paths []string // per new parameter: "" (plain) or ".path" below the receiver ("." = the receiver itself)
}

var paramAlias = map[*ssa.Function]*paramLift{}

// recvBase: arg = load of X.f1.f2...; returns X and ".f1.f2" when X has the wanted type.
func recvBase(v ssa.Value, recvType string) (ssa.Value, string, bool) {
	path := ""
	for i := 0; i < 6; i++ {
		if types.TypeString(v.Type(), qual) == recvType {
			if path == "" {
				path = "."
			}
			return v, path, true
		}
		u, ok := v.(*ssa.UnOp)
		if !ok || u.Op != token.MUL {
			return nil, "", false
		}
		fa, ok := u.X.(*ssa.FieldAddr)
		if !ok {
			return nil, "", false
		}
		pt, ok := fa.X.Type().Underlying().(*types.Pointer)
		if !ok {
			return nil, "", false
		}
		st, ok := pt.Elem().Underlying().(*types.Struct)
		if !ok {
			return nil, "", false
		}
		path = "." + fldName(st.Field(fa.Field)) + strings.TrimSuffix(path, ".")
		v = fa.X
	}
	return nil, "", false
}

func liftParams(prog *ssa.Program, f *ssa.Function, b baseFn, all map[*ssa.Function]bool) bool {
	if _, done := paramAlias[f]; done {
		return true
	}
	n := len(f.Params)
	paths := make([]string, n)
	derived := make([]bool, n)
	for i := range derived {
		derived[i] = true
	}
	sites := 0
	for g := range all {
		for _, blk := range g.Blocks {
			for _, in := range blk.Instrs {
				c, ok := in.(ssa.CallInstruction)
				if !ok || c.Common().StaticCallee() != f || len(c.Common().Args) != n {
					continue
				}
				sites++
				for j, a := range c.Common().Args {
					if !derived[j] {
						continue
					}
					_, p, ok := recvBase(a, b.Recv)
					if !ok || (paths[j] != "" && paths[j] != p) {
						derived[j] = false
						continue
					}
					paths[j] = p
				}
			}
		}
	}
	if sites == 0 {
		return false
	}
	any := false
	pl := &paramLift{terms: make([]string, n), paths: make([]string, n)}
	k := 1
	for j := 0; j < n; j++ {
		if derived[j] {
			any = true
			pl.paths[j] = paths[j]
			if paths[j] == "." {
				pl.terms[j] = "$0"
			} else {
				pl.terms[j] = "$0" + paths[j]
			}
		} else {
			pl.terms[j] = fmt.Sprintf("$%d", k)
			k++
		}
	}
	if !any {
		return false
	}
	paramAlias[f] = pl
	liftRecv[f] = b.Recv
	return true
}

// liftedArgs: the arguments of a call of a lifted function in the baseline shape
// (receiver first, then the plain arguments); nil when the receiver-derived arguments of
// this call do not share one base.
func liftedArgs(f *ssa.Function, args []ssa.Value, render func(ssa.Value) string, recvType string) []string {
	pl := paramAlias[f]
	if pl == nil || len(args) != len(pl.paths) {
		return nil
	}
	var base ssa.Value
	var plain []string
	for j, a := range args {
		if pl.paths[j] == "" {
			plain = append(plain, render(a))
			continue
		}
		x, p, ok := recvBase(a, recvType)
		if !ok || p != pl.paths[j] || (base != nil && base != x) {
			return nil
		}
		base = x
	}
	if base == nil {
		return nil
	}
	return append([]string{render(base)}, plain...)
}

var liftRecv = map[*ssa.Function]string{}

// ---------------------------------------------------------------------------
// Trivial wrappers of the baseline (`func (r *Replica) SyncDir() error { return util.SyncDir(r.dir) }`):
// a function whose whole body forwards to ONE other function with arguments that are access
// paths over its own parameters and returns that call's results unchanged.  When such a wrapper
// is inlined by hand (`util.SyncDir(r.dir)` written out at a call site), the direct call is
// addressed as a call of the wrapper: same callee, same arguments, same results.
// ---------------------------------------------------------------------------

var baselineWrappers = map[string][]baseFn{}

// baselineTypeNames: named types of the confirmed tree ("pkg.T"); nil without a baseline.
var baselineTypeNames map[string]bool

// freshInterfaceCall: the call is an invoke through an interface type that did not exist on the
// confirmed tree ("introduce a tiny interface for a dependency"): it stands for the static call
// of the method of that name.
func freshInterfaceCall(cc *ssa.CallCommon) bool {
	if !cc.IsInvoke() || baselineTypeNames == nil {
		return false
	}
	n, ok := cc.Value.Type().(*types.Named)
	if !ok || n.Obj().Pkg() == nil || !isJivaPkg(n.Obj().Pkg()) {
		return false
	}
	return !baselineTypeNames[rawQual(n.Obj().Pkg())+"."+n.Obj().Name()]
}

// resultAlias: a baseline function that now returns ADDITIONAL values (`error` -> `(int, error)`):
// per current result index the baseline index (-1: the baseline's single result, rendered as the
// bare call; -2: a new result).  Established by matching result types in order.
var resultAlias = map[*ssa.Function][]int{}

// sigResults: result types of a rendered signature "func(a T) (X, Y)".
func sigResults(sig string) []string {
	depth, i := 0, strings.Index(sig, "(")
	if i < 0 {
		return nil
	}
	j := i
	for ; j < len(sig); j++ {
		if sig[j] == '(' {
			depth++
		} else if sig[j] == ')' {
			depth--
			if depth == 0 {
				break
			}
		}
	}
	rest := strings.TrimSpace(sig[j+1:])
	if rest == "" {
		return nil
	}
	if !strings.HasPrefix(rest, "(") {
		return []string{rest}
	}
	rest = strings.TrimSuffix(strings.TrimPrefix(rest, "("), ")")
	var out []string
	depth = 0
	cur := ""
	for _, ch := range rest {
		switch ch {
		case '(', '[', '{':
			depth++
		case ')', ']', '}':
			depth--
		}
		if ch == ',' && depth == 0 {
			out = append(out, strings.TrimSpace(cur))
			cur = ""
			continue
		}
		cur += string(ch)
	}
	if strings.TrimSpace(cur) != "" {
		out = append(out, strings.TrimSpace(cur))
	}
	// named results "n int": keep the type
	for i, o := range out {
		if k := strings.LastIndex(o, " "); k >= 0 && !strings.HasPrefix(o, "func") && !strings.HasPrefix(o, "chan") && !strings.HasPrefix(o, "map") {
			out[i] = o[k+1:]
		}
	}
	return out
}

func computeResultAliases(bl *baseline, all map[*ssa.Function]bool) []string {
	var notes []string
	byName := map[string]baseFn{}
	for _, b := range bl.Funcs {
		byName[b.Name] = b
	}
	for _, f := range topLevelFns(all) {
		b, ok := byName[aliasedFnName(f)]
		if !ok {
			continue
		}
		old := sigResults(b.Sig)
		res := f.Signature.Results()
		if len(old) == 0 || res.Len() <= len(old) {
			continue
		}
		m := make([]int, res.Len())
		k := 0
		for i := 0; i < res.Len(); i++ {
			t := types.TypeString(res.At(i).Type(), qual)
			if k < len(old) && t == old[k] && (res.Len()-i) >= (len(old)-k) && !laterMatch(res, i, old, k) {
				m[i] = k
				k++
			} else {
				m[i] = -2
			}
		}
		if k != len(old) {
			continue
		}
		if len(old) == 1 {
			for i := range m {
				if m[i] == 0 {
					m[i] = -1
				}
			}
		}
		resultAlias[f] = m
		notes = append(notes, fmt.Sprintf("function %s returns additional values; its baseline results are addressed as before", aliasedFnName(f)))
	}
	return notes
}

// laterMatch: prefer the LAST position that still lets the remaining baseline results match
// (an added leading value of the same type as a baseline result is the new one only when
// ambiguous; `error` is conventionally last).
func laterMatch(res *types.Tuple, i int, old []string, k int) bool {
	if old[k] != "error" {
		return false
	}
	for j := i + 1; j < res.Len(); j++ {
		if types.TypeString(res.At(j).Type(), qual) == "error" && res.Len()-j >= len(old)-k {
			return true
		}
	}
	return false
}

func trivialWrapper(f *ssa.Function) (string, []string, bool) {
	if len(f.Blocks) != 1 || f.Signature.Variadic() {
		return "", nil, false
	}
	var call *ssa.Call
	var ret *ssa.Return
	for _, in := range f.Blocks[0].Instrs {
		switch x := in.(type) {
		case *ssa.Call:
			if call != nil {
				return "", nil, false
			}
			call = x
		case *ssa.Return:
			ret = x
		case *ssa.FieldAddr, *ssa.UnOp, *ssa.Extract, *ssa.DebugRef:
		case *ssa.Alloc, *ssa.IndexAddr, *ssa.Store, *ssa.Slice:
			// packing of the arguments of a variadic callee
		default:
			return "", nil, false
		}
	}
	if call == nil || ret == nil || call.Call.IsInvoke() {
		return "", nil, false
	}
	g := call.Call.StaticCallee()
	if g == nil || g.Parent() != nil {
		return "", nil, false
	}
	// results forwarded unchanged
	n := g.Signature.Results().Len()
	if len(ret.Results) != n {
		return "", nil, false
	}
	for i, r := range ret.Results {
		if n == 1 {
			if r != ssa.Value(call) {
				return "", nil, false
			}
		} else {
			ex, ok := r.(*ssa.Extract)
			if !ok || ex.Tuple != ssa.Value(call) || ex.Index != i {
				return "", nil, false
			}
		}
	}
	R := NewRenderer(f)
	var args []string
	actuals, nfix := flattenVariadic(&call.Call)
	if actuals == nil {
		return "", nil, false
	}
	for i, a := range actuals {
		t := R.V(a)
		if !strings.HasPrefix(t, "$") || strings.ContainsAny(t, "()[]{} ") {
			return "", nil, false
		}
		if i >= nfix {
			t = "v:" + t
		}
		args = append(args, t)
	}
	// only wrappers that add something (an argument that is a field of a parameter): a pure
	// renaming wrapper (Close -> Shutdown) would make every direct call of the inner function
	// look like a call of the wrapper
	adds := false
	for _, a := range args {
		if strings.Contains(a, ".") {
			adds = true
		}
	}
	if !adds {
		return "", nil, false
	}
	return short(g.String()), args, true
}

// flattenVariadic: the arguments of a call with the packed variadic part written out (nfix = number
// of fixed arguments); nil when the variadic slice is not a literal packing of this call site.
func flattenVariadic(c *ssa.CallCommon) ([]ssa.Value, int) {
	sig := c.Signature()
	if sig == nil || !sig.Variadic() || len(c.Args) == 0 {
		return c.Args, len(c.Args)
	}
	n := len(c.Args) - 1
	last := c.Args[n]
	if k, ok := last.(*ssa.Const); ok && k.IsNil() {
		return c.Args[:n], n
	}
	sl, ok := last.(*ssa.Slice)
	if !ok || sl.Low != nil || sl.High != nil {
		return nil, 0
	}
	al, ok := sl.X.(*ssa.Alloc)
	if !ok {
		return nil, 0
	}
	at, ok := al.Type().Underlying().(*types.Pointer)
	if !ok {
		return nil, 0
	}
	arr, ok := at.Elem().Underlying().(*types.Array)
	if !ok {
		return nil, 0
	}
	elems := make([]ssa.Value, arr.Len())
	for _, u := range *al.Referrers() {
		ia, ok := u.(*ssa.IndexAddr)
		if !ok {
			continue
		}
		k, ok := ia.Index.(*ssa.Const)
		if !ok || k.Value == nil {
			return nil, 0
		}
		idx := int(k.Int64())
		for _, w := range *ia.Referrers() {
			if st, ok := w.(*ssa.Store); ok && st.Addr == ssa.Value(ia) {
				if idx < 0 || idx >= len(elems) || elems[idx] != nil {
					return nil, 0
				}
				elems[idx] = st.Val
			}
		}
	}
	for _, e := range elems {
		if e == nil {
			return nil, 0
		}
	}
	out := append([]ssa.Value{}, c.Args[:n]...)
	return append(out, elems...), n
}

// asBaselineWrapper: the call instruction is a direct call of a function that a baseline wrapper
// forwards to, with arguments of exactly the wrapper's shape; returns the wrapper's name and
// the terms of the wrapper's parameters.
func asBaselineWrapper(R *Renderer, c *ssa.CallCommon) (string, []string, bool) {
	f := c.StaticCallee()
	if f == nil || len(baselineWrappers) == 0 {
		return "", nil, false
	}
	ws := baselineWrappers[short(f.String())]
	if len(ws) == 0 {
		return "", nil, false
	}
	// never inside the wrapper itself
	for _, w := range ws {
		if FnName(R.fn) == w.Name {
			return "", nil, false
		}
	}
	actuals, _ := flattenVariadic(c)
	if actuals == nil {
		return "", nil, false
	}
	for _, w := range ws {
		if len(w.WrapArgs) != len(actuals) {
			continue
		}
		params := make([]string, w.NParams)
		ok := true
		for i, pat := range w.WrapArgs {
			pat = strings.TrimPrefix(pat, "v:")
			actual := R.V(actuals[i])
			// pat = "$k" or "$k.path"
			k, path := 0, ""
			j := 1
			for j < len(pat) && pat[j] >= '0' && pat[j] <= '9' {
				k = k*10 + int(pat[j]-'0')
				j++
			}
			path = pat[j:]
			if k >= len(params) || !strings.HasSuffix(actual, path) {
				ok = false
				break
			}
			base := strings.TrimSuffix(actual, path)
			if base == "" || (params[k] != "" && params[k] != base) {
				ok = false
				break
			}
			params[k] = base
		}
		if !ok {
			continue
		}
		for _, p := range params {
			if p == "" {
				ok = false // a parameter the wrapper does not forward: cannot be reconstructed
			}
		}
		if ok {
			return w.Name, params, true
		}
	}
	return "", nil, false
}

// baselineCalled: did the baseline function `name` call `callee` (by its rendered name) when the
// rule instances were confirmed?
func baselineCalled(name, callee string) bool {
	for _, f := range baselineFeatures[name] {
		if f == "call:"+callee {
			return true
		}
	}
	return false
}

// issuerAllowed decides a who-may-call entry modulo functions introduced after the baseline:
// fn is one of `allowed`, or fn is a fresh function every caller of which (through fresh
// functions, at most four levels) is allowed itself or is a baseline function that already
// reached one of the allowed issuers by a direct call (a flag specialised away, a function cut
// in two: the caller's role has not changed).  A fresh function nobody calls is not allowed.
func issuerAllowed(P *Prog, fn *ssa.Function, allowed []string, depth int) bool {
	for fn.Parent() != nil {
		fn = fn.Parent()
	}
	name := FnName(fn)
	for _, a := range allowed {
		if a == name {
			return true
		}
	}
	if !isFreshFn(fn) {
		if depth == 0 {
			return false
		}
		for _, a := range allowed {
			if baselineCalled(name, a) {
				return true
			}
		}
		return false
	}
	if depth >= 4 {
		return false
	}
	n := P.CG.Nodes[fn]
	if n == nil || len(n.In) == 0 {
		return false
	}
	for _, e := range n.In {
		if e.Caller == nil || e.Caller.Func == nil {
			return false
		}
		if !issuerAllowed(P, e.Caller.Func, allowed, depth+1) {
			return false
		}
	}
	return true
}

// shimFns: baseline functions that are now one-call wrappers of a fresh variant (see applyBaseline).
var shimFns = map[*ssa.Function]bool{}

// shimTarget: F does nothing but call one function of its package with its own parameters (in
// order, receiver included) plus constants / context.Background() and return that call's results.
func shimTarget(F *ssa.Function) *ssa.Function {
	if len(F.Blocks) != 1 || len(F.AnonFuncs) != 0 {
		return nil
	}
	var call *ssa.Call
	for _, in := range F.Blocks[0].Instrs {
		switch x := in.(type) {
		case *ssa.Call:
			if c := x.Call.StaticCallee(); c != nil && c.Pkg != nil && c.Pkg.Pkg.Path() == "context" && (c.Name() == "Background" || c.Name() == "TODO") {
				continue
			}
			if call != nil {
				return nil
			}
			call = x
		case *ssa.Extract, *ssa.Return, *ssa.DebugRef, *ssa.MakeInterface, *ssa.ChangeType, *ssa.Convert:
		default:
			return nil
		}
	}
	if call == nil || call.Call.IsInvoke() {
		return nil
	}
	G := call.Call.StaticCallee()
	if G == nil || G.Pkg != F.Pkg || G.Parent() != nil || G.Blocks == nil {
		return nil
	}
	if (G.Signature.Recv() == nil) != (F.Signature.Recv() == nil) {
		return nil
	}
	// the parameters, in order, among the arguments; every other argument is a constant or a
	// fresh root context
	pi := 0
	for _, a := range call.Call.Args {
		a = strip(a)
		if pi < len(F.Params) && a == ssa.Value(F.Params[pi]) {
			pi++
			continue
		}
		switch x := a.(type) {
		case *ssa.Const:
		case *ssa.Call:
			if c := x.Call.StaticCallee(); c == nil || c.Pkg == nil || c.Pkg.Pkg.Path() != "context" {
				return nil
			}
		default:
			return nil
		}
	}
	if pi != len(F.Params) {
		return nil
	}
	// the results are the call's results, in order
	ret, ok := F.Blocks[0].Instrs[len(F.Blocks[0].Instrs)-1].(*ssa.Return)
	if !ok {
		return nil
	}
	n := G.Signature.Results().Len()
	if len(ret.Results) != n || F.Signature.Results().Len() != n {
		return nil
	}
	for i, r := range ret.Results {
		r = strip(r)
		if n == 1 {
			if r != ssa.Value(call) {
				return nil
			}
			continue
		}
		ex, ok := r.(*ssa.Extract)
		if !ok || ex.Tuple != ssa.Value(call) || ex.Index != i {
			return nil
		}
	}
	return G
}

// objAliasName: funcObjName, through the rename / wrapper resolution.
func objAliasName(f *types.Func) string {
	for fn, a := range fnAlias {
		if fn.Object() == types.Object(f) {
			return a
		}
	}
	return funcObjName(f)
}

// shimObj: the function object is a baseline function that became a forwarding wrapper.
func shimObj(f *types.Func) bool {
	for fn := range shimFns {
		if fn.Object() == types.Object(f) {
			return true
		}
	}
	return false
}
