package main

import (
	"bytes"
	"fmt"
	"go/ast"
	"go/printer"
	"go/token"
	"go/types"
	"os"
	"path/filepath"
	"regexp"
	"sort"
	"strings"

	"golang.org/x/tools/go/packages"
)

// ---------------------------------------------------------------------------
// INLINED VIEW (DESIGN.md section 2, "helpers are seen through", last resort).
//
// The most common behaviour-preserving edit is "extract function": a run of statements of
// an anchored mechanism moves into a NEW function and is replaced by a call.  Rules that
// follow an ordering or enumerate the sites of one function then lose sight of the moved
// part.  Instead of teaching every rule about every possible split, the checker can build a
// second, semantically equal *view* of the program in which every call of a fresh function
// (one that is not in the symbol baseline) that stands in statement position is replaced by
// the body of that function (source-to-source, on an overlay; nothing is written to disk):
//
//     x, err := h(a, b)          var r0 T0; var r1 error
//                           =>   { var p T = a; var q U = b; <body, `return E0, E1` => { r0, r1 = E0, E1; goto L }> }
//                                L: x, err := r0, r1
//
// and the declaration of h is dropped when no other use remains.  A rule is discharged when
// it is clean on the original program OR on the inlined view: both are the same program as far
// as behaviour goes (restrictions below), and each rule is a sufficient check of its clause on
// whatever source it is run on.  The view is only built when the original program raises an
// alarm and fresh functions exist, so it costs nothing on an unchanged tree.
//
// Restrictions (a call / function that does not meet them is left alone): same package; the
// call is an expression statement, the sole right-hand side of an assignment / definition, the
// init statement of an `if` of those forms, or the operand of a `return`; no recursion; no
// `recover`, no conditional `defer` (top-level `defer f(x)` with plain operands is run at every
// exit of the inlined body: equal except while panicking), no named results that are
// read by a bare return after a defer; identifiers of the body that denote package-level
// objects must denote the same objects at the call site (no capture by a local).
// ---------------------------------------------------------------------------

type inlineEdit struct {
	start, end int // byte offsets in the file
	text       string
}

type inlineResult struct {
	Overlay map[string][]byte
	Notes   []string
	Count   int
}

// freshFuncDecls: top-level functions of jiva packages that are not in the baseline.
func freshFuncDecls(pkgs []*packages.Package) map[*types.Func]*ast.FuncDecl {
	out := map[*types.Func]*ast.FuncDecl{}
	if baselineFns == nil {
		return out
	}
	packages.Visit(pkgs, nil, func(p *packages.Package) {
		if !isJivaPkg(p.Types) || strings.Contains(p.PkgPath, "/tests/") {
			return
		}
		for _, f := range p.Syntax {
			for _, d := range f.Decls {
				fd, ok := d.(*ast.FuncDecl)
				if !ok || fd.Body == nil || (fd.Recv == nil && (fd.Name.Name == "init" || fd.Name.Name == "main")) {
					continue
				}
				obj, _ := p.TypesInfo.Defs[fd.Name].(*types.Func)
				if obj == nil {
					continue
				}
				if (baselineFns[funcObjName(obj)] || aliasedObj(obj)) && !shimObj(obj) {
					continue
				}
				if fd.Type.TypeParams != nil {
					continue
				}
				out[obj] = fd
			}
		}
	})
	return out
}

// funcObjName renders a *types.Func the way FnName renders its ssa.Function.
func funcObjName(f *types.Func) string {
	sig := f.Type().(*types.Signature)
	if r := sig.Recv(); r != nil {
		return "(" + types.TypeString(r.Type(), qual) + ")." + f.Name()
	}
	if f.Pkg() == nil {
		return f.Name()
	}
	return short(f.Pkg().Path()) + "." + f.Name()
}

// aliasedObj: the function was resolved to a baseline name (renamed symbol).
func aliasedObj(f *types.Func) bool {
	for fn := range fnAlias {
		if fn.Object() == types.Object(f) {
			return true
		}
	}
	return false
}

type inliner struct {
	pkg   *packages.Package
	fset  *token.FileSet
	src   map[string][]byte // file name -> content
	fresh map[*types.Func]*ast.FuncDecl
	n     int
	notes []string
	edits map[string][]inlineEdit
	// per file: import name -> path that must be added
	addImports    map[string]map[string]string
	inlinedAll    map[*types.Func]int // calls inlined
	unrolled      int
	deferRewrites int
	extraUses     map[*types.Func]int
	curFn         *ast.FuncDecl
	exprInlined   int
	scalarised    int
	inReturnExpr  bool
	closureFn     map[types.Object]*types.Func // local `name := func(...) {...}` -> synthetic function object
	closureLit    map[*types.Func]*ast.FuncLit
	closureUses   map[*types.Func]int
	closureDef    map[*types.Func]ast.Stmt
	substRecv     bool   // current call: the receiver is substituted, not bound
	substParam    []bool // current call: per parameter
	// a package-level type whose name is taken by a local of the caller is addressed through a
	// file-level alias in the expanded text
	aliasDecls map[string]map[string]bool                // file -> "type X__inlT = X"
	renames    map[*ast.FuncDecl]map[types.Object]string // current call: object -> alias name
}

func (il *inliner) text(n ast.Node) string {
	p, e := il.fset.Position(n.Pos()), il.fset.Position(n.End())
	b := il.src[p.Filename]
	if b == nil || p.Offset < 0 || e.Offset > len(b) {
		return ""
	}
	return string(b[p.Offset:e.Offset])
}

func exprString(fset *token.FileSet, e ast.Expr) string {
	var buf bytes.Buffer
	printer.Fprint(&buf, fset, e)
	return buf.String()
}

// bodyOK: restrictions on the callee body; returns the top-level defers.
func (il *inliner) bodyOK(fd *ast.FuncDecl, self *types.Func) (defers []*ast.DeferStmt, ok bool, why string) {
	ok = true
	topDefer := map[*ast.DeferStmt]bool{}
	for _, s := range fd.Body.List {
		if d, isD := s.(*ast.DeferStmt); isD {
			topDefer[d] = true
		}
	}
	ast.Inspect(fd.Body, func(n ast.Node) bool {
		switch x := n.(type) {
		case *ast.FuncLit:
			// returns inside belong to the literal; but a literal that calls recover is a no
			ast.Inspect(x, func(m ast.Node) bool {
				if id, isID := m.(*ast.Ident); isID && id.Name == "recover" {
					ok, why = false, "recover"
				}
				return true
			})
			return false
		case *ast.DeferStmt:
			if !topDefer[x] {
				ok, why = false, "conditional defer"
				return false
			}
			// plain operands only
			plain := true
			ast.Inspect(x.Call, func(m ast.Node) bool {
				switch y := m.(type) {
				case *ast.CallExpr:
					if y != x.Call {
						plain = false
					}
				case *ast.FuncLit:
					plain = false
				}
				return true
			})
			if !plain {
				ok, why = false, "defer with computed operands"
				return false
			}
			defers = append(defers, x)
			return false
		case *ast.CallExpr:
			if id, isID := x.Fun.(*ast.Ident); isID {
				if il.pkg.TypesInfo.Uses[id] == types.Object(self) {
					ok, why = false, "recursive"
				}
			}
			if se, isSel := x.Fun.(*ast.SelectorExpr); isSel {
				if il.pkg.TypesInfo.Uses[se.Sel] == types.Object(self) {
					ok, why = false, "recursive"
				}
			}
		case *ast.LabeledStmt:
			ok, why = false, "labels"
		case *ast.ReturnStmt:
			if len(x.Results) == 0 && fd.Type.Results != nil && len(fd.Type.Results.List) > 0 {
				// bare return with named results: supported only without defers (results are plain vars)
			}
		}
		return true
	})
	return
}

// typeText: source text of a type expression of the callee's signature, valid at the call
// site when the package names it uses mean the same there.
func (il *inliner) typeText(e ast.Expr) string { return exprString(il.fset, e) }

// typeTextFor: the type text with captured type names replaced by their aliases.
func (il *inliner) typeTextFor(fd *ast.FuncDecl, t string) string {
	for obj, alias := range il.renames[fd] {
		if _, isType := obj.(*types.TypeName); !isType && !il.inReturnExpr {
			continue
		}
		t = regexp.MustCompile(`(^|[^A-Za-z0-9_.])`+regexp.QuoteMeta(obj.Name())+`($|[^A-Za-z0-9_])`).ReplaceAllString(t, "${1}"+alias+"${2}")
	}
	return t
}

type calleeShape struct {
	recvName string
	recvType string
	params   []string // names ("_" replaced)
	ptypes   []string
	variadic bool
	results  []string // result var names in the inlined block (named results keep their name)
	exits    []string // the variables a return site assigns before it leaves the block (== results unless named)
	rtypes   []string
	namedRes bool
}

func (il *inliner) shapeOf(fd *ast.FuncDecl, id int) calleeShape {
	var sh calleeShape
	if fd.Recv != nil && len(fd.Recv.List) == 1 {
		f := fd.Recv.List[0]
		sh.recvType = il.typeText(f.Type)
		if len(f.Names) == 1 && f.Names[0].Name != "_" {
			sh.recvName = f.Names[0].Name
		} else {
			sh.recvName = fmt.Sprintf("recv__inl%d", id)
		}
	}
	k := 0
	if fd.Type.Params != nil {
		for _, f := range fd.Type.Params.List {
			t := il.typeText(f.Type)
			if el, isEl := f.Type.(*ast.Ellipsis); isEl {
				sh.variadic = true
				t = "[]" + il.typeText(el.Elt)
			}
			if len(f.Names) == 0 {
				sh.params = append(sh.params, fmt.Sprintf("p%d__inl%d", k, id))
				sh.ptypes = append(sh.ptypes, t)
				k++
			}
			for _, n := range f.Names {
				name := n.Name
				if name == "_" {
					name = fmt.Sprintf("p%d__inl%d", k, id)
				}
				sh.params = append(sh.params, name)
				sh.ptypes = append(sh.ptypes, t)
				k++
			}
		}
	}
	k = 0
	if fd.Type.Results != nil {
		for _, f := range fd.Type.Results.List {
			t := il.typeText(f.Type)
			if len(f.Names) == 0 {
				sh.results = append(sh.results, fmt.Sprintf("r%d__inl%d", k, id))
				sh.rtypes = append(sh.rtypes, t)
				k++
			}
			for _, n := range f.Names {
				sh.namedRes = true
				name := n.Name
				if name == "_" {
					name = fmt.Sprintf("r%d__inl%d", k, id)
				}
				sh.results = append(sh.results, name)
				sh.rtypes = append(sh.rtypes, t)
				k++
			}
		}
	}
	sh.exits = sh.results
	if sh.namedRes {
		// named results live in the body's own scope (a `x, err := f()` at the top level of the body
		// re-uses them); the values a return hands out are copied to separate exit variables
		sh.exits = make([]string, len(sh.results))
		for i := range sh.results {
			sh.exits[i] = fmt.Sprintf("x%d__inl%d", i, id)
		}
	}
	return sh
}

// captureFree: every identifier of the callee body (and signature types) that denotes a
// package-level object, a universe object or an imported package denotes the same thing at
// the call site.  Missing imports are recorded for addition.
func (il *inliner) captureFree(fd *ast.FuncDecl, call *ast.CallExpr, callerFile *ast.File, sh calleeShape) (bool, string) {
	info := il.pkg.TypesInfo
	inner := il.pkg.Types.Scope().Innermost(call.Pos())
	if inner == nil {
		return false, "no scope"
	}
	callerFileName := il.fset.Position(callerFile.Pos()).Filename
	imports := map[string]string{} // name -> path in caller file
	for _, is := range callerFile.Imports {
		path := strings.Trim(is.Path.Value, `"`)
		name := ""
		if is.Name != nil {
			name = is.Name.Name
		} else {
			// default name: the package's declared name
			for _, imp := range il.pkg.Types.Imports() {
				if imp.Path() == path {
					name = imp.Name()
				}
			}
			if name == "" {
				name = path[strings.LastIndex(path, "/")+1:]
			}
		}
		imports[name] = path
	}
	okAll, why := true, ""
	bound := map[string]bool{}
	for _, p := range sh.params {
		bound[p] = true
	}
	if sh.recvName != "" {
		bound[sh.recvName] = true
	}
	for _, r := range sh.results {
		bound[r] = true
	}
	check := func(n ast.Node) {
		ast.Inspect(n, func(m ast.Node) bool {
			id, isID := m.(*ast.Ident)
			if !isID {
				return true
			}
			obj := info.Uses[id]
			if obj == nil {
				return true
			}
			switch o := obj.(type) {
			case *types.PkgName:
				path := o.Imported().Path()
				if p, have := imports[o.Name()]; have {
					if p != path {
						okAll, why = false, "import name "+o.Name()+" means another package at the call site"
					}
				} else {
					if il.addImports[callerFileName] == nil {
						il.addImports[callerFileName] = map[string]string{}
					}
					il.addImports[callerFileName][o.Name()] = path
				}
				// a local of the caller may shadow the package name
				if _, lo := inner.LookupParent(o.Name(), call.Pos()); lo != nil {
					if _, isPkg := lo.(*types.PkgName); !isPkg {
						okAll, why = false, "package name "+o.Name()+" is shadowed at the call site"
					}
				}
			default:
				parent := obj.Parent()
				if parent == il.pkg.Types.Scope() || parent == types.Universe {
					if bound[id.Name] {
						return true // shadowed by the callee's own parameter in both versions
					}
					_, lo := inner.LookupParent(id.Name, call.Pos())
					if lo != obj {
						if tn, isType := obj.(*types.TypeName); isType && parent == il.pkg.Types.Scope() {
							alias := tn.Name() + "__inlT"
							if il.aliasDecls[callerFileName] == nil {
								il.aliasDecls[callerFileName] = map[string]bool{}
							}
							il.aliasDecls[callerFileName]["type "+alias+" = "+tn.Name()] = true
							if il.renames[fd] == nil {
								il.renames[fd] = map[types.Object]string{}
							}
							il.renames[fd][obj] = alias
						} else {
							okAll, why = false, "identifier "+id.Name+" is captured by a local of the caller"
						}
					}
				}
			}
			return true
		})
	}
	check(fd.Body)
	check(fd.Type)
	if fd.Recv != nil {
		check(fd.Recv)
	}
	// a function literal also reads and writes locals of the enclosing function: each must be the
	// same variable at the call site (not shadowed by a declaration in between)
	if fd.Name != nil && strings.HasPrefix(fd.Name.Name, "closure__") {
		ast.Inspect(fd.Body, func(m ast.Node) bool {
			id, isID := m.(*ast.Ident)
			if !isID {
				return true
			}
			v, isVar := info.Uses[id].(*types.Var)
			if !isVar || v.IsField() || v.Parent() == il.pkg.Types.Scope() {
				return true
			}
			if v.Pos() >= fd.Body.Pos() && v.Pos() <= fd.Body.End() {
				return true // the literal's own local
			}
			if fd.Type.Params != nil && v.Pos() >= fd.Type.Pos() && v.Pos() <= fd.Type.End() {
				return true // its parameter
			}
			if _, lo := inner.LookupParent(id.Name, call.Pos()); lo != types.Object(v) {
				okAll, why = false, "captured variable "+id.Name+" is shadowed at the call site"
			}
			return true
		})
	}
	return okAll, why
}

// rewriteBody: the body text with every return (outside function literals) replaced.
func (il *inliner) rewriteBody(fd *ast.FuncDecl, sh calleeShape, label string, defers []*ast.DeferStmt, tail bool) (string, bool) {
	file := il.fset.Position(fd.Pos()).Filename
	src := il.src[file]
	lb, rb := il.fset.Position(fd.Body.Lbrace).Offset+1, il.fset.Position(fd.Body.Rbrace).Offset
	var edits []inlineEdit
	usedGoto := false
	deferText := func(before token.Pos) string {
		var sb strings.Builder
		for i := len(defers) - 1; i >= 0; i-- {
			if defers[i].Pos() < before {
				il.inReturnExpr = true
				sb.WriteString(il.typeTextFor(fd, il.text(defers[i].Call)) + "; ")
				il.inReturnExpr = false
			}
		}
		return sb.String()
	}
	if rn := il.renames[fd]; len(rn) > 0 {
		ast.Inspect(fd.Body, func(m ast.Node) bool {
			if id, ok := m.(*ast.Ident); ok {
				if alias, ok := rn[il.pkg.TypesInfo.Uses[id]]; ok {
					s, e := il.fset.Position(id.Pos()).Offset, il.fset.Position(id.End()).Offset
					edits = append(edits, inlineEdit{s, e, alias})
				}
			}
			return true
		})
	}
	var walk func(n ast.Node)
	walk = func(n ast.Node) {
		ast.Inspect(n, func(m ast.Node) bool {
			switch x := m.(type) {
			case *ast.FuncLit:
				return false
			case *ast.DeferStmt:
				s, e := il.fset.Position(x.Pos()).Offset, il.fset.Position(x.End()).Offset
				edits = append(edits, inlineEdit{s, e, "/* defer run at the exits of the inlined body */"})
				return false
			case *ast.ReturnStmt:
				s, e := il.fset.Position(x.Pos()).Offset, il.fset.Position(x.End()).Offset
				var sb strings.Builder
				if tail {
					// tail call: the callee's returns are the caller's returns
					if len(defers) == 0 || deferText(x.Pos()) == "" {
						return false
					}
					var rs []string
					for _, r := range x.Results {
						rs = append(rs, il.text(r))
					}
					if len(x.Results) > 0 {
						sb.WriteString("{ " + strings.Join(sh.results, ", ") + " = " + strings.Join(rs, ", ") + "; " + deferText(x.Pos()) + "return " + strings.Join(sh.results, ", ") + " }")
					} else {
						sb.WriteString("{ " + deferText(x.Pos()) + "return " + strings.Join(sh.results, ", ") + " }")
					}
					edits = append(edits, inlineEdit{s, e, sb.String()})
					return false
				}
				sb.WriteString("{ ")
				if len(x.Results) > 0 {
					var rs []string
					il.inReturnExpr = true
					for _, r := range x.Results {
						rs = append(rs, il.typeTextFor(fd, il.text(r)))
					}
					il.inReturnExpr = false
					if len(sh.results) > 0 {
						sb.WriteString(strings.Join(sh.exits, ", ") + " = " + strings.Join(rs, ", ") + "; ")
					}
				} else if sh.namedRes && len(sh.results) > 0 {
					// bare return: the current values of the named results
					sb.WriteString(strings.Join(sh.exits, ", ") + " = " + strings.Join(sh.results, ", ") + "; ")
				}
				sb.WriteString(deferText(x.Pos()))
				sb.WriteString("goto " + label + " }")
				usedGoto = true
				edits = append(edits, inlineEdit{s, e, sb.String()})
				return false
			}
			return true
		})
	}
	walk(fd.Body)
	// an identifier edit inside a rewritten return / defer is covered by that edit's own text
	sort.Slice(edits, func(i, j int) bool {
		if edits[i].start != edits[j].start {
			return edits[i].start < edits[j].start
		}
		return edits[i].end > edits[j].end
	})
	var kept []inlineEdit
	lastEnd := -1
	for _, e := range edits {
		if e.start < lastEnd {
			continue
		}
		kept = append(kept, e)
		lastEnd = e.end
	}
	edits = kept
	sort.Slice(edits, func(i, j int) bool { return edits[i].start > edits[j].start })
	body := append([]byte{}, src[lb:rb]...)
	for _, e := range edits {
		s, t := e.start-lb, e.end-lb
		if s < 0 || t > len(body) {
			return "", false
		}
		body = append(body[:s], append([]byte(e.text), body[t:]...)...)
	}
	out := string(body)
	// falling off the end: run the defers (not after a final return: nothing falls off there, and
	// a statement after it would make the enclosing function "miss" its return)
	endsInReturn := false
	if n := len(fd.Body.List); n > 0 {
		_, endsInReturn = fd.Body.List[n-1].(*ast.ReturnStmt)
	}
	if len(defers) > 0 && !endsInReturn {
		out += "\n" + deferText(fd.Body.Rbrace)
	}
	return out, usedGoto
}

// buildBlock: the text that replaces the call; resNames receives the result variable names.
func (il *inliner) buildBlock(fd *ast.FuncDecl, obj *types.Func, call *ast.CallExpr, id int, defers []*ast.DeferStmt, sh calleeShape, tail bool) (pre, block, post string, ok bool) {
	label := fmt.Sprintf("out__inl%d", id)
	body, usedGoto := il.rewriteBody(fd, sh, label, defers, tail)
	if body == "" && len(fd.Body.List) > 0 {
		return "", "", "", false
	}
	var sb strings.Builder
	// result variables live outside the block (named results keep their names inside it)
	resOuter := make([]string, len(sh.results))
	for i := range sh.results {
		resOuter[i] = fmt.Sprintf("res%d__inl%d", i, id)
		if !tail {
			pre += fmt.Sprintf("var %s %s; _ = %s; ", resOuter[i], sh.rtypes[i], resOuter[i])
		}
	}
	sb.WriteString("{ ")
	// stage 1: evaluate receiver and arguments left to right into temporaries
	var tmpNames []string
	if sh.recvName != "" && il.substRecv {
		tmpNames = append(tmpNames, "")
	} else if sh.recvName != "" {
		se, isSel := call.Fun.(*ast.SelectorExpr)
		if !isSel {
			return "", "", "", false
		}
		rx := il.text(se.X)
		// auto address / dereference
		xt := il.pkg.TypesInfo.TypeOf(se.X)
		recvIsPtr := strings.HasPrefix(sh.recvType, "*")
		_, xIsPtr := xt.Underlying().(*types.Pointer)
		switch {
		case recvIsPtr && !xIsPtr:
			rx = "&(" + rx + ")"
		case !recvIsPtr && xIsPtr:
			rx = "*(" + rx + ")"
		}
		t := fmt.Sprintf("a__inl%d_r", id)
		sb.WriteString(fmt.Sprintf("var %s %s = %s; ", t, sh.recvType, rx))
		tmpNames = append(tmpNames, t)
	}
	nfixed := len(sh.params)
	if sh.variadic {
		nfixed--
	}
	if len(call.Args) < nfixed {
		return "", "", "", false // f(g()) with a multi-value g: not handled
	}
	funcBind := map[int]string{}
	for i := 0; i < nfixed; i++ {
		if i < len(il.substParam) && il.substParam[i] {
			tmpNames = append(tmpNames, "")
			continue
		}
		if fb := il.funcParamBinding(fd, i, call.Args[i]); fb != "" {
			// a function constant (literal, method expression, function name) handed to a parameter
			// that is only ever called: bound as a local closure, which the next round expands
			funcBind[i] = fb
			tmpNames = append(tmpNames, "-")
			continue
		}
		if lit := il.effectFreeLiteral(call.Args[i]); lit != "" {
			// a literal of constants, variables and function literals: nothing to evaluate in order;
			// bound to the parameter directly, so that a parameter object can be taken apart
			tmpNames = append(tmpNames, "("+lit+")")
			continue
		}
		t := fmt.Sprintf("a__inl%d_%d", id, i)
		sb.WriteString(fmt.Sprintf("var %s %s = %s; ", t, sh.ptypes[i], il.text(call.Args[i])))
		tmpNames = append(tmpNames, t)
	}
	if sh.variadic {
		t := fmt.Sprintf("a__inl%d_%d", id, nfixed)
		if call.Ellipsis.IsValid() {
			if len(call.Args) != nfixed+1 {
				return "", "", "", false
			}
			sb.WriteString(fmt.Sprintf("var %s %s = %s; ", t, sh.ptypes[nfixed], il.text(call.Args[nfixed])))
		} else if len(call.Args) == nfixed {
			sb.WriteString(fmt.Sprintf("var %s %s; ", t, sh.ptypes[nfixed]))
		} else {
			var xs []string
			for _, a := range call.Args[nfixed:] {
				xs = append(xs, il.text(a))
			}
			sb.WriteString(fmt.Sprintf("var %s %s = %s{%s}; ", t, sh.ptypes[nfixed], sh.ptypes[nfixed], strings.Join(xs, ", ")))
		}
		tmpNames = append(tmpNames, t)
	} else if len(call.Args) != nfixed {
		return "", "", "", false
	}
	// the exit variables of a callee with named results
	if sh.namedRes {
		for i, x := range sh.exits {
			sb.WriteString(fmt.Sprintf("var %s %s; _ = %s; ", x, sh.rtypes[i], x))
		}
	}
	// the function's own scope: receiver, parameters, named results and the body's top-level
	// declarations share one block, as in the original
	outerText := sb.String()
	sb.Reset()
	// stage 2: bind the callee's own names
	k := 0
	if sh.recvName != "" {
		if tmpNames[k] != "" {
			sb.WriteString(fmt.Sprintf("var %s %s = %s; _ = %s; ", sh.recvName, sh.recvType, tmpNames[k], sh.recvName))
		}
		k++
	}
	for i, p := range sh.params {
		if tmpNames[k+i] == "" {
			continue
		}
		if fb, ok := funcBind[i]; ok {
			sb.WriteString(fmt.Sprintf("%s := %s; ", p, fb))
			continue
		}
		sb.WriteString(fmt.Sprintf("var %s %s = %s; _ = %s; ", p, sh.ptypes[i], tmpNames[k+i], p))
	}
	// results: named ones in the function's scope, unnamed ones (== exit variables) outside it
	inner := sb.String()
	sb.Reset()
	sb.WriteString(outerText)
	if !sh.namedRes {
		for i, r := range sh.results {
			sb.WriteString(fmt.Sprintf("var %s %s; _ = %s; ", r, sh.rtypes[i], r))
		}
	} else {
		for i, r := range sh.results {
			inner += fmt.Sprintf("var %s %s; _ = %s; ", r, sh.rtypes[i], r)
		}
	}
	// the body in a block of its own (a goto must not jump over its declarations); its exits
	// assign the exit variables, then jump to the copy-out
	sb.WriteString("{ " + inner + "\n")
	sb.WriteString(body)
	if sh.namedRes && len(sh.results) > 0 {
		// falling off the end is impossible for a function with results; nothing to copy
	}
	sb.WriteString("\n}\n")
	if usedGoto {
		sb.WriteString(label + ": _ = 0; ")
	}
	if !tail {
		for i, r := range sh.exits {
			sb.WriteString(fmt.Sprintf("%s = %s; ", resOuter[i], r))
		}
	}
	sb.WriteString("}")
	block = sb.String()
	post = strings.Join(resOuter, ", ")
	return pre, block, post, true
}

// stmtEdit: if stmt is one of the supported shapes around a call of a fresh function, returns
// the replacement text.
func (il *inliner) stmtEdit(stmt ast.Stmt, file *ast.File) (string, bool) {
	info := il.pkg.TypesInfo
	calleeOf := func(e ast.Expr) (*types.Func, *ast.CallExpr) {
		c, ok := ast.Unparen(e).(*ast.CallExpr)
		if !ok {
			return nil, nil
		}
		var id *ast.Ident
		switch f := ast.Unparen(c.Fun).(type) {
		case *ast.Ident:
			id = f
		case *ast.SelectorExpr:
			id = f.Sel
		}
		if id == nil {
			return nil, nil
		}
		if v, isVar := info.Uses[id].(*types.Var); isVar {
			if syn := il.closureFn[v]; syn != nil {
				if _, isIdent := ast.Unparen(c.Fun).(*ast.Ident); isIdent {
					return syn, c
				}
			}
			return nil, nil
		}
		fn, _ := info.Uses[id].(*types.Func)
		if fn == nil || il.fresh[fn] == nil {
			return nil, nil
		}
		// method expressions / interface methods are not handled
		if sel, ok := ast.Unparen(c.Fun).(*ast.SelectorExpr); ok {
			if s := info.Selections[sel]; s != nil && s.Kind() != types.MethodVal {
				return nil, nil
			}
			if s := info.Selections[sel]; s != nil {
				if _, isIface := s.Recv().Underlying().(*types.Interface); isIface {
					return nil, nil
				}
				if len(s.Index()) > 1 {
					return nil, nil // promoted through embedding
				}
			}
		}
		return fn, c
	}
	try := func(fn *types.Func, call *ast.CallExpr, tail bool, assemble func(pre, block, results string, n int) string) (string, bool) {
		fd := il.fresh[fn]
		if fd == nil {
			return "", false
		}
		if il.fset.Position(fd.Pos()).Filename == "" {
			return "", false
		}
		defers, ok, why := il.bodyOK(fd, fn)
		if !ok {
			il.notes = append(il.notes, fmt.Sprintf("call of %s not inlined: %s", funcObjName(fn), why))
			return "", false
		}
		inlineSeq++
		id := inlineSeq
		sh := il.shapeOf(fd, id)
		if sh.namedRes && len(defers) > 0 {
			il.notes = append(il.notes, fmt.Sprintf("call of %s not inlined: named results with defer", funcObjName(fn)))
			return "", false
		}
		if ok, why := il.captureFree(fd, call, file, sh); !ok {
			il.notes = append(il.notes, fmt.Sprintf("call of %s not inlined: %s", funcObjName(fn), why))
			return "", false
		}
		if tail && sh.namedRes {
			tail = false
		}
		il.planSubst(fd, call)
		if len(il.renames[fd]) > 0 {
			sh.recvType = il.typeTextFor(fd, sh.recvType)
			for i := range sh.ptypes {
				sh.ptypes[i] = il.typeTextFor(fd, sh.ptypes[i])
			}
			for i := range sh.rtypes {
				sh.rtypes[i] = il.typeTextFor(fd, sh.rtypes[i])
			}
		}
		pre, block, results, ok := il.buildBlock(fd, fn, call, id, defers, sh, tail)
		delete(il.renames, fd)
		if !ok {
			return "", false
		}
		out := assemble(pre, block, results, len(sh.results))
		if out == "" {
			return "", false
		}
		il.inlinedAll[fn]++
		return out, true
	}
	simple := func(s ast.Stmt) (string, bool) {
		switch x := s.(type) {
		case *ast.ExprStmt:
			if fn, call := calleeOf(x.X); fn != nil {
				return try(fn, call, false, func(pre, block, results string, n int) string {
					return pre + block
				})
			}
		case *ast.DeclStmt:
			// var x T = h(...)
			gd, ok := x.Decl.(*ast.GenDecl)
			if !ok || gd.Tok != token.VAR || len(gd.Specs) != 1 {
				break
			}
			vs, ok := gd.Specs[0].(*ast.ValueSpec)
			if !ok || len(vs.Names) != 1 || len(vs.Values) != 1 {
				break
			}
			if fn, call := calleeOf(vs.Values[0]); fn != nil {
				ty := ""
				if vs.Type != nil {
					ty = " " + il.text(vs.Type)
				}
				return try(fn, call, false, func(pre, block, results string, n int) string {
					if n != 1 {
						return ""
					}
					return pre + block + "; var " + vs.Names[0].Name + ty + " = " + results
				})
			}
		case *ast.AssignStmt:
			if len(x.Rhs) == 1 {
				if fn, call := calleeOf(x.Rhs[0]); fn != nil {
					var lhs []string
					for _, l := range x.Lhs {
						lhs = append(lhs, il.text(l))
					}
					return try(fn, call, false, func(pre, block, results string, n int) string {
						if n != len(lhs) {
							return ""
						}
						return pre + block + "; " + strings.Join(lhs, ", ") + " " + x.Tok.String() + " " + results
					})
				}
			}
		}
		return "", false
	}
	// calls of new PURE helpers nested inside an expression (`return indexOf(a, x) >= 0 ||
	// indexOf(b, x) >= 0`, `if i := indexOf(l, x); i >= 0`, `x := f(h(y))`) are hoisted into
	// temporaries in front of the statement - evaluating a pure call early, or unconditionally
	// where it was behind a short circuit, changes nothing - and expanded in the next round
	if t, ok := il.hoistNestedPure(stmt, calleeOf); ok {
		return t, true
	}
	switch x := stmt.(type) {
	case *ast.ExprStmt, *ast.AssignStmt, *ast.DeclStmt:
		t, ok := simple(x)
		if ok && t != "" {
			return t, true
		}
	case *ast.IfStmt:
		if x.Init == nil {
			// `if h(a) {` / `if !h(a) {` with a fresh multi-statement predicate: hoist the call
			cond, neg := ast.Unparen(x.Cond), ""
			if u, ok := cond.(*ast.UnaryExpr); ok && u.Op == token.NOT {
				cond, neg = ast.Unparen(u.X), "!"
			}
			if fn, call := calleeOf(cond); fn != nil {
				file := il.fset.Position(x.Pos()).Filename
				src := il.src[file]
				bs, be := il.fset.Position(x.Body.Pos()).Offset, il.fset.Position(x.End()).Offset
				rest := string(src[bs:be])
				return try(fn, call, false, func(pre, block, results string, n int) string {
					if n != 1 {
						return ""
					}
					return "{ " + pre + block + "\nif " + neg + results + " " + rest + " }"
				})
			}
		}
		if x.Init != nil {
			t, ok := simple(x.Init)
			if ok && t != "" {
				// { init'; if cond {...} else {...} }
				rest := ""
				file := il.fset.Position(x.Pos()).Filename
				src := il.src[file]
				cs, ce := il.fset.Position(x.Cond.Pos()).Offset, il.fset.Position(x.End()).Offset
				rest = string(src[cs:ce])
				return "{ " + t + "\nif " + rest + " }", true
			}
		}
	case *ast.DeferStmt:
		// `defer h(a, b)` of a fresh function: the arguments are evaluated now, the body runs at
		// the exit: `t1, t2 := a, b; defer func() { <body of h with t1, t2> }()`
		if fn, call := calleeOf(x.Call); fn != nil {
			fd := il.fresh[fn]
			if fd == nil || fd.Type.Results != nil && len(fd.Type.Results.List) > 0 {
				return "", false
			}
			// pre-evaluate the arguments (and the receiver) into temporaries, then inline a call on them
			inlineSeq++
			id := inlineSeq
			var pre strings.Builder
			callText := ""
			if se, ok := ast.Unparen(call.Fun).(*ast.SelectorExpr); ok {
				if il.pkg.TypesInfo.Selections[se] != nil {
					if il.stableLocal(se.X) {
						callText = il.text(se.X) + "." + se.Sel.Name + "("
					} else {
						pre.WriteString(fmt.Sprintf("d__inl%d_r := %s; ", id, il.text(se.X)))
						callText = fmt.Sprintf("d__inl%d_r.%s(", id, se.Sel.Name)
					}
				}
			}
			if callText == "" {
				callText = il.text(call.Fun) + "("
			}
			for i, a := range call.Args {
				if tv, ok := il.pkg.TypesInfo.Types[a]; (ok && tv.Value != nil) || il.stableLocal(a) {
					// constants and locals that are assigned exactly once need no temporary
					if i > 0 {
						callText += ", "
					}
					callText += il.text(a)
					continue
				}
				pre.WriteString(fmt.Sprintf("d__inl%d_%d := %s; ", id, i, il.text(a)))
				if i > 0 {
					callText += ", "
				}
				callText += fmt.Sprintf("d__inl%d_%d", id, i)
			}
			if call.Ellipsis.IsValid() {
				callText += "..."
			}
			callText += ")"
			il.inlinedAll[fn]++ // this use goes away; the call inside the literal is a new one, expanded next round
			il.deferRewrites++
			il.extraUses[fn]++
			return pre.String() + "defer func() { " + callText + " }()", true
		}
	case *ast.ReturnStmt:
		if len(x.Results) > 1 {
			// `return f(a), b, c` with one fresh call and otherwise side-effect-free results
			idx := -1
			var fn *types.Func
			var call *ast.CallExpr
			for i, r := range x.Results {
				if f, c := calleeOf(r); f != nil {
					if idx >= 0 {
						idx = -2
						break
					}
					idx, fn, call = i, f, c
				} else if !pureArg(r) {
					idx = -2
					break
				}
			}
			if idx >= 0 {
				return try(fn, call, false, func(pre, block, results string, n int) string {
					if n != 1 {
						return ""
					}
					var rs []string
					for i, r := range x.Results {
						if i == idx {
							rs = append(rs, results)
						} else {
							rs = append(rs, il.text(r))
						}
					}
					return "{ " + pre + block + "; return " + strings.Join(rs, ", ") + " }"
				})
			}
		}
		if len(x.Results) == 1 {
			if fn, call := calleeOf(x.Results[0]); fn != nil {
				fd := il.fresh[fn]
				tail := fd != nil && fd.Type.Results != nil && !hasNamedResults(fd)
				return try(fn, call, tail, func(pre, block, results string, n int) string {
					if tail {
						// the callee's returns were kept: every path of the block returns
						return block
					}
					return "{ " + pre + block + "; return " + results + " }"
				})
			}
		}
	}
	return "", false
}

// containsFreshCallInside: the statement has a nested statement list of its own (an if with an
// init is rewritten as a whole, its branches are then visited in the next round).
func (il *inliner) run() {
	for _, f := range il.pkg.Syntax {
		file := il.fset.Position(f.Pos()).Filename
		var visitList func(list []ast.Stmt)
		var visitStmt func(s ast.Stmt)
		var curFn *ast.FuncDecl
		visitList = func(list []ast.Stmt) {
			for _, s := range list {
				visitStmt(s)
			}
		}
		visitStmt = func(s ast.Stmt) {
			if s == nil {
				return
			}
			if es := il.exprHelperEdits(s, f); len(es) > 0 {
				il.edits[file] = append(il.edits[file], es...)
				il.exprInlined += len(es)
				return // the statement itself is looked at again in the next round
			}
			if t, ok := il.stmtEdit(s, f); ok {
				st, en := il.fset.Position(s.Pos()).Offset, il.fset.Position(s.End()).Offset
				il.edits[file] = append(il.edits[file], inlineEdit{st, en, t})
				return // nested statements are handled in the next round
			}
			if rs, ok := s.(*ast.RangeStmt); ok {
				if t, ok := il.unrollRange(rs, curFn); ok {
					st, en := il.fset.Position(s.Pos()).Offset, il.fset.Position(s.End()).Offset
					il.edits[file] = append(il.edits[file], inlineEdit{st, en, t})
					il.unrolled++
					return
				}
			}
			switch x := s.(type) {
			case *ast.BlockStmt:
				visitList(x.List)
			case *ast.IfStmt:
				visitStmt(x.Body)
				visitStmt(x.Else)
			case *ast.ForStmt:
				visitStmt(x.Body)
			case *ast.RangeStmt:
				visitStmt(x.Body)
			case *ast.SwitchStmt:
				visitStmt(x.Body)
			case *ast.TypeSwitchStmt:
				visitStmt(x.Body)
			case *ast.SelectStmt:
				visitStmt(x.Body)
			case *ast.CaseClause:
				visitList(x.Body)
			case *ast.CommClause:
				visitList(x.Body)
			case *ast.LabeledStmt:
				visitStmt(x.Stmt)
			}
			// function literals inside expressions
			ast.Inspect(s, func(m ast.Node) bool {
				if fl, ok := m.(*ast.FuncLit); ok {
					visitList(fl.Body.List)
					return false
				}
				if _, ok := m.(ast.Stmt); ok && m != ast.Node(s) {
					return false
				}
				return true
			})
		}
		for _, d := range f.Decls {
			fd, ok := d.(*ast.FuncDecl)
			if !ok || fd.Body == nil {
				continue
			}
			// do not inline into a function that is itself fresh: it is inlined in its callers
			// first; the calls it makes are expanded there in the next round
			if obj, _ := il.pkg.TypesInfo.Defs[fd.Name].(*types.Func); obj != nil && il.fresh[obj] != nil {
				continue
			}
			curFn = fd
			il.curFn = fd
			il.registerClosures(fd)
			visitList(fd.Body.List)
			il.dropInlinedClosures(fd, file)
		}
	}
	if len(il.edits) == 0 && il.exprInlined == 0 {
		// nothing left to expand in this package: undo "locals grouped into a struct"
		for _, f := range il.pkg.Syntax {
			file := il.fset.Position(f.Pos()).Filename
			for _, d := range f.Decls {
				if fd, ok := d.(*ast.FuncDecl); ok && fd.Body != nil {
					if es := il.scalarise(fd); len(es) > 0 {
						il.edits[file] = append(il.edits[file], es...)
					}
				}
			}
		}
	}
}

// buildInlinedOverlay: one round of inlining over all jiva packages.  base is the overlay the
// program was loaded with (may be nil); the result contains base plus the rewritten files.
func buildInlinedOverlay(pkgs []*packages.Package, base map[string][]byte) *inlineResult {
	res := &inlineResult{Overlay: map[string][]byte{}}
	for k, v := range base {
		res.Overlay[k] = v
	}
	fresh := freshFuncDecls(pkgs)
	// uses of each fresh function (to decide whether its declaration can go)
	uses := map[*types.Func]int{}
	packages.Visit(pkgs, nil, func(p *packages.Package) {
		if !isJivaPkg(p.Types) {
			return
		}
		for _, obj := range p.TypesInfo.Uses {
			if fn, ok := obj.(*types.Func); ok && fresh[fn] != nil {
				uses[fn]++
			}
		}
	})
	packages.Visit(pkgs, nil, func(p *packages.Package) {
		if !isJivaPkg(p.Types) || strings.Contains(p.PkgPath, "/tests/") {
			return
		}
		il := &inliner{pkg: p, fset: p.Fset, src: map[string][]byte{}, fresh: map[*types.Func]*ast.FuncDecl{}, edits: map[string][]inlineEdit{}, addImports: map[string]map[string]string{}, inlinedAll: map[*types.Func]int{}, aliasDecls: map[string]map[string]bool{}, renames: map[*ast.FuncDecl]map[types.Object]string{}, extraUses: map[*types.Func]int{}, closureFn: map[types.Object]*types.Func{}, closureLit: map[*types.Func]*ast.FuncLit{}, closureUses: map[*types.Func]int{}, closureDef: map[*types.Func]ast.Stmt{}}
		any := false
		for fn, fd := range fresh {
			if fn.Pkg() == p.Types {
				il.fresh[fn] = fd
				any = true
			}
		}
		_ = any
		for _, f := range p.Syntax {
			name := p.Fset.Position(f.Pos()).Filename
			if b, ok := base[name]; ok {
				il.src[name] = b
			} else if b, err := os.ReadFile(name); err == nil {
				il.src[name] = b
			}
		}
		il.run()
		// drop declarations whose every use was inlined
		for fn, n := range il.inlinedAll {
			if il.extraUses[fn] > 0 {
				res.Count += il.extraUses[fn]
				continue // re-written into a deferred literal this round: still called from there
			}
			if n > 0 && n == uses[fn] && !shimObj(fn) {
				// (a forwarding wrapper of a baseline name stays: it is what ties the new variant to
				// that name)
				// the declaration is kept under the blank name: its imports stay used, go/ssa
				// does not build blank functions
				fd := il.fresh[fn]
				file := p.Fset.Position(fd.Pos()).Filename
				st := p.Fset.Position(fd.Name.Pos()).Offset
				en := p.Fset.Position(fd.Name.End()).Offset
				il.edits[file] = append(il.edits[file], inlineEdit{st, en, "_"})
				res.Notes = append(res.Notes, fmt.Sprintf("%s inlined at its %d call site(s), declaration dropped", funcObjName(fn), n))
			} else if n > 0 {
				res.Notes = append(res.Notes, fmt.Sprintf("%s inlined at %d of %d use(s)", funcObjName(fn), n, uses[fn]))
			}
			res.Count += n
		}
		res.Notes = append(res.Notes, il.notes...)
		res.Count += il.exprInlined
		if il.scalarised > 0 {
			res.Count += il.scalarised
			res.Notes = append(res.Notes, fmt.Sprintf("%d local aggregate(s) of a new struct type replaced by one local per field in package %s", il.scalarised, short(p.PkgPath)))
		}
		if il.unrolled > 0 {
			res.Count += il.unrolled
			res.Notes = append(res.Notes, fmt.Sprintf("%d range loop(s) over a small literal unrolled in package %s", il.unrolled, short(p.PkgPath)))
		}
		for file, es := range il.edits {
			// drop edits nested inside a dropped declaration or inside another edit
			sort.Slice(es, func(i, j int) bool {
				if es[i].start != es[j].start {
					return es[i].start < es[j].start
				}
				return es[i].end > es[j].end
			})
			var keep []inlineEdit
			lastEnd := -1
			for _, e := range es {
				if e.start < lastEnd {
					continue
				}
				keep = append(keep, e)
				lastEnd = e.end
			}
			src := append([]byte{}, il.src[file]...)
			for i := len(keep) - 1; i >= 0; i-- {
				e := keep[i]
				src = append(src[:e.start], append([]byte(e.text), src[e.end:]...)...)
			}
			if imps := il.addImports[file]; len(imps) > 0 {
				src = addImportsToSource(src, imps)
			}
			if ds := il.aliasDecls[file]; len(ds) > 0 {
				var names []string
				for d := range ds {
					if !bytes.Contains(src, []byte(d)) {
						names = append(names, d)
					}
				}
				sort.Strings(names)
				src = append(src, []byte("\n"+strings.Join(names, "\n")+"\n")...)
			}
			res.Overlay[file] = src
		}
	})
	return res
}

// addImportsToSource inserts import declarations right after the package clause.
func addImportsToSource(src []byte, imps map[string]string) []byte {
	s := string(src)
	i := strings.Index(s, "\npackage ")
	if strings.HasPrefix(s, "package ") {
		i = -1
	}
	j := strings.Index(s[i+1:], "\n")
	if j < 0 {
		return src
	}
	at := i + 1 + j + 1
	var names []string
	for n := range imps {
		names = append(names, n)
	}
	sort.Strings(names)
	var sb strings.Builder
	for _, n := range names {
		sb.WriteString(fmt.Sprintf("import %s %q\n", n, imps[n]))
	}
	return []byte(s[:at] + sb.String() + s[at:])
}

// inlinedView loads the program again with every statement-position call of a fresh function
// expanded (up to three rounds for helpers that call helpers).  nil when there is nothing to
// inline or the expanded source does not type-check (the view is then simply not available).
func inlinedView(P *Prog) (*Prog, []string) {
	var notes []string
	cur := P
	overlay := P.Overlay
	var last *Prog
	// first: context parameters that are context.Background() at every root
	if r := dropBackgroundCtxParams(cur.Pkgs, overlay); r.Count > 0 {
		if Q, err := loadProg(P.RepoDir, P.Tags, r.Overlay); err == nil {
			notes = append(notes, r.Notes...)
			overlay = r.Overlay
			last, cur = Q, Q
		} else {
			notes = append(notes, "context parameter pass discarded: "+firstLines(err.Error(), 3))
		}
	}
	// new function variables that are only called are function declarations
	if r := funcVarsToFuncs(cur.Pkgs, overlay); r.Count > 0 {
		if Q, err := loadProg(P.RepoDir, P.Tags, r.Overlay); err == nil {
			notes = append(notes, r.Notes...)
			overlay = r.Overlay
			last, cur = Q, Q
		} else {
			notes = append(notes, "function variable pass discarded: "+firstLines(err.Error(), 3))
		}
	}
	// then: parameters that were added to baseline functions and are only logged
	if r := dropLogOnlyParams(cur.Pkgs, overlay); r.Count > 0 {
		if Q, err := loadProg(P.RepoDir, P.Tags, r.Overlay); err == nil {
			notes = append(notes, r.Notes...)
			overlay = r.Overlay
			last, cur = Q, Q
		} else {
			notes = append(notes, "log-only parameter pass discarded: "+firstLines(err.Error(), 3))
		}
	}
	for round := 0; round < 6; round++ {
		r := buildInlinedOverlay(cur.Pkgs, overlay)
		notes = append(notes, r.Notes...)
		if r.Count == 0 {
			break
		}
		overlay = r.Overlay
		Q, err := loadProg(P.RepoDir, P.Tags, overlay)
		if err != nil {
			notes = append(notes, "inlined view discarded: "+firstLines(err.Error(), 4))
			if d := os.Getenv("JIVACHECK_VIEWFAIL"); d != "" {
				os.MkdirAll(d, 0o755)
				for f, b := range overlay {
					os.WriteFile(filepath.Join(d, strings.ReplaceAll(strings.TrimPrefix(f, P.RepoDir+"/"), "/", "__")), b, 0o644)
				}
			}
			return last, notes
		}
		last, cur = Q, Q
	}
	return last, notes
}

// inlineSeq numbers the expansions across rounds (names of temporaries and labels stay unique).
var inlineSeq int

// quietView: no progress lines (seeded self-test).
var quietView bool

// isOpenFinding: the obligation is an open known finding of this property.
func isOpenFinding(findings []Finding, prop string, o *Obl) bool {
	for _, f := range findings {
		if f.Status == "open" && f.Property == prop && f.Rule == strings.TrimSuffix(o.Rule, "[tags=debug]") && f.Key == o.Key {
			return true
		}
	}
	return false
}

// evaluate runs the rules of a property on P; rules that raise an alarm there are run again
// on the inlined view (when one exists) and are discharged when they are clean on it.
func evaluate(P *Prog, prop, tier string, spec *propSpec, findings []Finding) (*Ctx, map[string]interface{}) {
	c := newCtx(P, prop, tier, findings)
	for _, r := range spec.Rules {
		runRule(c, r)
	}
	bad := map[string]bool{}
	for _, o := range c.Obls {
		if (o.Status == "violated" || o.Status == "undecided") && !isOpenFinding(findings, prop, o) {
			bad[o.Rule] = true
		}
	}
	if len(bad) == 0 {
		return c, nil
	}
	Q, notes := inlinedView(P)
	info := map[string]interface{}{"notes": notes}
	if Q == nil {
		info["available"] = false
		if !quietView {
			for _, n := range notes {
				if strings.HasPrefix(n, "inlined view discarded") {
					fmt.Println("inlined view: " + n)
				}
			}
		}
		return c, info
	}
	clearCaches()
	cq := newCtx(Q, prop, tier, findings)
	for _, r := range spec.Rules {
		runRule(cq, r)
	}
	okInView := map[string]bool{}
	cnt := map[string]int{}
	for _, o := range cq.Obls {
		cnt[o.Rule]++
	}
	for r := range bad {
		okInView[r] = cnt[r] > 0
	}
	for _, o := range cq.Obls {
		if (o.Status == "violated" || o.Status == "undecided") && !isOpenFinding(findings, prop, o) {
			okInView[o.Rule] = false
			if os.Getenv("JIVACHECK_VIEWDEBUG") != "" && bad[o.Rule] {
				fmt.Printf("inlined view still alarms: %s | %s | %s: %s %v\n", o.Rule, o.Key, o.Where, o.Detail, o.Witness)
			}
		}
	}
	// a rule that alarms in both views is reported from the view in which fewer of its
	// obligations fail (the more specific report: the helper no longer hides the rest)
	nbadA, nbadB := map[string]int{}, map[string]int{}
	for _, o := range c.Obls {
		if (o.Status == "violated" || o.Status == "undecided") && !isOpenFinding(findings, prop, o) {
			nbadA[o.Rule]++
		}
	}
	for _, o := range cq.Obls {
		if (o.Status == "violated" || o.Status == "undecided") && !isOpenFinding(findings, prop, o) {
			nbadB[o.Rule]++
		}
	}
	fromB := map[string]bool{}
	for r := range bad {
		if okInView[r] || (cnt[r] > 0 && nbadB[r] < nbadA[r]) {
			fromB[r] = true
		}
	}
	var rescued []string
	var merged []*Obl
	for _, o := range c.Obls {
		if fromB[o.Rule] {
			continue
		}
		merged = append(merged, o)
	}
	for r := range bad {
		if okInView[r] {
			rescued = append(rescued, r)
		}
	}
	sort.Strings(rescued)
	for _, o := range cq.Obls {
		if fromB[o.Rule] {
			if o.Detail != "" {
				o.Detail += " "
			}
			o.Detail += "[decided on the inlined view]"
			merged = append(merged, o)
		}
	}
	if len(fromB) > 0 {
		c.Obls = merged
		for k, v := range cq.ruleDocs {
			c.ruleDocs[k] = v
		}
		c.P = Q
	}
	info["available"] = true
	info["rules_decided_on_inlined_view"] = rescued
	if !quietView {
		for _, n := range notes {
			fmt.Println("inlined view: " + n)
		}
		if len(rescued) > 0 {
			fmt.Println("inlined view: decided there: " + strings.Join(rescued, ", "))
		}
	}
	return c, info
}

func hasNamedResults(fd *ast.FuncDecl) bool {
	if fd.Type.Results == nil {
		return false
	}
	for _, f := range fd.Type.Results.List {
		if len(f.Names) > 0 {
			return true
		}
	}
	return false
}

// ---------------------------------------------------------------------------
// Unrolling of `for _, x := range []T{a, b}` (a literal of at most six elements, written in
// place or held by a local that is only ever ranged over): the "table-driven" form of a series
// of similar statements is expanded back into the series,
//     { { var x T = a; body } { var x T = b; body } }
// when the body neither breaks out of / continues the loop nor assigns anything the element
// expressions read, and the elements are call-free.
// ---------------------------------------------------------------------------

func (il *inliner) unrollRange(rs *ast.RangeStmt, fd *ast.FuncDecl) (string, bool) {
	info := il.pkg.TypesInfo
	if rs.Tok != token.DEFINE && !(rs.Key == nil && rs.Value == nil) {
		return "", false
	}
	var lit *ast.CompositeLit
	switch x := ast.Unparen(rs.X).(type) {
	case *ast.CompositeLit:
		lit = x
	case *ast.Ident:
		obj, _ := info.Uses[x].(*types.Var)
		if obj == nil || fd == nil || obj.Parent() == il.pkg.Types.Scope() {
			return "", false
		}
		// defined once by a literal, every other use is the operand of a range statement
		var def *ast.CompositeLit
		okUse := true
		rangeOperand := map[*ast.Ident]bool{}
		ast.Inspect(fd.Body, func(n ast.Node) bool {
			if r, ok := n.(*ast.RangeStmt); ok {
				if id, ok := ast.Unparen(r.X).(*ast.Ident); ok {
					rangeOperand[id] = true
				}
			}
			return true
		})
		ast.Inspect(fd.Body, func(n ast.Node) bool {
			switch y := n.(type) {
			case *ast.AssignStmt:
				for i, l := range y.Lhs {
					if id, ok := l.(*ast.Ident); ok && (info.Defs[id] == types.Object(obj) || info.Uses[id] == types.Object(obj)) {
						if y.Tok == token.DEFINE && info.Defs[id] == types.Object(obj) && len(y.Lhs) == len(y.Rhs) && def == nil {
							if cl, ok := ast.Unparen(y.Rhs[i]).(*ast.CompositeLit); ok {
								def = cl
								continue
							}
						}
						okUse = false
					}
				}
			case *ast.Ident:
				if info.Uses[y] == types.Object(obj) && !rangeOperand[y] {
					okUse = false
				}
			}
			return true
		})
		if !okUse || def == nil {
			return "", false
		}
		lit = def
	default:
		return "", false
	}
	at, ok := lit.Type.(*ast.ArrayType)
	if !ok || len(lit.Elts) == 0 || len(lit.Elts) > 6 {
		return "", false
	}
	elemType := il.typeText(at.Elt)
	// call-free, key-free elements; collect what they read
	reads := map[types.Object]bool{}
	plain := true
	for _, e := range lit.Elts {
		if _, isKV := e.(*ast.KeyValueExpr); isKV {
			return "", false
		}
		ast.Inspect(e, func(n ast.Node) bool {
			switch y := n.(type) {
			case *ast.CallExpr, *ast.FuncLit, *ast.UnaryExpr:
				if u, ok := y.(*ast.UnaryExpr); ok && u.Op != token.AND && u.Op != token.ARROW {
					return true
				}
				plain = false
			case *ast.CompositeLit:
				plain = false
			case *ast.Ident:
				if o := info.Uses[y]; o != nil {
					reads[o] = true
				}
			}
			return true
		})
	}
	if !plain {
		return "", false
	}
	// the body: no break / continue of this loop, no labels, no assignment to what the elements read
	bad := false
	var walk func(n ast.Node, inLoop, inSwitch bool)
	walk = func(n ast.Node, inLoop, inSwitch bool) {
		ast.Inspect(n, func(m ast.Node) bool {
			if m == nil || bad {
				return false
			}
			switch y := m.(type) {
			case *ast.FuncLit:
				return false
			case *ast.LabeledStmt:
				bad = true
			case *ast.ForStmt:
				if m != n {
					walk(y.Body, true, false)
					return false
				}
			case *ast.RangeStmt:
				if m != n {
					walk(y.Body, true, false)
					return false
				}
			case *ast.SwitchStmt:
				if m != n {
					walk(y.Body, inLoop, true)
					return false
				}
			case *ast.TypeSwitchStmt:
				if m != n {
					walk(y.Body, inLoop, true)
					return false
				}
			case *ast.SelectStmt:
				if m != n {
					walk(y.Body, inLoop, true)
					return false
				}
			case *ast.BranchStmt:
				switch y.Tok {
				case token.BREAK:
					if y.Label != nil || (!inLoop && !inSwitch) {
						bad = true
					}
				case token.CONTINUE:
					if y.Label != nil || !inLoop {
						bad = true
					}
				case token.GOTO:
					// the body defines no label (checked above): the target lies outside the loop,
					// and jumping there from each unrolled copy is what the loop did
				}
			case *ast.AssignStmt:
				for _, l := range y.Lhs {
					if id, ok := l.(*ast.Ident); ok {
						if o := info.Uses[id]; o != nil && reads[o] {
							bad = true
						}
					}
				}
			case *ast.IncDecStmt:
				if id, ok := y.X.(*ast.Ident); ok {
					if o := info.Uses[id]; o != nil && reads[o] {
						bad = true
					}
				}
			case *ast.UnaryExpr:
				if y.Op == token.AND {
					if id, ok := y.X.(*ast.Ident); ok {
						if o := info.Uses[id]; o != nil && reads[o] {
							bad = true
						}
					}
				}
			}
			return true
		})
	}
	walk(rs.Body, false, false)
	if bad {
		return "", false
	}
	// element type names must mean the same here: the literal is in this very function
	file := il.fset.Position(rs.Pos()).Filename
	src := il.src[file]
	lb, rb := il.fset.Position(rs.Body.Lbrace).Offset+1, il.fset.Position(rs.Body.Rbrace).Offset
	body := string(src[lb:rb])
	keyName, valName := "", ""
	if id, ok := rs.Key.(*ast.Ident); ok && id.Name != "_" {
		keyName = id.Name
	}
	if id, ok := rs.Value.(*ast.Ident); ok && id.Name != "_" {
		valName = id.Name
	}
	var sb strings.Builder
	sb.WriteString("{ ")
	if id, ok := ast.Unparen(rs.X).(*ast.Ident); ok {
		sb.WriteString("_ = " + id.Name + "\n")
	}
	for i, e := range lit.Elts {
		sb.WriteString("{ ")
		if keyName != "" {
			sb.WriteString(fmt.Sprintf("var %s int = %d; _ = %s; ", keyName, i, keyName))
		}
		if valName != "" {
			sb.WriteString(fmt.Sprintf("var %s %s = %s; _ = %s; ", valName, elemType, il.text(e), valName))
		}
		sb.WriteString("\n" + body + "\n}\n")
	}
	sb.WriteString("}")
	return sb.String(), true
}

// ---------------------------------------------------------------------------
// Expression helpers: a fresh function whose whole body is `return <expr>` (one result, no
// statement before it) called with side-effect-free arguments is replaced, wherever the call
// stands, by the expression with the parameters replaced by the argument texts.
// ---------------------------------------------------------------------------

func pureArg(e ast.Expr) bool {
	ok := true
	ast.Inspect(e, func(n ast.Node) bool {
		switch x := n.(type) {
		case *ast.CallExpr:
			// conversions and len/cap are fine
			if id, isID := x.Fun.(*ast.Ident); isID && (id.Name == "len" || id.Name == "cap" || id.Name == "int" || id.Name == "int64" || id.Name == "uint16" || id.Name == "uint64" || id.Name == "string") {
				return true
			}
			ok = false
		case *ast.FuncLit, *ast.CompositeLit:
			ok = false
		case *ast.UnaryExpr:
			if x.Op == token.ARROW {
				ok = false
			}
		}
		return true
	})
	return ok
}

func (il *inliner) paramObjs(fd *ast.FuncDecl) (recv *types.Var, params []*types.Var) {
	info := il.pkg.TypesInfo
	if fd.Recv != nil && len(fd.Recv.List) == 1 && len(fd.Recv.List[0].Names) == 1 {
		recv, _ = info.Defs[fd.Recv.List[0].Names[0]].(*types.Var)
	}
	if fd.Type.Params != nil {
		for _, f := range fd.Type.Params.List {
			if len(f.Names) == 0 {
				params = append(params, nil)
			}
			for _, n := range f.Names {
				v, _ := info.Defs[n].(*types.Var)
				params = append(params, v)
			}
		}
	}
	return
}

// assignsOrEscapes: the callee assigns obj (or a field of it through a value), or takes its address.
func (il *inliner) assignsOrEscapes(fd *ast.FuncDecl, obj *types.Var, allowFieldStores bool) bool {
	info := il.pkg.TypesInfo
	bad := false
	isObj := func(e ast.Expr) bool {
		id, ok := ast.Unparen(e).(*ast.Ident)
		return ok && info.Uses[id] == types.Object(obj)
	}
	rootIsObj := func(e ast.Expr) bool {
		for {
			switch x := ast.Unparen(e).(type) {
			case *ast.SelectorExpr:
				e = x.X
				continue
			case *ast.IndexExpr:
				e = x.X
				continue
			case *ast.StarExpr:
				e = x.X
				continue
			}
			return isObj(e)
		}
	}
	ast.Inspect(fd.Body, func(n ast.Node) bool {
		switch x := n.(type) {
		case *ast.AssignStmt:
			for _, l := range x.Lhs {
				if isObj(l) {
					bad = true
				} else if !allowFieldStores && rootIsObj(l) {
					bad = true
				}
			}
		case *ast.IncDecStmt:
			if isObj(x.X) || (!allowFieldStores && rootIsObj(x.X)) {
				bad = true
			}
		case *ast.UnaryExpr:
			if x.Op == token.AND && rootIsObj(x.X) {
				bad = true
			}
		case *ast.RangeStmt:
			if (x.Key != nil && isObj(x.Key)) || (x.Value != nil && isObj(x.Value)) {
				bad = true
			}
		case *ast.FuncLit:
			// captured by a literal: keep the binding
			ast.Inspect(x, func(m ast.Node) bool {
				if id, ok := m.(*ast.Ident); ok && info.Uses[id] == types.Object(obj) {
					bad = true
				}
				return true
			})
			return false
		}
		return true
	})
	return bad
}

func (il *inliner) exprHelperEdits(stmt ast.Stmt, file *ast.File) []inlineEdit {
	info := il.pkg.TypesInfo
	var out []inlineEdit
	var visit func(n ast.Node)
	visit = func(n ast.Node) {
		ast.Inspect(n, func(m ast.Node) bool {
			switch x := m.(type) {
			case *ast.FuncLit:
				return false
			case *ast.BlockStmt:
				if m != n {
					return false // nested statements are visited on their own
				}
			case *ast.CallExpr:
				var id *ast.Ident
				var recvExpr ast.Expr
				switch f := ast.Unparen(x.Fun).(type) {
				case *ast.Ident:
					id = f
				case *ast.SelectorExpr:
					id = f.Sel
					if sel := info.Selections[f]; sel != nil {
						if sel.Kind() != types.MethodVal || len(sel.Index()) > 1 {
							return true
						}
						if _, isIface := sel.Recv().Underlying().(*types.Interface); isIface {
							return true
						}
						recvExpr = f.X
					}
				}
				if id == nil {
					return true
				}
				fn, _ := info.Uses[id].(*types.Func)
				fd := il.fresh[fn]
				if fn == nil || fd == nil || len(fd.Body.List) != 1 {
					return true
				}
				ret, ok := fd.Body.List[0].(*ast.ReturnStmt)
				if !ok || len(ret.Results) != 1 || fd.Type.Results == nil || len(fd.Type.Results.List) != 1 || len(fd.Type.Results.List[0].Names) > 0 {
					return true
				}
				if fd.Type.Params != nil {
					for _, f := range fd.Type.Params.List {
						if _, isEl := f.Type.(*ast.Ellipsis); isEl {
							return true
						}
					}
				}
				recvObj, params := il.paramObjs(fd)
				if len(params) != len(x.Args) || (recvObj != nil) != (recvExpr != nil) {
					return true
				}
				// arguments: side-effect free (they are duplicated / reordered)
				for _, a := range x.Args {
					if !pureArg(a) {
						return true
					}
				}
				if recvExpr != nil && !pureArg(recvExpr) {
					return true
				}
				// a nested call of a function in the returned expression other than pure built-ins
				// is fine (evaluated once, in place), but a function literal is not
				hasLit := false
				ast.Inspect(ret.Results[0], func(k ast.Node) bool {
					if _, ok := k.(*ast.FuncLit); ok {
						hasLit = true
					}
					return true
				})
				if hasLit {
					return true
				}
				sh := il.shapeOf(fd, 0)
				if ok, _ := il.captureFree(fd, x, file, sh); !ok {
					return true
				}
				if len(il.renames[fd]) > 0 {
					delete(il.renames, fd)
					return true // type-name capture: leave to the statement inliner
				}
				// substitute
				subst := map[types.Object]string{}
				if recvObj != nil {
					rt := il.text(recvExpr)
					xt := info.TypeOf(recvExpr)
					_, xIsPtr := xt.Underlying().(*types.Pointer)
					_, rIsPtr := recvObj.Type().Underlying().(*types.Pointer)
					switch {
					case rIsPtr && !xIsPtr:
						rt = "(&" + rt + ")"
					case !rIsPtr && xIsPtr:
						rt = "(*" + rt + ")"
					default:
						rt = "(" + rt + ")"
					}
					subst[recvObj] = rt
				}
				for i, p := range params {
					if p != nil {
						subst[p] = "(" + il.text(x.Args[i]) + ")"
					}
				}
				// typed constants: an untyped constant argument keeps its meaning only inside a
				// conversion to the parameter's type
				for i, p := range params {
					if p == nil {
						continue
					}
					if tv, ok := info.Types[x.Args[i]]; ok && tv.Value != nil {
						subst[p] = sh.ptypes[i] + "(" + il.text(x.Args[i]) + ")"
						if strings.ContainsAny(sh.ptypes[i], "*[] ") {
							return true
						}
					}
				}
				efile := il.fset.Position(ret.Pos()).Filename
				src := il.src[efile]
				rs, re := il.fset.Position(ret.Results[0].Pos()).Offset, il.fset.Position(ret.Results[0].End()).Offset
				var es []inlineEdit
				ast.Inspect(ret.Results[0], func(k ast.Node) bool {
					if kid, ok := k.(*ast.Ident); ok {
						if t, ok := subst[info.Uses[kid]]; ok {
							es = append(es, inlineEdit{il.fset.Position(kid.Pos()).Offset - rs, il.fset.Position(kid.End()).Offset - rs, t})
						}
					}
					return true
				})
				sort.Slice(es, func(i, j int) bool { return es[i].start > es[j].start })
				expr := append([]byte{}, src[rs:re]...)
				for _, e := range es {
					expr = append(expr[:e.start], append([]byte(e.text), expr[e.end:]...)...)
				}
				cs, ce := il.fset.Position(x.Pos()).Offset, il.fset.Position(x.End()).Offset
				out = append(out, inlineEdit{cs, ce, "(" + string(expr) + ")"})
				il.inlinedAll[fn]++
				return false
			}
			return true
		})
	}
	// the expressions of this statement only (not of nested statements)
	switch x := stmt.(type) {
	case *ast.IfStmt:
		if x.Init != nil {
			visit(x.Init)
		}
		visit(x.Cond)
	case *ast.ForStmt:
		if x.Cond != nil {
			visit(x.Cond)
		}
	case *ast.SwitchStmt:
		if x.Tag != nil {
			visit(x.Tag)
		}
	case *ast.RangeStmt:
		visit(x.X)
	case *ast.ExprStmt, *ast.AssignStmt, *ast.ReturnStmt, *ast.IncDecStmt, *ast.SendStmt, *ast.DeclStmt, *ast.GoStmt, *ast.DeferStmt:
		// a statement that IS a call of a fresh function is the statement inliner's business
		if es, ok := x.(*ast.ExprStmt); ok {
			if c, ok := ast.Unparen(es.X).(*ast.CallExpr); ok {
				for _, a := range c.Args {
					visit(a)
				}
				return out
			}
		}
		visit(x)
	case *ast.CaseClause:
		for _, e := range x.List {
			visit(e)
		}
	}
	return out
}

// planSubst: parameters (and the receiver) of struct / pointer-to-struct type whose argument is
// a plain local variable (or its address) and which the callee neither re-assigns nor lets
// escape are not bound to a copy: the callee's uses of the parameter are rewritten to the
// caller's variable.  This keeps a local aggregate a local aggregate (see scalarise).
func (il *inliner) planSubst(fd *ast.FuncDecl, call *ast.CallExpr) {
	info := il.pkg.TypesInfo
	il.substRecv, il.substParam = false, nil
	recvObj, params := il.paramObjs(fd)
	il.substParam = make([]bool, len(params))
	localIdent := func(e ast.Expr) (*ast.Ident, bool, bool) { // ident, isAddrOf, ok
		addr := false
		e = ast.Unparen(e)
		if u, ok := e.(*ast.UnaryExpr); ok && u.Op == token.AND {
			addr = true
			e = ast.Unparen(u.X)
		}
		id, ok := e.(*ast.Ident)
		if !ok {
			return nil, false, false
		}
		v, ok := info.Uses[id].(*types.Var)
		if !ok || v.Parent() == nil || v.Parent() == il.pkg.Types.Scope() || v.IsField() {
			return nil, false, false
		}
		return id, addr, true
	}
	structish := func(t types.Type) (isPtr bool, ok bool) {
		if p, isP := t.Underlying().(*types.Pointer); isP {
			t, isPtr = p.Elem(), true
		}
		n, isN := t.(*types.Named)
		if !isN {
			return false, false
		}
		_, isS := n.Underlying().(*types.Struct)
		return isPtr, isS
	}
	seen := map[string]int{}
	note := func(e ast.Expr) {
		if id, _, ok := localIdent(e); ok {
			seen[id.Name]++
		}
	}
	if se, ok := call.Fun.(*ast.SelectorExpr); ok && recvObj != nil {
		note(se.X)
	}
	for _, a := range call.Args {
		note(a)
	}
	set := func(obj *types.Var, actual ast.Expr) bool {
		if obj == nil {
			return false
		}
		isPtr, ok := structish(obj.Type())
		if !ok {
			return false
		}
		id, addr, ok := localIdent(actual)
		if !ok || seen[id.Name] > 1 {
			return false
		}
		at := info.TypeOf(id)
		_, actualIsPtr := at.Underlying().(*types.Pointer)
		text := ""
		switch {
		case isPtr && addr:
			text = "(&" + id.Name + ")"
		case isPtr && !addr && !actualIsPtr:
			text = "(&" + id.Name + ")" // auto-address of the receiver
		case isPtr && !addr && actualIsPtr:
			text = id.Name
		case !isPtr && !addr && !actualIsPtr:
			text = id.Name
		case !isPtr && !addr && actualIsPtr:
			text = "(*" + id.Name + ")"
		default:
			return false
		}
		if il.assignsOrEscapes(fd, obj, isPtr) {
			return false
		}
		// the caller's variable must not be shadowed inside the callee by one of its locals
		shadow := false
		ast.Inspect(fd.Body, func(n ast.Node) bool {
			if d, ok := n.(*ast.Ident); ok && d.Name == id.Name {
				if o := info.Defs[d]; o != nil {
					shadow = true
				}
			}
			return true
		})
		for _, p := range append([]*types.Var{recvObj}, func() []*types.Var { _, ps := il.paramObjs(fd); return ps }()...) {
			if p != nil && p != obj && p.Name() == id.Name {
				shadow = true
			}
		}
		if shadow {
			return false
		}
		if il.renames[fd] == nil {
			il.renames[fd] = map[types.Object]string{}
		}
		il.renames[fd][obj] = text
		return true
	}
	if se, ok := call.Fun.(*ast.SelectorExpr); ok && recvObj != nil {
		il.substRecv = set(recvObj, se.X)
	}
	variadic := false
	if fd.Type.Params != nil {
		for _, f := range fd.Type.Params.List {
			if _, isEl := f.Type.(*ast.Ellipsis); isEl {
				variadic = true
			}
		}
	}
	for i, p := range params {
		if i < len(call.Args) && !(variadic && i == len(params)-1) {
			il.substParam[i] = set(p, call.Args[i])
		}
	}
}

// ---------------------------------------------------------------------------
// scalarise: a local variable of a NEW struct type (not in the symbol baseline) that is only
// ever used field by field - `v.f`, `(&v).f`, re-initialised as a whole with a literal - is
// replaced by one local per field.  "Group related locals into a struct" is then undone and
// go/ssa lifts the fields into registers again (phis, value identity), which the rules that
// follow values rely on.  Runs in a round of its own, after helpers were expanded.
// ---------------------------------------------------------------------------

var baselineStructNames map[string]bool

func (il *inliner) freshStruct(t types.Type) (*types.Named, *ast.StructType) {
	if p, isP := t.(*types.Pointer); isP {
		t = p.Elem() // `v := &T{...}` that never leaves the function is as good as a value
	}
	n, ok := t.(*types.Named)
	if !ok || n.Obj().Pkg() != il.pkg.Types {
		return nil, nil
	}
	if _, isS := n.Underlying().(*types.Struct); !isS {
		return nil, nil
	}
	if baselineStructNames == nil || baselineStructNames[short(n.Obj().Pkg().Path())+"."+n.Obj().Name()] {
		return nil, nil
	}
	for _, f := range il.pkg.Syntax {
		for _, d := range f.Decls {
			gd, ok := d.(*ast.GenDecl)
			if !ok || gd.Tok != token.TYPE {
				continue
			}
			for _, sp := range gd.Specs {
				ts := sp.(*ast.TypeSpec)
				if il.pkg.TypesInfo.Defs[ts.Name] == types.Object(n.Obj()) {
					if st, ok := ts.Type.(*ast.StructType); ok {
						return n, st
					}
				}
			}
		}
	}
	return nil, nil
}

func (il *inliner) scalarise(fd *ast.FuncDecl) []inlineEdit {
	info := il.pkg.TypesInfo
	type fieldT struct{ name, typ string }
	type cand struct {
		v      *types.Var
		fields []fieldT
		ok     bool
	}
	cands := map[*types.Var]*cand{}
	// candidates: local variable definitions of a fresh struct type
	ast.Inspect(fd.Body, func(n ast.Node) bool {
		id, ok := n.(*ast.Ident)
		if !ok {
			return true
		}
		v, ok := info.Defs[id].(*types.Var)
		if !ok || v.IsField() {
			return true
		}
		nt, st := il.freshStruct(v.Type())
		if nt == nil {
			return true
		}
		c := &cand{v: v, ok: true}
		for _, f := range st.Fields.List {
			if len(f.Names) == 0 {
				c.ok = false // embedded field
			}
			for _, fn := range f.Names {
				c.fields = append(c.fields, fieldT{fn.Name, il.typeText(f.Type)})
			}
		}
		cands[v] = c
		return true
	})
	if len(cands) == 0 {
		return nil
	}
	// classify every use
	type useT struct {
		node ast.Node
		kind string // sel | decl | assign
		v    *types.Var
		fld  string
		lit  *ast.CompositeLit
	}
	var uses []useT
	claimed := map[*ast.Ident]bool{}
	specEnd := map[ast.Node]token.Pos{}
	varOf := func(e ast.Expr) (*types.Var, *ast.Ident) {
		e = ast.Unparen(e)
		if u, ok := e.(*ast.UnaryExpr); ok && u.Op == token.AND {
			e = ast.Unparen(u.X)
		}
		id, ok := e.(*ast.Ident)
		if !ok {
			return nil, nil
		}
		if v, ok := info.Uses[id].(*types.Var); ok && cands[v] != nil {
			return v, id
		}
		if v, ok := info.Defs[id].(*types.Var); ok && cands[v] != nil {
			return v, id
		}
		return nil, nil
	}
	litOf := func(e ast.Expr, v *types.Var) *ast.CompositeLit {
		e = ast.Unparen(e)
		want := v.Type()
		if p, isP := want.(*types.Pointer); isP {
			u, ok := e.(*ast.UnaryExpr)
			if !ok || u.Op != token.AND {
				return nil
			}
			e, want = ast.Unparen(u.X), p.Elem()
		}
		cl, ok := e.(*ast.CompositeLit)
		if !ok {
			return nil
		}
		if !types.Identical(info.TypeOf(cl), want) {
			return nil
		}
		return cl
	}
	ast.Inspect(fd.Body, func(n ast.Node) bool {
		switch x := n.(type) {
		case *ast.SelectorExpr:
			if v, id := varOf(x.X); v != nil {
				if sel := info.Selections[x]; sel != nil && sel.Kind() == types.FieldVal && len(sel.Index()) == 1 {
					uses = append(uses, useT{node: x, kind: "sel", v: v, fld: x.Sel.Name})
					claimed[id] = true
					return false
				}
			}
		case *ast.AssignStmt:
			if len(x.Lhs) == 1 && len(x.Rhs) == 1 && x.Tok == token.ASSIGN {
				// `_ = v`: the keep-alive the inliner itself writes after a binding
				if lid, ok := x.Lhs[0].(*ast.Ident); ok && lid.Name == "_" {
					if rid, ok := ast.Unparen(x.Rhs[0]).(*ast.Ident); ok {
						if v, ok := info.Uses[rid].(*types.Var); ok && cands[v] != nil {
							uses = append(uses, useT{node: x, kind: "blank", v: v})
							claimed[rid] = true
							return false
						}
					}
				}
			}
			if len(x.Lhs) == 1 && len(x.Rhs) == 1 {
				if id, ok := x.Lhs[0].(*ast.Ident); ok {
					var v *types.Var
					if x.Tok == token.DEFINE {
						v, _ = info.Defs[id].(*types.Var)
					} else if x.Tok == token.ASSIGN {
						v, _ = info.Uses[id].(*types.Var)
					}
					if v != nil && cands[v] != nil {
						if cl := litOf(x.Rhs[0], v); cl != nil {
							kind := "assign"
							if x.Tok == token.DEFINE {
								kind = "decl"
							}
							uses = append(uses, useT{node: x, kind: kind, v: v, lit: cl})
							claimed[id] = true
							// the literal's elements are ordinary expressions: keep walking them
							for _, e := range cl.Elts {
								ast.Inspect(e, func(m ast.Node) bool { return true })
							}
							return true
						}
					}
				}
			}
		case *ast.DeclStmt:
			gd, ok := x.Decl.(*ast.GenDecl)
			if !ok || gd.Tok != token.VAR {
				return true
			}
			if len(gd.Specs) != 1 {
				// `var ( a int; run holeRun; ... )`: the spec of the aggregate alone is rewritten
				for _, sp := range gd.Specs {
					vs, ok := sp.(*ast.ValueSpec)
					if !ok || len(vs.Names) != 1 || len(vs.Values) != 0 {
						continue
					}
					v, _ := info.Defs[vs.Names[0]].(*types.Var)
					if v == nil || cands[v] == nil {
						continue
					}
					uses = append(uses, useT{node: vs, kind: "spec", v: v, lit: nil})
					specEnd[vs] = x.End()
					claimed[vs.Names[0]] = true
				}
				return true
			}
			vs := gd.Specs[0].(*ast.ValueSpec)
			if len(vs.Names) != 1 {
				return true
			}
			v, _ := info.Defs[vs.Names[0]].(*types.Var)
			if v == nil || cands[v] == nil {
				return true
			}
			if _, isPtr := v.Type().(*types.Pointer); isPtr && len(vs.Values) == 0 {
				return true // a nil pointer is not an aggregate
			}
			if len(vs.Values) == 0 {
				uses = append(uses, useT{node: x, kind: "decl", v: v})
				claimed[vs.Names[0]] = true
			} else if len(vs.Values) == 1 {
				if cl := litOf(vs.Values[0], v); cl != nil {
					uses = append(uses, useT{node: x, kind: "decl", v: v, lit: cl})
					claimed[vs.Names[0]] = true
				}
			}
		}
		return true
	})
	// any identifier use that was not claimed disqualifies the variable
	ast.Inspect(fd.Body, func(n ast.Node) bool {
		id, ok := n.(*ast.Ident)
		if !ok || claimed[id] {
			return true
		}
		if v, ok := info.Uses[id].(*types.Var); ok && cands[v] != nil {
			cands[v].ok = false
		}
		if v, ok := info.Defs[id].(*types.Var); ok && cands[v] != nil {
			cands[v].ok = false
		}
		return true
	})
	// literals must be keyed or complete-positional with call-free... any expressions are fine
	// (evaluated once, in source order)
	var edits []inlineEdit
	off := func(p token.Pos) int { return il.fset.Position(p).Offset }
	fname := func(v *types.Var, f string) string { return v.Name() + "__" + f }
	litValues := func(c *cand, cl *ast.CompositeLit) (map[string]string, bool) {
		vals := map[string]string{}
		if cl == nil {
			return vals, true
		}
		for i, e := range cl.Elts {
			if kv, ok := e.(*ast.KeyValueExpr); ok {
				k, ok := kv.Key.(*ast.Ident)
				if !ok {
					return nil, false
				}
				vals[k.Name] = il.text(kv.Value)
			} else {
				if i >= len(c.fields) {
					return nil, false
				}
				vals[c.fields[i].name] = il.text(e)
			}
		}
		return vals, true
	}
	done := map[*types.Var]bool{}
	selUses := map[*types.Var]map[string]int{}
	for _, u := range uses {
		if u.kind == "sel" {
			if selUses[u.v] == nil {
				selUses[u.v] = map[string]int{}
			}
			selUses[u.v][u.fld]++
		}
	}
	for _, u := range uses {
		c := cands[u.v]
		if c == nil || !c.ok {
			continue
		}
		switch u.kind {
		case "blank":
			edits = append(edits, inlineEdit{off(u.node.Pos()), off(u.node.End()), "_ = 0"})
		case "sel":
			edits = append(edits, inlineEdit{off(u.node.Pos()), off(u.node.End()), fname(u.v, u.fld)})
		case "spec":
			var sb, keep strings.Builder
			for i, f := range c.fields {
				if i > 0 {
					sb.WriteString("\n")
				}
				sb.WriteString(fmt.Sprintf("%s %s", fname(u.v, f.name), f.typ))
				keep.WriteString(fmt.Sprintf("; _ = %s", fname(u.v, f.name)))
			}
			edits = append(edits, inlineEdit{off(u.node.Pos()), off(u.node.End()), sb.String()})
			edits = append(edits, inlineEdit{off(specEnd[u.node]), off(specEnd[u.node]), keep.String()})
			done[u.v] = true
		case "decl":
			vals, ok := litValues(c, u.lit)
			if !ok {
				c.ok = false
				continue
			}
			var sb strings.Builder
			for _, f := range c.fields {
				if val, has := vals[f.name]; has {
					if strings.HasPrefix(strings.TrimSpace(val), "func(") && strings.HasPrefix(strings.TrimSpace(f.typ), "func(") && selUses[u.v][f.name] > 0 {
						// a callback: a local closure, which the next round expands at its calls
						sb.WriteString(fmt.Sprintf("%s := %s; ", fname(u.v, f.name), val))
						continue
					}
					sb.WriteString(fmt.Sprintf("var %s %s = %s; _ = %s; ", fname(u.v, f.name), f.typ, val, fname(u.v, f.name)))
				} else {
					sb.WriteString(fmt.Sprintf("var %s %s; _ = %s; ", fname(u.v, f.name), f.typ, fname(u.v, f.name)))
				}
			}
			edits = append(edits, inlineEdit{off(u.node.Pos()), off(u.node.End()), sb.String()})
			done[u.v] = true
		case "assign":
			vals, ok := litValues(c, u.lit)
			if !ok {
				c.ok = false
				continue
			}
			var ls, rs []string
			for _, f := range c.fields {
				ls = append(ls, fname(u.v, f.name))
				if val, has := vals[f.name]; has {
					rs = append(rs, val)
				} else {
					rs = append(rs, "*new("+f.typ+")")
				}
			}
			edits = append(edits, inlineEdit{off(u.node.Pos()), off(u.node.End()), strings.Join(ls, ", ") + " = " + strings.Join(rs, ", ")})
		}
	}
	// drop the edits of variables that were disqualified late
	var out []inlineEdit
	for _, u := range uses {
		_ = u
	}
	bad := map[string]bool{}
	for v, c := range cands {
		if !c.ok {
			bad[v.Name()+"__"] = true
		}
	}
	for _, e := range edits {
		skip := false
		for p := range bad {
			if strings.Contains(e.text, p) {
				skip = true
			}
		}
		if !skip {
			out = append(out, e)
		}
	}
	if len(out) > 0 {
		n := 0
		for v := range done {
			if cands[v].ok {
				n++
			}
		}
		il.scalarised += n
	}
	return out
}

// ---------------------------------------------------------------------------
// Local closures: `flush := func() {...}` defined once in a function and only ever called
// (`flush()` as a statement, or in one of the statement shapes of stmtEdit) stands for its body at
// every call.  The literal reads and writes the enclosing function's variables directly, so the
// expansion needs no binding for them - only the check that each still denotes the same variable
// at the call site.
// ---------------------------------------------------------------------------

func (il *inliner) registerClosures(fd *ast.FuncDecl) {
	info := il.pkg.TypesInfo
	ast.Inspect(fd.Body, func(n ast.Node) bool {
		as, ok := n.(*ast.AssignStmt)
		if !ok || as.Tok != token.DEFINE || len(as.Lhs) != 1 || len(as.Rhs) != 1 {
			return true
		}
		id, ok := as.Lhs[0].(*ast.Ident)
		lit, ok2 := ast.Unparen(as.Rhs[0]).(*ast.FuncLit)
		if !ok || !ok2 {
			return true
		}
		v, _ := info.Defs[id].(*types.Var)
		if v == nil {
			return true
		}
		// every use is the callee of a call; count them
		uses, bad := 0, false
		ast.Inspect(fd.Body, func(m ast.Node) bool {
			switch x := m.(type) {
			case *ast.CallExpr:
				if fid, ok := ast.Unparen(x.Fun).(*ast.Ident); ok && info.Uses[fid] == types.Object(v) {
					uses++
					for _, a := range x.Args {
						ast.Inspect(a, func(k ast.Node) bool {
							if kid, ok := k.(*ast.Ident); ok && info.Uses[kid] == types.Object(v) {
								bad = true
							}
							return true
						})
					}
					return true
				}
			case *ast.Ident:
				_ = x
			}
			return true
		})
		total := 0
		ast.Inspect(fd.Body, func(m ast.Node) bool {
			if kid, ok := m.(*ast.Ident); ok && info.Uses[kid] == types.Object(v) {
				total++
			}
			return true
		})
		if bad || uses == 0 || total != uses {
			return true // passed around, deferred as a value, ...: leave it
		}
		// go / defer of the closure are calls too, but not expandable
		ast.Inspect(fd.Body, func(m ast.Node) bool {
			switch x := m.(type) {
			case *ast.GoStmt:
				if fid, ok := ast.Unparen(x.Call.Fun).(*ast.Ident); ok && info.Uses[fid] == types.Object(v) {
					bad = true
				}
			case *ast.DeferStmt:
				if fid, ok := ast.Unparen(x.Call.Fun).(*ast.Ident); ok && info.Uses[fid] == types.Object(v) {
					bad = true
				}
			}
			return true
		})
		if bad {
			return true
		}
		sig, _ := v.Type().Underlying().(*types.Signature)
		if sig == nil {
			return true
		}
		syn := types.NewFunc(lit.Pos(), il.pkg.Types, "closure__"+id.Name, sig)
		il.closureFn[v] = syn
		il.closureLit[syn] = lit
		il.closureUses[syn] = uses
		il.closureDef[syn] = as
		il.fresh[syn] = &ast.FuncDecl{Name: ast.NewIdent("closure__" + id.Name), Type: lit.Type, Body: lit.Body}
		return true
	})
}

// dropInlinedClosures: a closure all of whose calls were expanded has no use left: its
// definition goes (an unused local would not compile).
func (il *inliner) dropInlinedClosures(fd *ast.FuncDecl, file string) {
	for syn, def := range il.closureDef {
		if def.Pos() < fd.Pos() || def.End() > fd.End() {
			continue
		}
		if il.inlinedAll[syn] > 0 && il.inlinedAll[syn] == il.closureUses[syn] {
			st, en := il.fset.Position(def.Pos()).Offset, il.fset.Position(def.End()).Offset
			il.edits[file] = append(il.edits[file], inlineEdit{st, en, "{}"})
			il.notes = append(il.notes, fmt.Sprintf("local closure %s of %s expanded at its %d call(s)", strings.TrimPrefix(syn.Name(), "closure__"), fd.Name.Name, il.inlinedAll[syn]))
		} else if il.inlinedAll[syn] > 0 {
			// partially expanded: cannot happen consistently within one round; undo by dropping
			// the edits is not possible here, so keep the definition (it is still used)
		}
		delete(il.closureDef, syn)
	}
}

// effectFreeLiteral: e is a struct literal (or its address) whose element values are function
// literals, identifiers, selectors of identifiers and basic literals: its text; "" otherwise.
func (il *inliner) effectFreeLiteral(e ast.Expr) string {
	x := ast.Unparen(e)
	if u, ok := x.(*ast.UnaryExpr); ok && u.Op == token.AND {
		x = ast.Unparen(u.X)
	}
	cl, ok := x.(*ast.CompositeLit)
	if !ok || cl.Type == nil {
		return ""
	}
	if _, isStruct := il.pkg.TypesInfo.TypeOf(cl).Underlying().(*types.Struct); !isStruct {
		return ""
	}
	for _, el := range cl.Elts {
		v := el
		if kv, ok := el.(*ast.KeyValueExpr); ok {
			v = kv.Value
		}
		switch y := ast.Unparen(v).(type) {
		case *ast.FuncLit, *ast.BasicLit, *ast.Ident:
		case *ast.SelectorExpr:
			if _, ok := ast.Unparen(y.X).(*ast.Ident); !ok {
				return ""
			}
		default:
			return ""
		}
	}
	return il.text(e)
}

// funcParamBinding: parameter i of fd has a function type, the callee only ever calls it, and the
// argument is a function constant: a literal (returned as written), or a function name / method
// expression / method value of a stable local (returned wrapped in a literal of the parameter's
// signature).  "" otherwise.
func (il *inliner) funcParamBinding(fd *ast.FuncDecl, i int, arg ast.Expr) string {
	info := il.pkg.TypesInfo
	_, params := il.paramObjs(fd)
	if i >= len(params) || params[i] == nil {
		return ""
	}
	obj := params[i]
	sig, ok := obj.Type().Underlying().(*types.Signature)
	if !ok || sig.Variadic() {
		return ""
	}
	// every use of the parameter is the callee of a call (not of go / defer), at least one
	uses, total, bad := 0, 0, false
	ast.Inspect(fd.Body, func(n ast.Node) bool {
		switch x := n.(type) {
		case *ast.CallExpr:
			if id, ok := ast.Unparen(x.Fun).(*ast.Ident); ok && info.Uses[id] == types.Object(obj) {
				uses++
			}
		case *ast.GoStmt:
			if id, ok := ast.Unparen(x.Call.Fun).(*ast.Ident); ok && info.Uses[id] == types.Object(obj) {
				bad = true
			}
		case *ast.DeferStmt:
			if id, ok := ast.Unparen(x.Call.Fun).(*ast.Ident); ok && info.Uses[id] == types.Object(obj) {
				bad = true
			}
		case *ast.Ident:
			if info.Uses[x] == types.Object(obj) {
				total++
			}
		}
		return true
	})
	if bad || uses == 0 || uses != total {
		return ""
	}
	arg = ast.Unparen(arg)
	if lit, ok := arg.(*ast.FuncLit); ok {
		return il.text(lit)
	}
	isFuncConst := false
	methodExpr := ""
	switch x := arg.(type) {
	case *ast.Ident:
		_, isFuncConst = info.Uses[x].(*types.Func)
	case *ast.SelectorExpr:
		if sel := info.Selections[x]; sel != nil {
			switch sel.Kind() {
			case types.MethodExpr:
				isFuncConst = true
				methodExpr = x.Sel.Name
			case types.MethodVal:
				isFuncConst = il.stableLocal(x.X)
			}
		} else if _, ok := info.Uses[x.Sel].(*types.Func); ok {
			isFuncConst = true // pkg.F
		}
	}
	if !isFuncConst {
		return ""
	}
	foreign := false
	q := func(p *types.Package) string {
		if p == il.pkg.Types {
			return ""
		}
		foreign = true
		return p.Name()
	}
	var ps, as []string
	for k := 0; k < sig.Params().Len(); k++ {
		ps = append(ps, fmt.Sprintf("p__f%d %s", k, types.TypeString(sig.Params().At(k).Type(), q)))
		as = append(as, fmt.Sprintf("p__f%d", k))
	}
	var rs []string
	for k := 0; k < sig.Results().Len(); k++ {
		rs = append(rs, types.TypeString(sig.Results().At(k).Type(), q))
	}
	if foreign {
		return ""
	}
	ret := "return "
	if len(rs) == 0 {
		ret = ""
	}
	if methodExpr != "" && len(as) > 0 {
		// T.M(x, a...) is x.M(a...); go/ssa would route the former through a thunk
		return fmt.Sprintf("func(%s) (%s) { %s%s.%s(%s) }", strings.Join(ps, ", "), strings.Join(rs, ", "), ret, as[0], methodExpr, strings.Join(as[1:], ", "))
	}
	return fmt.Sprintf("func(%s) (%s) { %s%s(%s) }", strings.Join(ps, ", "), strings.Join(rs, ", "), ret, il.text(arg), strings.Join(as, ", "))
}

// stableLocal: e is a local variable or parameter of the current function that is assigned
// nowhere but at its definition and whose address is not taken: its value at any later point is
// its value now.
func (il *inliner) stableLocal(e ast.Expr) bool {
	info := il.pkg.TypesInfo
	id, ok := ast.Unparen(e).(*ast.Ident)
	if !ok || il.curFn == nil {
		return false
	}
	v, ok := info.Uses[id].(*types.Var)
	if !ok || v.IsField() || v.Parent() == il.pkg.Types.Scope() {
		return false
	}
	stable := true
	ast.Inspect(il.curFn.Body, func(n ast.Node) bool {
		switch x := n.(type) {
		case *ast.AssignStmt:
			if x.Tok != token.DEFINE {
				for _, l := range x.Lhs {
					if lid, ok := ast.Unparen(l).(*ast.Ident); ok && info.Uses[lid] == types.Object(v) {
						stable = false
					}
				}
			} else {
				for _, l := range x.Lhs {
					// re-declaration in a := with a new sibling re-assigns
					if lid, ok := l.(*ast.Ident); ok && info.Uses[lid] == types.Object(v) {
						stable = false
					}
				}
			}
		case *ast.IncDecStmt:
			if lid, ok := ast.Unparen(x.X).(*ast.Ident); ok && info.Uses[lid] == types.Object(v) {
				stable = false
			}
		case *ast.UnaryExpr:
			if x.Op == token.AND {
				if lid, ok := ast.Unparen(x.X).(*ast.Ident); ok && info.Uses[lid] == types.Object(v) {
					stable = false
				}
			}
		case *ast.RangeStmt:
			for _, l := range []ast.Expr{x.Key, x.Value} {
				if lid, ok := l.(*ast.Ident); ok && x.Tok == token.ASSIGN && info.Uses[lid] == types.Object(v) {
					stable = false
				}
			}
		}
		return true
	})
	return stable
}

// pureFresh: the new helper computes a value and does nothing else: no assignment to anything but
// its own locals, no calls except builtins len / cap and other pure new helpers, no go / defer /
// send / function literals.
func (il *inliner) pureFresh(fd *ast.FuncDecl, depth int) bool {
	if fd == nil || fd.Body == nil || depth > 3 {
		return false
	}
	info := il.pkg.TypesInfo
	own := map[types.Object]bool{}
	if fd.Recv != nil {
		for _, f := range fd.Recv.List {
			for _, n := range f.Names {
				own[info.Defs[n]] = true
			}
		}
	}
	for _, f := range fd.Type.Params.List {
		for _, n := range f.Names {
			own[info.Defs[n]] = true
		}
	}
	if fd.Type.Results != nil {
		for _, f := range fd.Type.Results.List {
			for _, n := range f.Names {
				own[info.Defs[n]] = true
			}
		}
	}
	ok := true
	ast.Inspect(fd.Body, func(n ast.Node) bool {
		switch x := n.(type) {
		case *ast.AssignStmt:
			for _, l := range x.Lhs {
				id, isID := l.(*ast.Ident)
				if !isID {
					ok = false
					continue
				}
				if d := info.Defs[id]; d != nil {
					own[d] = true
				} else if !own[info.Uses[id]] {
					ok = false
				}
			}
		case *ast.RangeStmt:
			for _, e := range []ast.Expr{x.Key, x.Value} {
				if id, isID := e.(*ast.Ident); isID {
					if d := info.Defs[id]; d != nil {
						own[d] = true
					} else if !own[info.Uses[id]] && id.Name != "_" {
						ok = false
					}
				} else if e != nil {
					ok = false
				}
			}
		case *ast.DeclStmt:
			if gd, isGD := x.Decl.(*ast.GenDecl); isGD {
				for _, sp := range gd.Specs {
					if vs, isVS := sp.(*ast.ValueSpec); isVS {
						for _, nm := range vs.Names {
							own[info.Defs[nm]] = true
						}
					}
				}
			}
		case *ast.IncDecStmt:
			if id, isID := x.X.(*ast.Ident); !isID || !own[info.Uses[id]] {
				ok = false
			}
		case *ast.GoStmt, *ast.DeferStmt, *ast.SendStmt, *ast.FuncLit, *ast.SelectStmt:
			ok = false
		case *ast.UnaryExpr:
			if x.Op == token.ARROW || x.Op == token.AND {
				ok = false
			}
		case *ast.CallExpr:
			if tv, has := info.Types[x.Fun]; has && tv.IsType() {
				return true
			}
			if id, isID := x.Fun.(*ast.Ident); isID {
				if _, isB := info.Uses[id].(*types.Builtin); isB && (id.Name == "len" || id.Name == "cap" || id.Name == "max" || id.Name == "min") {
					return true
				}
			}
			var cid *ast.Ident
			switch f := ast.Unparen(x.Fun).(type) {
			case *ast.Ident:
				cid = f
			case *ast.SelectorExpr:
				cid = f.Sel
			}
			if cid != nil {
				if fn, _ := info.Uses[cid].(*types.Func); fn != nil && il.fresh[fn] != nil && il.fresh[fn] != fd && il.pureFresh(il.fresh[fn], depth+1) {
					return true
				}
				// library functions that only compute
				if fn, _ := info.Uses[cid].(*types.Func); fn != nil && fn.Pkg() != nil && pureLibFunc[fn.Pkg().Path()+"."+fn.Name()] {
					if sig, _ := fn.Type().(*types.Signature); sig != nil && sig.Recv() == nil {
						return true
					}
				}
				// the read-only methods of a context
				if fn, _ := info.Uses[cid].(*types.Func); fn != nil && fn.Pkg() != nil && fn.Pkg().Path() == "context" {
					switch fn.Name() {
					case "Value", "Err", "Deadline":
						if sig, _ := fn.Type().(*types.Signature); sig != nil && sig.Recv() != nil {
							return true
						}
					}
				}
			}
			ok = false
		}
		return ok
	})
	return ok
}

// hoistNestedPure: see stmtEdit.
func (il *inliner) hoistNestedPure(stmt ast.Stmt, calleeOf func(ast.Expr) (*types.Func, *ast.CallExpr)) (string, bool) {
	var roots []ast.Expr
	braces := false
	var ifs *ast.IfStmt
	switch x := stmt.(type) {
	case *ast.ReturnStmt:
		roots = append(roots, x.Results...)
		braces = true
	case *ast.IfStmt:
		ifs = x
		if x.Init != nil {
			as, ok := x.Init.(*ast.AssignStmt)
			if !ok {
				return "", false
			}
			roots = append(roots, as.Rhs...)
		}
		roots = append(roots, x.Cond)
		braces = true
	case *ast.AssignStmt:
		roots = append(roots, x.Rhs...)
	case *ast.ExprStmt:
		roots = append(roots, x.X)
	default:
		return "", false
	}
	type hit struct {
		call *ast.CallExpr
		tmp  string
	}
	var hits []hit
	for _, r := range roots {
		whole := ast.Unparen(r)
		ast.Inspect(r, func(n ast.Node) bool {
			if _, isLit := n.(*ast.FuncLit); isLit {
				return false
			}
			c, ok := n.(*ast.CallExpr)
			if !ok {
				return true
			}
			fn, call := calleeOf(c)
			if fn == nil || call != c {
				return true
			}
			// the whole right-hand side / condition / single result is the business of the other shapes
			if ast.Node(whole) == ast.Node(c) {
				if _, isRet := stmt.(*ast.ReturnStmt); !isRet || len(roots) == 1 {
					if ifs == nil || ifs.Init == nil {
						return false
					}
				}
			}
			fd := il.fresh[fn]
			if fd == nil || fd.Type.Results == nil || len(fd.Type.Results.List) != 1 || len(fd.Type.Results.List[0].Names) > 1 {
				return true
			}
			if !il.pureFresh(fd, 0) {
				return true
			}
			for _, a := range c.Args {
				if !pureArg(a) {
					return true
				}
			}
			if se, isSel := ast.Unparen(c.Fun).(*ast.SelectorExpr); isSel && !pureArg(se.X) {
				return true
			}
			inlineSeq++
			hits = append(hits, hit{c, fmt.Sprintf("h__inl%d", inlineSeq)})
			return false
		})
	}
	if len(hits) == 0 {
		return "", false
	}
	file := il.fset.Position(stmt.Pos()).Filename
	src := il.src[file]
	if src == nil {
		return "", false
	}
	st, en := il.fset.Position(stmt.Pos()).Offset, il.fset.Position(stmt.End()).Offset
	var pre strings.Builder
	body := string(src[st:en])
	// replace from the back so that offsets stay valid
	for i := len(hits) - 1; i >= 0; i-- {
		cs, ce := il.fset.Position(hits[i].call.Pos()).Offset-st, il.fset.Position(hits[i].call.End()).Offset-st
		body = body[:cs] + hits[i].tmp + body[ce:]
	}
	for _, h := range hits {
		pre.WriteString(h.tmp + " := " + il.text(h.call) + "\n")
	}
	il.exprInlined += len(hits)
	if braces {
		return "{ " + pre.String() + body + " }", true
	}
	return pre.String() + body, true
}

// pureLibFunc: standard-library functions without effects (used to recognise new helpers that
// only compute a value).
var pureLibFunc = map[string]bool{
	"errors.Is": true, "os.IsNotExist": true, "os.IsExist": true, "os.IsPermission": true, "os.IsTimeout": true,
	"strings.HasPrefix": true, "strings.HasSuffix": true, "strings.Contains": true, "strings.TrimSpace": true,
	"strings.ToLower": true, "strings.ToUpper": true, "strings.TrimPrefix": true, "strings.TrimSuffix": true,
	"strings.EqualFold": true, "strings.Split": true, "strings.Join": true, "strings.Index": true, "strings.LastIndex": true,
	"fmt.Sprintf": true, "fmt.Sprint": true, "fmt.Errorf": true, "errors.New": true,
	"path/filepath.Join": true, "path/filepath.Base": true, "path/filepath.Dir": true, "path.Join": true, "path.Base": true,
}
