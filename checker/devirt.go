package main

import (
	"go/token"
	"go/types"

	"golang.org/x/tools/go/ssa"
)

// Dependency injection seen through.  "Route a call of os.Stat / time.After / a package function
// through a func-typed field (or a tiny interface) that the constructor sets to the original" is a
// behaviour-preserving edit that turns a static call into a dynamic one.  A field-based,
// flow-insensitive resolution undoes it soundly:
//   - a func-typed struct field into which EVERY store of the program puts the same function
//     constant holds that function (or nil: the call then panics, it never reaches another callee);
//   - an interface-typed struct field into which every store puts a value of the same concrete
//     type dispatches to that type's methods; when such a method is a NEW one-line forwarder
//     (`func (osFiles) Link(a, b string) error { return os.Link(a, b) }`) the call stands for the
//     call it forwards to.
// Test packages are not part of the loaded program, so mocks installed by tests do not count.

type fieldFacts struct {
	glob    map[*ssa.Global]*ssa.Function // package-level func variables; nil value: not unique
	fn      map[*types.Var]*ssa.Function  // nil value: not unique
	concr   map[*types.Var]types.Type     // nil value: not unique
	hasFn   map[*types.Var]bool
	hasConc map[*types.Var]bool
}

var fieldFactsMemo = map[*ssa.Program]*fieldFacts{}

func fieldVarOf(fa *ssa.FieldAddr) *types.Var {
	pt, ok := fa.X.Type().Underlying().(*types.Pointer)
	if !ok {
		return nil
	}
	st, ok := pt.Elem().Underlying().(*types.Struct)
	if !ok {
		return nil
	}
	return st.Field(fa.Field)
}

func computeFieldFacts(prog *ssa.Program, all []*ssa.Function) *fieldFacts {
	if ff, ok := fieldFactsMemo[prog]; ok {
		return ff
	}
	ff := &fieldFacts{glob: map[*ssa.Global]*ssa.Function{}, fn: map[*types.Var]*ssa.Function{}, concr: map[*types.Var]types.Type{}, hasFn: map[*types.Var]bool{}, hasConc: map[*types.Var]bool{}}
	note := func(fv *types.Var, val ssa.Value) {
		switch fv.Type().Underlying().(type) {
		case *types.Signature:
			var f *ssa.Function
			switch x := val.(type) {
			case *ssa.Function:
				f = x
			case *ssa.MakeClosure:
				if len(x.Bindings) == 0 {
					f, _ = x.Fn.(*ssa.Function)
				}
			case *ssa.ChangeType:
				if g, ok := x.X.(*ssa.Function); ok {
					f = g
				}
			}
			if c, ok := val.(*ssa.Const); ok && c.IsNil() {
				return // nil: calling it panics
			}
			if prev, seen := ff.fn[fv]; seen && prev != f {
				ff.fn[fv] = nil
			} else if !seen {
				ff.fn[fv] = f
			}
			ff.hasFn[fv] = true
		case *types.Interface:
			if c, ok := val.(*ssa.Const); ok && c.IsNil() {
				return
			}
			var t types.Type
			if mi, ok := val.(*ssa.MakeInterface); ok {
				t = mi.X.Type()
			}
			// a constructor that takes the dependency as a parameter: every caller of the
			// (unexported) constructor hands it a value of one concrete type
			if pr, ok := val.(*ssa.Parameter); ok && pr.Parent() != nil && !pr.Parent().Object().Exported() {
				t = paramConcrete(pr, all)
			}
			if prev, seen := ff.concr[fv]; seen && (prev == nil || t == nil || !types.Identical(prev, t)) {
				ff.concr[fv] = nil
			} else if !seen {
				ff.concr[fv] = t
			}
			ff.hasConc[fv] = true
		}
	}
	for _, f := range all {
		for _, b := range f.Blocks {
			for _, in := range b.Instrs {
				st, ok := in.(*ssa.Store)
				if !ok {
					continue
				}
				if fa, ok := st.Addr.(*ssa.FieldAddr); ok {
					if fv := fieldVarOf(fa); fv != nil {
						note(fv, st.Val)
					}
				}
				// a package-level function variable (`var osRemove = os.Remove`, a test seam): every
				// store of the program - its initialiser included - puts the same function there
				if g, ok := st.Addr.(*ssa.Global); ok {
					if pt, ok := g.Type().Underlying().(*types.Pointer); ok {
						if _, isSig := pt.Elem().Underlying().(*types.Signature); isSig {
							var f *ssa.Function
							switch x := st.Val.(type) {
							case *ssa.Function:
								f = x
							case *ssa.ChangeType:
								f, _ = x.X.(*ssa.Function)
							case *ssa.MakeClosure:
								if len(x.Bindings) == 0 {
									f, _ = x.Fn.(*ssa.Function)
								}
							}
							if prev, seen := ff.glob[g]; seen && prev != f {
								ff.glob[g] = nil
							} else if !seen {
								ff.glob[g] = f
							}
						}
					}
				}
			}
		}
	}
	fieldFactsMemo[prog] = ff
	return ff
}

var curFieldFacts *fieldFacts

// loadedField: v is a load of a struct field (through a pointer or of a struct value).
func loadedField(v ssa.Value) *types.Var {
	switch x := v.(type) {
	case *ssa.UnOp:
		if x.Op == token.MUL {
			if fa, ok := x.X.(*ssa.FieldAddr); ok {
				return fieldVarOf(fa)
			}
		}
	case *ssa.Field:
		if st, ok := x.X.Type().Underlying().(*types.Struct); ok {
			return st.Field(x.Field)
		}
	}
	return nil
}

// forwarder: m is a fresh one-block method that forwards its own parameters, in order, to one
// other function and returns that call's results unchanged: the target.
func forwarder(m *ssa.Function) *ssa.Function {
	// a new named function, or a literal without free variables (the initialiser of a seam
	// variable: `var dial = func(a string) (net.Conn, error) { return net.Dial("tcp", a) }`)
	if m == nil || len(m.Blocks) != 1 || !(isFreshFn(m) || (m.Parent() != nil && len(m.FreeVars) == 0)) {
		return nil
	}
	var call *ssa.Call
	var ret *ssa.Return
	for _, in := range m.Blocks[0].Instrs {
		switch x := in.(type) {
		case *ssa.Call:
			if call != nil {
				return nil
			}
			call = x
		case *ssa.Return:
			ret = x
		case *ssa.Extract, *ssa.DebugRef:
		case *ssa.Convert, *ssa.ChangeType:
			// `int(fd)`: a literal may adapt the type of a parameter
			if m.Parent() == nil {
				return nil
			}
		default:
			return nil
		}
	}
	if call == nil || ret == nil || call.Call.IsInvoke() {
		return nil
	}
	g := call.Call.StaticCallee()
	if g == nil || g.Parent() != nil {
		return nil
	}
	own := m.Params
	if m.Signature.Recv() != nil {
		own = own[1:]
	}
	// the arguments are the function's own parameters, in order; a literal may add constants
	k := 0
	for _, a := range call.Call.Args {
		if _, isConst := a.(*ssa.Const); isConst && m.Parent() != nil {
			continue
		}
		if m.Parent() != nil {
			a = stripConv(a)
		}
		if k >= len(own) || a != ssa.Value(own[k]) {
			return nil
		}
		k++
	}
	if k != len(own) {
		return nil
	}
	n := g.Signature.Results().Len()
	if len(ret.Results) != n {
		return nil
	}
	for i, r := range ret.Results {
		if n == 1 {
			if r != ssa.Value(call) {
				return nil
			}
		} else if ex, ok := r.(*ssa.Extract); !ok || ex.Tuple != ssa.Value(call) || ex.Index != i {
			return nil
		}
	}
	return g
}

// injectedCallee: the function a dynamic call through an injected dependency reaches, and whether
// the receiver operand is to be dropped from the argument list (forwarding method).
func injectedCallee(cc *ssa.CallCommon) (*ssa.Function, bool) {
	var ff *fieldFacts
	if in, ok := cc.Value.(ssa.Instruction); ok && in.Parent() != nil {
		ff = fieldFactsMemo[in.Parent().Prog]
	}
	if ff == nil {
		return nil, false
	}
	if cc.IsInvoke() {
		fv := loadedField(cc.Value)
		if fv == nil {
			return nil, false
		}
		t := ff.concr[fv]
		if t == nil {
			return nil, false
		}
		var prog *ssa.Program
		if in, ok := cc.Value.(ssa.Instruction); ok && in.Parent() != nil {
			prog = in.Parent().Prog
		}
		if prog == nil {
			return nil, false
		}
		m := prog.LookupMethod(t, cc.Method.Pkg(), cc.Method.Name())
		if m == nil {
			return nil, false
		}
		if g := forwarder(m); g != nil {
			return g, true
		}
		// the one concrete type's own method
		if m.Blocks != nil {
			return m, false
		}
		return nil, false
	}
	if cc.StaticCallee() != nil {
		return nil, false
	}
	if ld, ok := cc.Value.(*ssa.UnOp); ok && ld.Op == token.MUL {
		if g, ok := ld.X.(*ssa.Global); ok {
			if f := ff.glob[g]; f != nil {
				if fw := forwarder(f); fw != nil {
					return fw, false
				}
				if f.Parent() == nil {
					return f, false
				}
			}
			return nil, false
		}
	}
	fv := loadedField(cc.Value)
	if fv == nil {
		return nil, false
	}
	if f := ff.fn[fv]; f != nil && f.Parent() == nil {
		return f, false
	}
	return nil, false
}

// calleeOf: the static callee of a call, seen through injected dependencies.
func calleeOf(cc *ssa.CallCommon) *ssa.Function {
	if f := cc.StaticCallee(); f != nil {
		return f
	}
	if g, _ := injectedCallee(cc); g != nil {
		return g
	}
	return nil
}

// paramConcrete: the one concrete type every static call of the parameter's function passes for it
// (as a direct conversion to the interface), or nil.
func paramConcrete(pr *ssa.Parameter, all []*ssa.Function) types.Type {
	h := pr.Parent()
	idx := -1
	for i, q := range h.Params {
		if q == pr {
			idx = i
		}
	}
	if idx < 0 {
		return nil
	}
	var t types.Type
	n := 0
	for _, f := range all {
		for _, b := range f.Blocks {
			for _, in := range b.Instrs {
				ci, ok := in.(ssa.CallInstruction)
				if !ok || ci.Common().StaticCallee() != h || idx >= len(ci.Common().Args) {
					continue
				}
				n++
				mi, ok := ci.Common().Args[idx].(*ssa.MakeInterface)
				if !ok {
					return nil
				}
				if t != nil && !types.Identical(t, mi.X.Type()) {
					return nil
				}
				t = mi.X.Type()
			}
		}
	}
	if n == 0 {
		return nil
	}
	return t
}

// targetArgs: the arguments of a call as the function it finally reaches receives them, when the
// call goes through a package-level seam variable initialised with a forwarding literal that
// adds constants or converts a parameter's type; the call's own arguments otherwise.
func targetArgs(call *ssa.Call) []ssa.Value {
	cc := &call.Call
	if cc.IsInvoke() || cc.StaticCallee() != nil {
		return cc.Args
	}
	ld, ok := cc.Value.(*ssa.UnOp)
	if !ok || ld.Op != token.MUL {
		return cc.Args
	}
	g, ok := ld.X.(*ssa.Global)
	if !ok || call.Parent() == nil {
		return cc.Args
	}
	ff := fieldFactsMemo[call.Parent().Prog]
	if ff == nil {
		return cc.Args
	}
	m := ff.glob[g]
	if m == nil || forwarder(m) == nil {
		return cc.Args
	}
	var inner *ssa.Call
	for _, in := range m.Blocks[0].Instrs {
		if x, ok := in.(*ssa.Call); ok {
			inner = x
		}
	}
	if inner == nil {
		return cc.Args
	}
	var out []ssa.Value
	for _, a := range inner.Call.Args {
		if _, isConst := a.(*ssa.Const); isConst {
			out = append(out, a)
			continue
		}
		found := false
		for k, p := range m.Params {
			if stripConv(a) == ssa.Value(p) && k < len(cc.Args) {
				out = append(out, cc.Args[k])
				found = true
			}
		}
		if !found {
			return cc.Args
		}
	}
	return out
}
