package main

import (
	"fmt"
	"sort"
	"strings"

	"golang.org/x/tools/go/ssa"
)

// ---------------------------------------------------------------------------
// Generic finite typestate engine with interprocedural summaries split by the nil-ness
// of the returned error (rule kind TS of DESIGN.md).  The abstract state is a short
// string; the client supplies the effect of primitive instructions.  Path-sensitive:
// (block, state, known error kinds) triples are explored; a callee is applied through
// Summary(callee, state-at-call) which yields the set of (return kind, state-at-exit).
// ---------------------------------------------------------------------------

type tsExit struct {
	Kind byte // 'n' nil error, 'e' non-nil error, 'u' unknown / no error result
	Out  string
}

type TS struct {
	P *Prog
	// Prim returns the new state if `in` is a primitive event (ok=true).
	Prim func(fn *ssa.Function, R *Renderer, in ssa.Instruction, st string) (string, bool)
	// Follow: callees whose bodies are summarised (others are no-ops unless Prim handles them).
	Follow func(g *ssa.Function) bool
	// FaultFree: at a call, only the callee's exits that are not provably error returns are
	// continued (the analysis covers the executions on which every callee reports success).
	FaultFree bool
	// PruneEdge: edges (by the canonical atom that holds on them) that are assumed infeasible.
	PruneEdge func(atom string) bool
	memo      map[string][]tsExit
	inprog    map[string]bool
	States    int
	// Trace of one path per (fn,in,exit) for witnesses
	traces map[string][]*ssa.BasicBlock
	rend   map[*ssa.Function]*Renderer
}

func newTS(P *Prog) *TS {
	return &TS{P: P, memo: map[string][]tsExit{}, inprog: map[string]bool{}, traces: map[string][]*ssa.BasicBlock{}, rend: map[*ssa.Function]*Renderer{}}
}

func (T *TS) R(fn *ssa.Function) *Renderer {
	r, ok := T.rend[fn]
	if !ok {
		r = NewRenderer(fn)
		T.rend[fn] = r
	}
	return r
}

type tstate struct {
	st       string
	known    map[ssa.Value]byte
	deferred []ssa.Instruction
}

func (s tstate) key() string {
	var kn []string
	for v, k := range s.known {
		kn = append(kn, fmt.Sprintf("%p%c", v, k))
	}
	sort.Strings(kn)
	var ds []string
	for _, d := range s.deferred {
		ds = append(ds, fmt.Sprintf("%p", d))
	}
	return s.st + "|" + strings.Join(kn, ",") + "|" + strings.Join(ds, ",")
}

func (s tstate) clone() tstate {
	n := tstate{st: s.st, known: map[ssa.Value]byte{}}
	for k, v := range s.known {
		n.known[k] = v
	}
	n.deferred = append([]ssa.Instruction{}, s.deferred...)
	return n
}

func (T *TS) TraceKey(fn *ssa.Function, in string, e tsExit) string {
	return FnName(fn) + "|" + in + "|" + string(e.Kind) + "|" + e.Out
}

func (T *TS) Summary(fn *ssa.Function, in string) []tsExit {
	k := FnName(fn) + "\x00" + in
	if s, ok := T.memo[k]; ok {
		return s
	}
	if T.inprog[k] {
		return []tsExit{{'u', in}}
	}
	T.inprog[k] = true
	ex := T.explore(fn, in)
	delete(T.inprog, k)
	T.memo[k] = ex
	return ex
}

func (T *TS) explore(fn *ssa.Function, in string) []tsExit {
	if len(fn.Blocks) == 0 {
		return []tsExit{{'u', in}}
	}
	R := T.R(fn)
	type node struct {
		b *ssa.BasicBlock
		k string
	}
	type item struct {
		b *ssa.BasicBlock
		s tstate
	}
	seen := map[node]bool{}
	prev := map[node]node{}
	exits := map[tsExit]bool{}
	queue := []item{{fn.Blocks[0], tstate{st: in, known: map[ssa.Value]byte{}}}}
	trace := func(n node) []*ssa.BasicBlock {
		var w []*ssa.BasicBlock
		cur := n
		for i := 0; i < 2000; i++ {
			w = append(w, cur.b)
			p, ok := prev[cur]
			if !ok {
				break
			}
			cur = p
		}
		for i, j := 0, len(w)-1; i < j; i, j = i+1, j-1 {
			w[i], w[j] = w[j], w[i]
		}
		return w
	}
	applyCall := func(s tstate, call ssa.CallInstruction, splitKind bool) []tstate {
		if ns, ok := T.Prim(fn, R, call, s.st); ok {
			s.st = ns
			return []tstate{s}
		}
		var g *ssa.Function
		cc := call.Common()
		if f := cc.StaticCallee(); f != nil {
			g = f
		} else if mc, ok := cc.Value.(*ssa.MakeClosure); ok {
			g = mc.Fn.(*ssa.Function)
		}
		if g == nil || g.Blocks == nil || T.Follow == nil || !T.Follow(g) {
			return []tstate{s}
		}
		var out []tstate
		var ev ssa.Value
		if splitKind {
			ev = errOfCall(call)
		}
		sum := T.Summary(g, s.st)
		if T.FaultFree {
			var ok []tsExit
			for _, e := range sum {
				if e.Kind != 'e' {
					ok = append(ok, e)
				}
			}
			if len(ok) > 0 {
				sum = ok
			}
		}
		for _, e := range sum {
			ns := s.clone()
			ns.st = e.Out
			if ev != nil && e.Kind != 'u' {
				ns.known[ev] = e.Kind
			}
			out = append(out, ns)
		}
		return out
	}
	for len(queue) > 0 {
		it := queue[0]
		queue = queue[1:]
		n := node{it.b, it.s.key()}
		if seen[n] {
			continue
		}
		seen[n] = true
		T.States++
		if len(seen) > 40000 {
			break
		}
		states := []tstate{it.s.clone()}
		stopped := false
		for _, in := range it.b.Instrs {
			var next []tstate
			for _, s := range states {
				switch x := in.(type) {
				case *ssa.Defer:
					s.deferred = append(s.deferred, in)
					next = append(next, s)
				case *ssa.RunDefers:
					cur := []tstate{s}
					for i := len(s.deferred) - 1; i >= 0; i-- {
						var nn []tstate
						for _, c := range cur {
							nn = append(nn, applyCall(c, s.deferred[i].(ssa.CallInstruction), false)...)
						}
						cur = nn
					}
					for i := range cur {
						cur[i].deferred = nil
					}
					next = append(next, cur...)
				case *ssa.Go:
					next = append(next, s)
				case *ssa.Call:
					next = append(next, applyCall(s, x, true)...)
				case *ssa.Return:
					kind := byte('u')
					if ei := errResultIndex(fn); ei >= 0 && ei < len(x.Results) {
						v := strip(x.Results[ei])
						switch {
						case isNilConst(v):
							kind = 'n'
						case provablyNonNilError(v):
							kind = 'e'
						default:
							if k, ok := s.known[v]; ok {
								kind = k
							}
						}
					}
					e := tsExit{kind, s.st}
					if !exits[e] {
						exits[e] = true
						T.traces[T.TraceKey(fn, in2s(it.s.st, it), e)] = nil
						tk := FnName(fn) + "|" + string(kind) + "|" + s.st
						if _, ok := T.traces[tk]; !ok {
							T.traces[tk] = trace(n)
						}
					}
					next = append(next, s)
				default:
					if ns, ok := T.Prim(fn, R, in, s.st); ok {
						s.st = ns
					}
					next = append(next, s)
				}
			}
			states = dedupT(next)
			if isTerminatorCall(in) {
				stopped = true
				break
			}
		}
		if stopped {
			continue
		}
		for _, s := range states {
			for k, succ := range it.b.Succs {
				ns := s.clone()
				if iff, ok := it.b.Instrs[len(it.b.Instrs)-1].(*ssa.If); ok {
					if T.PruneEdge != nil {
						at := R.CondAtom(iff.Cond)
						if k == 1 {
							at = at.Neg()
						}
						if T.PruneEdge(at.String()) {
							continue
						}
					}
					if v, isNil, ok := nilTestOf(iff.Cond); ok {
						want := byte('e')
						if (isNil && k == 0) || (!isNil && k == 1) {
							want = 'n'
						}
						sv := strip(v)
						if have, ok := ns.known[sv]; ok && have != want {
							continue
						}
						ns.known[sv] = want
					}
				}
				nn := node{succ, ns.key()}
				if !seen[nn] {
					if _, ok := prev[nn]; !ok {
						prev[nn] = n
					}
					queue = append(queue, item{succ, ns})
				}
			}
		}
	}
	var out []tsExit
	for e := range exits {
		out = append(out, e)
	}
	sort.Slice(out, func(i, j int) bool { return fmt.Sprint(out[i]) < fmt.Sprint(out[j]) })
	if len(out) == 0 {
		out = []tsExit{{'u', in}}
	}
	return out
}

func in2s(s string, _ interface{}) string { return s }

func dedupT(xs []tstate) []tstate {
	seen := map[string]bool{}
	var out []tstate
	for _, s := range xs {
		k := s.key()
		if !seen[k] {
			seen[k] = true
			out = append(out, s)
		}
	}
	return out
}

// WitnessFor returns one path of fn that reaches a return of the given kind in state out.
func (T *TS) WitnessFor(fn *ssa.Function, kind byte, out string) []*ssa.BasicBlock {
	return T.traces[FnName(fn)+"|"+string(kind)+"|"+out]
}
