package main

import (
	"fmt"
	"go/constant"
	"go/token"
	"go/types"
	"sort"
	"strings"

	"golang.org/x/tools/go/ssa"
)

// ---------------------------------------------------------------------------
// C14-BLOCK: no blocking channel send while a controller / replica-server lock is held
// ---------------------------------------------------------------------------

// blockExceptions: channel (as rendered at the send) -> reason.
var blockExceptions = []struct{ match, why string }{
	{"replica.HoleCreatorChan", "10^6-slot queue with a permanent consumer (CreateHoles); holeDrainer hand-shakes with the same consumer"},
	{"$0.requests in (*rpc.Client).operation", "1024-slot request queue drained by the client's loop goroutine; refused early once the client is poisoned (C15-CLIENT)"},
	{"$0.responses in (*rpc.Client).SetError", "1024-slot response queue drained by the client's loop goroutine"},
	{"$0.closeChan in (*backend/remote.Remote).StopMonitoring", "5-slot per-backend channel, at most 3 sends per backend lifetime (SetMode(ERR) once by C04 sticky ERR, Close once, RemoveBackend once)"},
}

func ruleC14Block(c *Ctx) {
	const rule = "C14-BLOCK"
	c.Doc(rule, "no channel send outside a select with default is executed (directly or in a callee, goroutines excluded) while a mutex of *controller.Controller or *replica.Server is held, except on the allow-listed buffered queues that have a permanent consumer")
	L := lockInfo(c.P)
	isBig := func(class string) bool {
		return class == ctlMutexClass || class == "replica.Server.RWMutex"
	}
	n := 0
	for _, fn := range prodFns(c.P) {
		R := NewRenderer(fn)
		hasLock := false
		eachInstr(fn, func(in ssa.Instruction) {
			if lo, ok := lockOpOf(R, in); ok && isBig(lo.class) {
				hasLock = true
			}
		})
		if !hasLock {
			continue
		}
		res := L.analyzeLocks(fn)
		classOfPath := map[string]string{}
		eachInstr(fn, func(in ssa.Instruction) {
			if lo, ok := lockOpOf(R, in); ok {
				classOfPath[lo.path] = lo.class
			}
		})
		held := func(in ssa.Instruction) bool {
			for p := range res.MayHold[in] {
				if isBig(classOfPath[p]) {
					return true
				}
			}
			return false
		}
		report := func(in ssa.Instruction, desc string) {
			n++
			for _, e := range blockExceptions {
				if strings.Contains(desc, e.match) {
					c.OK(rule, FnName(fn)+" | "+desc, c.P.InstrPos(in), "exception: "+e.why, false)
					return
				}
			}
			c.Bad(rule, FnName(fn)+" | "+desc, c.P.InstrPos(in), "blocking channel send while the controller / replica-server lock is held: when the channel is full the lock is never released and every other request (and the data path) wedges", nil)
		}
		eachInstr(fn, func(in ssa.Instruction) {
			if !held(in) {
				return
			}
			switch x := in.(type) {
			case *ssa.Send:
				report(in, "send on "+R.V(x.Chan)+" in "+FnName(fn))
			case *ssa.Select:
				if x.Blocking {
					for _, st := range x.States {
						if st.Dir == 1 { // types.SendOnly
							report(in, "blocking select-send on "+R.V(st.Chan)+" in "+FnName(fn))
						}
					}
				}
			case *ssa.Call:
				for _, g := range c.P.Callees(x) {
					for _, s := range L.sends[g] {
						// s = "send on <chan> in <fn> @pos": drop the position for the key
						d := s
						if i := strings.Index(d, " @"); i > 0 {
							d = d[:i]
						}
						report(in, d+" via "+CalleeName(in))
					}
				}
			}
		})
	}
	// premises of the exception table: the queues are buffered as assumed
	for _, q := range []struct {
		fn, field string
		min       int64
		why       string
	}{
		{"(*backend/remote.Factory).Create", "closeChan", 3, "three senders (rpc client on transport error, SetMode(ERR), RemoveBackend->Close) and a receiver that leaves after the first receive"},
		{"(*backend/remote.Factory).Create", "monitorChan", 1, "monitorPing sends once and returns; the controller's monitoring goroutine may already be gone"},
		{"rpc.NewClient", "requests", 64, "request queue of the loop goroutine"},
		{"rpc.NewClient", "responses", 64, "response queue of the loop goroutine (SetError must not block)"},
		{"rpc.NewClient", "send", 64, "send queue of the writer goroutine"},
	} {
		fn := c.Anchor(rule, q.fn)
		if fn == nil {
			continue
		}
		R := NewRenderer(fn)
		found := false
		eachInstr(fn, func(in ssa.Instruction) {
			st, ok := in.(*ssa.Store)
			if !ok || !strings.HasSuffix(R.V(st.Addr), "."+q.field) {
				return
			}
			mk, ok := strip(st.Val).(*ssa.MakeChan)
			if !ok {
				return
			}
			found = true
			key := q.fn + " | capacity of " + q.field
			if n, ok := intConst(mk.Size); ok && n >= q.min {
				c.OK(rule, key, c.P.InstrPos(in), fmt.Sprintf("cap %d >= %d: %s", n, q.min, q.why), false)
			} else {
				c.Bad(rule, key, c.P.InstrPos(in), fmt.Sprintf("channel %s has capacity %s, needs >= %d: %s; a sender blocks forever while the controller lock is held", q.field, R.V(mk.Size), q.min, q.why), nil)
			}
		})
		if !found {
			c.Bad(rule, q.fn+" | capacity of "+q.field, "", "channel "+q.field+" is no longer created with a constant capacity here", nil)
		}
	}
	c.OK(rule, "summary", "", fmt.Sprintf("%d send sites under a controller/server lock examined", n), true)
	c.Floor(rule, 4)
}

// ---------------------------------------------------------------------------
// C14-FATAL / C14-ASSERT
// ---------------------------------------------------------------------------

var fatalAllowed = map[string]string{
	fCtl + "setReplicaModeNoLock":      "assertion: the same address twice in the replica list (excluded by C18-NODUP)",
	fCtl + "startFrontend":             "frontend cannot be started: deliberate escalation",
	"(*frontend/gotgt.goTgt).Shutdown": "iSCSI target cannot be stopped: deliberate escalation",
	fRep + "ReplaceDisk":               "I/O failure after the point of no return of a disk replacement: deliberate escalation",
	fRep + "removeDiskNode":            "metadata write failure after the child was re-parented: deliberate escalation",
}

var assertAllowed = map[string]string{
	fRepl + "buildReadWriters | *controller.MultiWriterAt": "r.writer is only ever assigned a *MultiWriterAt by buildReadWriters itself",
	fRep + "Resize | string":                               "inside `case string:` of a type switch on the same value",
	fRep + "Resize | int64":                                "inside `case int64:` of a type switch on the same value",
}

func ruleC14Fatal(c *Ctx) {
	const rule = "C14-FATAL"
	c.Doc(rule, "in the region reachable from the REST handlers (jiva packages, call graph incl. goroutines) the only process terminators (logrus.Fatal*, log.Fatal*, os.Exit, explicit panic) are the allow-listed I/O-failure escalations, and the only single-value type assertions are the allow-listed ones whose dynamic type is fixed by construction")
	region := handlerRegion(c.P)
	if len(region) < 200 {
		c.Undecided(rule, "handler region", "", fmt.Sprintf("only %d functions reachable from the REST handlers (expected > 200)", len(region)))
	}
	for _, fn := range prodFns(c.P) {
		if !region[fn] {
			continue
		}
		eachInstr(fn, func(in ssa.Instruction) {
			if isTerminatorCall(in) {
				if _, isPanic := in.(*ssa.Panic); isPanic && !in.Pos().IsValid() {
					return // synthesised by the compiler (blocking select without matching case)
				}
				key := FnName(fn) + " | " + CalleeName(in)
				if _, isPanic := in.(*ssa.Panic); isPanic {
					key = FnName(fn) + " | panic"
				}
				if why, ok := fatalAllowed[FnName(fn)]; ok {
					c.OK(rule, key, c.P.InstrPos(in), "allow-listed: "+why, false)
				} else {
					c.Bad(rule, key, c.P.InstrPos(in), "a request to the management API can reach this process terminator", nil)
				}
			}
			if ta, ok := in.(*ssa.TypeAssert); ok && !ta.CommaOk {
				key := FnName(fn) + " | " + short(ta.AssertedType.String())
				if why, ok := assertAllowed[key]; ok {
					c.OK("C14-ASSERT", key, c.P.InstrPos(in), "allow-listed: "+why, false)
				} else {
					c.Bad("C14-ASSERT", key, c.P.InstrPos(in), "single-value type assertion on a request path: panics in the handler when the dynamic type differs", nil)
				}
			}
		})
	}
	c.Doc("C14-ASSERT", "single-value type assertions reachable from REST handlers are allow-listed one by one")
	c.Floor(rule, 8)
}

// ---------------------------------------------------------------------------
// C14-IDX: indexing of slices that come from another process
// ---------------------------------------------------------------------------

// remoteSliceSource: v is (derived from) a slice obtained from a replica over REST.
func remoteSliceSource(R *Renderer, v ssa.Value) bool {
	s := R.V(v)
	return strings.Contains(s, "getReplicaChain(") || strings.Contains(s, "GetReplicaChain(") || (strings.Contains(s, "GetReplica(") && strings.Contains(s, ".Chain"))
}

func baseSlice(v ssa.Value) ssa.Value {
	for {
		switch x := v.(type) {
		case *ssa.Slice:
			v = x.X
		case *ssa.Phi:
			// a phi of slicings of the same base: take the first non-phi input
			var nx ssa.Value
			for _, e := range phiInputs(x) {
				nx = e
				break
			}
			if nx == nil || nx == v {
				return v
			}
			v = nx
		default:
			return v
		}
	}
}

func ruleC14Idx(c *Ctx) {
	const rule = "C14-IDX"
	c.Doc(rule, "in handler-reachable code of package controller, every index / slice expression on a chain obtained from a replica over REST is dominated by a length fact that implies it in bounds (len(S)-k-1 >= 0 for S[k]; len(S)-hi >= 0 for S[lo:hi]), or uses the range index of a loop over the same slice")
	region := handlerRegion(c.P)
	n := 0
	for _, fn := range pkgFuncs(c.P, "controller") {
		if !region[fn] {
			continue
		}
		R := NewRenderer(fn)
		eachInstr(fn, func(in ssa.Instruction) {
			var S ssa.Value
			var lo, hi ssa.Value
			var idx ssa.Value
			switch x := in.(type) {
			case *ssa.IndexAddr:
				S, idx = x.X, x.Index
			case *ssa.Index:
				S, idx = x.X, x.Index
			case *ssa.Slice:
				S, lo, hi = x.X, x.Low, x.High
			default:
				return
			}
			if _, isSlice := S.Type().Underlying().(interface{ Elem() interface{} }); isSlice {
				return
			}
			if !remoteSliceSource(R, S) {
				return
			}
			n++
			ls := "len(" + R.V(S) + ")"
			key := fmt.Sprintf("%s | %s", FnName(fn), R.V(in.(ssa.Value)))
			where := c.P.InstrPos(in)
			need := func(desc, want string, alts ...string) {
				ws := Query{Fn: fn, IsSite: func(x ssa.Instruction) bool { return x == in }, GenEdge: atomEdges(fn, R, append([]string{want}, alts...)...)}.Run()
				if len(ws) == 0 {
					c.OK(rule, key+" | "+desc, where, "dominated by "+want, true)
				} else {
					c.Bad(rule, key+" | "+desc, where, "index/slice of a chain received from a replica is not dominated by the length fact "+want+": a short or empty chain panics the handler", c.witness(ws[0]))
				}
			}
			if idx != nil {
				if isRangeIndex(idx) {
					need("range index in bounds", "-* +"+ls+" -1 >=0")
					return
				}
				l := R.Lin(idx)
				// len(S) - idx - 1 >= 0
				w := Lin{T: map[string]int64{ls: 1}}.add(l, -1)
				w.K--
				alts := []string{}
				if len(l.T) == 0 && l.K == 0 {
					alts = append(alts, "+"+ls+" !=0")
				}
				need("index in bounds", w.String()+" >=0", alts...)
				return
			}
			if hi != nil {
				w := Lin{T: map[string]int64{ls: 1}}.add(R.Lin(hi), -1)
				need("high bound in range", w.String()+" >=0")
			}
			if lo != nil {
				ll := R.Lin(lo)
				if hi != nil {
					// lo <= hi when hi = lo-ish const + non-negative terms
					hl := R.Lin(hi)
					nonneg := true
					for k, cf := range hl.T {
						if cf < 0 || !(k == "*" || strings.HasPrefix(k, "len(") || strings.HasPrefix(k, "phi{* |") || strings.HasPrefix(k, "count{") || k == "#i") {
							nonneg = false
						}
					}
					if len(ll.T) == 0 && nonneg && hl.K >= ll.K {
						c.OK(rule, key+" | low <= high", where, "constant low bound below the high bound's constant part", false)
						return
					}
				}
				w := Lin{T: map[string]int64{ls: 1}}.add(ll, -1)
				alts := []string{}
				if len(ll.T) == 0 && ll.K == 1 {
					alts = append(alts, "+"+ls+" !=0") // a length is never negative: != 0 means >= 1
				}
				need("low bound in range", w.String()+" >=0", alts...)
			}
		})
	}
	if n < 4 {
		c.Undecided(rule, "vacuity-floor", "", fmt.Sprintf("only %d index/slice sinks on remote chains found", n))
	}
	_ = token.ADD
}

// ruleWgDone: every goroutine started after a wg.Add in a function that later waits on the
// group signals Done on every exit (plainly or deferred); otherwise Wait never returns and the
// caller — usually holding the controller lock — is wedged.
func ruleWgDone(rule string) ruleFn {
	return func(c *Ctx) {
		c.Doc(rule, "module-wide: a goroutine literal started in a function that calls (*sync.WaitGroup).Wait, with wg.Add before the go statement in its block, calls wg.Done on every path to its exit (a deferred Done counts)")
		n := 0
		for _, fn := range prodFns(c.P) {
			if len(AnyCallsTo(fn, "(*sync.WaitGroup).Wait")) == 0 {
				continue
			}
			eachInstr(fn, func(in ssa.Instruction) {
				g, ok := in.(*ssa.Go)
				if !ok {
					return
				}
				added := false
				for _, x := range g.Block().Instrs {
					if x == in {
						break
					}
					if callMatches(x, "(*sync.WaitGroup).Add") {
						added = true
					}
				}
				mc, isLit := g.Call.Value.(*ssa.MakeClosure)
				if !added || !isLit {
					return
				}
				n++
				cl := mc.Fn.(*ssa.Function)
				var rets []ssa.Instruction
				for _, r := range Returns(cl) {
					rets = append(rets, r)
				}
				c.Guard(rule, cl, rets, "goroutine exit", nil, called("(*sync.WaitGroup).Done"))
			})
		}
		if n < 5 {
			c.Undecided(rule, "vacuity-floor", "", fmt.Sprintf("only %d waited-for goroutines found", n))
		}
	}
}

// ruleMakeLen: a slice allocated in the REST handler region with a length that is not
// structurally non-negative (a constant, len/cap, a counter) needs a dominating fact that bounds
// it from below; make([]T, n) with n < 0 panics.
func ruleMakeLen(rule string) ruleFn {
	return func(c *Ctx) {
		c.Doc(rule, "handler region: every make([]T, n) / make([]T, n, m) whose length is a computed signed integer (not a constant, len, cap or a loop counter) is cut off from the function entry by a fact n >= 0 / n > 0 on its terms, here or in the only caller chain that supplies the value")
		region := handlerRegion(c.P)
		var fns []*ssa.Function
		for f := range region {
			fns = append(fns, f)
		}
		sort.Slice(fns, func(i, j int) bool { return FnName(fns[i]) < FnName(fns[j]) })
		n := 0
		for _, fn := range fns {
			R := NewRenderer(fn)
			eachInstr(fn, func(in ssa.Instruction) {
				ms, ok := in.(*ssa.MakeSlice)
				if !ok {
					return
				}
				l := R.Lin(ms.Len)
				if bt, ok := ms.Len.Type().Underlying().(*types.Basic); ok && bt.Info()&types.IsUnsigned != 0 {
					return
				}
				if structurallyNonNeg(ms.Len, 0) {
					return
				}
				n++
				key := fmt.Sprintf("%s | make(len = %s)", FnName(fn), l.String())
				if FnName(fn) == "(*frontend/rest.Server).ReadAt" {
					c.OK(rule, key+" | not the management API", c.P.InstrPos(in), "REST *frontend* (data path for tests), outside the controller / replica management API the property quantifies over", false)
					return
				}
				if lowerBounded(fn, R, in, ms.Len, 0) {
					c.OK(rule, key, c.P.InstrPos(in), "every signed operand of the length is bounded from below on every path to the allocation", true)
					return
				}
				if why, ok := makeLenOK[FnName(fn)+" | "+l.String()]; ok {
					c.OK(rule, key+" | established elsewhere", c.P.InstrPos(in), why, false)
					return
				}
				c.Bad(rule, key, c.P.InstrPos(in), "a request can make this length negative: make panics in the handler (length = "+l.String()+", no dominating lower bound)", nil)
			})
		}
		_ = n
	}
}

// makeLenOK: lengths whose lower bound is established by the caller / by construction.
var makeLenOK = map[string]string{}

// structurallyNonNeg: constants >= 0, len/cap, counters, and sums / products / quotients of such.
func structurallyNonNeg(v ssa.Value, depth int) bool {
	if depth > 6 {
		return false
	}
	switch x := strip(v).(type) {
	case *ssa.Const:
		n, ok := intConst(x)
		return ok && n >= 0
	case *ssa.Call:
		if b, ok := x.Call.Value.(*ssa.Builtin); ok && (b.Name() == "len" || b.Name() == "cap") {
			return true
		}
	case *ssa.BinOp:
		switch x.Op {
		case token.ADD, token.MUL, token.QUO, token.REM:
			return structurallyNonNeg(x.X, depth+1) && structurallyNonNeg(x.Y, depth+1)
		}
	case *ssa.Phi:
		if isRangeIndex(x) {
			return true
		}
		for _, e := range x.Edges {
			if e != ssa.Value(x) && !structurallyNonNeg(e, depth+1) {
				return false
			}
		}
		return true
	}
	if bt, ok := v.Type().Underlying().(*types.Basic); ok && bt.Info()&types.IsUnsigned != 0 {
		return true
	}
	return false
}

// lowerBounded: v >= 0 at site — structurally, or because an edge with the fact `v >= 0`
// (`v - 1 >= 0`) cuts the site off from the entry; sums, quotients by a positive-looking divisor
// and phis are decomposed.
func lowerBounded(fn *ssa.Function, R *Renderer, site ssa.Instruction, v ssa.Value, depth int) bool {
	if depth > 6 {
		return false
	}
	if structurallyNonNeg(v, 0) {
		return true
	}
	l := R.Lin(strip(v))
	var want []string
	for k := int64(0); k <= 1; k++ {
		want = append(want, Atom{Op: ">=0", L: Lin{K: l.K - k, T: l.T}}.String())
	}
	if len(Query{Fn: fn, IsSite: func(x ssa.Instruction) bool { return x == site }, GenEdge: atomEdges(fn, R, want...)}.Run()) == 0 {
		return true
	}
	switch x := strip(v).(type) {
	case *ssa.BinOp:
		switch x.Op {
		case token.ADD:
			return lowerBounded(fn, R, site, x.X, depth+1) && lowerBounded(fn, R, site, x.Y, depth+1)
		case token.QUO:
			// sign of the quotient = sign of the dividend for the (positive) block / sector sizes used here
			return lowerBounded(fn, R, site, x.X, depth+1)
		}
	case *ssa.Phi:
		for _, e := range x.Edges {
			if e != ssa.Value(x) && !lowerBounded(fn, R, site, e, depth+1) {
				return false
			}
		}
		return true
	}
	return false
}

// ---------------------------------------------------------------------------
// C14-LASTIDX: `x[len(x)-k]` / `x[:len(x)-k]` (k >= 1) panics on a short x.  Module-wide: every
// such index is cut off by a fact that bounds the length from below (len(x)-k >= 0, for a
// string and k = 1 also x != ""), in the function itself.
// ---------------------------------------------------------------------------

func lastIdxOperand(idx ssa.Value) (ssa.Value, int64, bool) {
	// idx = len(x) - k
	for {
		if cv, ok := idx.(*ssa.Convert); ok {
			idx = cv.X
			continue
		}
		break
	}
	bo, ok := idx.(*ssa.BinOp)
	if !ok || bo.Op != token.SUB {
		return nil, 0, false
	}
	k, ok := bo.Y.(*ssa.Const)
	if !ok || k.Value == nil || k.Value.Kind() != constant.Int {
		return nil, 0, false
	}
	cl, ok := bo.X.(*ssa.Call)
	if !ok {
		return nil, 0, false
	}
	b, ok := cl.Call.Value.(*ssa.Builtin)
	if !ok || b.Name() != "len" || len(cl.Call.Args) != 1 {
		return nil, 0, false
	}
	if k.Int64() < 1 {
		return nil, 0, false
	}
	return cl.Call.Args[0], k.Int64(), true
}

func ruleLastIdx(rule string) ruleFn {
	return func(c *Ctx) {
		c.Doc(rule, "module-wide: an index or slice bound of the form len(x)-k (k >= 1) applied to x itself is cut off, on every path, by a fact that makes it non-negative (len(x)-k >= 0; x != \"\" for a string and k = 1; a range loop over x)")
		n := 0
		for _, fn := range prodFns(c.P) {
			R := NewRenderer(fn)
			eachInstr(fn, func(in ssa.Instruction) {
				var x, idx ssa.Value
				switch y := in.(type) {
				case *ssa.IndexAddr:
					x, idx = y.X, y.Index
				case *ssa.Index:
					x, idx = y.X, y.Index
				case *ssa.Lookup:
					if _, isMap := y.X.Type().Underlying().(*types.Map); isMap {
						return
					}
					x, idx = y.X, y.Index // string index
				case *ssa.Slice:
					x = y.X
					if y.High != nil {
						idx = y.High
					}
					if y.Low != nil {
						if _, _, ok := lastIdxOperand(y.Low); ok {
							idx = y.Low
						}
					}
				default:
					return
				}
				if idx == nil {
					return
				}
				of, k, ok := lastIdxOperand(idx)
				if !ok || R.V(of) != R.V(x) {
					return
				}
				n++
				xt := R.V(x)
				key := fmt.Sprintf("%s | %s[len-%d]", FnName(fn), xt, k)
				atoms := []string{fmt.Sprintf("+len(%s) -%d >=0", xt, k)}
				for m := k + 1; m <= k+3; m++ {
					atoms = append(atoms, fmt.Sprintf("+len(%s) -%d >=0", xt, m))
				}
				if k == 1 {
					atoms = append(atoms, neAtom(`""`, xt), "+len("+xt+") !=0")
				}
				ws := Query{Fn: fn, IsSite: func(i2 ssa.Instruction) bool { return i2 == in }, GenEdge: atomEdges(fn, R, atoms...)}.Run()
				if len(ws) == 0 {
					c.OK(rule, key, c.P.InstrPos(in), "length bounded from below on every path", true)
				} else if why, ok := lastIdxAllowed[FnName(fn)+" | "+xt]; ok {
					c.OK(rule, key, c.P.InstrPos(in), "exception: "+why, false)
				} else {
					c.Bad(rule, key, c.P.InstrPos(in), fmt.Sprintf("%s[len(%s)-%d] can be reached with len(%s) < %d: index out of range / slice bounds panic", xt, xt, k, xt, k), c.witness(ws[0]))
				}
			})
		}
		if n < 4 {
			c.Undecided(rule, "vacuity-floor", "", fmt.Sprintf("only %d len(x)-k indexes found (4 on the confirmed tree)", n))
		}
	}
}

var lastIdxAllowed = map[string]string{
	"(*replica.Replica).createDisk | $0.activeDiskData": "shape invariant: activeDiskData always starts with the nil placeholder (set up by the constructor, never spliced at index 0)",
	"(*replica.Replica).readDiskData | $1":              "the argument is a directory entry that was selected by its .meta suffix (5 bytes) by the caller",
	"(*replica.diffDisk).Sync | $0.files":               "shape invariant: files[0] is the nil placeholder, the head is always present while the replica is open (C17-SRV-GUARD: data path only on an open replica)",
	"(*replica.diffDisk).fullWriteAt | $0.files":        "shape invariant: files[0] is the nil placeholder, the head is always present while the replica is open",
}
