package main

import (
	"fmt"
	"go/ast"
	"go/constant"
	"go/types"
	"golang.org/x/tools/go/packages"
	"sort"
	"strings"

	"golang.org/x/tools/go/ssa"
)

// callers-hold table: methods of *replica.Server that dereference s.r without taking the server lock themselves.
var srvCallersHold = map[string]string{
	fSrv + "Status":                   "called with the server lock held by every mutating caller; REST status reads tolerate a racing close (value copy of Info)",
	fSrv + "Stats":                    "reads one int64 after a nil test of a local copy of s.r",
	fSrv + "GetUsage":                 "nil-tested; usage counters only",
	fSrv + "Replica":                  "accessor",
	fSrv + "CheckPreDeleteConditions": "called only from Delete/DeleteAll, which hold the server lock",
	fSrv + "PingResponse":             "uses Status()",
	fSrv + "PrevStatus":               "reads volume.meta only",
}

func ruleC17Srv(c *Ctx) {
	const rule = "C17-SRV-GUARD"
	c.Doc(rule, "every method of *replica.Server that uses s.r (as receiver of a *Replica method) does so only after taking a lock on the server (write lock for management operations, read lock for the data path) and on the edge s.r != nil, in the same lock region; Replica.Close marks the replica CLOSED unconditionally before closing files; Server.Open / the data path refuse with an error when the replica is (not) open")
	n := 0
	for _, fn := range c.P.methodsOf("replica", "Server") {
		R := NewRenderer(fn)
		var uses []ssa.Instruction
		eachInstr(fn, func(in ssa.Instruction) {
			cl, ok := in.(*ssa.Call)
			if !ok {
				return
			}
			if len(cl.Call.Args) > 0 && !cl.Call.IsInvoke() {
				if f := cl.Call.StaticCallee(); f != nil && strings.HasPrefix(FnName(f), fRep) && R.V(cl.Call.Args[0]) == "$0.r" {
					uses = append(uses, in)
				}
			}
			// s.r.holeDrainer()
			if cl.Call.StaticCallee() == nil && !cl.Call.IsInvoke() && strings.HasPrefix(R.V(cl.Call.Value), "$0.r.") {
				uses = append(uses, in)
			}
		})
		if len(uses) == 0 {
			continue
		}
		n++
		if why, ok := srvCallersHold[FnName(fn)]; ok {
			c.OK(rule, FnName(fn)+" | callers-hold", c.P.Pos(fn.Pos()), "exception: "+why, false)
			continue
		}
		c.Guard(rule, fn, uses, "use of s.r", lockOrUnlock,
			needLock("server lock taken"),
			Need{Desc: "replica instance present", Atoms: []string{notNilAtom("$0.r")}, OkCalls: []string{fSrv + "CheckPreDeleteConditions"}})
	}
	if pd := c.Anchor(rule, fSrv+"CheckPreDeleteConditions"); pd != nil {
		c.Guard(rule, pd, nilErrorReturns(pd), "return nil", nil, atom("replica instance present", notNilAtom("$0.r")))
	}
	if n < 20 {
		c.Undecided(rule, "vacuity-floor", "", fmt.Sprintf("only %d Server methods using s.r found", n))
	}
	// data path uses the read lock, management the write lock
	for _, m := range []string{"WriteAt", "ReadAt", "Sync", "Unmap"} {
		if fn := c.Anchor(rule, fSrv+m); fn != nil {
			c.Guard(rule, fn, CallsTo(fn, fRep+m), "data path "+m, lockOrUnlock, Need{Desc: "server read lock taken", Kill: isUnlockCall, Instr: func(in ssa.Instruction) bool {
				return isPlainCall(in) && CalleeName(in) == "(*sync.RWMutex).RLock"
			}})
			// closed => error, not success
			R := NewRenderer(fn)
			ws := afterEdge(fn, atomEdges(fn, R, isNilAtom("$0.r")), nil, nil, func(in ssa.Instruction) bool {
				for _, r := range successReturns(fn) {
					if r == in {
						return true
					}
				}
				return false
			})
			if len(ws) == 0 {
				c.OK(rule, FnName(fn)+" | closed replica refuses I/O", "", "s.r == nil => error", true)
			} else {
				c.Bad(rule, FnName(fn)+" | closed replica refuses I/O", "", "I/O on a closed replica can report success", c.witness(ws[0]))
			}
		}
	}
	for _, m := range []string{"Snapshot", "RemoveDiffDisk", "ReplaceDisk", "PrepareRemoveDisk", "Revert", "Resize", "SetRebuilding", "SetReplicaMode", "SetCheckpoint", "SetRevisionCounter", "Reload", "UpdateCloneInfo", "Close", "Delete", "DeleteAll", "Open", "Create"} {
		if fn := c.Anchor(rule, fSrv+m); fn != nil {
			var first []ssa.Instruction
			eachInstr(fn, func(in ssa.Instruction) {
				if len(first) == 0 && isLockCall(in) {
					first = append(first, in)
				}
			})
			if len(first) == 1 && isWLockCall(first[0]) {
				c.OK(rule, FnName(fn)+" | management operation takes the write lock", c.P.InstrPos(first[0]), "s.Lock()", false)
			} else {
				c.Bad(rule, FnName(fn)+" | management operation takes the write lock", c.P.Pos(fn.Pos()), "management operation does not exclude the data path (needs s.Lock())", nil)
			}
		}
	}
	// Open refuses when already open: no success return after the s.r != nil edge
	if fn := c.Anchor(rule, fSrv+"Open"); fn != nil {
		R := NewRenderer(fn)
		ws := afterEdge(fn, atomEdges(fn, R, notNilAtom("$0.r")), nil, nil, func(in ssa.Instruction) bool {
			for _, r := range successReturns(fn) {
				if r == in {
					return true
				}
			}
			return false
		})
		if len(ws) == 0 {
			c.OK(rule, FnName(fn)+" | second open is refused", "", "s.r != nil => error", true)
		} else {
			c.Bad(rule, FnName(fn)+" | second open is refused", "", "opening an already open replica reports success: two controllers that both saw state closed are both attached", c.witness(ws[0]))
		}
	}
	// s.r is replaced only by an instance whose construction succeeded, and cleared only by Close/Delete
	for _, fn := range c.P.methodsOf("replica", "Server") {
		R := NewRenderer(fn)
		for _, st := range StoresTo(fn, "Server", "r") {
			v := st.(*ssa.Store).Val
			key := FnName(fn) + " | s.r = " + R.V(v)
			if isNilConst(strip(v)) {
				switch FnName(fn) {
				case fSrv + "Close", fSrv + "Delete", fSrv + "DeleteAll":
					c.OK(rule, key, c.P.InstrPos(st), "instance dropped by close/delete", false)
				default:
					c.Bad(rule, key, c.P.InstrPos(st), "the open instance is dropped outside Close/Delete: the server reports 'closed' while the controller is still attached", nil)
				}
				continue
			}
			// producer call
			var prod ssa.Instruction
			for _, x := range phiInputs(strip(v)) {
				if ex, ok := x.(*ssa.Extract); ok {
					if cl, ok := ex.Tuple.(*ssa.Call); ok {
						prod = cl
					}
				}
			}
			if prod == nil {
				c.Bad(rule, key, c.P.InstrPos(st), "cannot identify the call that produced the new instance", nil)
				continue
			}
			c.Guard(rule, fn, []ssa.Instruction{st}, "s.r = new instance", nil, Need{Desc: "the producing call succeeded (a failed call returns a nil instance)", Edge: successEdgesOfCall(fn, prod)})
			// the new instance caches state read from the files (revision counter, chain) when it is
			// built: building and swapping are one write-lock region, or I/O accepted in between is
			// counted by the old instance only
			c.Guard(rule, fn, []ssa.Instruction{prod}, "build new instance for s.r", nil, needWLock("server write lock held while the new instance is built"))
			st := st
			ws := Query{Fn: fn, Start: prod, StartHeld: true, Kill: lockOrUnlock, IsSite: func(in ssa.Instruction) bool { return in == st }}.Run()
			if len(ws) == 0 {
				c.OK(rule, key+" | built and swapped in one lock region", c.P.InstrPos(st), "no lock operation between the producing call and the store", true)
			} else {
				c.Bad(rule, key+" | built and swapped in one lock region", c.P.InstrPos(st), "the server lock is released between building the new Replica (which reads the revision counter and the chain from disk) and installing it: writes accepted in between are lost from its cached state", c.witness(ws[0]))
			}
		}
	}
	// Replica.Close: CLOSED unconditionally, before close()
	if fn := c.Anchor(rule, fRep+"Close"); fn != nil {
		R := NewRenderer(fn)
		var st []ssa.Instruction
		eachInstr(fn, func(in ssa.Instruction) {
			if s, ok := in.(*ssa.Store); ok && R.V(s.Addr) == "&$0.mode" && R.V(s.Val) == `"CLOSED"` {
				st = append(st, in)
			}
		})
		if len(st) == 1 {
			var rets []ssa.Instruction
			for _, r := range Returns(fn) {
				rets = append(rets, r)
			}
			c.Guard(rule, fn, rets, "return", nil, Need{Desc: "mode = CLOSED", Instr: func(in ssa.Instruction) bool { return in == st[0] }})
			c.Guard(rule, fn, CallsTo(fn, fRep+"close"), "close files", nil, Need{Desc: "mode = CLOSED first", Instr: func(in ssa.Instruction) bool { return in == st[0] }})
		} else {
			c.Bad(rule, FnName(fn)+" | marks the replica CLOSED", "", "Replica.Close must store mode = CLOSED", nil)
		}
	}
	// SetReplicaMode accepts only RW / WO
	if fn := c.Anchor(rule, fRep+"SetReplicaMode"); fn != nil {
		R := NewRenderer(fn)
		for _, s := range StoresTo(fn, "Replica", "mode") {
			v := R.V(s.(*ssa.Store).Val)
			want := map[string]string{`"RW"`: eqAtom(`"RW"`, "$1"), `"WO"`: eqAtom(`"WO"`, "$1")}[v]
			// the mode was parsed first (`newMode, err := parse(mode); if err != nil { return err }`):
			// a merge of constants, each arriving under its own comparison; an arm that carries
			// another value is one on which the sibling error is non-nil, and the store stands
			// behind that error's nil test
			if phi, isPhi := s.(*ssa.Store).Val.(*ssa.Phi); isPhi && want == "" {
				okAll := true
				var perr *ssa.Phi
				for _, in := range phi.Block().Instrs {
					if q, ok := in.(*ssa.Phi); ok && q != phi && q.Type().String() == "error" {
						perr = q
					}
				}
				for i, e := range phi.Edges {
					ev := R.V(e)
					w := map[string]string{`"RW"`: eqAtom(`"RW"`, "$1"), `"WO"`: eqAtom(`"WO"`, "$1")}[ev]
					pred := phi.Block().Preds[i]
					if w != "" {
						c.Guard(rule, fn, []ssa.Instruction{pred.Instrs[len(pred.Instrs)-1]}, "mode = "+ev+" (merged)", nil, atom("requested "+ev, w))
						continue
					}
					if perr == nil || !provablyNonNilError(perr.Edges[i]) {
						okAll = false
					}
				}
				if okAll && perr != nil {
					c.Guard(rule, fn, []ssa.Instruction{s}, "mode = parsed mode", nil, atom("parsing succeeded", isNilAtom(R.V(perr))))
					continue
				}
			}
			if want == "" {
				c.Bad(rule, FnName(fn)+" | mode "+v, c.P.InstrPos(s), "unexpected mode value", nil)
				continue
			}
			c.Guard(rule, fn, []ssa.Instruction{s}, "mode = "+v, nil, atom("requested "+v, want))
		}
		c.Guard(rule, fn, nilErrorReturns(fn), "return nil", nil, atom("mode is RW or WO", eqAtom(`"RW"`, "$1"), eqAtom(`"WO"`, "$1")))
	}
}

// ---------------------------------------------------------------------------
// C17-MATRIX / C14-WRAP
// ---------------------------------------------------------------------------

func extractMatrix(c *Ctx, fn *ssa.Function) map[string]map[string]bool {
	R := NewRenderer(fn)
	m := map[string]map[string]bool{}
	eachInstr(fn, func(in ssa.Instruction) {
		mu, ok := in.(*ssa.MapUpdate)
		if !ok || R.V(mu.Map) != "makemap" {
			return
		}
		kc, ok := strip(mu.Key).(*ssa.Const)
		if !ok {
			return
		}
		if R.V(mu.Value) != "true" {
			return
		}
		action := strings.Trim(constString(kc), `"`)
		state := ""
		for _, a := range controlAtoms(fn, R, in.Block()) {
			if strings.HasPrefix(a, `+"`) && strings.HasSuffix(a, " ==0") && strings.Contains(a, `" -$`) {
				state = a[2:strings.Index(a, `" -$`)]
				break
			}
		}
		if state == "" {
			state = "?"
		}
		if m[state] == nil {
			m[state] = map[string]bool{}
		}
		m[state][action] = true
	})
	if len(m) >= 5 {
		return m
	}
	// the table as calls of a local publisher: `allow := func(names ...string) { for _, n := range
	// names { r.Actions[n] = link(n) } }` called once per state with the action names
	eachInstr(fn, func(in ssa.Instruction) {
		cl, ok := in.(*ssa.Call)
		if !ok {
			return
		}
		mc, ok := cl.Call.Value.(*ssa.MakeClosure)
		if !ok {
			return
		}
		pub, ok := mc.Fn.(*ssa.Function)
		if !ok || len(pub.Params) != 1 {
			return
		}
		PR := NewRenderer(pub)
		publishes := false
		eachInstr(pub, func(x ssa.Instruction) {
			if mu, ok := x.(*ssa.MapUpdate); ok && strings.HasSuffix(PR.V(mu.Map), ".Actions") && PR.V(mu.Key) == "$0[*]" {
				publishes = true
			}
		})
		if !publishes {
			return
		}
		names, _ := flattenVariadic(&cl.Call)
		if names == nil {
			return
		}
		state := "?"
		for _, a := range controlAtoms(fn, R, in.Block()) {
			if strings.HasPrefix(a, `+"`) && strings.HasSuffix(a, " ==0") && strings.Contains(a, `" -$`) {
				state = a[2:strings.Index(a, `" -$`)]
				break
			}
		}
		for _, nv := range names {
			kc, ok := strip(nv).(*ssa.Const)
			if !ok {
				return
			}
			if m[state] == nil {
				m[state] = map[string]bool{}
			}
			m[state][strings.Trim(constString(kc), `"`)] = true
		}
	})
	return m
}

func ruleC17Matrix(c *Ctx) {
	const rule = "C17-MATRIX"
	c.Doc(rule, "the state -> allowed-actions table is read off rest.NewReplica's switch and must satisfy: open only in state closed; create only in state initial; no action in state error; while rebuilding none of snapshot, removedisk, replacedisk, revert, prepareremovedisk, resize, open, create; every action registered in the replica router is spelled as some table entry, and every action route is wrapped by checkAction and HandleError")
	fn := c.Anchor(rule, "replica/rest.NewReplica")
	if fn == nil {
		return
	}
	m := extractMatrix(c, fn)
	if len(m) < 5 {
		// the switch may live in a helper that maps the state to the action set; NewReplica must
		// then publish exactly the keys of the helper's result
		R := NewRenderer(fn)
		eachInstr(fn, func(in ssa.Instruction) {
			cl, ok := in.(*ssa.Call)
			if !ok || len(m) >= 5 {
				return
			}
			h := cl.Call.StaticCallee()
			if h == nil || h.Blocks == nil || !isJivaFn(h) || h == fn {
				return
			}
			hm := extractMatrix(c, h)
			sliceForm := false
			if len(hm) < 5 {
				hm = extractSliceTable(h)
				sliceForm = true
			}
			if len(hm) < 5 {
				return
			}
			published := false
			eachInstr(fn, func(x ssa.Instruction) {
				if mu, ok := x.(*ssa.MapUpdate); ok && strings.HasSuffix(R.V(mu.Map), ".Actions") && R.V(mu.Key) == "key("+R.V(cl)+")" && !sliceForm {
					published = true
				}
				// the helper returns the list of allowed actions: every element is published
				if mu, ok := x.(*ssa.MapUpdate); ok && strings.HasSuffix(R.V(mu.Map), ".Actions") && R.V(mu.Key) == R.V(cl)+"[*]" && sliceForm {
					published = true
				}
			})
			stateArg := false
			for _, a := range callArgs(R, cl) {
				if a == "$1" {
					stateArg = true
				}
			}
			if published && stateArg {
				m = hm
				c.OK(rule, "table computed by "+FnName(h), c.P.InstrPos(in), "NewReplica publishes the keys of "+FnName(h)+"(state)", false)
			}
		})
	}
	if len(m) < 5 {
		// table form: `for _, a := range table[state] { actions[a] = true }` over a package-level
		// map literal state -> []action that nothing else writes
		R := NewRenderer(fn)
		eachInstr(fn, func(in ssa.Instruction) {
			mu, ok := in.(*ssa.MapUpdate)
			if !ok || len(m) >= 5 {
				return
			}
			// either the intermediate set (actions[a] = true) or the published map itself
			if !(R.V(mu.Map) == "makemap" && R.V(mu.Value) == "true") && !strings.HasSuffix(R.V(mu.Map), ".Actions") {
				return
			}
			k := R.V(mu.Key)
			if !strings.HasSuffix(k, "[$1][*]") {
				return
			}
			g := strings.TrimSuffix(strings.TrimPrefix(k, "global:"), "[$1][*]")
			if tm, ok := globalMapLiteral(c.P, g); ok {
				m = map[string]map[string]bool{}
				for st, as := range tm {
					m[st] = map[string]bool{}
					for _, a := range as {
						m[st][a] = true
					}
				}
				c.OK(rule, "table read from the literal of "+g, c.P.InstrPos(in), "NewReplica publishes table[state]; the table is a package-level literal that is never written", false)
			}
		})
	}
	if len(m) < 5 || m["?"] != nil {
		c.Undecided(rule, "matrix extraction", c.P.Pos(fn.Pos()), fmt.Sprintf("could not read the state switch (states found: %d)", len(m)))
		return
	}
	states := func(action string) []string {
		var out []string
		for s, as := range m {
			if as[action] {
				out = append(out, s)
			}
		}
		sort.Strings(out)
		return out
	}
	chk := func(key string, ok bool, detail string) {
		if ok {
			c.OK(rule, key, c.P.Pos(fn.Pos()), detail, true)
		} else {
			c.Bad(rule, key, c.P.Pos(fn.Pos()), detail, nil)
		}
	}
	chk("open only when closed", strings.Join(states("open"), ",") == "closed", "open is allowed in: "+strings.Join(states("open"), ","))
	chk("create only when initial", strings.Join(states("create"), ",") == "initial", "create is allowed in: "+strings.Join(states("create"), ","))
	chk("no action in state error", len(m["error"]) == 0, fmt.Sprintf("%d actions allowed in state error", len(m["error"])))
	for _, a := range []string{"snapshot", "removedisk", "replacedisk", "revert", "prepareremovedisk", "resize", "open", "create"} {
		chk("rebuilding forbids "+a, !m["rebuilding"][a], fmt.Sprintf("rebuilding allows %s = %v", a, m["rebuilding"][a]))
	}
	// the states of an open replica (open, dirty) accept everything the controller / sync agent
	// issues against a live replica; the two rows differ only in setrevisioncounter (promotion
	// happens before the first counted write)
	for _, a := range []string{"resize", "close", "setrebuilding", "setlogging", "snapshot", "reload", "removedisk", "replacedisk", "revert", "prepareremovedisk", "setreplicamode", "updatecloneinfo", "setcheckpoint", "start"} {
		chk("open replica accepts "+a, m["open"][a] && m["dirty"][a], fmt.Sprintf("%s allowed in open=%v dirty=%v (an operation the controller issues against a live replica is refused with 404 in one of the two open states)", a, m["open"][a], m["dirty"][a]))
	}
	chk("setrevisioncounter only before the first counted write", m["open"]["setrevisioncounter"] && !m["dirty"]["setrevisioncounter"] && !m["closed"]["setrevisioncounter"], fmt.Sprintf("setrevisioncounter allowed in open=%v dirty=%v closed=%v", m["open"]["setrevisioncounter"], m["dirty"]["setrevisioncounter"], m["closed"]["setrevisioncounter"]))
	for _, a := range []string{"close", "setrebuilding", "reload"} {
		chk("rebuilding allows "+a, m["rebuilding"][a], fmt.Sprintf("rebuilding allows %s = %v (needed to finish / abort a rebuild)", a, m["rebuilding"][a]))
	}
	// router action names
	if rt := c.Anchor(rule, "replica/rest.NewRouter"); rt != nil {
		R := NewRenderer(rt)
		n := 0
		eachInstr(rt, func(in ssa.Instruction) {
			mu, ok := in.(*ssa.MapUpdate)
			if !ok {
				return
			}
			kc, ok := strip(mu.Key).(*ssa.Const)
			if !ok {
				return
			}
			n++
			a := strings.Trim(constString(kc), `"`)
			chk("router action "+a+" is a table entry", len(states(a)) > 0, "action "+a+" allowed in states: "+strings.Join(states(a), ","))
		})
		if n < 15 {
			c.Undecided(rule, "router actions", "", fmt.Sprintf("only %d action routes found", n))
		}
		// wrapping: the action loop registers f(schemas, checkAction(s, action))
		okWrap := false
		for _, in := range CallsTo(rt, "replica/rest.HandleError") {
			if strings.Contains(callRender(R, in), "replica/rest.checkAction($0,") {
				okWrap = true
			}
		}
		chk("action routes wrapped by checkAction", okWrap, "HandleError(schemas, checkAction(s, action))")
	}
	// checkAction refuses unknown / disallowed actions before calling the handler
	for _, cl := range c.P.AllFns {
		if FnName(cl) == "replica/rest.checkAction$1" {
			R := NewRenderer(cl)
			var dyn []ssa.Instruction
			eachInstr(cl, func(in ssa.Instruction) {
				if x, ok := in.(*ssa.Call); ok && x.Call.StaticCallee() == nil && !x.Call.IsInvoke() && strings.HasPrefix(R.V(x.Call.Value), "^") {
					dyn = append(dyn, in)
				}
			})
			var allow string
			for _, ea := range allAtoms(cl, R) {
				s := ea.Atom.String()
				if strings.Contains(s, ".Actions[") && strings.HasSuffix(s, "!=0") {
					allow = s
				}
			}
			if allow == "" {
				// the test may be a boolean helper: take the fact its true returns carry
				eachInstr(cl, func(in ssa.Instruction) {
					call, ok := in.(*ssa.Call)
					if !ok || call.Call.StaticCallee() == nil || !isJivaFn(call.Call.StaticCallee()) {
						return
					}
					pos, _ := helperSiteFacts(call.Call.StaticCallee())
					args := callArgs(R, call)
					for _, fs := range pos {
						for _, f := range fs {
							if strings.Contains(f, ".Actions[") && strings.HasSuffix(f, "!=0") {
								allow = substParams(f, args)
							}
						}
					}
				})
			}
			// the action tested is the one the router dispatched on: the URL query parameter
			if allow != "" && !strings.Contains(allow, `.Actions[(net/url.Values).Get((*net/url.URL).Query($1.URL),"action")]`) {
				c.Bad(rule, "replica/rest.checkAction | tests the dispatched action", "", "the action looked up in replica.Actions is not req.URL.Query().Get(\"action\"), which is what the router matched on: "+allow, nil)
			} else if allow != "" {
				c.OK(rule, "replica/rest.checkAction | tests the dispatched action", "", "Actions[req.URL.Query().Get(\"action\")]", false)
			}
			if len(dyn) == 1 && allow != "" {
				c.Guard(rule, cl, dyn, "run handler", nil, atom("action is allowed in the current state", allow))
			} else {
				c.Bad(rule, "replica/rest.checkAction | gate", "", "checkAction must call the handler only when replica.Actions[action] is set", nil)
			}
		}
	}
	c.Floor(rule, 30)
}

func ruleC14Wrap(c *Ctx) {
	const rule = "C14-WRAP"
	c.Doc(rule, "in both routers every route handler is produced by HandleError (errors returned by handlers become API error responses) or is one of the framework / profiling handlers; handlers whose callee returns (*T, error) and whose error is ignored never receive a nil *T")
	for _, name := range []string{"controller/rest.NewRouter", "replica/rest.NewRouter", "sync/agent.NewRouter", "frontend/rest.NewRouter"} {
		fn := c.P.Fn(name)
		if fn == nil {
			continue
		}
		R := NewRenderer(fn)
		n := 0
		for _, in := range CallsTo(fn, "(*github.com/gorilla/mux.Route).Handler") {
			n++
			h := R.V(in.(*ssa.Call).Call.Args[1])
			key := fmt.Sprintf("%s | route %d", name, n)
			switch {
			case strings.HasPrefix(h, "replica/rest.HandleError("), strings.HasPrefix(h, "sync/agent.HandleError("), strings.HasPrefix(h, "frontend/rest.HandleError("):
				c.OK(rule, key, c.P.InstrPos(in), "wrapped by HandleError", false)
			case strings.HasPrefix(h, "github.com/rancher/go-rancher/api."), strings.HasPrefix(h, "closure:"), strings.HasPrefix(h, "func:"), strings.Contains(h, "DefaultServeMux"), strings.Contains(h, "promhttp"):
				c.OK(rule, key, c.P.InstrPos(in), "framework / static handler: "+h, false)
			default:
				c.Bad(rule, key, c.P.InstrPos(in), "route handler "+h+" is not wrapped by HandleError: an error it returns is dropped (or it is unreviewed)", nil)
			}
		}
	}
	// nil *T with ignored error
	region := handlerRegion(c.P)
	for _, fn := range prodFns(c.P) {
		if !region[fn] {
			continue
		}
		eachInstr(fn, func(in ssa.Instruction) {
			cl, ok := in.(*ssa.Call)
			if !ok {
				return
			}
			g := cl.Call.StaticCallee()
			if g == nil || g.Blocks == nil || !isJivaPkg(pkgOf(g)) {
				return
			}
			res := g.Signature.Results()
			if res.Len() != 2 || errResultIndex(g) != 1 {
				return
			}
			if _, isPtr := res.At(0).Type().Underlying().(interface{ Elem() interface{} }); isPtr {
				return
			}
			if !strings.HasPrefix(res.At(0).Type().String(), "*") {
				return
			}
			ev, pv := extractOf(cl, 1), extractOf(cl, 0)
			if pv == nil {
				return
			}
			errUsed := ev != nil && ev.Referrers() != nil && len(*ev.Referrers()) > 0
			if errUsed {
				return
			}
			// pointer dereferenced?
			deref := false
			for _, r := range *pv.Referrers() {
				switch r.(type) {
				case *ssa.FieldAddr, *ssa.UnOp:
					deref = true
				}
			}
			if !deref {
				return
			}
			bad := mayReturnNilPtr(g, map[*ssa.Function]bool{})
			key := FnName(fn) + " | uses result of " + FnName(g) + " ignoring its error"
			if bad {
				c.Bad(rule, key, c.P.InstrPos(in), FnName(g)+" can return a nil pointer (with an error) but this caller ignores the error and dereferences the pointer: nil-pointer panic in the handler", nil)
			} else {
				c.OK(rule, key, c.P.InstrPos(in), "callee never returns a nil pointer", true)
			}
		})
	}
	c.Floor(rule, 40)
}

// handlerRegion: jiva functions reachable in the call graph from the REST handler methods.
var regionCache = map[*Prog]map[*ssa.Function]bool{}

func handlerRoots(P *Prog) []*ssa.Function {
	var roots []*ssa.Function
	for _, fn := range P.AllFns {
		n := FnName(fn)
		if !(strings.HasPrefix(n, "(*controller/rest.Server).") || strings.HasPrefix(n, "(*replica/rest.Server).") || strings.HasPrefix(n, "(*sync/agent.Server).") || strings.HasPrefix(n, "(*frontend/rest.Server).")) {
			continue
		}
		sig := fn.Signature
		if sig.Params().Len() == 2 && strings.HasSuffix(sig.Params().At(0).Type().String(), "http.ResponseWriter") && strings.HasSuffix(sig.Params().At(1).Type().String(), "http.Request") {
			roots = append(roots, fn)
		}
	}
	for _, n := range []string{"replica/rest.checkAction$1", "replica/rest.HandleError$1"} {
		if f := P.Fn(n); f != nil {
			roots = append(roots, f)
		}
	}
	return roots
}

func handlerRegion(P *Prog) map[*ssa.Function]bool {
	if r, ok := regionCache[P]; ok {
		return r
	}
	seen := map[*ssa.Function]bool{}
	work := handlerRoots(P)
	for len(work) > 0 {
		f := work[len(work)-1]
		work = work[:len(work)-1]
		if seen[f] || f == nil {
			continue
		}
		seen[f] = true
		for _, a := range f.AnonFuncs {
			work = append(work, a)
		}
		if n := P.CG.Nodes[f]; n != nil {
			for _, e := range n.Out {
				g := e.Callee.Func
				if g != nil && g.Blocks != nil && isJivaPkg(pkgOf(g)) && !seen[g] {
					work = append(work, g)
				}
			}
		}
	}
	regionCache[P] = seen
	return seen
}

// mayReturnNilPtr: some return of g yields a nil first result, directly or by forwarding the
// results of a callee that does.
func mayReturnNilPtr(g *ssa.Function, seen map[*ssa.Function]bool) bool {
	if g == nil || g.Blocks == nil || seen[g] {
		return false
	}
	seen[g] = true
	for _, r := range Returns(g) {
		if len(r.Results) == 0 {
			continue
		}
		for _, v := range phiInputs(strip(r.Results[0])) {
			if isNilConst(v) {
				return true
			}
			if ex, ok := v.(*ssa.Extract); ok && ex.Index == 0 {
				if cl, ok := ex.Tuple.(*ssa.Call); ok {
					if h := cl.Call.StaticCallee(); h != nil && mayReturnNilPtr(h, seen) {
						return true
					}
				}
			}
		}
	}
	return false
}

func pkgOf(f *ssa.Function) *types.Package {
	if f.Pkg != nil {
		return f.Pkg.Pkg
	}
	if f.Parent() != nil && f.Parent().Pkg != nil {
		return f.Parent().Pkg.Pkg
	}
	return nil
}

// ruleNilOK: in the REST handler region, a function with pointer results and an error result
// whose success return can carry a nil pointer must not have a caller that dereferences that
// result after testing only the error.
func ruleNilOK(rule string) ruleFn {
	return func(c *Ctx) {
		c.Doc(rule, "handler region: for every function returning (…*T…, error): if a nil-error return can yield a nil pointer for result i (a nil constant reaches it and the return is not cut off by the test result != nil), no caller dereferences result i without its own nil test")
		region := handlerRegion(c.P)
		n := 0
		var fns []*ssa.Function
		for f := range region {
			fns = append(fns, f)
		}
		sort.Slice(fns, func(i, j int) bool { return FnName(fns[i]) < FnName(fns[j]) })
		for _, f := range fns {
			ei := errResultIndex(f)
			res := f.Signature.Results()
			if ei < 0 || res.Len() < 2 {
				continue
			}
			for i := 0; i < res.Len(); i++ {
				pt, ok := res.At(i).Type().Underlying().(*types.Pointer)
				if !ok {
					continue
				}
				if _, ok := pt.Elem().Underlying().(*types.Struct); !ok {
					continue
				}
				n++
				// can a success return carry nil in result i?
				var leak *ssa.Return
				for _, r := range nilErrorReturns(f) {
					rr := r.(*ssa.Return)
					v := strip(rr.Results[i])
					hasNil := false
					for _, x := range phiInputs(v) {
						if isNilConst(x) {
							hasNil = true
						}
					}
					if !hasNil {
						continue
					}
					_, nonNil := nilTestEdges(f, v)
					if len(Query{Fn: f, IsSite: func(in ssa.Instruction) bool { return in == r }, GenEdge: nonNil}.Run()) > 0 {
						leak = rr
					}
				}
				key := fmt.Sprintf("%s | result %d non-nil on success", FnName(f), i)
				if leak == nil {
					c.OK(rule, key, c.P.Pos(f.Pos()), "no success return can carry a nil pointer", true)
					continue
				}
				// callers that dereference without a nil test
				bad := ""
				if node := c.P.CG.Nodes[f]; node != nil {
					for _, e := range node.In {
						if e.Site == nil || e.Caller == nil || e.Caller.Func == nil || !region[e.Caller.Func] {
							continue
						}
						call, ok := e.Site.(*ssa.Call)
						if !ok || call.Referrers() == nil {
							continue
						}
						for _, ref := range *call.Referrers() {
							ex, ok := ref.(*ssa.Extract)
							if !ok || ex.Index != i || ex.Referrers() == nil {
								continue
							}
							for _, use := range *ex.Referrers() {
								fa, ok := use.(*ssa.FieldAddr)
								if !ok || fa.X != ssa.Value(ex) {
									continue
								}
								_, nn := nilTestEdges(e.Caller.Func, ex)
								if len(Query{Fn: e.Caller.Func, IsSite: func(in ssa.Instruction) bool { return in == ssa.Instruction(fa) }, GenEdge: nn}.Run()) > 0 {
									bad = FnName(e.Caller.Func) + " at " + c.P.InstrPos(fa)
								}
							}
						}
					}
				}
				if bad == "" {
					c.OK(rule, key+" | callers test the pointer", c.P.InstrPos(leak), "a nil result is possible on success, but every caller tests it before use", true)
				} else {
					c.Bad(rule, key, c.P.InstrPos(leak), "this return reports success with a nil pointer, and "+bad+" dereferences it after testing only the error: the request handler panics", nil)
				}
			}
		}
		if n < 5 {
			c.Undecided(rule, "vacuity-floor", "", fmt.Sprintf("only %d pointer results found in the handler region", n))
		}
	}
}

// globalMapLiteral reads a package-level `var T = map[K][]string{ k: {"a", "b"}, ... }` (K a
// string-kinded constant type) from the syntax; fails when the variable is assigned or its map
// updated anywhere outside its initialiser.
func globalMapLiteral(P *Prog, qualified string) (map[string][]string, bool) {
	i := strings.LastIndex(qualified, ".")
	if i < 0 {
		return nil, false
	}
	pkgShort, name := qualified[:i], qualified[i+1:]
	// no writer outside the package initialiser
	written := false
	for _, f := range P.AllFns {
		if strings.HasSuffix(FnName(f), ".init") || strings.Contains(FnName(f), ".init#") {
			continue
		}
		R := NewRenderer(f)
		eachInstr(f, func(in ssa.Instruction) {
			switch x := in.(type) {
			case *ssa.MapUpdate:
				if mv := R.V(x.Map); mv == qualified || mv == "global:"+qualified || strings.HasPrefix(mv, qualified+"[") {
					written = true
				}
			case *ssa.Call:
				if b, ok := x.Call.Value.(*ssa.Builtin); ok && b.Name() == "delete" && len(x.Call.Args) > 0 && R.V(x.Call.Args[0]) == qualified {
					written = true
				}
			case *ssa.Store:
				if g, ok := x.Addr.(*ssa.Global); ok && short(g.String()) == qualified {
					written = true
				}
			}
		})
	}
	if written {
		return nil, false
	}
	var out map[string][]string
	packages.Visit(P.Pkgs, nil, func(p *packages.Package) {
		if p.Types == nil || short(p.Types.Path()) != pkgShort {
			return
		}
		for _, file := range p.Syntax {
			for _, d := range file.Decls {
				gd, ok := d.(*ast.GenDecl)
				if !ok {
					continue
				}
				for _, sp := range gd.Specs {
					vs, ok := sp.(*ast.ValueSpec)
					if !ok {
						continue
					}
					for k, n := range vs.Names {
						if n.Name != name || k >= len(vs.Values) {
							continue
						}
						cl, ok := vs.Values[k].(*ast.CompositeLit)
						if !ok {
							continue
						}
						m := map[string][]string{}
						good := true
						for _, e := range cl.Elts {
							kv, ok := e.(*ast.KeyValueExpr)
							if !ok {
								good = false
								break
							}
							tv, ok := p.TypesInfo.Types[kv.Key]
							if !ok || tv.Value == nil || tv.Value.Kind() != constant.String {
								good = false
								break
							}
							vl, ok := kv.Value.(*ast.CompositeLit)
							if !ok {
								good = false
								break
							}
							key := constant.StringVal(tv.Value)
							if _, dup := m[key]; dup {
								good = false
								break
							}
							m[key] = []string{}
							for _, a := range vl.Elts {
								av, ok := p.TypesInfo.Types[a]
								if !ok || av.Value == nil || av.Value.Kind() != constant.String {
									good = false
									break
								}
								m[key] = append(m[key], constant.StringVal(av.Value))
							}
						}
						if good {
							out = m
						}
					}
				}
			}
		}
	})
	return out, out != nil
}

// C17-STATUS: the state the action table is indexed by.  Server.Status / PrevStatus map
// (replica attached?, volume.meta readable?, Rebuilding, Dirty) to a state; "closed" (and every
// state read from the metadata file) may only be reported when the file was read successfully,
// "initial" only when it does not exist: an unreadable volume.meta is state "error", in which no
// action is offered.
func ruleC17Status(c *Ctx) {
	const rule = "C17-STATUS"
	c.Doc(rule, "replica.Server.Status / PrevStatus: every return of a state constant is cut off by the facts that define the state (initial: volume.meta does not exist; closed / states read from the file: ReadInfo succeeded; open, dirty, rebuilding of an attached replica: s.r != nil and the Rebuilding / Dirty flags)")
	readOK := isNilAtom("replica.ReadInfo($0.Dir)#1")
	notExist := "os.IsNotExist(replica.ReadInfo($0.Dir)#1)"
	for _, name := range []string{fSrv + "Status", fSrv + "PrevStatus"} {
		fn := c.Anchor(rule, name)
		if fn == nil {
			continue
		}
		attached := name == fSrv+"Status"
		by := map[string][]ssa.Instruction{}
		for _, r := range Returns(fn) {
			if len(r.Results) < 1 {
				continue
			}
			// a state that reaches the return through a merge of constants (`st = Dirty; goto out`)
			// is decided where each constant enters the merge
			var visit func(v ssa.Value, site ssa.Instruction, depth int)
			visit = func(v ssa.Value, site ssa.Instruction, depth int) {
				switch x := strip(v).(type) {
				case *ssa.Const:
					st := strings.Trim(constString(x), `"`)
					by[st] = append(by[st], site)
				case *ssa.Phi:
					if depth > 3 {
						c.Bad(rule, FnName(fn)+" | state is a constant", c.P.InstrPos(r), "the state returned is computed: "+NewRenderer(fn).V(v), nil)
						return
					}
					for i, e := range x.Edges {
						p := x.Block().Preds[i]
						visit(e, p.Instrs[len(p.Instrs)-1], depth+1)
					}
				default:
					c.Bad(rule, FnName(fn)+" | state is a constant", c.P.InstrPos(r), "the state returned is computed: "+NewRenderer(fn).V(v), nil)
				}
			}
			visit(r.Results[0], r, 0)
		}
		for st, rets := range by {
			switch st {
			case "initial":
				c.Guard(rule, fn, rets, "return initial", nil, atom("volume.meta does not exist", notExist))
			case "error":
				c.OK(rule, FnName(fn)+" | return error", c.P.InstrPos(rets[0]), "no action is offered in state error", false)
			case "closed":
				needs := []Need{atom("volume.meta was read", readOK)}
				if attached {
					needs = append(needs, atom("no replica attached", isNilAtom("$0.r")))
				}
				c.Guard(rule, fn, rets, "return closed", nil, needs...)
			case "open", "dirty", "rebuilding":
				info := "replica.ReadInfo($0.Dir)#0"
				var needs []Need
				if attached {
					info = "$0.r.info"
					needs = append(needs, atom("replica attached", notNilAtom("$0.r")))
				} else {
					needs = append(needs, atom("volume.meta was read", readOK))
				}
				switch st {
				case "rebuilding":
					needs = append(needs, atom("Rebuilding", info+".Rebuilding"))
				case "dirty":
					needs = append(needs, atom("not Rebuilding", "!"+info+".Rebuilding"), atom("Dirty", info+".Dirty"))
				case "open":
					needs = append(needs, atom("not Rebuilding", "!"+info+".Rebuilding"), atom("not Dirty", "!"+info+".Dirty"))
				}
				c.Guard(rule, fn, rets, "return "+st, nil, needs...)
			default:
				c.Bad(rule, FnName(fn)+" | unknown state", c.P.InstrPos(rets[0]), "state "+st+" is not part of the action table", nil)
			}
		}
		if len(by["error"]) == 0 {
			c.Bad(rule, FnName(fn)+" | unreadable metadata is state error", c.P.Pos(fn.Pos()), "no return of state error: a volume.meta that exists but cannot be read must not be reported as any other state", nil)
		}
	}
	c.Floor(rule, 14)
}

// C09-PROBE / liveness: the controller decides whether a signalled leader (a replica that is
// closed by design during bootstrap) is still reachable by GET /ping; the probe answers whatever
// the replica's state.
func ruleLivenessProbe(rule string) ruleFn {
	return func(c *Ctx) {
		c.Doc(rule, "the replica's GET /ping handler answers unconditionally (no branch, no status other than the implicit 200): the election's reachability probe must not depend on the replica's state")
		rt := c.Anchor(rule, "replica/rest.NewRouter")
		if rt == nil {
			return
		}
		R := NewRenderer(rt)
		found := false
		for _, in := range CallsTo(rt, "(*github.com/gorilla/mux.Route).Handler") {
			cl := in.(*ssa.Call)
			if !strings.Contains(R.V(cl.Call.Args[0]), `"/ping"`) {
				continue
			}
			found = true
			var h *ssa.Function
			v := cl.Call.Args[1]
			for i := 0; i < 4 && h == nil; i++ {
				switch x := v.(type) {
				case *ssa.MakeInterface:
					v = x.X
				case *ssa.ChangeType:
					v = x.X
				case *ssa.MakeClosure:
					h, _ = x.Fn.(*ssa.Function)
				case *ssa.Function:
					h = x
				default:
					i = 4
				}
			}
			key := "replica/rest.NewRouter | /ping answers unconditionally"
			if h == nil {
				c.Undecided(rule, key, c.P.InstrPos(in), "cannot resolve the /ping handler")
				continue
			}
			branches, status := 0, 0
			eachInstr(h, func(x ssa.Instruction) {
				if _, ok := x.(*ssa.If); ok {
					branches++
				}
				if callMatches(x, "invoke:WriteHeader") {
					status++
				}
			})
			if branches == 0 && status == 0 {
				c.OK(rule, key, c.P.Pos(h.Pos()), "single path, implicit 200", false)
			} else {
				c.Bad(rule, key, c.P.Pos(h.Pos()), fmt.Sprintf("the liveness probe is conditional (%d branch(es), %d explicit status): a replica that is closed by design during bootstrap would be judged unreachable and dropped from the election", branches, status), nil)
			}
		}
		if !found {
			c.Bad(rule, "replica/rest.NewRouter | /ping route", "", "no GET /ping route", nil)
		}
	}
}

// extractSliceTable: the state -> actions table written as a function that switches on its state
// parameter and returns, per case, a slice literal of constants (`return []actionName{a, b}`); a
// return of nil allows nothing.  Any other return makes the table unreadable (empty result).
func extractSliceTable(h *ssa.Function) map[string]map[string]bool {
	R := NewRenderer(h)
	m := map[string]map[string]bool{}
	bad := false
	for _, r := range Returns(h) {
		if len(r.Results) != 1 {
			return nil
		}
		v := r.Results[0]
		if isNilConst(v) {
			continue
		}
		sl, ok := v.(*ssa.Slice)
		if !ok || sl.Low != nil || sl.High != nil {
			return nil
		}
		al, ok := sl.X.(*ssa.Alloc)
		if !ok || al.Referrers() == nil {
			return nil
		}
		state := ""
		for _, a := range controlAtoms(h, R, r.Block()) {
			if strings.HasPrefix(a, `+"`) && strings.HasSuffix(a, " ==0") && strings.Contains(a, `" -$`) {
				state = a[2:strings.Index(a, `" -$`)]
				break
			}
		}
		if state == "" {
			return nil
		}
		if m[state] == nil {
			m[state] = map[string]bool{}
		}
		for _, ref := range *al.Referrers() {
			ia, ok := ref.(*ssa.IndexAddr)
			if !ok {
				if ref != ssa.Instruction(sl) {
					if _, dbg := ref.(*ssa.DebugRef); !dbg {
						bad = true
					}
				}
				continue
			}
			if ia.Referrers() == nil {
				continue
			}
			for _, r2 := range *ia.Referrers() {
				st, ok := r2.(*ssa.Store)
				if !ok {
					bad = true
					continue
				}
				kc, ok := strip(st.Val).(*ssa.Const)
				if !ok {
					bad = true
					continue
				}
				m[state][strings.Trim(constString(kc), `"`)] = true
			}
		}
	}
	if bad {
		return nil
	}
	return m
}
