package main

import (
	"fmt"
	"go/token"
	"go/types"
	"regexp"
	"sort"
	"strings"

	"golang.org/x/tools/go/ssa"
)

// ---------------------------------------------------------------------------
// C10: revision counter
// ---------------------------------------------------------------------------

func mustHoldAt(L *LockInfo, fn *ssa.Function, in ssa.Instruction, pathSuffix string, want byte) bool {
	res := L.analyzeLocks(fn)
	for p, m := range res.MustHold[in] {
		if strings.HasSuffix(p, pathSuffix) && (m == want || (want == 'R' && m == 'W')) {
			return true
		}
	}
	return false
}

func ruleC10(c *Ctx) {
	const rule = "C10-REV"
	c.Doc(rule, "Replica.WriteAt: increaseRevisionCounter is called exactly once, only on the edge mode==RW and only after the data write succeeded (or for a quorum replica, which has no data); a nil-error return requires mode RW or WO; mode is read inside the RLock region of the data write.  revisionCache is stored and the counter file read/written only in {initRevisionCounter, GetRevisionCounter, SetRevisionCounter, SetRevisionCounterCloneReplica, increaseRevisionCounter, read/writeRevisionCounter}, with revisionLock held; the cache is updated only after the persist succeeded, with the persisted value; SetRevisionCounter requires mode RW; revision counts are parsed as 64-bit decimals")
	L := lockInfo(c.P)
	if fn := c.Anchor(rule, fRep+"WriteAt"); fn != nil {
		R := NewRenderer(fn)
		inc := CallsTo(fn, fRep+"increaseRevisionCounter")
		if len(inc) != 1 {
			c.Bad(rule, FnName(fn)+" | one increment per write", "", fmt.Sprintf("expected exactly one increaseRevisionCounter call, found %d", len(inc)), nil)
		} else {
			c.OK(rule, FnName(fn)+" | one increment per write", c.P.InstrPos(inc[0]), "single call site", false)
			// not in a loop: the call cannot reach itself
			if len(reachableFrom(inc[0], func(in ssa.Instruction) bool { return in == inc[0] })) > 0 {
				c.Bad(rule, FnName(fn)+" | increment not in a loop", c.P.InstrPos(inc[0]), "increment can execute more than once per write", nil)
			}
		}
		dw := CallsTo(fn, fDD+"WriteAt")
		mode := `phi{"" | $0.mode}`
		needs := []Need{
			atom("mode == RW", eqAtom(`"RW"`, mode)),
			atom("replica writable", "!$0.readOnly"),
		}
		if len(dw) == 1 {
			needs = append(needs, Need{Desc: "data write succeeded (or quorum replica without data)", Edge: orEdges(successEdgesOfCall(fn, dw[0]), atomEdges(fn, R, eqAtom(`"quorum"`, "$0.ReplicaType")))})
		} else {
			c.Bad(rule, FnName(fn)+" | data write", "", "expected one r.volume.WriteAt call", nil)
		}
		c.Guard(rule, fn, inc, "increaseRevisionCounter", nil, needs...)
		c.Guard(rule, fn, nilErrorReturns(fn), "return nil", nil,
			atom("mode RW or WO", eqAtom(`"RW"`, mode), eqAtom(`"WO"`, mode)),
			Need{Desc: "counter persisted or mode WO", Atoms: []string{eqAtom(`"WO"`, mode)}, OkCalls: []string{fRep + "increaseRevisionCounter"}})
		// mode read under the read lock of the data write
		var loads []ssa.Instruction
		eachInstr(fn, func(in ssa.Instruction) {
			if u, ok := in.(*ssa.UnOp); ok && u.Op == token.MUL && R.V(u) == "$0.mode" {
				loads = append(loads, in)
			}
		})
		c.Guard(rule, fn, loads, "read r.mode", lockOrUnlock, needLock("replica read lock held"),
			Need{Desc: "after the data write", Instr: func(in ssa.Instruction) bool { return len(dw) == 1 && in == dw[0] }})
		if len(loads) == 0 {
			c.Bad(rule, FnName(fn)+" | mode read", "", "WriteAt no longer reads r.mode", nil)
		}
	}
	// LOCKED + WHO
	allowed := map[string]bool{
		fRep + "initRevisionCounter": true, fRep + "GetRevisionCounter": true, fRep + "SetRevisionCounter": true,
		fRep + "SetRevisionCounterCloneReplica": true, fRep + "increaseRevisionCounter": true,
	}
	for _, fn := range prodFns(c.P) {
		var sites []ssa.Instruction
		sites = append(sites, StoresTo(fn, "Replica", "revisionCache")...)
		sites = append(sites, AnyCallsTo(fn, fRep+"writeRevisionCounter", fRep+"readRevisionCounter")...)
		for i, s := range sites {
			key := fmt.Sprintf("%s | revision state access[%d]", FnName(fn), i)
			underLock := func(f *ssa.Function, site ssa.Instruction) []Witness {
				FR := NewRenderer(f)
				return Query{Fn: f, IsSite: func(in ssa.Instruction) bool { return in == site },
					Gen: func(in ssa.Instruction) bool {
						return isPlainCall(in) && callMatches(in, "(*sync.Mutex).Lock") && strings.HasSuffix(FR.V(in.(*ssa.Call).Call.Args[0]), ".revisionLock")
					},
					Kill: func(in ssa.Instruction) bool { return isPlainCall(in) && callMatches(in, "(*sync.Mutex).Unlock") }}.Run()
			}
			if !allowed[FnName(fn)] {
				// a helper introduced later is part of the API when it is called only by the API,
				// with revisionLock held at every call
				okHelper := isFreshFn(fn) && fn.Parent() == nil
				ncallers := 0
				if okHelper {
					if node := c.P.CG.Nodes[fn]; node != nil {
						for _, e := range node.In {
							if e.Caller == nil || e.Caller.Func == nil || e.Site == nil {
								continue
							}
							ncallers++
							if !allowed[FnName(e.Caller.Func)] || len(underLock(e.Caller.Func, e.Site)) > 0 {
								okHelper = false
							}
						}
					}
				}
				if okHelper && ncallers > 0 {
					c.OK(rule, key+" | helper of the API, called under revisionLock", c.P.InstrPos(s), fmt.Sprintf("%d call sites, all in the revision-counter API with revisionLock held", ncallers), true)
				} else {
					c.Bad(rule, key, c.P.InstrPos(s), "revision cache / counter file accessed outside the revision-counter API", nil)
				}
				continue
			}
			ws := underLock(fn, s)
			if len(ws) == 0 {
				c.OK(rule, key+" | under revisionLock", c.P.InstrPos(s), "revisionLock acquired on every path and not released before the access", true)
			} else {
				c.Bad(rule, key+" | under revisionLock", c.P.InstrPos(s), "revision counter state is accessed without revisionLock held (a concurrent increment can be lost or the counter can go back)", c.witness(ws[0]))
			}
		}
	}
	_ = L
	// CACHE-AFTER
	for _, spec := range []struct{ fn, arg string }{
		{fRep + "increaseRevisionCounter", "(+$0.revisionCache +1)"},
		{fRep + "SetRevisionCounter", "$1"},
		{fRep + "SetRevisionCounterCloneReplica", "$1"},
	} {
		fn := c.Anchor(rule, spec.fn)
		if fn == nil {
			continue
		}
		R := NewRenderer(fn)
		wr := CallsToW(fn, fRep+"writeRevisionCounter")
		if len(wr) != 1 {
			c.Bad(rule, spec.fn+" | persist then cache", "", "expected one writeRevisionCounter and one store of revisionCache", nil)
			continue
		}
		// the write and the cache update are in fn, or both in one helper that wraps the write
		exec, ER := fn, R
		var outerArgs []string
		if h, _ := wrapperInner(wr[0], fRep+"writeRevisionCounter"); h != nil {
			exec, ER = h, NewRenderer(h)
			outerArgs = callArgs(R, wr[0].(ssa.CallInstruction))
		}
		inFn := func(s string) string {
			if outerArgs != nil {
				return substParams(s, outerArgs)
			}
			return s
		}
		st := StoresTo(exec, "Replica", "revisionCache")
		if len(st) != 1 {
			c.Bad(rule, spec.fn+" | persist then cache", "", "expected one writeRevisionCounter and one store of revisionCache", nil)
			continue
		}
		if got := renderVia(R, wr[0], fRep+"writeRevisionCounter"); got != fRep+"writeRevisionCounter($0,"+spec.arg+")" {
			c.Bad(rule, spec.fn+" | persisted value", c.P.InstrPos(wr[0]), "persists "+got+", expected "+spec.arg, nil)
		} else {
			c.OK(rule, spec.fn+" | persisted value", c.P.InstrPos(wr[0]), "writeRevisionCounter("+spec.arg+")", false)
		}
		if got := inFn(ER.V(st[0].(*ssa.Store).Val)); got != spec.arg {
			c.Bad(rule, spec.fn+" | cached value == persisted value", c.P.InstrPos(st[0]), "cache receives "+got+" but "+spec.arg+" was persisted", nil)
		} else {
			c.OK(rule, spec.fn+" | cached value == persisted value", c.P.InstrPos(st[0]), "same value", false)
		}
		c.Guard(rule, exec, st, "update cache", nil, okcall(fRep+"writeRevisionCounter"))
		c.Guard(rule, exec, nilErrorReturns(exec), "return nil", nil, okcall(fRep+"writeRevisionCounter"))
		if exec != fn {
			if ws := successNotVia(fn, wr[0]); len(ws) == 0 {
				c.OK(rule, spec.fn+" | success only through "+FnName(exec), c.P.InstrPos(wr[0]), "every success return forwards or follows the helper's success", true)
			} else {
				c.Bad(rule, spec.fn+" | success only through "+FnName(exec), c.P.InstrPos(wr[0]), "a success return is reachable without the counter having been persisted", c.witness(ws[0]))
			}
		}
	}
	if fn := c.Anchor(rule, fRep+"SetRevisionCounter"); fn != nil {
		c.Guard(rule, fn, CallsToW(fn, fRep+"writeRevisionCounter"), "set counter", nil, atom("mode == RW", eqAtom(`"RW"`, "$0.mode")))
	}
	// the persisted block is a function of the counter alone: the buffer handed to the file is
	// created (zero-filled) by this call, never state that survives from an earlier write
	// (a shorter decimal would keep the old trailing digits: 12 then 9 persists "92")
	if fn := c.Anchor(rule, fRep+"writeRevisionCounter"); fn != nil {
		R := NewRenderer(fn)
		n := 0
		eachInstr(fn, func(in ssa.Instruction) {
			cl, ok := in.(*ssa.Call)
			if !ok || len(cl.Call.Args) < 2 || !strings.HasSuffix(CalleeName(in), ".WriteAt") {
				return
			}
			n++
			buf := cl.Call.Args[len(cl.Call.Args)-2]
			key := FnName(fn) + " | block written is built by this call"
			if why := persistentBuffer(buf, 0); why == "" {
				c.OK(rule, key, c.P.InstrPos(in), "buffer "+R.V(buf)+" is allocated (zeroed) in this call", true)
			} else {
				c.Bad(rule, key, c.P.InstrPos(in), "the block written to the counter file is "+why+": bytes of an earlier, longer value survive and a stale count is persisted", nil)
			}
		})
		if n == 0 {
			c.Bad(rule, FnName(fn)+" | block written is built by this call", "", "no WriteAt to the counter file found", nil)
		}
	}
	// GetRevisionCounter refreshes from the file
	if fn := c.Anchor(rule, fRep+"GetRevisionCounter"); fn != nil {
		R := NewRenderer(fn)
		for _, s := range StoresTo(fn, "Replica", "revisionCache") {
			if v := R.V(s.(*ssa.Store).Val); v != fRep+"readRevisionCounter($0)#0" {
				c.Bad(rule, FnName(fn)+" | cache = value read", c.P.InstrPos(s), "cache receives "+v, nil)
			} else {
				c.Guard(rule, fn, []ssa.Instruction{s}, "cache = value read", nil, okcall(fRep+"readRevisionCounter"))
			}
		}
	}
	c.Floor(rule, 24)
}

// ---------------------------------------------------------------------------
// C11 / C17: refusals on the replica
// ---------------------------------------------------------------------------

func ruleC11Refuse(rule string) ruleFn {
	return func(c *Ctx) {
		c.Doc(rule, "PrepareRemoveDisk: marking a disk removed and emitting actions is cut off by mode==RW, disk != head, disk != latest snapshot (info.Parent), disk has a parent (not the base); RemoveDiffDisk: removeDiskNode/rmDisk are cut off by mode==RW, name != head, name != info.Parent; ReplaceDisk: hardlink/remove are cut off by mode==RW and target != head; all under the replica lock; removeDiskNode splices activeDiskData and the file list at the same index after re-parenting the child")
		if fn := c.Anchor(rule, fRep+"PrepareRemoveDisk"); fn != nil {
			disk := "phi{$1 | replica.GenerateSnapshotDiskName($1)}"
			data := "phi{$0.diskData[$1] | $0.diskData[replica.GenerateSnapshotDiskName($1)]}"
			// the actions are emitted by processPrepareRemoveDisks, or (helper written out in
			// place) by the stores that fill the PrepareRemoveAction literals
			emit := CallsTo(fn, fRep+"processPrepareRemoveDisks")
			inPlace := false
			if len(emit) == 0 {
				eachInstr(fn, func(in ssa.Instruction) {
					if st, ok := in.(*ssa.Store); ok {
						if tn, fld, _ := fieldAddrOf(st.Addr); tn == "PrepareRemoveAction" && fld == "Action" {
							emit = append(emit, in)
							inPlace = true
						}
					}
				})
			}
			sites := append(CallsTo(fn, fRep+"markDiskAsRemoved"), emit...)
			c.Guard(rule, fn, sites, "mark removed / emit actions", lockOrUnlock,
				needWLock("replica lock taken"),
				atom("mode == RW", eqAtom(`"RW"`, "$0.mode")),
				atom("disk is known", "has($0.diskData,$1)", "has($0.diskData,replica.GenerateSnapshotDiskName($1))"),
				atom("not the head", neAtom(disk, "$0.info.Head")),
				atom("not the latest snapshot", neAtom("$0.info.Parent", disk)),
				atom("not the base snapshot", neAtom(`""`, data+".Parent")))
			c.Guard(rule, fn, emit, "emit actions", nil, okcall(fRep+"markDiskAsRemoved"))
			if len(sites) < 2 || len(emit) == 0 {
				c.Bad(rule, FnName(fn)+" | structure", "", "expected markDiskAsRemoved and the emission of the coalesce / remove actions", nil)
			}
			if inPlace {
				prepareActionsShape(c, rule, fn, disk)
			}
		}
		if fn := c.Anchor(rule, fRep+"RemoveDiffDisk"); fn != nil {
			sites := append(CallsTo(fn, fRep+"removeDiskNode"), CallsTo(fn, fRep+"rmDisk")...)
			c.Guard(rule, fn, sites, "remove disk", lockOrUnlock,
				needWLock("replica lock taken"),
				atom("mode == RW", eqAtom(`"RW"`, "$0.mode")),
				atom("not the head", neAtom("$0.info.Head", "$1")),
				atom("not the latest snapshot", neAtom("$0.info.Parent", "$1")))
		}
		if fn := c.Anchor(rule, fRep+"ReplaceDisk"); fn != nil {
			sites := append(CallsTo(fn, fRep+"hardlinkDisk"), CallsTo(fn, fRep+"removeDiskNode", fRep+"rmDisk")...)
			c.Guard(rule, fn, sites, "replace disk", lockOrUnlock,
				needWLock("replica lock taken"),
				atom("mode == RW", eqAtom(`"RW"`, "$0.mode")),
				atom("target is not the head", neAtom("$0.info.Head", "$1")))
		}
		if fn := c.P.Fn(fRep + "processPrepareRemoveDisks"); fn != nil { // optional: may be written out in PrepareRemoveDisk
			prepareActionsShape(c, rule, fn, "$1[*]")
		}
		if fn := c.Anchor(rule, fRep+"removeDiskNode"); fn != nil {
			R := NewRenderer(fn)
			ri := CallsTo(fn, fDD+"RemoveIndex")
			st := StoresTo(fn, "Replica", "activeDiskData")
			idx := fRep + "findDisk($0,$1)"
			if len(ri) == 1 && callRender(R, ri[0]) == fDD+"RemoveIndex(&$0.volume,"+idx+")" {
				c.OK(rule, FnName(fn)+" | RemoveIndex(findDisk(name))", c.P.InstrPos(ri[0]), "file list spliced at the removed disk's index", false)
			} else {
				c.Bad(rule, FnName(fn)+" | RemoveIndex(findDisk(name))", "", "block map / file list is not shifted at the index of the removed disk", nil)
			}
			want := "append($0.activeDiskData[:+" + idx + "],$0.activeDiskData[+" + idx + " +1:])"
			if len(st) == 1 && R.V(st[0].(*ssa.Store).Val) == want {
				c.OK(rule, FnName(fn)+" | activeDiskData spliced at the same index", c.P.InstrPos(st[0]), want, false)
				c.Guard(rule, fn, st, "splice activeDiskData", nil, okcall(fDD+"RemoveIndex"), atom("disk is in the live chain", "+"+idx+" -1 >=0"))
			} else {
				got := ""
				if len(st) == 1 {
					got = R.V(st[0].(*ssa.Store).Val)
				}
				c.Bad(rule, FnName(fn)+" | activeDiskData spliced at the same index", "", "got "+got, nil)
			}
			c.Guard(rule, fn, ri, "RemoveIndex", nil, atom("disk is in the live chain", "+"+idx+" -1 >=0"), atom("exactly one child", "-len($0.diskChildrenMap[$1]) +1 >=0"))
		}
		// removeDiskNode: "the removed disk was the latest snapshot" (len(activeDiskData)-2 == index)
		// is decided on the list as it was when the index was looked up: before the splice; on that
		// edge info.Parent moves to the head's new parent
		if fn := c.P.Fn(fRep + "removeDiskNode"); fn != nil {
			R := NewRenderer(fn)
			idx := fRep + "findDisk($0,$1)"
			latest := "+" + idx + " -len($0.activeDiskData) +2 ==0"
			decided := func(b *ssa.BasicBlock, k int) bool {
				for _, ea := range edgeAtomsOf(fn, R, b) {
					if ea.Atom.String() == latest || ea.Atom.Neg().String() == latest {
						return true
					}
				}
				return false
			}
			c.Guard(rule, fn, StoresTo(fn, "Replica", "activeDiskData"), "splice activeDiskData", nil,
				Need{Desc: "latest-snapshot test made on the unspliced list", Edge: decided})
			var ps []ssa.Instruction
			for _, in := range StoresTo(fn, "Info", "Parent") {
				ps = append(ps, in)
			}
			if len(ps) == 1 {
				c.Guard(rule, fn, ps, "info.Parent = head's parent", func(in ssa.Instruction) bool {
					s, ok := in.(*ssa.Store)
					return ok && strings.HasSuffix(R.V(s.Addr), "$0.activeDiskData")
				}, atom("removed disk was the latest snapshot", latest))
				if v := R.V(ps[0].(*ssa.Store).Val); v != "$0.diskData[$0.info.Head].Parent" {
					c.Bad(rule, FnName(fn)+" | info.Parent value", c.P.InstrPos(ps[0]), "info.Parent receives "+v, nil)
				}
			} else {
				c.Bad(rule, FnName(fn)+" | info.Parent follows the removal of the latest snapshot", "", fmt.Sprintf("expected one store to info.Parent, found %d", len(ps)), nil)
			}
		}
		if fn := c.Anchor(rule, fRep+"findDisk"); fn != nil {
			var hits []ssa.Instruction
			for _, r := range Returns(fn) {
				if !isNilConst(r.Results[0]) {
					if cst, ok := strip(r.Results[0]).(*ssa.Const); !ok || constString(cst) != "0" {
						hits = append(hits, r)
					}
				}
			}
			// slot 0 is a placeholder: the scan may skip it (`if i == 0 { continue }` or a loop from 1)
			c.Guard(rule, fn, hits, "return index", nil, atom("name matches", eqAtom("$0.activeDiskData[*].Name", "$1"), eqAtom("$0.activeDiskData[+*1].Name", "$1"), eqAtom("$0.activeDiskData[*1].Name", "$1")))
		}
		c.Floor(rule, 20)
	}
}

// ---------------------------------------------------------------------------
// C12: publish after persist, persisted attributes, request-supplied names
// ---------------------------------------------------------------------------

var persistedDiskFields = map[string]bool{"Parent": true, "Removed": true, "UserCreated": true, "Created": true, "RevisionCounter": true, "Name": true}
var persistedInfoFields = map[string]bool{"Size": true, "Head": true, "Checkpoint": true, "CloneStatus": true, "Rebuilding": true, "UUID": true, "Parent": true}

func ruleC12(c *Ctx) {
	const rule = "C12-PERSIST"
	c.Doc(rule, "in non-constructor code of package replica every store to a persisted field of a *disk (Parent, Removed, UserCreated, Created, RevisionCounter, Name) is followed on all success paths by an encodeToFile call, and every store to a persisted field of r.info (Size, Head, Checkpoint, CloneStatus, Rebuilding, UUID, Parent) by encodeToFile(.., volume.meta) or is itself made only after that commit (r.info = info); management operations that name a disk (RemoveDiffDisk, ReplaceDisk, revertDisk, PrepareRemoveDisk) act only on names that were validated against the in-memory chain or the on-disk metadata")
	exempt := map[string]string{
		"replica.construct":         "constructor: fills r.info before the chain is opened; ends with writeVolumeMetaData",
		fRep + "readDiskData":       "open-time metadata walk: reads the persisted value (Name is the file name)",
		fRep + "readMetadata":       "open-time metadata walk",
		fRep + "Reload":             "copies mode/dirty flag into the freshly constructed instance",
		"replica.CreateTempReplica": "temporary in-memory instance",
		fSrv + "initUUID":           "temporary instance; persisted by writeVolumeMetaData (error exception F13)",
		fRep + "insertBackingFile":  "backing file pseudo-disk, never persisted",
		fRep + "removeDiskNode":     "info.Parent is re-derived from the head's metadata on open",
		fRep + "WriteAt":            "info.Dirty is written at open/close",
		fRep + "Sync":               "info.Dirty",
		fRep + "Unmap":              "info.Dirty",
		fRep + "createNewHead":      "fills a fresh local disk value that is encoded by the same function",
	}
	n := 0
	for _, fn := range pkgFuncs(c.P, "replica") {
		if fn.Parent() != nil {
			continue
		}
		R := NewRenderer(fn)
		eachInstr(fn, func(in ssa.Instruction) {
			s, ok := in.(*ssa.Store)
			if !ok {
				return
			}
			tn, f, fa := fieldAddrOf(s.Addr)
			if fa == nil {
				return
			}
			isDisk := tn == "disk" && persistedDiskFields[f]
			isInfo := tn == "Info" && persistedInfoFields[f]
			if !isDisk && !isInfo {
				return
			}
			a := R.V(s.Addr)
			if strings.HasPrefix(a, "&var(") {
				return // local copy (e.g. info := r.info; info.Head = ...): persisted by encodeToFile(&info)
			}
			n++
			key := fmt.Sprintf("%s | %s.%s", FnName(fn), tn, f)
			if why, ok := exempt[FnName(fn)]; ok {
				c.OK(rule, key, c.P.InstrPos(in), "exempt: "+why, false)
				return
			}
			// the object whose attribute changed: the metadata write must be given that object
			obj := strings.TrimSuffix(strings.TrimPrefix(a, "&"), "."+f)
			// diskData is keyed by disk.Name: diskData[d.Name] is d when d itself came out of diskData
			if m := diskByOwnName.FindStringSubmatch(obj); m != nil {
				obj = m[1]
			}
			// Name = V is persisted as the name of V's metadata file
			nameFile := ""
			if isDisk && f == "Name" {
				nameFile = ",(" + R.V(s.Val) + ` + ".meta"))`
			}
			ws := Query{Fn: fn, Start: in, Gen: func(x ssa.Instruction) bool {
				if !isPlainCall(x) {
					return false
				}
				if callMatches(x, fRep+"encodeToFile") {
					got := callRender(R, x)
					return strings.Contains(got, ","+obj+",") || strings.Contains(got, ",&"+obj+",")
				}
				return callMatches(x, fRep+"writeVolumeMetaData") || callMatches(x, fRep+"updateParentDisk") || callMatches(x, fRep+"updateParentRevisionCounter")
			}, IsSite: func(x ssa.Instruction) bool {
				for _, r := range successReturns(fn) {
					if r == x {
						return true
					}
				}
				return false
			}}.Run()
			if len(ws) > 0 && nameFile != "" {
				for _, call := range CallsTo(fn, fRep+"encodeToFile") {
					if !strings.HasSuffix(callRender(R, call), nameFile) {
						continue
					}
					if len(Query{Fn: fn, IsSite: func(x ssa.Instruction) bool { return x == in }, GenEdge: successEdgesOfCall(fn, call)}.Run()) == 0 {
						ws = nil
					}
				}
			}
			if len(ws) > 0 && persistedFirst(fn, s) {
				c.OK(rule, key, c.P.InstrPos(in), "persist-then-publish: the store is cut off by the success edge of a metadata write that was given the stored value", true)
			} else if len(ws) == 0 {
				c.OK(rule, key, c.P.InstrPos(in), "every success return after the store passes encodeToFile", true)
			} else {
				c.Bad(rule, key, c.P.InstrPos(in), "persisted attribute changed in memory but a success return is reachable without writing the metadata file: the value is lost on reopen", c.witness(ws[0]))
			}
		})
	}
	if n < 15 {
		c.Undecided(rule, "vacuity-floor", "", fmt.Sprintf("only %d stores to persisted attributes found", n))
	}
	// whole-struct publication of r.info
	for _, fn := range pkgFuncs(c.P, "replica") {
		if FnName(fn) == "replica.CreateTempReplica" || FnName(fn) == fSrv+"initUUID" {
			continue
		}
		R := NewRenderer(fn)
		for _, s := range StoresTo(fn, "Replica", "info") {
			v := R.V(s.(*ssa.Store).Val)
			key := FnName(fn) + " | r.info = " + v
			if v == "var(replica.Info)" {
				c.Guard(rule, fn, []ssa.Instruction{s}, "publish r.info", nil, atom("volume.meta committed first", "+"+fRep+`encodeToFile($0,&var(replica.Info),"volume.meta") -nil ==0`))
			} else {
				c.Bad(rule, key, c.P.InstrPos(s), "r.info replaced by an unexpected value", nil)
			}
		}
	}
	// NAME: request-supplied names
	const nrule = "C12-NAME"
	c.Doc(nrule, "a disk name supplied by a management request reaches os.Remove/os.Link/createNewHead only after it was validated: a diskData[name] hit, or a disk-name shape predicate plus (for revert) the existence of <name>.meta")
	valid := func(fn *ssa.Function, R *Renderer, p string) Need {
		return Need{Desc: "name " + p + " validated against the chain", Atoms: []string{
			"has($0.diskData," + p + ")",
			"replica.IsHeadDisk(" + p + ")",
			isNilAtom("replica.GetSnapshotNameFromDiskName(" + p + ")#1"),
			isNilAtom("os.Stat(" + fRep + "diskPath($0,(" + p + ` + ".meta")))#1`),
			isNilAtom("replica.validDiskName(" + p + ")"),
		}}
	}
	for _, spec := range []struct {
		fn     string
		params []string
		sinks  []string
	}{
		{fRep + "RemoveDiffDisk", []string{"$1"}, []string{fRep + "rmDisk"}},
		{fRep + "ReplaceDisk", []string{"$1", "$2"}, []string{fRep + "hardlinkDisk", fRep + "rmDisk"}},
		{fRep + "revertDisk", []string{"$1"}, []string{fRep + "createNewHead"}},
	} {
		fn := c.Anchor(nrule, spec.fn)
		if fn == nil {
			continue
		}
		R := NewRenderer(fn)
		sinks := CallsTo(fn, spec.sinks...)
		for _, p := range spec.params {
			var mine []ssa.Instruction
			for _, s := range sinks {
				if strings.Contains(callRender(R, s), ","+p) {
					mine = append(mine, s)
				}
			}
			c.Guard(nrule, fn, mine, "file operation on "+p, nil, valid(fn, R, p))
		}
	}
	// the helper itself: nil only for head / snapshot disk names
	if h := c.P.Fn("replica.validDiskName"); h != nil {
		var acc []ssa.Instruction
		for _, r := range successReturns(h) {
			propagates := false
			for _, g := range CallsTo(h, "replica.GetSnapshotNameFromDiskName") {
				if ev := errOfCall(g); ev != nil && sameValue(r.(*ssa.Return).Results[0], ev) && NewRenderer(h).V(g.(*ssa.Call).Call.Args[0]) == "$0" {
					propagates = true // `return err` of the shape check itself
				}
			}
			if !propagates {
				acc = append(acc, r)
			}
		}
		c.Guard(nrule, h, acc, "accept name", nil, atom("name has the shape of a head or snapshot file", "replica.IsHeadDisk($0)", isNilAtom("replica.GetSnapshotNameFromDiskName($0)#1")))
		if f := c.P.Fn("replica.GetSnapshotNameFromDiskName"); f != nil {
			c.Guard(nrule, f, nilErrorReturns(f), "accept snapshot name", nil,
				atom("volume-snap- prefix", `strings.HasPrefix($0,"volume-snap-")`), atom(".img suffix", `strings.HasSuffix($0,".img")`))
		}
		if f := c.P.Fn("replica.IsHeadDisk"); f != nil {
			var tr []ssa.Instruction
			for _, r := range Returns(f) {
				if cst, ok := strip(r.Results[0]).(*ssa.Const); ok && constString(cst) == "true" {
					tr = append(tr, r)
				}
			}
			c.Guard(nrule, f, tr, "accept head name", nil, atom("volume-head- prefix", `strings.HasPrefix($0,"volume-head-")`), atom(".img suffix", `strings.HasSuffix($0,".img")`))
		}
	}
	// revert additionally needs the snapshot's metadata, and the target must be a snapshot (the
	// current head is removed by the revert: a head name as target leaves a head without parent)
	if fn := c.P.Fn(fRep + "revertDisk"); fn != nil {
		c.Guard(nrule, fn, CallsTo(fn, fRep+"createNewHead"), "new head on snapshot", nil,
			atom("target is a snapshot name (not a head)", isNilAtom("replica.GetSnapshotNameFromDiskName($1)#1")),
			atom("snapshot data file exists", isNilAtom("os.Stat("+fRep+"diskPath($0,$1))#1")),
			atom("snapshot metadata exists", isNilAtom("os.Stat("+fRep+`diskPath($0,($1 + ".meta")))#1`)))
	}
	c.Floor(nrule, 5)
}

func ruleC13Persist(c *Ctx) {
	const rule = "C13-PERSIST"
	c.Doc(rule, "Replica.SetCheckpoint reports success only after encodeToFile(&r.info, volume.meta) succeeded in that very call (an acknowledged checkpoint is on disk), under the replica lock; Server.SetCheckpoint forwards to it for the open replica")
	fn := c.Anchor(rule, fRep+"SetCheckpoint")
	if fn == nil {
		return
	}
	R := NewRenderer(fn)
	enc := callsMatching(fn, R, fRep+"encodeToFile", `"volume.meta"`)
	if len(enc) != 1 {
		c.Bad(rule, FnName(fn)+" | persists", "", "expected one encodeToFile(&r.info, volume.meta)", nil)
		return
	}
	c.Guard(rule, fn, successReturns(fn), "return success", nil, Need{Desc: "volume.meta written in this call", Instr: func(in ssa.Instruction) bool { return in == enc[0] }})
	c.Guard(rule, fn, enc, "persist checkpoint", lockOrUnlock, needWLock("replica lock taken"),
		Need{Desc: "info.Checkpoint holds the requested snapshot", Instr: func(in ssa.Instruction) bool {
			s, ok := in.(*ssa.Store)
			return ok && R.V(s.Addr) == "&$0.info.Checkpoint" && R.V(s.Val) == "$1"
		}})
	if f := c.Anchor(rule, fSrv+"SetCheckpoint"); f != nil {
		FR := NewRenderer(f)
		cs := CallsTo(f, fRep+"SetCheckpoint")
		if len(cs) == 1 && callRender(FR, cs[0]) == fRep+"SetCheckpoint($0.r,$1)" {
			c.OK(rule, FnName(f)+" | forwards the snapshot name", c.P.InstrPos(cs[0]), "", false)
		} else {
			c.Bad(rule, FnName(f)+" | forwards the snapshot name", "", "Server.SetCheckpoint does not forward to the open replica", nil)
		}
	}
	c.Floor(rule, 4)
}

// persistedFirst: the store's value was passed to writeVolumeMetaData / encodeToFile whose
// success edge dominates the store (persist, then publish in memory).
var diskByOwnName = regexp.MustCompile(`^\$0\.diskData\[(\$0\.diskData\[.*\])\.Name\]$`)

func persistedFirst(fn *ssa.Function, s *ssa.Store) bool {
	for _, call := range CallsTo(fn, fRep+"writeVolumeMetaData", fRep+"encodeToFile") {
		carries := false
		for _, a := range call.(*ssa.Call).Call.Args {
			if strip(a) == strip(s.Val) {
				carries = true
			}
			// ... or the call is given a local copy into whose same field the value was put
			v := strip(a)
			if mi, ok := v.(*ssa.MakeInterface); ok {
				v = mi.X
			}
			if al, ok := v.(*ssa.Alloc); ok {
				_, want, _ := fieldAddrOf(s.Addr)
				for _, u := range *al.Referrers() {
					fa, ok := u.(*ssa.FieldAddr)
					if !ok {
						continue
					}
					if _, f, _ := fieldAddrOf(fa); f != want || want == "" {
						continue
					}
					for _, w := range *fa.Referrers() {
						if st2, ok := w.(*ssa.Store); ok && st2.Addr == ssa.Value(fa) && strip(st2.Val) == strip(s.Val) &&
							(st2.Block() == call.Block() || st2.Block().Dominates(call.Block())) {
							carries = true
						}
					}
				}
			}
		}
		if !carries {
			continue
		}
		ws := Query{Fn: fn, IsSite: func(in ssa.Instruction) bool { return in == ssa.Instruction(s) }, GenEdge: successEdgesOfCall(fn, call)}.Run()
		if len(ws) == 0 {
			return true
		}
	}
	return false
}

// ---------------------------------------------------------------------------
// C16 (replica part)
// ---------------------------------------------------------------------------

func ruleC16Repl(c *Ctx) {
	const rule = "C16-REPL"
	c.Doc(rule, "Replica.Resize: truncate and the in-memory updates are cut off by newSize >= info.Size under the replica lock; every member of Chain() is truncated to the new size; the success return is cut off by the extension of the block map by (new-old)/4096 entries, the store of info.Size = new and encodeToFile(&r.info, volume.meta) issued after that store")
	fn := c.Anchor(rule, fRep+"Resize")
	if fn == nil {
		return
	}
	R := NewRenderer(fn)
	sz := "phi{0 | as<int64>($1) | github.com/docker/go-units.RAMInBytes(as<string>($1))#0}"
	grow := "-$0.info.Size +" + sz + " >=0"
	tr := CallsTo(fn, "syscall.Truncate")
	// the truncation loop: in Resize, or in a helper that is handed the chain and the size
	var via ssa.Instruction
	var viaH *ssa.Function
	var viaArgs []string
	if len(tr) == 0 {
		eachInstr(fn, func(in ssa.Instruction) {
			cl, ok := in.(*ssa.Call)
			if !ok || via != nil {
				return
			}
			h := cl.Call.StaticCallee()
			if h == nil || h.Blocks == nil || !isJivaFn(h) || h == fn || len(CallsTo(h, "syscall.Truncate")) != 1 {
				return
			}
			via, viaH, viaArgs = in, h, callArgs(R, cl)
		})
	}
	var sites []ssa.Instruction
	sites = append(sites, tr...)
	if via != nil {
		sites = append(sites, via)
	}
	sites = append(sites, StoresTo(fn, "Info", "Size")...)
	sites = append(sites, StoresTo(fn, "diffDisk", "location")...)
	c.Guard(rule, fn, sites, "grow", lockOrUnlock, atom("new size >= current size", grow), needWLock("replica lock taken"))
	wantTr := "syscall.Truncate(" + fRep + "diskPath($0," + fRep + "Chain($0)#0[*])," + sz + ")"
	var mem []ssa.Instruction
	mem = append(mem, StoresTo(fn, "Info", "Size")...)
	mem = append(mem, StoresTo(fn, "diffDisk", "location")...)
	switch {
	case len(tr) == 1 && callRender(R, tr[0]) == wantTr:
		c.OK(rule, FnName(fn)+" | every chain member truncated to the new size", c.P.InstrPos(tr[0]), "range over Chain()", false)
		// nothing is recorded in memory before every chain file was truncated successfully
		c.Guard(rule, fn, mem, "record new size in memory", nil, atom("every chain member truncated", "+* -len("+fRep+"Chain($0)#0) >=0"))
	case via != nil:
		HR := NewRenderer(viaH)
		htr := CallsTo(viaH, "syscall.Truncate")[0]
		if got := substParams(callRender(HR, htr), viaArgs); got == wantTr {
			c.OK(rule, FnName(fn)+" | every chain member truncated to the new size", c.P.InstrPos(htr), "range over Chain() in "+FnName(viaH), false)
		} else {
			c.Bad(rule, FnName(fn)+" | every chain member truncated to the new size", c.P.InstrPos(htr), "helper truncates "+got, nil)
		}
		// the helper reports success only after the whole list, and never after a failed truncate
		listArg := -1
		for k, a := range viaArgs {
			if a == fRep+"Chain($0)#0" {
				listArg = k
			}
		}
		c.Guard(rule, viaH, successReturns(viaH), "helper success", nil, atom("every chain member truncated", fmt.Sprintf("+* -len($%d) >=0", listArg)))
		hq := Query{Fn: viaH, Start: htr, GenEdge: successEdgesOfCall(viaH, htr), IsSite: func(in ssa.Instruction) bool {
			for _, r := range successReturns(viaH) {
				if r == in {
					return true
				}
			}
			return false
		}}
		if ws := hq.Run(); len(ws) > 0 {
			c.Bad(rule, FnName(viaH)+" | failed truncate is an error", c.P.InstrPos(htr), "the helper can report success after a failed truncate", c.witness(ws[0]))
		}
		c.Guard(rule, fn, mem, "record new size in memory", nil, Need{Desc: "every chain member truncated (success of " + FnName(viaH) + ")", Edge: successEdgesOfCall(fn, via)})
	default:
		c.Bad(rule, FnName(fn)+" | every chain member truncated to the new size", "", "Truncate is not applied to every member of r.Chain() with the new size", nil)
	}
	enc := CallsTo(fn, fRep+"encodeToFile")
	stSize := StoresTo(fn, "Info", "Size")
	stLoc := StoresTo(fn, "diffDisk", "location")
	if len(stSize) == 1 && R.V(stSize[0].(*ssa.Store).Val) == sz {
		c.OK(rule, FnName(fn)+" | info.Size = new size", c.P.InstrPos(stSize[0]), "", false)
	} else {
		c.Bad(rule, FnName(fn)+" | info.Size = new size", "", "info.Size is not set to the requested size", nil)
	}
	wantLoc := "append($0.volume.location,makeslice(((-$0.info.Size +" + sz + ") / 4096)))"
	if len(stLoc) == 1 && R.V(stLoc[0].(*ssa.Store).Val) == wantLoc {
		c.OK(rule, FnName(fn)+" | block map extended by (new-old)/4096", c.P.InstrPos(stLoc[0]), "", false)
		// extension computed before info.Size is overwritten
		if len(stSize) == 1 {
			c.Guard(rule, fn, stSize, "store info.Size", nil, Need{Desc: "block map extended first (uses the old size)", Instr: func(in ssa.Instruction) bool { return in == stLoc[0] }})
		}
	} else {
		got := ""
		if len(stLoc) == 1 {
			got = R.V(stLoc[0].(*ssa.Store).Val)
		}
		c.Bad(rule, FnName(fn)+" | block map extended by (new-old)/4096", "", "got "+got, nil)
	}
	if len(enc) == 1 && callRender(R, enc[0]) == fRep+`encodeToFile($0,&$0.info,"volume.meta")` {
		c.Guard(rule, fn, enc, "persist size", nil, Need{Desc: "info.Size already holds the new size", Instr: func(in ssa.Instruction) bool { return len(stSize) == 1 && in == stSize[0] }})
	} else {
		c.Bad(rule, FnName(fn)+" | persists r.info after the size was stored", "", "Resize must end with encodeToFile(&r.info, volume.meta) (a copy taken before the store would persist the old size)", nil)
	}
	var okRets []ssa.Instruction
	for _, r := range successReturns(fn) {
		// `return nil` for int64(0) request is the only success return before the work
		okRets = append(okRets, r)
	}
	c.Guard(rule, fn, okRets, "return success", nil,
		Need{Desc: "size persisted (or zero-size no-op request)", Calls: []string{fRep + "encodeToFile"}, Atoms: []string{"+$1 -0 ==0"}})
	if f := c.Anchor(rule, fSrv+"Resize"); f != nil {
		c.Guard(rule, f, CallsTo(f, fRep+"Resize"), "replica resize", lockOrUnlock, needWLock("server write lock taken"), atom("replica open", "+$0.r -nil !=0"))
	}
	c.Floor(rule, 10)
}

func ruleRevParse(rule string) ruleFn {
	return func(c *Ctx) {
		c.Doc(rule, "every strconv.ParseInt that decodes a revision count (operand or enclosing function names a RevCount / RevisionCounter / Counter) uses base 10 and 64 bits: narrower widths saturate large counts, which then compare equal in the election / conflict detection")
		n := 0
		for _, fn := range prodFns(c.P) {
			R := NewRenderer(fn)
			for _, in := range AnyCallsTo(fn, "strconv.ParseInt") {
				cl, ok := in.(*ssa.Call)
				if !ok {
					continue
				}
				a0 := R.V(cl.Call.Args[0])
				rel := strings.Contains(a0, "RevCount") || strings.Contains(a0, "RevisionCounter") || strings.Contains(a0, ".Counter") ||
					strings.Contains(FnName(fn), "RevisionCounter") || strings.Contains(FnName(fn), "UpdateCloneInfo")
				if !rel {
					continue
				}
				n++
				base, _ := intConst(cl.Call.Args[1])
				bits, okb := intConst(cl.Call.Args[2])
				key := FnName(fn) + " | ParseInt(" + a0 + ")"
				if base == 10 && okb && (bits == 64 || bits == 0) {
					c.OK(rule, key, c.P.InstrPos(in), "revision count parsed as a 64-bit decimal", false)
				} else {
					c.Bad(rule, key, c.P.InstrPos(in), fmt.Sprintf("revision count parsed with base %d bitSize %d: counts above the range saturate and compare equal", base, bits), nil)
				}
			}
		}
		if n < 5 {
			c.Undecided(rule, "vacuity-floor ParseInt", "", fmt.Sprintf("only %d revision-count parse sites found", n))
		}
	}
}

// ---------------------------------------------------------------------------
// C12-CHAINLEN / C12-PUBLISH
// ---------------------------------------------------------------------------

func ruleC12Chain(c *Ctx) {
	const rule = "C12-CHAINLEN"
	c.Doc(rule, "sibling agreement of the chain-length limits: createDisk accepts a new disk when len(activeDiskData)+1 <= max (so the longest chain it builds has max-1 files) and openLiveChain must accept every chain createDisk can build: its refusal bound len(chain)+c2 > max needs c2 <= c1 where createDisk refuses on len(activeDiskData)+c1 > max")
	cd, ol := c.Anchor(rule, fRep+"createDisk"), c.Anchor(rule, fRep+"openLiveChain")
	if cd == nil || ol == nil {
		return
	}
	// accept edges  -len(X) + MAX - k >= 0 : MAX is whatever single term both functions compare
	// their chain length with (a constant selection, a field, a helper call)
	find := func(fn *ssa.Function, lenTerm string) map[string]int64 {
		R := NewRenderer(fn)
		out := map[string]int64{}
		for _, ea := range allAtoms(fn, R) {
			a := ea.Atom
			if a.Op != ">=0" || a.L.T[lenTerm] != -1 || len(a.L.T) != 2 {
				continue
			}
			for t, co := range a.L.T {
				if t != lenTerm && co == 1 && t != "*" {
					out[t] = -a.L.K
				}
			}
		}
		return out
	}
	m1 := find(cd, "len($0.activeDiskData)")
	m2 := find(ol, "len("+c.P.callTerm(fRep+"Chain", "$0")+"#0)")
	var maxTerm string
	var c1, c2 int64
	n := 0
	for t, k := range m1 {
		if k2, ok := m2[t]; ok {
			maxTerm, c1, c2 = t, k, k2
			n++
		}
	}
	if n != 1 {
		c.Undecided(rule, "chain length limits", "", fmt.Sprintf("could not read the two chain-length guards against a common maximum (createDisk compares with %v, openLiveChain with %v)", keysOf(m1), keysOf(m2)))
		return
	}
	// createDisk: accepts iff A + c1 <= M with A = files+1 (index 0 unused) -> files_after = A <= M - c1
	// openLiveChain: accepts iff D + c2 <= M
	if c2 <= c1 {
		c.OK(rule, "openLiveChain accepts every chain createDisk builds", c.P.Pos(ol.Pos()), fmt.Sprintf("createDisk refuses above max-%d, openLiveChain above max-%d", c1, c2), true)
	} else {
		c.Bad(rule, "openLiveChain accepts every chain createDisk builds", c.P.Pos(ol.Pos()), fmt.Sprintf("createDisk lets the chain grow to max-%d files but openLiveChain refuses chains longer than max-%d: a replica filled by its own accepted snapshots cannot be reopened", c1, c2), nil)
	}
	if rm := c.Anchor(rule, fRep+"GetRemainSnapshotCounts"); rm != nil {
		R := NewRenderer(rm)
		okr := false
		for _, r := range Returns(rm) {
			lin := R.Lin(strip(r.Results[0]))
			if len(lin.T) == 2 && lin.T["len($0.activeDiskData)"] == -1 && lin.T[maxTerm] == 1 && lin.K == 0 {
				okr = true
			}
		}
		if okr {
			c.OK(rule, "remaining snapshot count = max - len(activeDiskData)", c.P.Pos(rm.Pos()), "", false)
		} else {
			c.Bad(rule, "remaining snapshot count = max - len(activeDiskData)", c.P.Pos(rm.Pos()), "the advertised remaining-snapshot count no longer matches createDisk's limit", nil)
		}
	}
}

func ruleC12Rollback(c *Ctx) {
	const rule = "C12-ROLLBACK"
	c.Doc(rule, "createDisk's deferred cleanup unlinks <new snapshot> and <new snapshot>.meta when the call fails; it may therefore only run for files this call created: before the first effect (createNewHead) the function has established that neither file exists (or that no snapshot is being created)")
	fn := c.Anchor(rule, fRep+"createDisk")
	if fn == nil {
		return
	}
	nh := CallsTo(fn, fRep+"createNewHead")
	if len(nh) != 1 {
		c.Bad(rule, FnName(fn)+" | structure", "", "expected one createNewHead call", nil)
		return
	}
	PR := NewRenderer(fn)
	snap := PR.V(nh[0].(*ssa.Call).Call.Args[2])
	// the cleanup really removes the snapshot name (otherwise nothing to protect): some rmDisk of
	// the deferred literal is given neither the old head nor the new head's name
	removes := false
	for _, cl := range Closures(fn) {
		CR := NewRenderer(cl)
		for _, rm := range CallsTo(cl, fRep+"rmDisk") {
			arg := rm.(*ssa.Call).Call.Args[1]
			as := CR.V(arg)
			if strings.Contains(as, "^"+snap) || (strings.HasPrefix(as, "^var(string") && !capturedHolds(fn, cl, arg, "$0.info.Head") && !strings.Contains(as, ".Name")) {
				removes = true
			}
		}
	}
	if !removes {
		c.OK(rule, FnName(fn)+" | cleanup does not unlink the snapshot name", c.P.InstrPos(nh[0]), "nothing to protect", false)
		return
	}
	noSnap := eqAtom(`""`, snap)
	c.Guard(rule, fn, nh, "first effect", nil,
		atom("snapshot data file does not exist yet", noSnap, notNilAtom("os.Stat("+fRep+"diskPath($0,"+snap+"))#1")),
		atom("snapshot metadata file does not exist yet", noSnap, notNilAtom("os.Stat("+fRep+`diskPath($0,(`+snap+` + ".meta")))#1`)))
}

func ruleC12Publish(c *Ctx) {
	publishRule(c, "C12-PUBLISH", fRep+"createDisk", fRep+"markDiskAsRemoved", fRep+"removeDiskNode")
}

// rulePublishOf: the same discipline for a subset of the functions, under another rule id
// (C11: the removal path only; createDisk's open finding belongs to C12).
func rulePublishOf(rule string, names ...string) ruleFn {
	return func(c *Ctx) { publishRule(c, rule, names...) }
}

func publishRule(c *Ctx, rule string, names ...string) {
	c.Doc(rule, "createDisk, markDiskAsRemoved and removeDiskNode (whose metadata-write failures end the process instead): no error return is reachable after the in-memory chain (diskData, diskChildrenMap, activeDiskData, volume.files, a *disk's attributes) was modified, i.e. memory is published only after the on-disk commit (or rolled back)")
	for _, name := range names {
		fn := c.Anchor(rule, name)
		if fn == nil {
			continue
		}
		R := NewRenderer(fn)
		isMut := func(in ssa.Instruction) bool {
			switch x := in.(type) {
			case *ssa.MapUpdate:
				m := R.V(x.Map)
				return m == "$0.diskData" || m == "$0.diskChildrenMap"
			case *ssa.Store:
				a := R.V(x.Addr)
				return strings.HasPrefix(a, "&$0.diskData[") || a == "&$0.activeDiskData" || a == "&$0.volume.files" || strings.HasPrefix(a, "&$0.activeDiskData[")
			case *ssa.Call:
				return callMatches(x, fRep+"addChildDisk") || callMatches(x, fRep+"updateChildDisk") || (callMatches(x, "builtin:delete") && R.V(x.Call.Args[0]) == "$0.diskData")
			}
			return false
		}
		// r.diskData[k] = v with v the very value looked up under k is not a modification
		identity := func(in ssa.Instruction) bool {
			mu, ok := in.(*ssa.MapUpdate)
			if !ok {
				return false
			}
			v := strip(mu.Value)
			if ex, ok := v.(*ssa.Extract); ok {
				v = ex.Tuple
			}
			lk, ok := v.(*ssa.Lookup)
			return ok && R.V(lk.X) == R.V(mu.Map) && R.V(lk.Index) == R.V(mu.Key)
		}
		rawMut := isMut
		isMut = func(in ssa.Instruction) bool { return rawMut(in) && !identity(in) }
		// roll-back: when everything the function modifies is one cell, storing back the value that
		// was loaded from that cell before the first modification restores the state
		cells := map[string]bool{}
		var muts []ssa.Instruction
		eachInstr(fn, func(in ssa.Instruction) {
			if isMut(in) {
				muts = append(muts, in)
				if s, ok := in.(*ssa.Store); ok {
					cells[R.V(s.Addr)] = true
				} else {
					cells["?"+in.String()] = true
				}
			}
		})
		before := func(a, b ssa.Instruction) bool { // a executes before b on every path to b
			if a.Block() == b.Block() {
				for _, x := range a.Block().Instrs {
					if x == a {
						return true
					}
					if x == b {
						return false
					}
				}
			}
			return a.Block().Dominates(b.Block())
		}
		isRollback := func(in ssa.Instruction) bool {
			s, ok := in.(*ssa.Store)
			if !ok || len(cells) != 1 || !cells[R.V(s.Addr)] {
				return false
			}
			ld, ok := strip(s.Val).(*ssa.UnOp)
			if !ok || ld.Op != token.MUL || R.V(ld.X) != R.V(s.Addr) {
				return false
			}
			for _, m := range muts {
				if m != in && !isRollbackCandidate(m, ld) && !before(ld, m) {
					return false
				}
			}
			return true
		}
		kill := func(in ssa.Instruction) bool { return isMut(in) && !isRollback(in) }
		// error returns reachable with a mutation behind them
		seen := map[string]bool{}
		for _, r := range Returns(fn) {
			ei := errResultIndex(fn)
			if ei < 0 || isNilConst(strip(r.Results[ei])) {
				continue
			}
			ws := Query{Fn: fn, StartHeld: true, Kill: kill, Gen: isRollback, IsSite: func(in ssa.Instruction) bool { return in == ssa.Instruction(r) }}.Run()
			// name the failing step by its callee and constant string arguments (stable under renames)
			what := "error"
			if cl, ok := strip(r.Results[ei]).(*ssa.Call); ok {
				what = CalleeName(cl) + "("
				for _, a := range cl.Call.Args {
					if cst, ok := strip(a).(*ssa.Const); ok && cst.Value != nil && strings.HasPrefix(constString(cst), `"`) {
						what += strings.Trim(constString(cst), `"`)
					}
				}
				what += ")"
			}
			key := name + " | error return after in-memory publication | " + what
			if seen[key] {
				continue
			}
			seen[key] = true
			if len(ws) == 0 {
				c.OK(rule, key, c.P.InstrPos(r), "no in-memory chain mutation precedes this error return", true)
			} else {
				c.Bad(rule, key, c.P.InstrPos(r), "the in-memory chain was already modified when this error is returned: the failed operation leaves memory and disk disagreeing until the next reopen", c.witness(ws[0]))
			}
		}
	}
	c.Floor(rule, 6)
}

// isRollbackCandidate: m is itself a store of the value ld loaded (another restoring store).
func isRollbackCandidate(m ssa.Instruction, ld *ssa.UnOp) bool {
	s, ok := m.(*ssa.Store)
	return ok && strip(s.Val) == ssa.Value(ld)
}

func keysOf(m map[string]int64) []string {
	var out []string
	for k := range m {
		out = append(out, k)
	}
	sort.Strings(out)
	return out
}

// persistentBuffer: "" when the byte slice is created by the current call (make, a local
// array, the result of a call); otherwise a description of the state it comes from.
func persistentBuffer(v ssa.Value, depth int) string {
	if depth > 4 {
		return "of unknown origin"
	}
	switch x := strip(v).(type) {
	case *ssa.Call:
		// a helper of this module hands out whatever its returns hand out
		if h := x.Call.StaticCallee(); h != nil && isJivaFn(h) && len(h.Blocks) > 0 {
			for _, r := range Returns(h) {
				for _, res := range r.Results {
					if _, isSlice := res.Type().Underlying().(*types.Slice); isSlice {
						if w := persistentBuffer(res, depth+1); w != "" {
							return w + " (through " + FnName(h) + ")"
						}
					}
				}
			}
		}
		return ""
	case *ssa.MakeSlice, *ssa.Alloc, *ssa.Const:
		return ""
	case *ssa.Slice:
		return persistentBuffer(x.X, depth+1)
	case *ssa.Phi:
		for _, e := range x.Edges {
			if w := persistentBuffer(e, depth+1); w != "" {
				return w
			}
		}
		return ""
	case *ssa.UnOp:
		if x.Op == token.MUL {
			switch a := x.X.(type) {
			case *ssa.FieldAddr:
				return "a field that outlives the call (" + fieldName(a) + ")"
			case *ssa.Global:
				return "a package variable (" + a.Name() + ")"
			}
		}
	case *ssa.Parameter:
		return "supplied by the caller"
	}
	return "of unknown origin"
}

func fieldName(a *ssa.FieldAddr) string {
	if pt, ok := a.X.Type().Underlying().(*types.Pointer); ok {
		if st, ok := pt.Elem().Underlying().(*types.Struct); ok {
			return fldName(st.Field(a.Field))
		}
	}
	return "?"
}

// prepareActionsShape: the emitted actions are "coalesce <src> into diskData[<src>].Parent", then
// "remove <src>", for src = the disk the request named.
func prepareActionsShape(c *Ctx, rule string, fn *ssa.Function, src string) {
	R := NewRenderer(fn)
	var lits []string
	eachInstr(fn, func(in ssa.Instruction) {
		if s, ok := in.(*ssa.Store); ok {
			if tn, fld, _ := fieldAddrOf(s.Addr); tn == "PrepareRemoveAction" && (fld == "Action" || fld == "Source" || fld == "Target") {
				lits = append(lits, fld+"="+R.V(s.Val))
			}
		}
	})
	j := strings.Join(lits, ";")
	key := FnName(fn) + " | coalesce disk into its parent, then remove disk"
	if strings.Contains(j, `Action="coalesce";Source=`+src+`;Target=$0.diskData[`+src+`].Parent`) && strings.Contains(j, `Action="remove";Source=`+src) &&
		strings.Index(j, `Action="coalesce"`) < strings.Index(j, `Action="remove"`) && strings.Count(j, "Action=") == 2 {
		c.OK(rule, key, c.P.Pos(fn.Pos()), j, false)
	} else {
		c.Bad(rule, key, c.P.Pos(fn.Pos()), "emitted actions are "+j, nil)
	}
}

// edgeAtomsOf: the atoms on the outgoing edges of block b.
func edgeAtomsOf(fn *ssa.Function, R *Renderer, b *ssa.BasicBlock) []EdgeAtom {
	var out []EdgeAtom
	for _, ea := range allAtoms(fn, R) {
		if ea.B == b {
			out = append(out, ea)
		}
	}
	return out
}

// C12-PERSISTFIRST: operations of the replica that, on the confirmed tree, change a field of the
// in-memory info block only after the metadata write that records the change has succeeded
// (persist, then publish) must keep doing so: with the opposite order a failed write is reported
// as an error but leaves the new value in memory - for Rebuilding / Head that is a different
// state for the action table and a chain that is not the one on disk.
var persistFirstFns = map[string]string{
	"(*replica.Replica).SetRebuilding": "Rebuilding selects the replica's state (action table)",
	"(*replica.Replica).createDisk":    "Head / Parent: the in-memory chain must be the committed one",
}

func rulePersistFirst(rule string) ruleFn {
	return func(c *Ctx) {
		c.Doc(rule, "in SetRebuilding and createDisk every store to r.info (or one of its fields) is cut off by the success edge of the metadata write (encodeToFile / writeVolumeMetaData): the new value is published in memory only once it is on disk")
		for name, why := range persistFirstFns {
			fn := c.Anchor(rule, name)
			if fn == nil {
				continue
			}
			R := NewRenderer(fn)
			var st []ssa.Instruction
			eachInstr(fn, func(in ssa.Instruction) {
				if s, ok := in.(*ssa.Store); ok {
					a := R.V(s.Addr)
					if a == "&$0.info" || strings.HasPrefix(a, "&$0.info.") {
						if strings.HasSuffix(a, ".Dirty") {
							return
						}
						st = append(st, in)
					}
				}
			})
			if len(st) == 0 {
				c.Bad(rule, name+" | publishes the persisted info", "", "no store to r.info found ("+why+")", nil)
				continue
			}
			c.Guard(rule, fn, st, "publish r.info", nil, Need{Desc: "metadata write succeeded", OkCalls: []string{fRep + "encodeToFile", fRep + "writeVolumeMetaData"}})
		}
		c.Floor(rule, 2)
	}
}
