package main

import (
	"fmt"
	"go/types"
	"sort"
	"strings"

	"golang.org/x/tools/go/ssa"
)

// ---------------------------------------------------------------------------
// LOCK typestate (rule kind TS/LOCK of DESIGN.md).
//
// Per function, path-sensitive exploration of (block, lock state) pairs.  The lock
// state maps a mutex access path (rendered from the Lock call's receiver, e.g.
// "&$0.RWMutex", "&$0.c.RWMutex") to 'W' or 'R', plus the stack of deferred releases.
// Interprocedural part: summary acquires(g) = access paths, relative to g's
// parameters, that g may lock (transitively through plain and deferred calls, not
// through `go`), substituted at call sites.
// ---------------------------------------------------------------------------

type lockOp struct {
	path  string
	op    byte // 'L' lock, 'R' rlock, 'U' unlock, 'V' runlock
	class string
}

func lockOpOf(R *Renderer, in ssa.Instruction) (lockOp, bool) {
	c, ok := in.(ssa.CallInstruction)
	if !ok {
		return lockOp{}, false
	}
	f := c.Common().StaticCallee()
	if f == nil {
		return lockOp{}, false
	}
	var op byte
	switch f.String() {
	case "(*sync.RWMutex).Lock", "(*sync.Mutex).Lock":
		op = 'L'
	case "(*sync.RWMutex).RLock":
		op = 'R'
	case "(*sync.RWMutex).Unlock", "(*sync.Mutex).Unlock":
		op = 'U'
	case "(*sync.RWMutex).RUnlock":
		op = 'V'
	default:
		return lockOp{}, false
	}
	if len(c.Common().Args) == 0 {
		return lockOp{}, false
	}
	a := c.Common().Args[0]
	return lockOp{path: R.V(a), op: op, class: mutexClass(a)}, true
}

// mutexClass names the mutex by the struct type that contains it (or the variable).
func mutexClass(a ssa.Value) string {
	switch x := a.(type) {
	case *ssa.FieldAddr:
		if pt, ok := x.X.Type().Underlying().(*types.Pointer); ok {
			st := pt.Elem().Underlying().(*types.Struct)
			if n, ok := pt.Elem().(*types.Named); ok {
				return short(n.Obj().Pkg().Path()) + "." + typName(n) + "." + fldName(st.Field(x.Field))
			}
			return "struct." + fldName(st.Field(x.Field))
		}
	case *ssa.Alloc:
		return "local:" + x.Comment
	case *ssa.FreeVar:
		return "local:" + x.Name()
	case *ssa.Global:
		return "global:" + short(x.String())
	case *ssa.UnOp:
		if fa, ok := x.X.(*ssa.FieldAddr); ok {
			// pointer-typed mutex field
			return mutexClass(fa)
		}
	}
	return "other"
}

type acq struct {
	path  string // relative to the function's parameters
	write bool
	class string
	via   string // function in which the Lock call textually occurs
}

type LockInfo struct {
	P        *Prog
	acquires map[*ssa.Function][]acq
	sends    map[*ssa.Function][]string // blocking sends reachable (description)
}

func rootedAtParam(path string) bool {
	p := strings.TrimPrefix(path, "&")
	return strings.HasPrefix(p, "$")
}

func substParams(path string, args []string) string {
	var sb strings.Builder
	for i := 0; i < len(path); i++ {
		if path[i] == '$' && i+1 < len(path) && path[i+1] >= '0' && path[i+1] <= '9' {
			j := i + 1
			n := 0
			for j < len(path) && path[j] >= '0' && path[j] <= '9' {
				n = n*10 + int(path[j]-'0')
				j++
			}
			if n < len(args) {
				sb.WriteString(args[n])
			} else {
				sb.WriteString("?")
			}
			i = j - 1
			continue
		}
		sb.WriteByte(path[i])
	}
	return sb.String()
}

// callArgs: rendered arguments of a call in the caller's terms, receiver first for invokes.
func callArgs(R *Renderer, c ssa.CallInstruction) []string {
	cc := c.Common()
	var out []string
	if cc.IsInvoke() {
		out = append(out, R.V(cc.Value))
	}
	if f := cc.StaticCallee(); f != nil && paramAlias[f] != nil {
		if la := liftedArgs(f, cc.Args, R.V, liftRecv[f]); la != nil {
			return la
		}
	}
	for _, a := range cc.Args {
		out = append(out, R.V(a))
	}
	return out
}

func buildLockInfo(P *Prog) *LockInfo {
	L := &LockInfo{P: P, acquires: map[*ssa.Function][]acq{}, sends: map[*ssa.Function][]string{}}
	// direct
	for _, fn := range P.AllFns {
		R := NewRenderer(fn)
		eachInstr(fn, func(in ssa.Instruction) {
			if _, isGo := in.(*ssa.Go); isGo {
				return
			}
			if lo, ok := lockOpOf(R, in); ok && (lo.op == 'L' || lo.op == 'R') && rootedAtParam(lo.path) {
				L.acquires[fn] = appendAcq(L.acquires[fn], acq{lo.path, lo.op == 'L', lo.class, FnName(fn)})
			}
			if s, ok := in.(*ssa.Send); ok {
				L.sends[fn] = appendStr(L.sends[fn], fmt.Sprintf("send on %s in %s @%s", R.V(s.Chan), FnName(fn), P.InstrPos(in)))
			}
			if s, ok := in.(*ssa.Select); ok && s.Blocking {
				for _, st := range s.States {
					if st.Dir == types.SendOnly {
						L.sends[fn] = appendStr(L.sends[fn], fmt.Sprintf("blocking select-send on %s in %s @%s", R.V(st.Chan), FnName(fn), P.InstrPos(in)))
					}
				}
			}
		})
	}
	// transitive fixpoint
	for changed, iter := true, 0; changed && iter < 50; iter++ {
		changed = false
		for _, fn := range P.AllFns {
			R := NewRenderer(fn)
			eachInstr(fn, func(in ssa.Instruction) {
				c, ok := in.(ssa.CallInstruction)
				if !ok {
					return
				}
				if _, isGo := in.(*ssa.Go); isGo {
					return
				}
				args := callArgs(R, c)
				for _, g := range P.Callees(c) {
					for _, a := range L.acquires[g] {
						np := substParams(a.path, args)
						if !rootedAtParam(np) {
							continue
						}
						before := len(L.acquires[fn])
						L.acquires[fn] = appendAcq(L.acquires[fn], acq{np, a.write, a.class, a.via})
						if len(L.acquires[fn]) != before {
							changed = true
						}
					}
					for _, s := range L.sends[g] {
						before := len(L.sends[fn])
						L.sends[fn] = appendStr(L.sends[fn], s)
						if len(L.sends[fn]) != before {
							changed = true
						}
					}
				}
			})
		}
	}
	return L
}

func appendAcq(xs []acq, a acq) []acq {
	for _, x := range xs {
		if x.path == a.path && x.write == a.write {
			return xs
		}
	}
	if len(xs) > 64 {
		return xs
	}
	return append(xs, a)
}

func appendStr(xs []string, s string) []string {
	for _, x := range xs {
		if x == s {
			return xs
		}
	}
	if len(xs) > 64 {
		return xs
	}
	return append(xs, s)
}

// lstate: immutable lock state
type lstate struct {
	held     map[string]byte // path -> 'W' | 'R'
	deferred []lockOp        // stack of deferred unlocks
}

func (s lstate) key() string {
	var ks []string
	for k, v := range s.held {
		ks = append(ks, k+"="+string(v))
	}
	sort.Strings(ks)
	var ds []string
	for _, d := range s.deferred {
		ds = append(ds, string(d.op)+d.path)
	}
	return strings.Join(ks, ",") + "|" + strings.Join(ds, ",")
}

func (s lstate) clone() lstate {
	n := lstate{held: map[string]byte{}}
	for k, v := range s.held {
		n.held[k] = v
	}
	n.deferred = append([]lockOp{}, s.deferred...)
	return n
}

type LockIssue struct {
	Kind    string // double-unlock | self-deadlock | exit-held | callee-deadlock | send-under-lock
	Fn      *ssa.Function
	At      ssa.Instruction
	Path    string
	Detail  string
	Witness []*ssa.BasicBlock
}

type heldCall struct {
	Call ssa.CallInstruction
	Held map[string]byte
}

type LockResult struct {
	Issues []LockIssue
	// HeldAt: for every call instruction, the union of locks possibly held (path -> mode) and
	// whether on ALL paths some lock with the given class suffix is held.
	MayHold  map[ssa.Instruction]map[string]byte
	MustHold map[ssa.Instruction]map[string]byte
	Orders   map[string]string // "classA -> classB" -> example position
	States   int
	ClassOf  map[string]string // mutex access path -> class
}

// analyzeLocks explores one function.
func (L *LockInfo) analyzeLocks(fn *ssa.Function) *LockResult { return L.analyzeLocksOpt(fn, false) }

// analyzeLocksAll additionally records the held set at every instruction (GUARDED-BY).
func (L *LockInfo) analyzeLocksAll(fn *ssa.Function) *LockResult { return L.analyzeLocksOpt(fn, true) }

func (L *LockInfo) analyzeLocksOpt(fn *ssa.Function, all bool) *LockResult {
	res := &LockResult{MayHold: map[ssa.Instruction]map[string]byte{}, MustHold: map[ssa.Instruction]map[string]byte{}, Orders: map[string]string{}}
	if len(fn.Blocks) == 0 {
		return res
	}
	R := NewRenderer(fn)
	classOf := map[string]string{}
	res.ClassOf = classOf
	type node struct {
		b *ssa.BasicBlock
		k string
	}
	type item struct {
		b *ssa.BasicBlock
		s lstate
	}
	seen := map[node]bool{}
	prev := map[node]node{}
	queue := []item{{fn.Blocks[0], lstate{held: map[string]byte{}}}}
	issueSeen := map[string]bool{}
	report := func(kind string, at ssa.Instruction, path, detail string, n node) {
		k := kind + "|" + path + "|" + fmt.Sprint(L.P.InstrPos(at))
		if issueSeen[k] {
			return
		}
		issueSeen[k] = true
		var w []*ssa.BasicBlock
		cur := n
		for i := 0; i < 2000; i++ {
			w = append(w, cur.b)
			p, ok := prev[cur]
			if !ok {
				break
			}
			cur = p
		}
		for i, j := 0, len(w)-1; i < j; i, j = i+1, j-1 {
			w[i], w[j] = w[j], w[i]
		}
		res.Issues = append(res.Issues, LockIssue{Kind: kind, Fn: fn, At: at, Path: path, Detail: detail, Witness: w})
	}
	recordHeld := func(in ssa.Instruction, s lstate) {
		may := res.MayHold[in]
		if may == nil {
			may = map[string]byte{}
			res.MayHold[in] = may
			must := map[string]byte{}
			for k, v := range s.held {
				must[k] = v
			}
			res.MustHold[in] = must
		} else {
			must := res.MustHold[in]
			for k, v := range must {
				if s.held[k] != v {
					delete(must, k)
				}
			}
		}
		for k, v := range s.held {
			if may[k] != 'W' {
				may[k] = v
			}
		}
	}
	apply := func(s *lstate, lo lockOp, at ssa.Instruction, n node, deferred bool) {
		classOf[lo.path] = lo.class
		switch lo.op {
		case 'L', 'R':
			if h, ok := s.held[lo.path]; ok {
				if lo.op == 'L' || h == 'W' {
					report("self-deadlock", at, lo.path, fmt.Sprintf("%s acquired while already held (%c) on this path", lo.path, h), n)
				} else {
					report("recursive-rlock", at, lo.path, fmt.Sprintf("%s read-locked again while already read-locked on this path: dead-locks as soon as a writer queues in between", lo.path), n)
				}
			}
			for hp := range s.held {
				if hp != lo.path {
					res.Orders[classOf[hp]+" -> "+lo.class] = L.P.InstrPos(at)
				}
			}
			if lo.op == 'L' {
				s.held[lo.path] = 'W'
			} else if s.held[lo.path] != 'W' {
				s.held[lo.path] = 'R'
			}
		case 'U', 'V':
			if _, ok := s.held[lo.path]; !ok {
				kind := "double-unlock"
				d := fmt.Sprintf("%s released while not held on this path (fatal error: sync: Unlock of unlocked RWMutex)", lo.path)
				if deferred {
					d = "deferred release: " + d
				}
				report(kind, at, lo.path, d, n)
			}
			delete(s.held, lo.path)
		}
	}
	for len(queue) > 0 {
		it := queue[0]
		queue = queue[1:]
		n := node{it.b, it.s.key()}
		if seen[n] {
			continue
		}
		seen[n] = true
		res.States++
		if res.States > 20000 {
			break
		}
		s := it.s.clone()
		stopped := false
		for _, in := range it.b.Instrs {
			if _, isCall := in.(ssa.CallInstruction); isCall {
				recordHeld(in, s)
			} else if all {
				recordHeld(in, s)
			}
			if _, isSend := in.(*ssa.Send); isSend {
				recordHeld(in, s)
			}
			if _, isSel := in.(*ssa.Select); isSel {
				recordHeld(in, s)
			}
			switch x := in.(type) {
			case *ssa.Defer:
				if lo, ok := lockOpOf(R, x); ok {
					s.deferred = append(s.deferred, lo)
				}
			case *ssa.Go:
				// runs elsewhere
			case *ssa.RunDefers:
				for i := len(s.deferred) - 1; i >= 0; i-- {
					apply(&s, s.deferred[i], in, n, true)
				}
				s.deferred = nil
			case *ssa.Call:
				if lo, ok := lockOpOf(R, x); ok {
					apply(&s, lo, in, n, false)
					break
				}
				if len(s.held) > 0 {
					args := callArgs(R, x)
					for _, g := range L.P.Callees(x) {
						for _, a := range L.acquires[g] {
							np := substParams(a.path, args)
							if h, ok := s.held[np]; ok && (a.write || h == 'W') {
								report("callee-deadlock", in, np, fmt.Sprintf("%s is held (%c) while calling %s, which acquires it again (in %s): self-deadlock", np, h, FnName(g), a.via), n)
							} else if ok && h == 'R' && !a.write {
								report("recursive-rlock", in, np, fmt.Sprintf("%s is read-locked while calling %s, which read-locks it again (in %s): dead-locks as soon as a writer queues between the two RLocks", np, FnName(g), a.via), n)
							}
							for hp := range s.held {
								if hp != np {
									res.Orders[classOf[hp]+" -> "+a.class] = L.P.InstrPos(in)
								}
							}
						}
					}
				}
			case *ssa.Return:
				if len(s.held) > 0 {
					for p, h := range s.held {
						report("exit-held", in, p, fmt.Sprintf("function returns with %s still held (%c) and no deferred release", p, h), n)
					}
				}
			}
			if isTerminatorCall(in) {
				stopped = true
				break
			}
		}
		if stopped {
			continue
		}
		for _, succ := range it.b.Succs {
			ns := node{succ, s.key()}
			if !seen[ns] {
				if _, ok := prev[ns]; !ok {
					prev[ns] = n
				}
				queue = append(queue, item{succ, s})
			}
		}
	}
	return res
}
