package main

import (
	"fmt"
	"go/ast"
	"go/token"
	"go/types"
	"os"
	"sort"
	"strings"

	"golang.org/x/tools/go/ast/astutil"
	"golang.org/x/tools/go/packages"
)

// View pass "pass-through parameters that are only logged".
//
// A frequent piece of maintenance threads a reason, a trace id or a request id through several
// layers and prints it.  The functions keep their behaviour but change their signatures, and
// every rule that renders a call of one of them (`RemoveReplicaNoLock($0,<address>)`) or reads
// an argument by position then meets a different call.  The view undoes the change: a parameter
// that a BASELINE function did not have when the rule instances were confirmed, and that the
// function uses for nothing but logging (arguments of logrus / log calls, or hand-over in the
// position of such a parameter of another function), is turned back into a local of the
// function (zero value: only log texts differ) and the argument is removed at every call site.
// The pass runs first; when its result does not type-check it alone is discarded.

// baselineSigs: baseline function name -> signature string ("func(address string) error").
var baselineSigs = map[string]string{}

// splitParams: the parameter pieces of a baseline signature string, top-level commas only.
func splitParams(sig string) ([]string, bool) {
	if !strings.HasPrefix(sig, "func(") {
		return nil, false
	}
	depth, start := 0, len("func(")
	var out []string
	for i := len("func"); i < len(sig); i++ {
		switch sig[i] {
		case '(', '[', '{':
			depth++
		case ')', ']', '}':
			depth--
			if depth == 0 {
				if s := strings.TrimSpace(sig[start:i]); s != "" {
					out = append(out, s)
				}
				return out, true
			}
		case ',':
			if depth == 1 {
				out = append(out, strings.TrimSpace(sig[start:i]))
				start = i + 1
			}
		}
	}
	return nil, false
}

// paramType: "name type" -> "type" (a piece without a name is the type itself).
func paramType(piece string) string {
	if i := strings.Index(piece, " "); i > 0 && !strings.HasPrefix(piece, "func(") && !strings.HasPrefix(piece, "map[") && !strings.HasPrefix(piece, "chan ") && !strings.HasPrefix(piece, "struct{") && !strings.HasPrefix(piece, "interface{") {
		return strings.TrimSpace(piece[i+1:])
	}
	return piece
}

func isLogCall(info *types.Info, call *ast.CallExpr) bool {
	sel, ok := call.Fun.(*ast.SelectorExpr)
	if !ok {
		return false
	}
	if obj, ok := info.Uses[sel.Sel].(*types.Func); ok && obj.Pkg() != nil {
		switch obj.Pkg().Path() {
		case "github.com/sirupsen/logrus", "log", "github.com/prometheus/client_golang/prometheus":
			// (a metric is read by nothing in the program: a label is as good as a log text)
			return true
		}
	}
	return false
}

type lpFunc struct {
	obj   *types.Func
	fd    *ast.FuncDecl
	pkg   *packages.Package
	extra map[int]bool // parameter positions (flattened) that are candidates / confirmed
	vars  []*types.Var // flattened parameters
}

func dropLogOnlyParams(pkgs []*packages.Package, base map[string][]byte) *inlineResult {
	res := &inlineResult{Overlay: map[string][]byte{}}
	for k, v := range base {
		res.Overlay[k] = v
	}
	if len(baselineSigs) == 0 {
		return res
	}
	var fset *token.FileSet
	cands := map[*types.Func]*lpFunc{}
	var jiva []*packages.Package
	packages.Visit(pkgs, nil, func(p *packages.Package) {
		if !isJivaPkg(p.Types) {
			return
		}
		jiva = append(jiva, p) // the functional-test drivers call controller functions as well
		fset = p.Fset
		for _, f := range p.Syntax {
			for _, d := range f.Decls {
				fd, ok := d.(*ast.FuncDecl)
				if !ok || fd.Body == nil {
					continue
				}
				obj, _ := p.TypesInfo.Defs[fd.Name].(*types.Func)
				if obj == nil {
					continue
				}
				bsig, ok := baselineSigs[objAliasName(obj)]
				if !ok {
					continue
				}
				old, ok := splitParams(bsig)
				if !ok {
					continue
				}
				sig := obj.Type().(*types.Signature)
				if sig.Params().Len() <= len(old) || sig.Variadic() {
					continue
				}
				lf := &lpFunc{obj: obj, fd: fd, pkg: p, extra: map[int]bool{}}
				for i := 0; i < sig.Params().Len(); i++ {
					lf.vars = append(lf.vars, sig.Params().At(i))
				}
				// every parameter is a candidate at first; the embedding is chosen below
				for i := range lf.vars {
					lf.extra[i] = true
				}
				cands[obj] = lf
			}
		}
	})
	if len(cands) == 0 {
		return res
	}
	freshAll := freshFuncDecls(pkgs)
	// log-only check, as a greatest fixpoint over the candidate positions
	logOnly := func(lf *lpFunc, idx int) bool {
		v := lf.vars[idx]
		if v.Name() == "" || v.Name() == "_" {
			return true
		}
		info := lf.pkg.TypesInfo
		ok := true
		var stack []ast.Node
		ast.Inspect(lf.fd.Body, func(n ast.Node) bool {
			if n == nil {
				stack = stack[:len(stack)-1]
				return true
			}
			stack = append(stack, n)
			id, isID := n.(*ast.Ident)
			if !isID || info.Uses[id] != types.Object(v) {
				return true
			}
			// some enclosing call is a logging call, or the use is (part of) the argument that a
			// candidate function receives in a candidate position
			fine := false
			var child ast.Node = id
		climb:
			for i := len(stack) - 2; i >= 0; i-- {
				switch x := stack[i].(type) {
				case *ast.CallExpr:
					if ast.Node(x.Fun) == child {
						break climb
					}
					if isLogCall(info, x) {
						fine = true
						break climb
					}
					var callee *types.Func
					switch f := x.Fun.(type) {
					case *ast.Ident:
						callee, _ = info.Uses[f].(*types.Func)
					case *ast.SelectorExpr:
						callee, _ = info.Uses[f.Sel].(*types.Func)
					}
					if g := cands[callee]; g != nil {
						for j, a := range x.Args {
							if ast.Node(a) == child && g.extra[j] {
								fine = true
							}
						}
						break climb
					}
					// a pure formatting call on the way to a log call: keep climbing
					if callee != nil && callee.Pkg() != nil && callee.Pkg().Path() == "fmt" && strings.HasPrefix(callee.Name(), "Sprint") {
						child = x
						continue
					}
					// ... or a new helper of the package that only computes a value
					if callee != nil && callee.Pkg() == lf.pkg.Types && freshAll[callee] != nil {
						if (&inliner{pkg: lf.pkg, fresh: freshAll}).pureFresh(freshAll[callee], 0) {
							child = x
							continue
						}
					}
					break climb
				case *ast.ParenExpr:
					child = x
				case *ast.BinaryExpr:
					if x.Op != token.ADD {
						break climb
					}
					child = x
				default:
					break climb
				}
			}
			if !fine {
				ok = false
			}
			return true
		})
		return ok
	}
	for changed := true; changed; {
		changed = false
		for _, lf := range cands {
			for i := range lf.vars {
				if lf.extra[i] && !logOnly(lf, i) {
					delete(lf.extra, i)
					changed = true
				}
			}
		}
	}
	// choose the extras: removing them must leave the baseline's parameter types, in order
	for obj, lf := range cands {
		old, _ := splitParams(baselineSigs[objAliasName(obj)])
		k := len(lf.vars) - len(old)
		var pick func(i, j int, chosen []int) []int
		pick = func(i, j int, chosen []int) []int {
			// i: position in current params, j: position in baseline params
			if i == len(lf.vars) {
				if j == len(old) && len(chosen) == k {
					return append([]int{}, chosen...)
				}
				return nil
			}
			if j < len(old) && types.TypeString(lf.vars[i].Type(), qual) == paramType(old[j]) {
				if r := pick(i+1, j+1, chosen); r != nil {
					return r
				}
			}
			if lf.extra[i] && len(chosen) < k {
				return pick(i+1, j, append(chosen, i))
			}
			return nil
		}
		sel := pick(0, 0, nil)
		if sel == nil {
			delete(cands, obj)
			continue
		}
		lf.extra = map[int]bool{}
		for _, i := range sel {
			lf.extra[i] = true
		}
	}
	// the fixpoint again, now that positions are final (a hand-over must hit a chosen position)
	for changed := true; changed; {
		changed = false
		for obj, lf := range cands {
			for i := range lf.vars {
				if lf.extra[i] && !logOnly(lf, i) {
					delete(cands, obj)
					changed = true
					break
				}
			}
		}
	}
	if len(cands) == 0 {
		return res
	}
	// uses: only as the function of a call, with one argument per parameter, extras pure
	src := map[string][]byte{}
	get := func(file string) []byte {
		if b, ok := src[file]; ok {
			return b
		}
		b, ok := base[file]
		if !ok {
			b, _ = os.ReadFile(file)
		}
		src[file] = b
		return b
	}
	edits := map[string][]inlineEdit{}
	bad := map[*types.Func]bool{}
	type callSite struct {
		p    *packages.Package
		call *ast.CallExpr
		lf   *lpFunc
	}
	var sites []callSite
	for _, p := range jiva {
		asFun := map[*ast.Ident]bool{}
		for _, f := range p.Syntax {
			ast.Inspect(f, func(n ast.Node) bool {
				call, ok := n.(*ast.CallExpr)
				if !ok {
					return true
				}
				var id *ast.Ident
				switch f := call.Fun.(type) {
				case *ast.Ident:
					id = f
				case *ast.SelectorExpr:
					id = f.Sel
				}
				if id == nil {
					return true
				}
				callee, _ := p.TypesInfo.Uses[id].(*types.Func)
				lf := cands[callee]
				if lf == nil {
					return true
				}
				asFun[id] = true
				if len(call.Args) != len(lf.vars) || call.Ellipsis.IsValid() {
					bad[callee] = true
					return true
				}
				for i := range lf.vars {
					if lf.extra[i] && !pureLogArg(p.TypesInfo, call.Args[i]) {
						bad[callee] = true
					}
				}
				sites = append(sites, callSite{p, call, lf})
				return true
			})
		}
		for id, obj := range p.TypesInfo.Uses {
			if fn, ok := obj.(*types.Func); ok && cands[fn] != nil && !asFun[id] {
				bad[fn] = true // method value / function value: the signature is observable
			}
		}
	}
	n := 0
	keptAlive := map[*types.Var]bool{}
	keepPkg := map[string]map[string]bool{}
	for _, s := range sites {
		if bad[s.lf.obj] {
			continue
		}
		file := fset.Position(s.call.Pos()).Filename
		get(file)
		for i := range s.lf.vars {
			if !s.lf.extra[i] {
				continue
			}
			a := s.call.Args[i]
			var st, en int
			if i+1 < len(s.call.Args) {
				st, en = fset.Position(a.Pos()).Offset, fset.Position(s.call.Args[i+1].Pos()).Offset
			} else if i > 0 {
				st, en = fset.Position(s.call.Args[i-1].End()).Offset, fset.Position(a.End()).Offset
			} else {
				st, en = fset.Position(a.Pos()).Offset, fset.Position(a.End()).Offset
			}
			edits[file] = append(edits[file], inlineEdit{st, en, ""})
			// an imported package that was only named in the argument would be left unused
			ast.Inspect(a, func(nd ast.Node) bool {
				sel, ok := nd.(*ast.SelectorExpr)
				if !ok {
					return true
				}
				if x, isID := sel.X.(*ast.Ident); isID {
					if _, isPkg := s.p.TypesInfo.Uses[x].(*types.PkgName); isPkg {
						decl := "var _ = " + x.Name + "." + sel.Sel.Name
						if _, isType := s.p.TypesInfo.Uses[sel.Sel].(*types.TypeName); isType {
							decl = "var _ " + x.Name + "." + sel.Sel.Name
						}
						if keepPkg[file] == nil {
							keepPkg[file] = map[string]bool{}
						}
						keepPkg[file][decl] = true
					}
				}
				return true
			})
			// a local that was only ever handed over would be left unused
			ast.Inspect(a, func(nd ast.Node) bool {
				id, ok := nd.(*ast.Ident)
				if !ok {
					return true
				}
				v, _ := s.p.TypesInfo.Uses[id].(*types.Var)
				if v == nil || v.IsField() || v.Parent() == nil || v.Parent() == v.Pkg().Scope() || keptAlive[v] {
					return true
				}
				for _, f := range s.p.Syntax {
					if f.Pos() <= v.Pos() && v.Pos() < f.End() {
						path, _ := astutil.PathEnclosingInterval(f, v.Pos(), v.Pos())
						for k := 0; k+1 < len(path); k++ {
							switch path[k].(type) {
							case *ast.AssignStmt, *ast.DeclStmt:
								if _, inBlock := path[k+1].(*ast.BlockStmt); inBlock {
									at := fset.Position(path[k].End()).Offset
									edits[file] = append(edits[file], inlineEdit{at, at, "; _ = " + v.Name()})
									keptAlive[v] = true
								}
							}
						}
					}
				}
				return true
			})
		}
	}
	var names []string
	for obj, lf := range cands {
		if bad[obj] {
			continue
		}
		n++
		file := fset.Position(lf.fd.Pos()).Filename
		b := get(file)
		text := func(nd ast.Node) string {
			return string(b[fset.Position(nd.Pos()).Offset:fset.Position(nd.End()).Offset])
		}
		var keep, locals []string
		idx := 0
		for _, fld := range lf.fd.Type.Params.List {
			if len(fld.Names) == 0 {
				if !lf.extra[idx] {
					keep = append(keep, text(fld.Type))
				}
				idx++
				continue
			}
			for _, nm := range fld.Names {
				if lf.extra[idx] {
					if nm.Name != "_" {
						locals = append(locals, fmt.Sprintf("var %s %s; _ = %s;", nm.Name, text(fld.Type), nm.Name))
					}
				} else {
					keep = append(keep, nm.Name+" "+text(fld.Type))
				}
				idx++
			}
		}
		ps, pe := fset.Position(lf.fd.Type.Params.Opening).Offset+1, fset.Position(lf.fd.Type.Params.Closing).Offset
		edits[file] = append(edits[file], inlineEdit{ps, pe, strings.Join(keep, ", ")})
		lb := fset.Position(lf.fd.Body.Lbrace).Offset + 1
		edits[file] = append(edits[file], inlineEdit{lb, lb, " " + strings.Join(locals, " ")})
		names = append(names, funcObjName(obj))
	}
	if n == 0 {
		return res
	}
	sort.Strings(names)
	res.Count = n
	res.Notes = append(res.Notes, "parameter(s) that are only logged turned back into locals, arguments dropped at the call sites: "+strings.Join(names, ", "))
	for file, es := range edits {
		sort.Slice(es, func(i, j int) bool {
			if es[i].start != es[j].start {
				return es[i].start < es[j].start
			}
			return es[i].end > es[j].end
		})
		var keep []inlineEdit
		lastEnd := -1
		for _, e := range es {
			if e.start < lastEnd {
				continue
			}
			keep = append(keep, e)
			if e.end > lastEnd {
				lastEnd = e.end
			}
		}
		out := append([]byte{}, get(file)...)
		for i := len(keep) - 1; i >= 0; i-- {
			e := keep[i]
			out = append(out[:e.start], append([]byte(e.text), out[e.end:]...)...)
		}
		// a dropped argument may have been the file's last use of package context
		for _, p := range jiva {
			for _, f := range p.Syntax {
				if fset.Position(f.Pos()).Filename != file {
					continue
				}
				for _, im := range f.Imports {
					if im.Path.Value == `"context"` {
						n := "context"
						if im.Name != nil {
							n = im.Name.Name
						}
						if n != "_" && n != "." {
							out = append(out, []byte("\nvar _ = "+n+".Background\n")...)
						}
					}
				}
			}
		}
		var decls []string
		for d := range keepPkg[file] {
			decls = append(decls, d)
		}
		sort.Strings(decls)
		for _, d := range decls {
			out = append(out, []byte("\n"+d+"\n")...)
		}
		res.Overlay[file] = out
	}
	return res
}

// pureLogArg: an argument expression whose evaluation has no effect: constants, variables,
// selectors, concatenations, and fmt.Sprint* / conversions of such.
func pureLogArg(info *types.Info, e ast.Expr) bool {
	ok := true
	ast.Inspect(e, func(n ast.Node) bool {
		switch x := n.(type) {
		case *ast.CallExpr:
			if tv, has := info.Types[x.Fun]; has && tv.IsType() {
				return true
			}
			if sel, isSel := x.Fun.(*ast.SelectorExpr); isSel {
				if o, _ := info.Uses[sel.Sel].(*types.Func); o != nil && o.Pkg() != nil && o.Pkg().Path() == "fmt" && strings.HasPrefix(o.Name(), "Sprint") {
					return true
				}
			}
			if id, isID := x.Fun.(*ast.Ident); isID && (id.Name == "len" || id.Name == "cap") {
				return true
			}
			if sel, isSel := x.Fun.(*ast.SelectorExpr); isSel {
				if o, _ := info.Uses[sel.Sel].(*types.Func); o != nil && o.Pkg() != nil && o.Pkg().Path() == "context" && (o.Name() == "Background" || o.Name() == "TODO") {
					return true
				}
			}
			ok = false
		case *ast.FuncLit:
			ok = false
		case *ast.UnaryExpr:
			if x.Op == token.ARROW {
				ok = false
			}
		}
		return true
	})
	return ok
}
