package main

import (
	"fmt"
	"go/constant"
	"go/token"
	"go/types"
	"regexp"
	"sort"
	"strings"

	"golang.org/x/tools/go/ssa"
)

// ---------------------------------------------------------------------------
// Canonical rendering of SSA values as access-path terms (rule ATOM of DESIGN.md).
// Parameters are rendered positionally ($0 = receiver for methods), locals are
// resolved to the value they hold, range elements are rendered X[*].
// ---------------------------------------------------------------------------

type Renderer struct {
	cuts  int
	fn    *ssa.Function
	memo  map[ssa.Value]string
	busy  map[ssa.Value]bool
	busy2 map[ssa.Value]bool
}

func NewRenderer(fn *ssa.Function) *Renderer {
	return &Renderer{fn: fn, memo: map[ssa.Value]string{}, busy: map[ssa.Value]bool{}, busy2: map[ssa.Value]bool{}}
}

func isRangeIndex(v ssa.Value) bool {
	if b, ok := v.(*ssa.BinOp); ok && b.Op == token.ADD {
		if p, ok := b.X.(*ssa.Phi); ok && p.Comment == "rangeindex" {
			if c, ok := b.Y.(*ssa.Const); ok && c.Value != nil && c.Value.String() == "1" {
				return true
			}
		}
	}
	if p, ok := v.(*ssa.Phi); ok && p.Comment == "rangeindex" {
		return true
	}
	return false
}

func instrIndex(in ssa.Instruction) int {
	for i, x := range in.Block().Instrs {
		if x == in {
			return i
		}
	}
	return -1
}

// allocName names a local variable independently of its source name: var(<type>) when it is the
// only (surviving) local of that type in its function, var(<type>#k) otherwise, k = order of
// appearance.  A renamed local therefore renders the same.
var allocNames = map[*ssa.Function]map[*ssa.Alloc]string{}

func allocName(a *ssa.Alloc) string {
	fn := a.Parent()
	m, ok := allocNames[fn]
	if !ok {
		m = map[*ssa.Alloc]string{}
		byType := map[string][]*ssa.Alloc{}
		var order []string
		for _, b := range fn.Blocks {
			for _, in := range b.Instrs {
				if al, ok := in.(*ssa.Alloc); ok {
					switch al.Comment {
					case "varargs", "complit", "slicelit", "arraylit", "makeslice", "new", "":
						// compiler-made temporaries: keep their role name (adding a log line must not renumber them)
						m[al] = "var(" + al.Comment + ")"
						continue
					}
					t := "?"
					if pt, ok := al.Type().Underlying().(*types.Pointer); ok {
						t = short(types.TypeString(pt.Elem(), nil))
					}
					if _, seen := byType[t]; !seen {
						order = append(order, t)
					}
					byType[t] = append(byType[t], al)
				}
			}
		}
		for _, t := range order {
			as := byType[t]
			for i, al := range as {
				if len(as) == 1 {
					m[al] = "var(" + t + ")"
				} else {
					m[al] = fmt.Sprintf("var(%s#%d)", t, i)
				}
			}
		}
		allocNames[fn] = m
	}
	if n, ok := m[a]; ok {
		return n
	}
	return "var(" + a.Comment + ")"
}

// freeVarAlloc: the local variable of the enclosing function that a closure's free variable is bound to.
func freeVarAlloc(cl *ssa.Function, fv *ssa.FreeVar) *ssa.Alloc {
	parent := cl.Parent()
	if parent == nil {
		return nil
	}
	idx := -1
	for i, f := range cl.FreeVars {
		if f == fv {
			idx = i
		}
	}
	if idx < 0 {
		return nil
	}
	for _, b := range parent.Blocks {
		for _, in := range b.Instrs {
			if mc, ok := in.(*ssa.MakeClosure); ok && mc.Fn == ssa.Value(cl) {
				switch x := mc.Bindings[idx].(type) {
				case *ssa.Alloc:
					return x
				case *ssa.FreeVar:
					return freeVarAlloc(parent, x)
				}
			}
		}
	}
	return nil
}

func freeVarName(fn *ssa.Function, fv *ssa.FreeVar) string {
	if a := freeVarAlloc(fn, fv); a != nil {
		return "^" + allocName(a)
	}
	return "^" + fv.Name()
}

// reachingStore finds the value held by a local variable (Alloc) when read at `at`.
func reachingStore(a *ssa.Alloc, at ssa.Instruction) ssa.Value {
	var stores []*ssa.Store
	escapes := false
	for _, r := range *a.Referrers() {
		switch x := r.(type) {
		case *ssa.Store:
			if x.Addr == a {
				stores = append(stores, x)
			}
		case *ssa.MakeClosure:
			// captured: closures may store to it
			for i, bnd := range x.Bindings {
				if bnd == a {
					cl := x.Fn.(*ssa.Function)
					fv := cl.FreeVars[i]
					if freeVarStored(cl, fv) {
						escapes = true
					}
				}
			}
		}
	}
	if at != nil && at.Block() != nil {
		b := at.Block()
		idx := instrIndex(at)
		for hops := 0; hops < 12 && b != nil; hops++ {
			for i := idx - 1; i >= 0; i-- {
				if s, ok := b.Instrs[i].(*ssa.Store); ok && s.Addr == a {
					return s.Val
				}
			}
			if len(b.Preds) != 1 {
				break
			}
			b = b.Preds[0]
			idx = len(b.Instrs)
		}
	}
	if len(stores) == 1 && !escapes {
		return stores[0].Val
	}
	return nil
}

func freeVarStored(cl *ssa.Function, fv *ssa.FreeVar) bool {
	for _, r := range *fv.Referrers() {
		switch x := r.(type) {
		case *ssa.Store:
			if x.Addr == fv {
				return true
			}
		case *ssa.MakeClosure:
			for i, bnd := range x.Bindings {
				if bnd == fv {
					if freeVarStored(x.Fn.(*ssa.Function), x.Fn.(*ssa.Function).FreeVars[i]) {
						return true
					}
				}
			}
		}
	}
	return false
}

// V renders a value.
func (R *Renderer) V(v ssa.Value) string {
	if v == nil {
		return "<nil>"
	}
	if s, ok := R.memo[v]; ok {
		return s
	}
	if R.busy[v] {
		R.cuts++
		return "…"
	}
	R.busy[v] = true
	c0 := R.cuts
	s := R.render(v)
	delete(R.busy, v)
	// a rendering that was cut at a value still being rendered further out depends on that
	// context: it is not the canonical term of v and must not be remembered as such
	if R.cuts == c0 {
		R.memo[v] = s
	}
	return s
}

func constString(c *ssa.Const) string {
	if c.Value == nil {
		return "nil"
	}
	switch c.Value.Kind() {
	case constant.String:
		return fmt.Sprintf("%q", constant.StringVal(c.Value))
	default:
		return c.Value.String()
	}
}

func (R *Renderer) render(v ssa.Value) string {
	switch x := v.(type) {
	case *ssa.Const:
		return constString(x)
	case *ssa.Parameter:
		for i, p := range x.Parent().Params {
			if p == x {
				if pl := paramAlias[x.Parent()]; pl != nil && i < len(pl.terms) {
					return pl.terms[i]
				}
				return fmt.Sprintf("$%d", i)
			}
		}
		return "$?"
	case *ssa.FreeVar:
		return freeVarName(R.fn, x)
	case *ssa.Global:
		return "global:" + short(x.String())
	case *ssa.Function:
		return "func:" + FnName(x)
	case *ssa.Builtin:
		return "builtin:" + x.Name()
	case *ssa.Alloc:
		return "&" + allocName(x)
	case *ssa.UnOp:
		switch x.Op {
		case token.MUL:
			return R.load(x)
		case token.NOT:
			return "!" + R.V(x.X)
		case token.SUB:
			return "-" + R.V(x.X)
		case token.ARROW:
			return "recv(" + R.V(x.X) + ")"
		}
		return x.Op.String() + R.V(x.X)
	case *ssa.FieldAddr:
		if a, ok := x.X.(*ssa.Alloc); ok {
			// address of a field of a local struct variable: never resolved through stores
			name := "?"
			if pt, ok := a.Type().Underlying().(*types.Pointer); ok {
				if st, ok := pt.Elem().Underlying().(*types.Struct); ok {
					name = fldName(st.Field(x.Field))
				}
			}
			return "&" + allocName(a) + "." + name
		}
		return "&" + R.fieldOf(x.X, x.Field, x)
	case *ssa.Field:
		st := x.X.Type().Underlying().(*types.Struct)
		return R.V(x.X) + "." + fldName(st.Field(x.Field))
	case *ssa.IndexAddr:
		return "&" + R.V(x.X) + "[" + R.idx(x.Index) + "]"
	case *ssa.Index:
		return R.V(x.X) + "[" + R.idx(x.Index) + "]"
	case *ssa.Lookup:
		return R.V(x.X) + "[" + R.V(x.Index) + "]"
	case *ssa.Extract:
		if lk, ok := x.Tuple.(*ssa.Lookup); ok {
			if x.Index == 0 {
				return R.V(lk.X) + "[" + R.V(lk.Index) + "]"
			}
			return "has(" + R.V(lk.X) + "," + R.V(lk.Index) + ")"
		}
		if nx, ok := x.Tuple.(*ssa.Next); ok {
			if rg, ok := nx.Iter.(*ssa.Range); ok {
				switch x.Index {
				case 1:
					return "key(" + R.V(rg.X) + ")"
				case 2:
					return R.V(rg.X) + "[*]"
				}
				return "more(" + R.V(rg.X) + ")"
			}
		}
		if ta, ok := x.Tuple.(*ssa.TypeAssert); ok {
			if x.Index == 0 {
				return "as<" + short(types.TypeString(ta.AssertedType, nil)) + ">(" + R.V(ta.X) + ")"
			}
			return "is<" + short(types.TypeString(ta.AssertedType, nil)) + ">(" + R.V(ta.X) + ")"
		}
		if cl, ok := x.Tuple.(*ssa.Call); ok {
			if h := cl.Call.StaticCallee(); h != nil && h != R.fn {
				if tmpl, ok := tupleTemplate(h, x.Index); ok {
					var args []string
					for _, a := range cl.Call.Args {
						args = append(args, R.V(a))
					}
					return substParams(tmpl, args)
				}
			}
		}
		if cl, ok := x.Tuple.(*ssa.Call); ok {
			if h := cl.Call.StaticCallee(); h != nil {
				if m, ok := resultAlias[h]; ok && x.Index < len(m) {
					switch {
					case m[x.Index] == -1:
						return R.V(x.Tuple) // the baseline function's single result
					case m[x.Index] >= 0:
						return fmt.Sprintf("%s#%d", R.V(x.Tuple), m[x.Index])
					default:
						return fmt.Sprintf("%s#new%d", R.V(x.Tuple), x.Index)
					}
				}
			}
		}
		return fmt.Sprintf("%s#%d", R.V(x.Tuple), x.Index)
	case *ssa.Call:
		// errors.Is(err, os.ErrNotExist) / os.ErrExist is os.IsNotExist(err) / os.IsExist(err)
		if f := x.Call.StaticCallee(); f != nil && f.Pkg != nil && f.Pkg.Pkg.Path() == "errors" && f.Name() == "Is" && len(x.Call.Args) == 2 {
			if ld, ok := x.Call.Args[1].(*ssa.UnOp); ok && ld.Op == token.MUL {
				if g, ok := ld.X.(*ssa.Global); ok && g.Pkg != nil && (g.Pkg.Pkg.Path() == "os" || g.Pkg.Pkg.Path() == "io/fs") {
					switch g.Name() {
					case "ErrNotExist":
						return "os.IsNotExist(" + R.V(x.Call.Args[0]) + ")"
					case "ErrExist":
						return "os.IsExist(" + R.V(x.Call.Args[0]) + ")"
					}
				}
			}
		}
		// errors.As(err, &target) with a local target of type *T is the comma-ok assertion err.(*T)
		// for errors that are not wrapped, and finds at least as many otherwise
		if al, e := errorsAsCall(x); al != nil {
			return "is<" + short(types.TypeString(al.Type().Underlying().(*types.Pointer).Elem(), nil)) + ">(" + R.V(e) + ")"
		}
		return R.call(x)
	case *ssa.BinOp:
		if isRangeIndex(x) {
			return "*"
		}
		if isIntType(x.Type()) && (x.Op == token.ADD || x.Op == token.SUB || x.Op == token.MUL) {
			return "(" + R.Lin(x).String() + ")"
		}
		return "(" + R.V(x.X) + " " + x.Op.String() + " " + R.V(x.Y) + ")"
	case *ssa.Convert:
		return R.V(x.X)
	case *ssa.ChangeType:
		return R.V(x.X)
	case *ssa.ChangeInterface:
		return R.V(x.X)
	case *ssa.MakeInterface:
		return R.V(x.X)
	case *ssa.TypeAssert:
		return "as<" + short(types.TypeString(x.AssertedType, nil)) + ">(" + R.V(x.X) + ")"
	case *ssa.Slice:
		lo, hi := "", ""
		if x.Low != nil {
			lo = R.Lin(x.Low).String()
		}
		if x.High != nil {
			hi = R.Lin(x.High).String()
		}
		return R.V(x.X) + "[" + lo + ":" + hi + "]"
	case *ssa.MakeSlice:
		return "makeslice(" + R.V(x.Len) + ")"
	case *ssa.MakeMap:
		return "makemap"
	case *ssa.MakeChan:
		return "makechan(" + R.V(x.Size) + ")"
	case *ssa.MakeClosure:
		return "closure:" + FnName(x.Fn.(*ssa.Function))
	case *ssa.Phi:
		if isRangeIndex(x) {
			return "*"
		}
		if c := R.counter(x); c != "" {
			return c
		}
		if init := descendingInit(x); init != nil {
			// the same term whether the variable is used as an index or stored
			return "(" + R.Lin(init).add(Lin{T: map[string]int64{"*": 1}}, -1).String() + ")"
		}
		if k, ok := inductionFrom(x); ok {
			return fmt.Sprintf("*%d", k) // positions k, k+1, ... of a loop that starts at constant k > 0
		}
		var parts []string
		dead := deadPhiEdges(x)
		for i, e := range x.Edges {
			if e == v || dead[i] {
				continue
			}
			pv := R.V(e)
			// a merge of merges is one merge: phi{0 | phi{0 | x}} = phi{0 | x}
			if strings.HasPrefix(pv, "phi{") && strings.HasSuffix(pv, "}") {
				if inner := splitTopLevel(pv[4:len(pv)-1], " | "); len(inner) > 0 {
					parts = append(parts, inner...)
					continue
				}
			}
			// an accumulator that starts as make([]T, 0, n) instead of a nil slice holds the same
			// elements on every path: both start empty
			if ms, ok := e.(*ssa.MakeSlice); ok {
				if k, isConst := intConst(ms.Len); isConst && k == 0 {
					pv = "nil"
				}
			}
			parts = append(parts, pv)
		}
		sort.Strings(parts)
		parts = dedup(parts)
		if len(dead) > 0 && len(parts) == 1 {
			return parts[0]
		}
		return "phi{" + strings.Join(parts, " | ") + "}"
	case *ssa.Next:
		return "next"
	case *ssa.Range:
		return "range(" + R.V(x.X) + ")"
	case *ssa.Select:
		return "select"
	}
	return fmt.Sprintf("?%T", v)
}

func dedup(s []string) []string {
	var out []string
	for i, x := range s {
		if i == 0 || x != s[i-1] {
			out = append(out, x)
		}
	}
	return out
}

func (R *Renderer) idx(v ssa.Value) string {
	if isRangeIndex(v) {
		return "*"
	}
	if isIntType(v.Type()) {
		l := R.Lin(v)
		if len(l.T) == 1 && l.T["*"] == 1 && l.K == 0 {
			return "*"
		}
		return l.String()
	}
	return R.V(v)
}

// fieldOf renders base.field where base is a pointer (or Alloc) to a struct.
func (R *Renderer) fieldOf(base ssa.Value, field int, at ssa.Instruction) string {
	pt, ok := base.Type().Underlying().(*types.Pointer)
	name := "?"
	if ok {
		if st, ok := pt.Elem().Underlying().(*types.Struct); ok {
			name = fldName(st.Field(field))
		}
	}
	if a, ok := base.(*ssa.Alloc); ok {
		if val, whole, ok := reachingFieldStore(a, field, at); ok {
			if whole {
				return R.V(val) + "." + name
			}
			return R.V(val)
		}
		if !allocModifiedPiecewise(a) {
			if val := reachingStore(a, at); val != nil {
				return R.V(val) + "." + name
			}
		}
		return allocName(a) + "." + name
	}
	// a pointer that merges nil with ONE other value is that value wherever a field of it is
	// accessed (with nil the access panics): `res, err := helper()` with `return nil, err` exits
	if v := nonNilAlternative(base, 0); v != nil {
		base = v
	}
	return strings.TrimPrefix(R.V(base), "&") + "." + name
}

// nonNilAlternative: v is a phi (of phis) all of whose operands are the nil constant except for
// one distinct value: that value.
func nonNilAlternative(v ssa.Value, depth int) ssa.Value {
	p, ok := v.(*ssa.Phi)
	if !ok || depth > 3 {
		return nil
	}
	var alt ssa.Value
	sawNil := false
	for _, e := range p.Edges {
		if isNilConst(e) {
			sawNil = true
			continue
		}
		if e == ssa.Value(p) {
			continue
		}
		if q := nonNilAlternative(e, depth+1); q != nil {
			e = q
		}
		if alt != nil && alt != e {
			return nil
		}
		alt = e
	}
	if !sawNil && depth == 0 {
		// a phi of one value only (all operands equal) is that value as well
		if alt == nil {
			return nil
		}
	}
	return alt
}

func (R *Renderer) load(x *ssa.UnOp) string {
	switch a := x.X.(type) {
	case *ssa.FieldAddr:
		return R.fieldOf(a.X, a.Field, x)
	case *ssa.IndexAddr:
		return R.V(a.X) + "[" + R.idx(a.Index) + "]"
	case *ssa.Alloc:
		// the target of an errors.As: what the assertion yields
		if e := errorsAsTarget(a); e != nil {
			return "as<" + short(types.TypeString(a.Type().Underlying().(*types.Pointer).Elem(), nil)) + ">(" + R.V(e) + ")"
		}
		if !allocModifiedPiecewise(a) {
			if val := reachingStore(a, x); val != nil {
				return R.V(val)
			}
		}
		return allocName(a)
	case *ssa.Global:
		return short(a.String())
	case *ssa.FreeVar:
		// captured variable: resolve through the enclosing function when it is written once
		if val := resolveFreeVar(R.fn, a); val != nil {
			pr := NewRenderer(R.fn.Parent())
			return "^" + pr.V(val)
		}
		if al := freeVarAlloc(R.fn, a); al != nil {
			return "^" + allocName(al)
		}
		return "^var(" + a.Name() + ")"
	}
	return "*" + R.V(x.X)
}

// reachingFieldStore: the most recent store to the whole local struct or to its field
// `field`, searched backwards in the block of `at` and up the single-predecessor chain.
// A call that receives the variable's address ends the search (unknown).
func reachingFieldStore(a *ssa.Alloc, field int, at ssa.Instruction) (ssa.Value, bool, bool) {
	if at == nil || at.Block() == nil {
		return nil, false, false
	}
	b := at.Block()
	idx := instrIndex(at)
	for hops := 0; hops < 12 && b != nil; hops++ {
		for i := idx - 1; i >= 0; i-- {
			switch x := b.Instrs[i].(type) {
			case *ssa.Store:
				if x.Addr == ssa.Value(a) {
					return x.Val, true, true
				}
				if fa, ok := x.Addr.(*ssa.FieldAddr); ok && fa.X == ssa.Value(a) && fa.Field == field {
					return x.Val, false, true
				}
			case ssa.CallInstruction:
				for _, arg := range x.Common().Args {
					if arg == ssa.Value(a) {
						return nil, false, false
					}
					if fa, ok := arg.(*ssa.FieldAddr); ok && fa.X == ssa.Value(a) {
						return nil, false, false
					}
				}
			}
		}
		if len(b.Preds) != 1 {
			break
		}
		b = b.Preds[0]
		idx = len(b.Instrs)
	}
	return nil, false, false
}

// allocModifiedPiecewise: the local struct variable has field-level stores, or its address
// escapes to a call / closure / another variable: its fields cannot be resolved through the
// last whole-value store.
func allocModifiedPiecewise(a *ssa.Alloc) bool {
	for _, r := range *a.Referrers() {
		switch x := r.(type) {
		case *ssa.FieldAddr:
			for _, rr := range *x.Referrers() {
				switch y := rr.(type) {
				case *ssa.Store:
					if y.Addr == x {
						return true
					}
				case *ssa.UnOp, *ssa.FieldAddr, *ssa.IndexAddr:
				default:
					_ = y
					return true // address of a field escapes
				}
			}
		case *ssa.Store:
			if x.Val == ssa.Value(a) {
				return true
			}
		case *ssa.UnOp, *ssa.DebugRef:
		case *ssa.MakeClosure:
			for i, bnd := range x.Bindings {
				if bnd == ssa.Value(a) {
					cl := x.Fn.(*ssa.Function)
					if freeVarStored(cl, cl.FreeVars[i]) || freeVarPiecewise(cl, cl.FreeVars[i]) {
						return true
					}
				}
			}
		default:
			return true // passed to a call, ...
		}
	}
	return false
}

// freeVarPiecewise: the closure stores into a field of the captured struct variable or passes its address on.
func freeVarPiecewise(cl *ssa.Function, fv *ssa.FreeVar) bool {
	for _, r := range *fv.Referrers() {
		switch x := r.(type) {
		case *ssa.FieldAddr:
			for _, rr := range *x.Referrers() {
				if st, ok := rr.(*ssa.Store); ok && st.Addr == ssa.Value(x) {
					return true
				}
			}
		case *ssa.UnOp, *ssa.Store, *ssa.DebugRef:
		case *ssa.MakeClosure:
			for i, bnd := range x.Bindings {
				if bnd == ssa.Value(fv) {
					in := x.Fn.(*ssa.Function)
					if freeVarStored(in, in.FreeVars[i]) || freeVarPiecewise(in, in.FreeVars[i]) {
						return true
					}
				}
			}
		default:
			return true
		}
	}
	return false
}

// resolveFreeVar: value stored (once) in the captured variable by the parent function.
func resolveFreeVar(cl *ssa.Function, fv *ssa.FreeVar) ssa.Value {
	parent := cl.Parent()
	if parent == nil {
		return nil
	}
	idx := -1
	for i, f := range cl.FreeVars {
		if f == fv {
			idx = i
		}
	}
	if idx < 0 {
		return nil
	}
	for _, b := range parent.Blocks {
		for _, in := range b.Instrs {
			if mc, ok := in.(*ssa.MakeClosure); ok && mc.Fn == cl {
				if a, ok := mc.Bindings[idx].(*ssa.Alloc); ok {
					v := reachingStore(a, nil)
					if v == nil {
						return nil
					}
					// the one store must precede the creation of the closure: a variable that is only
					// assigned AFTERWARDS (`var done bool; defer func(){…done…}(); …; done = true`) holds
					// its zero value or the later one when the closure runs
					for _, ref := range *a.Referrers() {
						st, ok := ref.(*ssa.Store)
						if !ok || st.Addr != ssa.Value(a) {
							continue
						}
						if st.Block() == mc.Block() {
							if instrIndex(st) > instrIndex(mc) {
								return nil
							}
						} else if !st.Block().Dominates(mc.Block()) {
							return nil
						}
					}
					return v
				}
			}
		}
	}
	return nil
}

func (R *Renderer) call(x *ssa.Call) string {
	cc := x.Common()
	var args []string
	for _, a := range cc.Args {
		args = append(args, R.V(a))
	}
	if g, fwd := injectedCallee(cc); g != nil {
		// a dependency injected through a field that only ever holds g (or, for an interface-typed
		// field with one concrete type, that type's own method: the field's value is the receiver)
		if cc.IsInvoke() && !fwd {
			args = append([]string{R.V(cc.Value)}, args...)
		}
		return FnName(g) + "(" + strings.Join(args, ",") + ")"
	}
	if cc.IsInvoke() {
		// the receiver was converted to the interface right here: the callee is known
		if m, recv := devirtualise(cc); m != nil {
			return FnName(m) + "(" + strings.Join(append([]string{R.V(recv)}, args...), ",") + ")"
		}
		return "invoke." + cc.Method.Name() + "(" + strings.Join(append([]string{R.V(cc.Value)}, args...), ",") + ")"
	}
	if b, ok := cc.Value.(*ssa.Builtin); ok {
		return b.Name() + "(" + strings.Join(args, ",") + ")"
	}
	if f := cc.StaticCallee(); f != nil {
		if w, ps, ok := asBaselineWrapper(R, cc); ok {
			return w + "(" + strings.Join(ps, ",") + ")"
		}
		if paramAlias[f] != nil {
			if la := liftedArgs(f, cc.Args, R.V, liftRecv[f]); la != nil {
				args = la
			}
		}
		if tmpl, ok := pureValue(f); ok && f != R.fn {
			return substParams(tmpl, args)
		}
		return FnName(f) + "(" + strings.Join(args, ",") + ")"
	}
	return "dyncall(" + R.V(cc.Value) + ";" + strings.Join(args, ",") + ")"
}

// counter recognises "count of loop iterations on which atom A held":
// a phi whose phi-closure is fed only by one constant and by (closure-member + 1).
func (R *Renderer) counter(p *ssa.Phi) string {
	conds, ok := R.counterConds(p)
	if !ok {
		return ""
	}
	if len(conds) == 0 {
		return "*"
	}
	if len(conds) == 1 {
		return "count{" + conds[0] + "}"
	}
	return "(" + R.counterLin(conds).String() + ")"
}

func (R *Renderer) counterLin(conds []string) Lin {
	l := Lin{T: map[string]int64{}}
	for _, c := range conds {
		l.T["count{"+c+"}"]++
	}
	return l
}

// counterConds: the conditions under which the increments of a counter execute, one per
// increment instruction (a counter fed by several increments is the sum of the per-increment
// counts); empty for a plain induction variable.
func (R *Renderer) counterConds(p *ssa.Phi) ([]string, bool) {
	if !isIntType(p.Type()) {
		return nil, false
	}
	// a two-edge phi (0 on entry, itself+1 on the ONLY back edge) is incremented on every
	// iteration that continues: a position, even when the body leaves the loop early (search
	// loops with `break` / `return` in front of the post statement)
	if len(p.Edges) == 2 && len(p.Block().Preds) == 2 {
		for i, e := range p.Edges {
			c0, isC := p.Edges[1-i].(*ssa.Const)
			bo, isB := e.(*ssa.BinOp)
			if isC && isB && c0.Value != nil && c0.Value.String() == "0" && bo.Op == token.ADD && bo.X == ssa.Value(p) {
				if k, ok := bo.Y.(*ssa.Const); ok && k.Value != nil && k.Value.String() == "1" {
					return nil, true
				}
			}
		}
	}
	closure := map[*ssa.Phi]bool{}
	var adds []*ssa.BinOp
	var inits []string
	var walk func(q *ssa.Phi) bool
	walk = func(q *ssa.Phi) bool {
		if closure[q] {
			return true
		}
		closure[q] = true
		for _, e := range q.Edges {
			switch y := e.(type) {
			case *ssa.Phi:
				if !walk(y) {
					return false
				}
			case *ssa.Const:
				inits = append(inits, constString(y))
			case *ssa.BinOp:
				if y.Op != token.ADD {
					return false
				}
				c, ok := y.Y.(*ssa.Const)
				if !ok || c.Value == nil || c.Value.String() != "1" {
					return false
				}
				in, ok := y.X.(*ssa.Phi)
				if !ok {
					return false
				}
				if !walk(in) {
					return false
				}
				adds = append(adds, y)
			default:
				return false
			}
		}
		return true
	}
	if !walk(p) || len(adds) == 0 {
		return nil, false
	}
	inits = dedup(sortStrings(inits))
	if len(inits) != 1 || inits[0] != "0" {
		return nil, false
	}
	var conds []string
	seen := map[*ssa.BinOp]bool{}
	for _, a := range adds {
		if seen[a] {
			continue
		}
		seen[a] = true
		conds = append(conds, R.controlOf(a.Block()))
	}
	sort.Strings(conds)
	if u := dedup(append([]string{}, conds...)); len(u) == 1 && (u[0] == "always" || u[0] == "multi-pred") {
		return nil, true // plain loop induction variable 0,1,2,...: same rendering as a range index
	}
	return conds, true
}

func sortStrings(s []string) []string { sort.Strings(s); return s }

// controlOf describes the branch edge that immediately controls block b.
func (R *Renderer) controlOf(b *ssa.BasicBlock) string {
	if len(b.Preds) != 1 {
		return "multi-pred"
	}
	p := b.Preds[0]
	iff, ok := p.Instrs[len(p.Instrs)-1].(*ssa.If)
	if !ok {
		return "always"
	}
	at := R.CondAtom(iff.Cond)
	if p.Succs[0] == b {
		return at.String()
	}
	return at.Neg().String()
}

func isIntType(t types.Type) bool {
	b, ok := t.Underlying().(*types.Basic)
	return ok && b.Info()&types.IsInteger != 0
}

// ---------------------------------------------------------------------------
// Linear forms and atoms.
// ---------------------------------------------------------------------------

type Lin struct {
	K int64
	T map[string]int64
}

func (l Lin) add(o Lin, sign int64) Lin {
	r := Lin{K: l.K + sign*o.K, T: map[string]int64{}}
	for k, v := range l.T {
		r.T[k] += v
	}
	for k, v := range o.T {
		r.T[k] += sign * v
	}
	for k, v := range r.T {
		if v == 0 {
			delete(r.T, k)
		}
	}
	return r
}

func (l Lin) scale(c int64) Lin {
	r := Lin{K: l.K * c, T: map[string]int64{}}
	for k, v := range l.T {
		if v*c != 0 {
			r.T[k] = v * c
		}
	}
	return r
}

func (l Lin) keys() []string {
	var ks []string
	for k := range l.T {
		ks = append(ks, k)
	}
	sort.Strings(ks)
	return ks
}

func (l Lin) String() string {
	var sb strings.Builder
	for _, k := range l.keys() {
		c := l.T[k]
		switch {
		case c == 1:
			sb.WriteString(" +" + k)
		case c == -1:
			sb.WriteString(" -" + k)
		case c > 0:
			sb.WriteString(fmt.Sprintf(" +%d*%s", c, k))
		default:
			sb.WriteString(fmt.Sprintf(" %d*%s", c, k))
		}
	}
	if l.K != 0 || len(l.T) == 0 {
		if l.K >= 0 {
			sb.WriteString(fmt.Sprintf(" +%d", l.K))
		} else {
			sb.WriteString(fmt.Sprintf(" %d", l.K))
		}
	}
	return strings.TrimSpace(sb.String())
}

func (R *Renderer) Lin(v ssa.Value) Lin {
	switch x := v.(type) {
	case *ssa.Phi:
		if !R.busy[x] && !isRangeIndex(x) {
			R.busy[x] = true
			conds, ok := R.counterConds(x)
			delete(R.busy, x)
			if ok && len(conds) > 1 {
				return R.counterLin(conds)
			}
			if init := descendingInit(x); init != nil {
				// i := N; ...; i--  visits N, N-1, ...: N minus the iteration number
				return R.Lin(init).add(Lin{T: map[string]int64{"*": 1}}, -1)
			}
		}
	case *ssa.Const:
		if x.Value != nil && x.Value.Kind() == constant.Int {
			if n, ok := constant.Int64Val(x.Value); ok {
				return Lin{K: n, T: map[string]int64{}}
			}
		}
	case *ssa.Convert:
		if isIntType(x.Type()) && isIntType(x.X.Type()) {
			return R.Lin(x.X)
		}
	case *ssa.ChangeType:
		return R.Lin(x.X)
	case *ssa.BinOp:
		if isIntType(x.Type()) && !isRangeIndex(x) {
			switch x.Op {
			case token.ADD:
				return R.Lin(x.X).add(R.Lin(x.Y), 1)
			case token.SUB:
				return R.Lin(x.X).add(R.Lin(x.Y), -1)
			case token.MUL:
				a, b := R.Lin(x.X), R.Lin(x.Y)
				if len(a.T) == 0 {
					return b.scale(a.K)
				}
				if len(b.T) == 0 {
					return a.scale(b.K)
				}
			case token.QUO:
				return Lin{T: map[string]int64{"div(" + R.Lin(x.X).String() + "," + R.Lin(x.Y).String() + ")": 1}}
			case token.REM:
				return Lin{T: map[string]int64{"mod(" + R.Lin(x.X).String() + "," + R.Lin(x.Y).String() + ")": 1}}
			}
		}
	}
	return Lin{T: map[string]int64{R.V(v): 1}}
}

// Atom is a normalised branch fact.
type Atom struct {
	Op string // ">=0" "==0" "!=0" "true" "false"
	L  Lin
	B  string
}

func (a Atom) String() string {
	switch a.Op {
	case "true":
		return a.B
	case "false":
		return "!" + a.B
	}
	return a.L.String() + " " + a.Op
}

func (a Atom) Neg() Atom {
	switch a.Op {
	case "true":
		return Atom{Op: "false", B: a.B}
	case "false":
		return Atom{Op: "true", B: a.B}
	case "==0":
		return Atom{Op: "!=0", L: a.L}
	case "!=0":
		return Atom{Op: "==0", L: a.L}
	case ">=0":
		n := a.L.scale(-1)
		n.K--
		return Atom{Op: ">=0", L: n}
	case ">=0f": // non-integer ordering
		return Atom{Op: "<0f", L: a.L}
	case "<0f":
		return Atom{Op: ">=0f", L: a.L}
	}
	return a
}

func canonEq(l Lin) Lin {
	ks := l.keys()
	if len(ks) > 0 && l.T[ks[0]] < 0 {
		return l.scale(-1)
	}
	if len(ks) == 0 && l.K < 0 {
		return l.scale(-1)
	}
	return l
}

func (R *Renderer) side(v ssa.Value) Lin {
	if isIntType(v.Type()) {
		return R.Lin(v)
	}
	return Lin{T: map[string]int64{R.V(v): 1}}
}

// eqAtom / neAtom build the canonical string of `a == b` / `a != b` over opaque terms.
func eqAtom(a, b string) string {
	l := canonEq(Lin{T: map[string]int64{a: 1, b: -1}})
	return l.String() + " ==0"
}
func neAtom(a, b string) string {
	l := canonEq(Lin{T: map[string]int64{a: 1, b: -1}})
	return l.String() + " !=0"
}
func isNilAtom(a string) string  { return eqAtom(a, "nil") }
func notNilAtom(a string) string { return neAtom(a, "nil") }

// strLenTest: `len(s) > 0`, `len(s) != 0`, `len(s) >= 1`, `len(s) == 0` ... on a string s is the
// comparison of s with "" (normal form of `s != ""` / `s == ""`).
func (R *Renderer) strLenTest(x *ssa.BinOp) (Atom, bool) {
	lenArg := func(v ssa.Value) ssa.Value {
		c, ok := v.(*ssa.Call)
		if !ok {
			return nil
		}
		b, ok := c.Call.Value.(*ssa.Builtin)
		if !ok || b.Name() != "len" || len(c.Call.Args) != 1 {
			return nil
		}
		if bt, ok := c.Call.Args[0].Type().Underlying().(*types.Basic); ok && bt.Info()&types.IsString != 0 {
			return c.Call.Args[0]
		}
		return nil
	}
	intc := func(v ssa.Value) (int64, bool) {
		c, ok := v.(*ssa.Const)
		if !ok || c.Value == nil || c.Value.Kind() != constant.Int {
			return 0, false
		}
		return c.Int64(), true
	}
	op := x.Op
	sv := lenArg(x.X)
	k, ok := intc(x.Y)
	if sv == nil || !ok {
		// constant on the left: mirror
		sv = lenArg(x.Y)
		k, ok = intc(x.X)
		if sv == nil || !ok {
			return Atom{}, false
		}
		switch op {
		case token.GTR:
			op = token.LSS
		case token.LSS:
			op = token.GTR
		case token.GEQ:
			op = token.LEQ
		case token.LEQ:
			op = token.GEQ
		}
	}
	empty := Atom{Op: "==0", L: canonEq(Lin{T: map[string]int64{`""`: 1, R.V(sv): -1}})}
	switch {
	case (op == token.EQL && k == 0) || (op == token.LSS && k == 1) || (op == token.LEQ && k == 0):
		return empty, true
	case (op == token.NEQ && k == 0) || (op == token.GTR && k == 0) || (op == token.GEQ && k == 1):
		return empty.Neg(), true
	}
	return Atom{}, false
}

// CondAtom normalises a boolean SSA value into the atom that holds when it is true.
func (R *Renderer) CondAtom(v ssa.Value) Atom {
	if bo, ok := v.(*ssa.BinOp); ok {
		if a, ok := R.strLenTest(bo); ok {
			return a
		}
	}
	// errors.Is(e, <sentinel>) with a sentinel that is never wrapped in this module is the
	// comparison e == <sentinel> (and matches at least as often otherwise)
	if cl, ok := v.(*ssa.Call); ok {
		if f := cl.Call.StaticCallee(); f != nil && f.Pkg != nil && f.Pkg.Pkg.Path() == "errors" && f.Name() == "Is" && len(cl.Call.Args) == 2 {
			if ld, ok := cl.Call.Args[1].(*ssa.UnOp); ok && ld.Op == token.MUL {
				if g, ok := ld.X.(*ssa.Global); ok && g.Pkg != nil && g.Pkg.Pkg.Path() == "io" && g.Name() == "EOF" {
					return Atom{Op: "==0", L: canonEq(R.side(cl.Call.Args[0]).add(R.side(cl.Call.Args[1]), -1))}
				}
			}
		}
	}
	switch x := v.(type) {
	case *ssa.UnOp:
		if x.Op == token.NOT {
			return R.CondAtom(x.X).Neg()
		}
	case *ssa.BinOp:
		isInt := isIntType(x.X.Type())
		switch x.Op {
		case token.EQL, token.NEQ:
			// comparison with a boolean constant
			if bt, ok := x.X.Type().Underlying().(*types.Basic); ok && bt.Info()&types.IsBoolean != 0 {
				var other ssa.Value
				var cv *ssa.Const
				if c, ok := x.Y.(*ssa.Const); ok {
					cv, other = c, x.X
				} else if c, ok := x.X.(*ssa.Const); ok {
					cv, other = c, x.Y
				}
				if cv != nil {
					a := R.CondAtom(other)
					want := constant.BoolVal(cv.Value)
					if (x.Op == token.EQL) != want {
						a = a.Neg()
					}
					return a
				}
			}
			l := canonEq(R.side(x.X).add(R.side(x.Y), -1))
			if x.Op == token.EQL {
				return Atom{Op: "==0", L: l}
			}
			return Atom{Op: "!=0", L: l}
		case token.GTR, token.GEQ, token.LSS, token.LEQ:
			l := R.side(x.X).add(R.side(x.Y), -1) // X - Y
			if !isInt {
				switch x.Op {
				case token.GEQ:
					return Atom{Op: ">=0f", L: l}
				case token.LSS:
					return Atom{Op: "<0f", L: l}
				case token.GTR:
					return Atom{Op: "<0f", L: l.scale(-1)}
				default:
					return Atom{Op: ">=0f", L: l.scale(-1)}
				}
			}
			switch x.Op {
			case token.GEQ:
				return Atom{Op: ">=0", L: l}
			case token.GTR:
				l.K--
				return Atom{Op: ">=0", L: l}
			case token.LEQ:
				return Atom{Op: ">=0", L: l.scale(-1)}
			default: // LSS: Y - X - 1 >= 0
				n := l.scale(-1)
				n.K--
				return Atom{Op: ">=0", L: n}
			}
		}
	}
	if cl, ok := v.(*ssa.Call); ok {
		if a, ok := R.pureBoolAtom(cl); ok {
			return a
		}
	}
	return Atom{Op: "true", B: R.V(v)}
}

// pureBoolAtom: a call of a same-module pure boolean helper whose single return is one
// comparison is the atom of that comparison over the call's arguments
// (`b.acceptsWrites()` with `return b.mode != ERR` is the atom mode != ERR).
var pureBoolBusy = map[*ssa.Function]bool{}

// boolCallAtom renders the atom "fn(args) is true" the way CondAtom would on the current tree.
func (P *Prog) boolCallAtom(fn string, args ...string) string {
	if h := P.Fn(fn); h != nil {
		if a, ok := pureBoolTemplate(h); ok {
			return substAtom(a, args).String()
		}
		if s, ok := exactBoolString(h); ok {
			return substParams(s, args)
		}
	} else if t, ok := baselineTemplates[fn]; ok && t.Bool != "" {
		// the helper was written out at its call sites and deleted: what it stood for
		return substParams(t.Bool, args)
	}
	return fn + "(" + strings.Join(args, ",") + ")"
}

// exactBoolString: a pure boolean helper with several returns that answers true exactly when
// one atom A holds (every true return carries A, every false return carries not-A).
func exactBoolString(h *ssa.Function) (string, bool) {
	if h == nil || !pureBody(h) || boolResultIndex(h) != 0 || h.Signature.Results().Len() != 1 {
		return "", false
	}
	pos, neg := helperSiteFacts(h)
	if len(pos) == 0 || len(neg) == 0 {
		return "", false
	}
	inAll := func(sites [][]string, a string) bool {
		for _, fs := range sites {
			hit := false
			for _, f := range fs {
				if f == a {
					hit = true
				}
			}
			if !hit {
				return false
			}
		}
		return true
	}
	for _, a := range pos[0] {
		if strings.Contains(a, "var(") {
			continue
		}
		if na, ok := negAtomString(a); ok && inAll(pos, a) && inAll(neg, na) {
			return a, true
		}
	}
	return "", false
}

func negAtomString(a string) (string, bool) {
	switch {
	case strings.HasSuffix(a, " ==0"):
		return strings.TrimSuffix(a, " ==0") + " !=0", true
	case strings.HasSuffix(a, " !=0"):
		return strings.TrimSuffix(a, " !=0") + " ==0", true
	case strings.HasSuffix(a, ">=0") || strings.HasSuffix(a, ">=0f") || strings.HasSuffix(a, "<0f"):
		return "", false
	case strings.HasPrefix(a, "!"):
		return a[1:], true
	}
	return "!" + a, true
}

func substAtom(a Atom, args []string) Atom {
	out := Atom{Op: a.Op, B: substParams(a.B, args), L: Lin{K: a.L.K, T: map[string]int64{}}}
	for t, co := range a.L.T {
		out.L.T[substParams(t, args)] += co
	}
	if out.Op == "==0" || out.Op == "!=0" {
		out.L = canonEq(out.L)
	}
	return out
}

// pureBoolTemplate: the atom (over h's parameters) a pure single-comparison boolean helper stands for.
func pureBoolTemplate(h *ssa.Function) (Atom, bool) {
	if h == nil || pureBoolBusy[h] || !pureBody(h) {
		return Atom{}, false
	}
	res := h.Signature.Results()
	if res.Len() != 1 || !isBoolType(res.At(0).Type()) {
		return Atom{}, false
	}
	rets := Returns(h)
	if len(rets) != 1 {
		return Atom{}, false
	}
	v := strip(rets[0].Results[0])
	switch v.(type) {
	case *ssa.BinOp, *ssa.UnOp, *ssa.Call:
	default:
		return Atom{}, false
	}
	pureBoolBusy[h] = true
	defer delete(pureBoolBusy, h)
	a := NewRenderer(h).CondAtom(v)
	for _, bad := range []string{"var(", "…", "?"} {
		if strings.Contains(a.String(), bad) {
			return Atom{}, false
		}
	}
	return a, true
}

func (R *Renderer) pureBoolAtom(cl *ssa.Call) (Atom, bool) {
	h := cl.Call.StaticCallee()
	if h == nil || h == R.fn {
		return Atom{}, false
	}
	if a, ok := pureBoolTemplate(h); ok {
		var args []string
		for _, x := range cl.Call.Args {
			args = append(args, R.V(x))
		}
		out := substAtom(a, args)
		for _, bad := range []string{"var(", "…", "?"} {
			if strings.Contains(out.String(), bad) {
				return Atom{}, false
			}
		}
		return out, true
	}
	return Atom{}, false
}

// pureBody: no effects besides the function's own locals (see pureValue).
func pureBody(h *ssa.Function) bool {
	if h.Blocks == nil || len(h.Blocks) > 16 || !isJivaFn(h) || len(h.FreeVars) > 0 || h.Signature.Variadic() {
		return false
	}
	for _, b := range h.Blocks {
		for _, in := range b.Instrs {
			switch x := in.(type) {
			case *ssa.Store:
				if _, ok := x.Addr.(*ssa.Alloc); !ok {
					return false
				}
			case *ssa.Call:
				if _, ok := x.Call.Value.(*ssa.Builtin); ok {
					n := x.Call.Value.Name()
					if n == "len" || n == "cap" {
						continue
					}
					return false
				}
				if isLockCall(in) || isUnlockCall(in) {
					continue
				}
				if f := x.Call.StaticCallee(); f != nil && f != h {
					if _, ok := pureValue(f); ok {
						continue
					}
				}
				return false
			case *ssa.Defer:
				n := CalleeName(in)
				if n == "(*sync.RWMutex).Unlock" || n == "(*sync.RWMutex).RUnlock" || n == "(*sync.Mutex).Unlock" {
					continue
				}
				return false
			case *ssa.Go, *ssa.Send, *ssa.MapUpdate, *ssa.Panic, *ssa.Select, *ssa.MakeClosure, *ssa.MakeChan:
				return false
			}
		}
	}
	return true
}

// pureValue: a same-module function that only computes a value from its parameters (field
// reads, possibly under a lock; counting loops; arithmetic; no stores to anything but its own
// locals, no calls but builtins, mutex operations and other pure helpers) is rendered as the
// term it returns, with the call's arguments substituted for its parameters.  A getter or a
// counting helper extracted from a guard therefore renders exactly like the inlined expression.
var pureMemo = map[*ssa.Function]*string{}

var countRe = regexp.MustCompile(`count\{[^{}]*\}`)

// a loop position `*` (not the star of a pointer type in a method name)
var loopPosRe = regexp.MustCompile(`\*([^A-Za-z_]|$)`)

func pureValue(h *ssa.Function) (string, bool) {
	if p, ok := pureMemo[h]; ok {
		if p == nil {
			return "", false
		}
		return *p, true
	}
	pureMemo[h] = nil
	res := h.Signature.Results()
	if res.Len() != 1 || isBoolType(res.At(0).Type()) || types.Identical(res.At(0).Type(), types.Universe.Lookup("error").Type()) {
		return "", false
	}
	if !pureBody(h) {
		return "", false
	}
	R := NewRenderer(h)
	var vals []string
	for _, r := range Returns(h) {
		if len(r.Results) != 1 {
			return "", false
		}
		vals = append(vals, R.V(strip(r.Results[0])))
	}
	sort.Strings(vals)
	vals = dedup(vals)
	if len(vals) == 0 {
		return "", false
	}
	out := vals[0]
	if len(vals) > 1 {
		out = "phi{" + strings.Join(vals, " | ") + "}"
	}
	// a value that depends on a loop position (search loops) or merges alternatives is better
	// named by its function
	chk := countRe.ReplaceAllString(strings.ReplaceAll(out, "[*]", "[]"), "count")
	if loopPosRe.MatchString(chk) || strings.Contains(out, "phi{") {
		return "", false
	}
	for _, bad := range []string{"var(", "…", "?", "select", "next"} {
		if strings.Contains(out, bad) {
			return "", false
		}
	}
	pureMemo[h] = &out
	return out, true
}

// callTerm renders "fn(args)" the way the Renderer would for a call on the current tree:
// as the callee's own value term when the callee is a pure value helper.
func (P *Prog) callTerm(fn string, args ...string) string {
	if f := P.Fn(fn); f != nil {
		if tmpl, ok := pureValue(f); ok {
			return substParams(tmpl, args)
		}
	} else if t, ok := baselineTemplates[fn]; ok && t.Value != "" {
		return substParams(t.Value, args)
	}
	return fn + "(" + strings.Join(args, ",") + ")"
}

// inductionFrom: p is `for i := k; ...; i++` with a positive integer constant k and the
// increment as the loop's post statement.
func inductionFrom(p *ssa.Phi) (int64, bool) {
	if !isIntType(p.Type()) || len(p.Edges) != 2 {
		return 0, false
	}
	var k int64 = -1
	var inc *ssa.BinOp
	for _, e := range p.Edges {
		if b, ok := e.(*ssa.BinOp); ok && b.Op == token.ADD && b.X == ssa.Value(p) {
			if c, ok := b.Y.(*ssa.Const); ok && c.Value != nil && c.Value.String() == "1" {
				inc = b
				continue
			}
		}
		if c, ok := e.(*ssa.Const); ok && c.Value != nil && c.Value.Kind() == constant.Int {
			k = c.Int64()
		}
	}
	if inc == nil || k <= 0 {
		return 0, false
	}
	if len(inc.Block().Succs) != 1 || inc.Block().Succs[0] != p.Block() {
		return 0, false
	}
	return k, true
}

// descendingInit: p is a loop variable `for i := init; ...; i--` (one initial value from outside
// the loop, one back edge p-1 executed on every iteration); returns init.
func descendingInit(p *ssa.Phi) ssa.Value {
	if !isIntType(p.Type()) || len(p.Edges) != 2 {
		return nil
	}
	var init ssa.Value
	var dec *ssa.BinOp
	for _, e := range p.Edges {
		if b, ok := e.(*ssa.BinOp); ok && b.Op == token.SUB && b.X == ssa.Value(p) {
			if c, ok := b.Y.(*ssa.Const); ok && c.Value != nil && c.Value.String() == "1" {
				dec = b
				continue
			}
		}
		init = e
	}
	if dec == nil || init == nil {
		return nil
	}
	if _, ok := init.(*ssa.Phi); ok {
		return nil
	}
	// the decrement is the loop's post statement: its block's only successor is the loop head
	if len(dec.Block().Succs) != 1 || dec.Block().Succs[0] != p.Block() {
		return nil
	}
	return init
}

// tupleTemplate: result i of a same-module function with an error result, when every success
// return hands out one and the same term over the parameters (`v, err := X(a); if err != nil
// {return 0, err}; return v, nil` hands out X(a)#0): the extracted result is rendered as that
// term.  The conditions the helper imposes on the way are available as its return-site facts.
var tupleMemo = map[*ssa.Function]map[int]*string{}

func tupleTemplate(h *ssa.Function, i int) (string, bool) {
	if m, ok := tupleMemo[h]; ok {
		if p, ok := m[i]; ok {
			if p == nil {
				return "", false
			}
			return *p, true
		}
	} else {
		tupleMemo[h] = map[int]*string{}
	}
	tupleMemo[h][i] = nil
	if h.Blocks == nil || len(h.Blocks) > 24 || !isJivaFn(h) || len(h.FreeVars) > 0 || h.Signature.Variadic() {
		return "", false
	}
	// only helpers that did not exist when the rule instances were confirmed: the terms of the
	// functions of the baseline are the vocabulary the rules are written in
	if !isFreshFn(h) {
		return "", false
	}
	ei := errResultIndex(h)
	if ei < 0 || i == ei || i >= h.Signature.Results().Len() {
		return "", false
	}
	R := NewRenderer(h)
	var vals []string
	for _, r := range successReturns(h) {
		rr := r.(*ssa.Return)
		if i >= len(rr.Results) {
			return "", false
		}
		vals = append(vals, R.V(strip(rr.Results[i])))
	}
	sort.Strings(vals)
	vals = dedup(vals)
	if len(vals) != 1 {
		return "", false
	}
	out := vals[0]
	chk := countRe.ReplaceAllString(strings.ReplaceAll(out, "[*]", "[]"), "count")
	if loopPosRe.MatchString(chk) || strings.Contains(out, "phi{") || !strings.Contains(out, "(") {
		return "", false
	}
	for _, bad := range []string{"var(", "…", "?", "select", "next"} {
		if strings.Contains(out, bad) {
			return "", false
		}
	}
	tupleMemo[h][i] = &out
	return out, true
}

// devirtualise: an interface call whose receiver is a MakeInterface of a value of a concrete
// type (possibly through a phi-free local): the method of that type, and the concrete receiver.
func devirtualise(cc *ssa.CallCommon) (*ssa.Function, ssa.Value) {
	if !cc.IsInvoke() {
		return nil, nil
	}
	mi, ok := cc.Value.(*ssa.MakeInterface)
	if !ok {
		return nil, nil
	}
	prog := mi.Parent().Prog
	m := prog.LookupMethod(mi.X.Type(), cc.Method.Pkg(), cc.Method.Name())
	if m == nil || m.Blocks == nil {
		return nil, nil
	}
	return m, mi.X
}

// splitTopLevel splits s at sep outside any bracket nesting; nil when brackets do not balance.
func splitTopLevel(s, sep string) []string {
	var out []string
	depth, start := 0, 0
	for i := 0; i < len(s); i++ {
		switch s[i] {
		case '{', '(', '[':
			depth++
		case '}', ')', ']':
			depth--
			if depth < 0 {
				return nil
			}
		}
		if depth == 0 && strings.HasPrefix(s[i:], sep) {
			out = append(out, s[start:i])
			start = i + len(sep)
			i += len(sep) - 1
		}
	}
	if depth != 0 {
		return nil
	}
	return append(out, s[start:])
}

// errorsAsCall: the call is errors.As(e, &local) with a local variable of pointer type as target;
// returns the local and e.
func errorsAsCall(c *ssa.Call) (*ssa.Alloc, ssa.Value) {
	f := c.Call.StaticCallee()
	if f == nil || f.Pkg == nil || f.Pkg.Pkg.Path() != "errors" || f.Name() != "As" || len(c.Call.Args) != 2 {
		return nil, nil
	}
	mi, ok := c.Call.Args[1].(*ssa.MakeInterface)
	if !ok {
		return nil, nil
	}
	al, ok := mi.X.(*ssa.Alloc)
	if !ok {
		return nil, nil
	}
	if pt, ok := al.Type().Underlying().(*types.Pointer); !ok {
		return nil, nil
	} else if _, isPtr := pt.Elem().Underlying().(*types.Pointer); !isPtr {
		return nil, nil
	}
	return al, c.Call.Args[0]
}

// errorsAsTarget: the local is the target of exactly one errors.As call and is assigned nowhere
// else (but for its zero initialisation): the error value that call inspects.
func errorsAsTarget(al *ssa.Alloc) ssa.Value {
	if al.Referrers() == nil {
		return nil
	}
	var e ssa.Value
	n := 0
	for _, u := range *al.Referrers() {
		switch x := u.(type) {
		case *ssa.MakeInterface:
			if x.Referrers() == nil {
				return nil
			}
			for _, w := range *x.Referrers() {
				if c, ok := w.(*ssa.Call); ok {
					if a, ev := errorsAsCall(c); a == al {
						e = ev
						n++
						continue
					}
				}
				return nil
			}
		case *ssa.Store:
			if x.Addr == ssa.Value(al) {
				if k, ok := x.Val.(*ssa.Const); !ok || k.Value != nil {
					return nil
				}
			}
		}
	}
	if n != 1 {
		return nil
	}
	return e
}

var deadPhiMemo = map[*ssa.Phi]map[int]bool{}

// deadPhiEdges: `v, err := f()` written out (an expanded helper, a switch that assigns both): the
// value merge x stands beside an error merge; when every use of x lies behind the test that the
// error is nil, the arms on which the error is known to be non-nil never reach a use, and x is
// the merge of the others.
func deadPhiEdges(x *ssa.Phi) map[int]bool {
	if d, ok := deadPhiMemo[x]; ok {
		return d
	}
	deadPhiMemo[x] = nil
	if x.Type().String() == "error" || x.Referrers() == nil {
		return nil
	}
	var perr *ssa.Phi
	for _, in := range x.Block().Instrs {
		q, ok := in.(*ssa.Phi)
		if !ok {
			break
		}
		if q != x && q.Type().String() == "error" {
			if perr != nil {
				return nil
			}
			perr = q
		}
	}
	if perr == nil || perr.Referrers() == nil {
		return nil
	}
	// the block entered when perr is nil
	var nilSucc *ssa.BasicBlock
	for _, ref := range *perr.Referrers() {
		bo, ok := ref.(*ssa.BinOp)
		if !ok || (bo.Op != token.NEQ && bo.Op != token.EQL) || bo.Referrers() == nil {
			continue
		}
		if !(isNilConst(bo.X) || isNilConst(bo.Y)) {
			continue
		}
		for _, r2 := range *bo.Referrers() {
			if ifi, ok := r2.(*ssa.If); ok {
				k := 1 // NEQ: false successor
				if bo.Op == token.EQL {
					k = 0
				}
				sb := ifi.Block().Succs[k]
				if len(sb.Preds) == 1 {
					nilSucc = sb
				}
			}
		}
	}
	if nilSucc == nil {
		return nil
	}
	for _, ref := range *x.Referrers() {
		if _, isDbg := ref.(*ssa.DebugRef); isDbg {
			continue
		}
		if ref.Block() == nil || !nilSucc.Dominates(ref.Block()) {
			return nil
		}
	}
	dead := map[int]bool{}
	for i, e := range perr.Edges {
		if i < len(x.Block().Preds) && nonNilAt(e, x.Block().Preds[i]) {
			dead[i] = true
		}
	}
	if len(dead) == 0 || len(dead) == len(x.Edges) {
		return nil
	}
	deadPhiMemo[x] = dead
	return dead
}

// nonNilAt: the error value is non-nil whenever control is in block b: by construction, or
// because b lies behind the non-nil arm of a test of that very value.
func nonNilAt(v ssa.Value, b *ssa.BasicBlock) bool {
	if provablyNonNilError(v) {
		return true
	}
	for cur := b; cur != nil; cur = cur.Idom() {
		d := cur.Idom()
		if d == nil || len(cur.Preds) != 1 || cur.Preds[0] != d || len(d.Instrs) == 0 {
			continue
		}
		ifi, ok := d.Instrs[len(d.Instrs)-1].(*ssa.If)
		if !ok {
			continue
		}
		bo, ok := ifi.Cond.(*ssa.BinOp)
		if !ok || (bo.Op != token.NEQ && bo.Op != token.EQL) {
			continue
		}
		var t ssa.Value
		if isNilConst(bo.Y) {
			t = bo.X
		} else if isNilConst(bo.X) {
			t = bo.Y
		} else {
			continue
		}
		if t != v {
			continue
		}
		k := 0 // NEQ: true successor is the non-nil arm
		if bo.Op == token.EQL {
			k = 1
		}
		if d.Succs[k] == cur && d.Succs[1-k] != cur {
			return true
		}
	}
	return false
}
